#!/usr/bin/env python3
"""Self-test of the checkers (DESIGN §2.8), both directions.

Each entry edits one file of a scratch copy of /repo (textual replace of a
unique fragment), runs one check with VERIF_REPO pointing at the copy and
compares the verdict with the expectation:
  "V"  the check must exit 1 and print a VIOLATION line (behaviour-breaking edit)
  "S"  the check must stay silent, exit 0 (behaviour-preserving edit)
Not part of quick/thorough. Usage: mutants.py [Cnn ...] [-k name-substring]
"""
import os, shutil, subprocess, sys, tempfile, json, re

HERE = os.path.dirname(os.path.abspath(__file__))
VERIF = os.path.dirname(HERE)
sys.path.insert(0, HERE)
from mutant_table import MUTANTS  # noqa


def main():
    args = sys.argv[1:]
    sel = [a for a in args if re.match(r"^C\d\d$", a)]
    sub = None
    if "-k" in args:
        sub = args[args.index("-k") + 1]
    scratch = tempfile.mkdtemp(prefix="verif-st-")
    repo = os.path.join(scratch, "repo")
    subprocess.check_call(["rsync", "-a", "--exclude", ".git", "/repo/", repo + "/"])
    env = dict(os.environ, VERIF_REPO=repo, VERIF_DIR=os.path.join(scratch, "verif"))
    # evidence / replay of self-test runs go to a scratch verif dir so that the
    # committed evidence is never overwritten by a mutant run
    os.makedirs(os.path.join(scratch, "verif", "evidence"), exist_ok=True)
    for f in ("known_findings.json",):
        shutil.copy(os.path.join(VERIF, f), os.path.join(scratch, "verif", f))
    for d in ("tool", "corpus"):
        if os.path.isdir(os.path.join(VERIF, d)):
            os.symlink(os.path.join(VERIF, d), os.path.join(scratch, "verif", d))
    results = []
    try:
        for m in MUTANTS:
            name, prop, expect, edits = m["name"], m["prop"], m["expect"], m["edits"]
            if sel and prop not in sel:
                continue
            if sub and sub not in name:
                continue
            saved = {}
            ok_apply = True
            for (path, old, new) in edits:
                full = os.path.join(repo, path)
                src = open(full).read()
                saved.setdefault(full, src)
                if old.startswith("__RENAME__"):
                    ident = old[len("__RENAME__"):]
                    out, n = re.subn(r"\b" + re.escape(ident) + r"\b", new, src)
                    if n == 0:
                        print(f"!! {name}: identifier {ident} not found in {path}")
                        ok_apply = False
                        break
                    open(full, "w").write(out)
                    continue
                if src.count(old) != 1:
                    print(f"!! {name}: fragment occurs {src.count(old)} times in {path}")
                    ok_apply = False
                    break
                open(full, "w").write(src.replace(old, new))
            if ok_apply:
                # the mutant must still compile
                b = subprocess.run("cd %s && GOFLAGS=-mod=mod GOPROXY=off GOSUMDB=off go build ./ ./cmd/... ./generator ./specification" % repo,
                                   shell=True, capture_output=True, text=True)
                if b.returncode != 0:
                    print(f"!! {name}: mutant does not compile: {b.stderr[:300]}")
                    ok_apply = False
            if ok_apply:
                p = subprocess.run([os.path.join(VERIF, "bin", "verif"), "check", prop, "quick"], env=env, capture_output=True, text=True, cwd=VERIF)
                viol = [l for l in p.stdout.splitlines() if l.startswith("VIOLATION")]
                got = "V" if (p.returncode == 1 and viol) else ("S" if p.returncode == 0 and not viol else "ERR%d" % p.returncode)
                verdict = "ok" if got == expect else "MISMATCH"
                detail = ""
                if got == "V":
                    rules = [l.strip() for l in p.stdout.splitlines() if l.startswith("  rule=")]
                    detail = rules[0] if rules else ""
                if verdict != "ok":
                    detail = (p.stdout + p.stderr)[-600:]
                print(f"{verdict:9s} {prop} {name}: expect={expect} got={got} {detail}")
                results.append(dict(name=name, prop=prop, expect=expect, got=got, verdict=verdict, first=detail))
            for full, src in saved.items():
                open(full, "w").write(src)
    finally:
        shutil.rmtree(scratch, ignore_errors=True)
    bad = [r for r in results if r["verdict"] != "ok"]
    print(f"{len(results)} mutants run, {len(bad)} mismatches")
    json.dump(results, open(os.path.join(HERE, "last_run.json"), "w"), indent=1)
    sys.exit(1 if bad else 0)


if __name__ == "__main__":
    main()
