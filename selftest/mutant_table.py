# One entry per hand-written mutant. edits = [(path, old, new)], each `old`
# must occur exactly once. expect "V" = must be reported, "S" = must be silent.
MUTANTS = []


def M(name, prop, expect, *edits):
    MUTANTS.append(dict(name=name, prop=prop, expect=expect, edits=list(edits)))


# ------------------------------------------------------------------ C12
M("c12-unsort-paths", "C12", "V",
  ("specification/spec.go", "for _, pathKey := range sortedKeys(spec.Paths) {\n\t\tpathItem := spec.Paths[pathKey]",
   "for pathKey, pathItem := range spec.Paths {"))
M("c12-drop-sort-in-sortedKeys", "C12", "V",
  ("specification/spec.go", "\tsort.Strings(out)\n\treturn out", "\t_ = sort.Strings\n\treturn out"))
M("c12-drop-sort-in-NewMapPrefix", "C12", "V",
  ("specification/map.go", "\tsort.Strings(keys)\n", "\t_ = sort.Strings\n"))
M("c12-revert-discriminator-fix", "C12", "V",
  ("specification/spec.go", "for _, k := range sortedKeys(schema.Discriminator.Mapping) {\n\t\t\t\tv := schema.Discriminator.Mapping[k]",
   "for k, v := range schema.Discriminator.Mapping {"))
M("c12-time-now-in-header", "C12", "V",
  ("generator/go_file.go", "func (g GoFile) Render() (string, error) {\n\treturn ExecuteTemplate(\"GoFile\", g)",
   "func (g GoFile) Render() (string, error) {\n\tg.PackageName += \"\" + time.Now().Format(\"\")[:0]\n\treturn ExecuteTemplate(\"GoFile\", g)"),
  ("generator/go_file.go", "package generator\n", "package generator\n\nimport \"time\"\n"))
M("c12-goroutine-render", "C12", "V",
  ("goag.go", "\terr = WriteToFile([]byte(s), filepath)\n", "\tdone := make(chan error, 1)\n\tgo func() { done <- WriteToFile([]byte(s), filepath) }()\n\terr = <-done\n"))
M("c12-preserve-rename-var", "C12", "S",
  ("specification/spec.go", "func sortedKeys[T any](m map[string]T) (out []string) {\n\tfor k := range m {\n\t\tout = append(out, k)\n\t}\n\tsort.Strings(out)\n\treturn out",
   "func sortedKeys[T any](m map[string]T) (keys []string) {\n\tfor name := range m {\n\t\tkeys = append(keys, name)\n\t}\n\tsort.Strings(keys)\n\treturn keys"))
M("c12-preserve-sort-slice", "C12", "S",
  ("specification/map.go", "\tsort.Strings(keys)\n", "\tsort.Slice(keys, func(i, j int) bool { return keys[i] < keys[j] })\n"))

# ------------------------------------------------------------------ C19
M("c19-drop-remove-client", "C19", "V",
  ("goag.go", "\terr = os.Remove(clientFile)\n\tif err != nil {\n\t\tif !os.IsNotExist(err) {\n\t\t\treturn fmt.Errorf(\"remove client file (%s): %w\", clientFile, err)\n\t\t}\n\t}\n", "\t_ = clientFile\n"))
M("c19-drop-remove-router", "C19", "V",
  ("goag.go", "\t\terr = os.Remove(path.Join(outDir, \"router.go\"))\n\t\tif err != nil {\n\t\t\tif !os.IsNotExist(err) {\n\t\t\t\treturn fmt.Errorf(\"remove router.go (%s): %w\", path.Join(outDir, \"router.go\"), err)\n\t\t\t}\n\t\t}\n", ""))
M("c19-no-trunc", "C19", "V",
  ("goag.go", "os.O_CREATE|os.O_WRONLY|os.O_TRUNC", "os.O_CREATE|os.O_WRONLY"))
M("c19-append", "C19", "V",
  ("goag.go", "os.O_CREATE|os.O_WRONLY|os.O_TRUNC", "os.O_CREATE|os.O_WRONLY|os.O_TRUNC|os.O_APPEND"))
M("c19-wrong-remove-name", "C19", "V",
  ("goag.go", "err = os.Remove(path.Join(outDir, \"spec_file.go\"))", "err = os.Remove(path.Join(outDir, \"router.go\"))"))
M("c19-removeall-outdir", "C19", "V",
  ("goag.go", "\tclientFile := path.Join(outDir, \"client.go\")\n", "\tif !g.GenAPIHandler && !g.GenClient {\n\t\t_ = os.RemoveAll(outDir)\n\t}\n\tclientFile := path.Join(outDir, \"client.go\")\n"))
M("c19-swallow-remove-error", "C19", "V",
  ("goag.go", "\t\t\t\treturn fmt.Errorf(\"remove handler.go (%s): %w\", path.Join(outDir, \"handler.go\"), err)\n", "\t\t\t\tlog.Printf(\"remove handler.go: %v\", err)\n"))
M("c19-inverted-polarity", "C19", "V",
  ("goag.go", "\tif g.GenClient {\n\t\terr = RenderToFile(path.Join(outDir, \"client.go\")", "\tif !g.GenAPIHandler {\n\t\terr = RenderToFile(path.Join(outDir, \"client.go\")"))
M("c19-components-only-with-handler", "C19", "V",
  ("goag.go", "\tif gen.Components.LenToRender() > 0 {", "\tif gen.Components.LenToRender() > 0 && g.GenAPIHandler {"))
M("c19-preserve-else-form", "C19", "S",
  ("goag.go", "\tclientFile := path.Join(outDir, \"client.go\")\n\terr = os.Remove(clientFile)\n\tif err != nil {\n\t\tif !os.IsNotExist(err) {\n\t\t\treturn fmt.Errorf(\"remove client file (%s): %w\", clientFile, err)\n\t\t}\n\t}\n\tif g.GenClient {\n\t\terr = RenderToFile(path.Join(outDir, \"client.go\"), gen.ClientFile(cfg))\n\t\tif err != nil {\n\t\t\treturn fmt.Errorf(\"generate client.go: %w\", err)\n\t\t}\n\t}\n",
   "\tclientFile := path.Join(outDir, \"client.go\")\n\tif g.GenClient {\n\t\terr = RenderToFile(clientFile, gen.ClientFile(cfg))\n\t\tif err != nil {\n\t\t\treturn fmt.Errorf(\"generate client.go: %w\", err)\n\t\t}\n\t} else {\n\t\terr = os.Remove(clientFile)\n\t\tif err != nil && !os.IsNotExist(err) {\n\t\t\treturn fmt.Errorf(\"remove client file (%s): %w\", clientFile, err)\n\t\t}\n\t}\n"))

# ------------------------------------------------------------------ C13 (S1)
M("c13-revert-to-hand-rolled", "C13", "V",
  ("generator/files.go", "\treturn strconv.Quote(s)\n", "\treturn `\"` + strings.ReplaceAll(strconv.Quote(s)[1:len(strconv.Quote(s))-1], \"\\\\r\", \"\") + `\"`\n"),
  ("generator/files.go", "import \"strconv\"", "import (\n\t\"strconv\"\n\t\"strings\"\n)"))
M("c13-trimspace-content", "C13", "V",
  ("generator/files.go", "encodeRawFileAsString(string(fileContent))", "encodeRawFileAsString(strings.TrimSpace(string(fileContent)))"),
  ("generator/files.go", "import \"strconv\"", "import (\n\t\"strconv\"\n\t\"strings\"\n)"))
M("c13-normalise-crlf-in-generate", "C13", "V",
  ("goag.go", "gen.SpecFile(specRaw)", "gen.SpecFile([]byte(strings.ReplaceAll(string(specRaw), \"\\r\\n\", \"\\n\")))"))
M("c13-embed-other-file", "C13", "V",
  ("goag.go", "specRaw, err := os.ReadFile(specFilename)", "specRaw, err := os.ReadFile(filepath.Clean(specFilename))"))
M("c13-preserve-direct-quote", "C13", "S",
  ("generator/files.go", "\"const SpecFile string = \" + encodeRawFileAsString(string(fileContent))", "\"const SpecFile string = \" + strconv.Quote(string(fileContent))"))

# ------------------------------------------------------------------ C01 (S1)
M("c01-swallow-format-error", "C01", "V",
  ("goag.go", "\tif err != nil {\n\t\treturn fmt.Errorf(\"error on format go source (%s): %w\", filepath, err)\n\t}\n", "\tif err != nil {\n\t\tlog.Printf(\"format: %v\", err)\n\t\timportedBs = bs\n\t}\n"))
M("c01-write-raw", "C01", "V",
  ("goag.go", "_, err = f.Write(importedBs)", "_ = importedBs\n\t_, err = f.Write(bs)"))
M("c01-drop-render-error", "C01", "V",
  ("goag.go", "\t\terr = RenderToFile(path.Join(outDir, \"router.go\"), gen.RouterFile())\n\t\tif err != nil {\n\t\t\treturn fmt.Errorf(\"generate router.go: %w\", err)\n\t\t}\n", "\t\t_ = RenderToFile(path.Join(outDir, \"router.go\"), gen.RouterFile())\n"))
M("c01-main-logs-instead-of-fatal", "C01", "V",
  ("cmd/goag/main.go", "log.Fatalf(\"Error on generate: %v\", err)", "log.Printf(\"Error on generate: %v\", err)"))
M("c01-header-name-split", "C01", "V",
  ("generator/parameters.go", "out.FieldName = Title(s.Name)", "out.FieldName = PublicFieldName(s.Name)"))
M("c01-preserve-wrap-message", "C01", "S",
  ("goag.go", "return fmt.Errorf(\"to bytes: %w\", err)", "return fmt.Errorf(\"render: %w\", err)"))

# ------------------------------------------------------------------ S3 checks (template / generator edits)
RT = "generator/file_router.gotmpl"
HT = "generator/file_handler.gotmpl"
CT = "generator/file_components.gotmpl"
CL = "generator/file_client.gotmpl"
PT = "generator/primitive.gotmpl"
M("c03-drop-slash-guard", "C03", "V",
  (RT, "\t{{- end }}\n\n\tif !strings.HasPrefix(path, \"/\") {\n\t\treturn nil, \"\", false\n\t}\n\n", "\t{{- end }}\n\n"))
M("c03-untrim-basepath", "C03", "V",
  ("goag.go", "\tbasePath = strings.TrimRight(basePath, \"/\")\n", ""))
M("c03-no-backtrack", "C03", "V",
  (RT, "\t\th, out, hasPath := rt.route{{.Name}}(path, method)\n\t\tif h != nil {\n\t\t\treturn h, out, hasPath\n\t\t}\n", "\t\treturn rt.route{{.Name}}(path, method)\n"))
M("c03-leaf-wrong-template", "C03", "V",
  (RT, "\t\t\t\treturn h, \"{{.PathSpec}}\", true\n\t\t\t\t\t{{- end }}\n\t\t\t\t{{- end }}\n\t\t\t}\n\t\t\t{{end -}}", "\t\t\t\treturn h, \"{{$h.Prefix}}\", true\n\t\t\t\t\t{{- end }}\n\t\t\t\t{{- end }}\n\t\t\t}\n\t\t\t{{end -}}"))
M("c03-preserve-rename-local", "C03", "S",
  (RT, "\th, path, hasPath := rt.route(path, r.Method)\n\tif h == nil {\n\t\th = rt.NotFoundHandler\n\t\tif h == nil {\n\t\t\th = http.NotFoundHandler()\n\t\t}\n\n\t\thasPath = false\n\t}\n\n\tif hasPath {\n\t\tr = r.WithContext(context.WithValue(r.Context(), pathKey{}, path))",
   "\th, tmpl, hasPath := rt.route(path, r.Method)\n\tif h == nil {\n\t\th = rt.NotFoundHandler\n\t\tif h == nil {\n\t\t\th = http.NotFoundHandler()\n\t\t}\n\n\t\thasPath = false\n\t}\n\n\tif hasPath {\n\t\tr = r.WithContext(context.WithValue(r.Context(), pathKey{}, tmpl))"))
M("c16-forward-loop", "C16", "V",
  (RT, "\t\tfor i := len(rt.Middlewares) - 1; i >= 0; i-- {\n\t\t\th = rt.Middlewares[i](h)\n\t\t}", "\t\tfor i := 0; i < len(rt.Middlewares); i++ {\n\t\t\th = rt.Middlewares[i](h)\n\t\t}"))
M("c16-cors-leaf-haspath-true", "C16", "V",
  (RT, "\t\t\t\th := rt.CORSHandler([]string{ {{ range $i, $_ := .CORSMethods }}{{ if $i }}, {{ end }}\"{{ . }}\"{{ end }} }, []string{ {{ range $i, $_ := .CORSHeaders }}{{ if $i }}, {{ end }}\"{{ . }}\"{{ end }} })\n\t\t\t\treturn h, \"\", false\n\t\t\t\t\t{{- else }}\n\t\t\tcase http.Method{{ .Method }}:",
   "\t\t\t\th := rt.CORSHandler([]string{ {{ range $i, $_ := .CORSMethods }}{{ if $i }}, {{ end }}\"{{ . }}\"{{ end }} }, []string{ {{ range $i, $_ := .CORSHeaders }}{{ if $i }}, {{ end }}\"{{ . }}\"{{ end }} })\n\t\t\t\treturn h, \"\", true\n\t\t\t\t\t{{- else }}\n\t\t\tcase http.Method{{ .Method }}:"))
M("c11-revert-jwt-per-pathitem", "C11", "V",
  ("generator/file_router.go", "\t\t\t\t\top.JWT = true\n", "\t\t\t\t\tfor i := range p.Operations { p.Operations[i].JWT = true }\n\t\t\t\t\top.JWT = true\n"))
M("c11-nil-auth-accepts", "C11", "V",
  (RT, "\t\t\t\tif fn == nil {\n\t\t\t\t\tcontinue\n\t\t\t\t}\n", "\t\t\t\tif fn == nil {\n\t\t\t\t\tnext.ServeHTTP(w, r)\n\t\t\t\t\treturn\n\t\t\t\t}\n"))
M("c11-original-request-passed", "C11", "V",
  (RT, "next.ServeHTTP(w, authReq)", "_ = authReq\n\t\t\t\t\tnext.ServeHTTP(w, r)"))
M("c17-methods-not-deduped", "C17", "V",
  ("generator/file_router.go", "\t\t\t\tmethods = append(methods, string(o.Method.HTTP))\n", "\t\t\t\tmethods = append(methods, string(o.Method.HTTP), string(o.Method.HTTP))\n"))
M("c17-drop-security-headers", "C17", "V",
  ("generator/file_router.go", "\t\t\t\t\tif sec.Scheme.Type == specification.SecuritySchemeTypeApiKey && sec.Scheme.In == \"header\" {\n\t\t\t\t\t\tkey := http.CanonicalHeaderKey(sec.Scheme.Name)\n", "\t\t\t\t\tif false && sec.Scheme.Type == specification.SecuritySchemeTypeApiKey && sec.Scheme.In == \"header\" {\n\t\t\t\t\t\tkey := http.CanonicalHeaderKey(sec.Scheme.Name)\n"))
M("c13-spec-after-route", "C13", "V",
  (RT, "\tif rt.SpecFileHandler != nil && path == \"{{.BasePath}}/{{.SpecFilename}}\" {\n\t\trt.SpecFileHandler.ServeHTTP(rw, r)\n\t\treturn\n\t}\n\n\th, path, hasPath := rt.route(path, r.Method)\n",
   "\th, path, hasPath := rt.route(path, r.Method)\n\tif h == nil && rt.SpecFileHandler != nil && r.URL.Path == \"{{.BasePath}}/{{.SpecFilename}}\" {\n\t\trt.SpecFileHandler.ServeHTTP(rw, r)\n\t\treturn\n\t}\n"))
M("c14-hs0-without-guard", "C14", "V",
  (RT, "\ths := r.Header.Values(\"Authorization\")\n\tif len(hs) == 0 {\n\t\treturn nil, false\n\t}\n\ttoken = hs[0]", "\ths := r.Header.Values(\"Authorization\")\n\ttoken = hs[0]"))
M("c14-double-writeheader", "C14", "V",
  (CT, "\tw.WriteHeader({{if .IsDefault}}r.Code{{ else if .Status }}{{ .Status }}{{else}}code{{end}})\n\t{{- if .IsBody}}", "\tw.WriteHeader({{if .IsDefault}}r.Code{{ else if .Status }}{{ .Status }}{{else}}code{{end}})\n\t{{- if .IsBody}}\n\tw.WriteHeader(200)"))
M("c20-request-counter", "C20", "V",
  (RT, "func (rt *API) ServeHTTP(rw http.ResponseWriter, r *http.Request) {\n\tpath := r.URL.Path\n", "var requestCount int\n\nfunc (rt *API) ServeHTTP(rw http.ResponseWriter, r *http.Request) {\n\trequestCount++\n\tpath := r.URL.Path\n"))
M("c20-lazy-notfound", "C20", "V",
  (RT, "\t\th = rt.NotFoundHandler\n\t\tif h == nil {\n\t\t\th = http.NotFoundHandler()\n\t\t}\n", "\t\tif rt.NotFoundHandler == nil {\n\t\t\trt.NotFoundHandler = http.NotFoundHandler()\n\t\t}\n\t\th = rt.NotFoundHandler\n"))
M("c04-drop-required-check", "C04", "V",
  (HT, "            {{- if .Required }}\n\t\t\tif !ok {\n                return zero, fmt.Errorf(\"query parameter '{{.ParameterName}}': is required\")\n            }\n            {{- end }}\n", ""))
M("c04-silent-multi", "C04", "V",
  (PT, "} else {\n\treturn {{ .MkErr.New \"multiple values found: single value expected\" }}\n}", "}"))
M("c04-wrong-bitsize", "C04", "V",
  (PT, "vInt64, err := strconv.ParseInt({{ .From }}, 10, {{ .BitSize }})", "vInt64, err := strconv.ParseInt({{ .From }}, 10, 64)"))
M("c04-preserve-error-wording", "C04", "S",
  (PT, "multiple values found: single value expected", "expected a single value, found several"))
M("c05-drop-empty-check", "C05", "V",
  (HT, "\tif len(vPath) == 0 {\n\t\treturn {{.Error.New \"required\"}}\n\t}\n", ""))
M("c05-offbyone-strip", "C05", "V",
  (HT, "p = p[{{len .Prefix}}:] // \"{{.Prefix}}\"", "p = p[{{len .FullPath | len}}:] // \"{{.Prefix}}\""))
M("c02-export-marker-method", "C02", "V",
  (HT, "type {{ $responseWriter }} interface {\n\twrite{{ .Name }}(http.ResponseWriter)\n}", "type {{ $responseWriter }} interface {\n\tWrite(http.ResponseWriter)\n}"))
M("c02-drop-content-type", "C02", "V",
  (CT, "\t{{- if .ContentType }}\n\tw.Header().Set(\"Content-Type\", \"{{ .ContentType }}\")\n\t{{- end }}\n", ""))
M("c10-code-not-propagated", "C10", "V",
  (CL, "{{- if eq .StatusCode \"default\" }}\n\tresponse.Code = resp.StatusCode\n{{ end }}", ""))
M("c10-optional-header-required", "C10", "V",
  (CL, "{{- if .Required }}\n} else {\n\treturn nil, fmt.Errorf(\"response header '{{ .Key }}' is required\")\n{{- end }}", "} else {\n\treturn nil, fmt.Errorf(\"response header '{{ .Key }}' is required\")"))
M("c09-float-bitsize-mismatch", "C09", "V",
  (PT, "{{ define \"FloatX_RenderToStringInline\" }}strconv.FormatFloat(float64({{ .From }}), 'e', -1, {{ .BitSize }}){{ end }}", "{{ define \"FloatX_RenderToStringInline\" }}strconv.FormatFloat(float64({{ .From }}), 'e', -1, 64){{ end }}"))
M("c09-preserve-f-format", "C09", "S",
  (PT, "{{ define \"Float64_RenderToStringInline\" }}strconv.FormatFloat({{ .From }}, 'e', -1, 64){{ end }}", "{{ define \"Float64_RenderToStringInline\" }}strconv.FormatFloat({{ .From }}, 'f', -1, 64){{ end }}"))
M("c06-revert-commawriter", "C06", "V",
  (CT, "\t\t\t\tcw := &commaWriter{w: out, comma: comma}\n\t\t\t\tmErr := {{ $from }}.marshalJSONInnerBody(cw)\n\t\t\t\tif mErr != nil {\n\t\t\t\t\terr = mErr\n\t\t\t\t}\n\t\t\t\tif cw.written {\n\t\t\t\t\tcomma = \",\"\n\t\t\t\t}\n\t\t\t}\n",
   "\t\t\t\tmErr := {{ $from }}.marshalJSONInnerBody(out)\n\t\t\t\tif mErr != nil {\n\t\t\t\t\terr = mErr\n\t\t\t\t}\n\t\t\t}\n\t\t\tcomma = \",\"\n"))
M("c06-reader-forgets-isset", "C06", "V",
  (CT, "\t\t\t\tc.{{ .Name }}.IsSet = true\n", ""))
M("c07-key-from-go-name", "C07", "V",
  ("generator/types.go", "\t\tJSONTag:     name,\n", "\t\tJSONTag:     PublicFieldName(name),\n"))
M("c08-missing-key-accepted", "C08", "V",
  (CT, "\t\t\t{{- if .Required }}\n\t\t\t\t} else {\n\t\t\t\t\treturn fmt.Errorf(\"'{{ .JSONTag }}' key is missing\")\n\t\t\t{{- end }}\n", ""))
M("c18-revert-requestbody-alias", "C18", "V",
  (CT, "type {{ .Name }} = {{ call .GoTypeFn }}", "type {{ .Name }} {{ call .GoTypeFn }}"))

# ------------------------------------------------------------------ behaviour-preserving renames of internal helpers
def REN(name, prop, file, old, new):
    # rename every occurrence of an identifier in one template file
    import re
    src = open("/repo/" + file).read()
    n = len(re.findall(r"\b" + re.escape(old) + r"\b", src))
    MUTANTS.append(dict(name=name, prop=prop, expect="S", edits=[(file, "__RENAME__" + old, new)], rename=True))

REN("ren-splitPath-c03", "C03", RT, "splitPath", "cutSegment")
REN("ren-splitPath-c14", "C14", RT, "splitPath", "cutSegment")
REN("ren-authMiddlewareOr-c11", "C11", RT, "authMiddlewareOr", "anyOf")
REN("ren-middlewares-c11", "C11", RT, "middlewares", "wrapAll")
REN("ren-specFileBs-c13", "C13", RT, "specFileBs", "specBytes")
REN("ren-specFileBs-c20", "C20", RT, "specFileBs", "specBytes")
MUTANTS.append(dict(name="ren-comma-c06", prop="C06", expect="S", edits=[(CT, "__RENAME__comma", "sep"), (HT, "__RENAME__comma", "sep")]))
REN("ren-writeProperty-c07", "C07", CT, "writeProperty", "emit")
M("ren-commaWriter-c06", "C06", "S",
  (CT, "cw := &commaWriter{w: out, comma: comma}", "cw := &sepWriter{w: out, comma: comma}"),
  (HT, "type commaWriter struct {", "type sepWriter struct {"),
  (HT, "func (c *commaWriter) Write(bs []byte) (int, error) {", "func (c *sepWriter) Write(bs []byte) (int, error) {"))
M("preserve-comment-in-route-c16", "C16", "S",
  (RT, "func (rt *API) route{{.Name}}(path, method string) (http.Handler, string, bool) {", "// route{{.Name}} resolves one segment.\nfunc (rt *API) route{{.Name}}(path, method string) (http.Handler, string, bool) {"))
M("preserve-required-wording-c04", "C04", "S",
  (HT, "return zero, fmt.Errorf(\"query parameter '{{.ParameterName}}': is required\")", "return zero, fmt.Errorf(\"missing required query parameter '{{.ParameterName}}'\")"))
M("preserve-missing-key-wording-c08", "C08", "S",
  (CT, "return fmt.Errorf(\"'{{ .JSONTag }}' key is missing\")", "return fmt.Errorf(\"required property '{{ .JSONTag }}' is absent\")"))

# ------------------------------------------------------------------ round-2 rules: behaviour-preserving edits must stay silent
M("c12-preserve-dir-loop-counter", "C12", "S",
  ("goag.go", "\t\tcfgFile := filepath.Join(testpath, cfgFilename)\n",
   "\t\tcfgFile := filepath.Join(testpath, cfgFilename)\n\t\tvar n int\n\t\tn++\n\t\t_ = n\n"))
M("c12-dir-loop-carried-out", "C12", "V",
  ("goag.go", "\t\ttestpath := filepath.Join(dir, d.Name())\n",
   "\t\tout = filepath.Join(out, \"gen\")\n\t\ttestpath := filepath.Join(dir, d.Name())\n"))
M("c06-preserve-layout-literal", "C06", "S",
  ("generator/schema.go", "\t\t\tformat := \"time.RFC3339Nano\"\n", "\t\t\tformat := `\"2006-01-02T15:04:05.999999999Z07:00\"`\n"))
M("c06-layout-millis", "C06", "V",
  ("generator/schema.go", "\t\t\tformat := \"time.RFC3339Nano\"\n", "\t\t\tformat := `\"2006-01-02T15:04:05.000Z07:00\"`\n"))
M("c09-preserve-layout-literal", "C09", "S",
  ("generator/schema.go", "\t\t\tformat := \"time.RFC3339Nano\"\n", "\t\t\tformat := `\"2006-01-02T15:04:05.999999999Z07:00\"`\n"))
M("c15-preserve-with-guard", "C15", "S",
  ("generator/file_components.gotmpl", "    {{ if .SliceType.Items.Ref }}\n\t\t{{- if .SliceType.Items.Ref.Schema.IsCustom }}",
   "    {{ if and .SliceType.Items.Ref .SliceType.Items.Ref.Schema }}\n\t\t{{- if .SliceType.Items.Ref.Schema.IsCustom }}"))
M("c14-preserve-make-cap-plus", "C14", "S",
  ("generator/types.gotmpl", "qv := make([]string, 0, len({{ .From }}))", "qv := make([]string, 0, len({{ .From }})+1)"))
M("c14-make-from-atoi", "C14", "V",
  ("generator/types.gotmpl", "qv := make([]string, 0, len({{ .From }}))", "qv := make([]string, 0, len({{ .From }})-1)"))
M("c06-preserve-delete-first", "C06", "S",
  ("generator/file_components.gotmpl", "\t\t\t\tdelete(m, \"{{ .JSONTag }}\")\n\t\t\t{{- if .Required }}", "\t\t\t\tdelete(m, \"{{ .JSONTag }}\")\n\t\t\t\t_ = raw\n\t\t\t{{- if .Required }}"))

# ------------------------------------------------------------------ C15 exit code
M("c15-exit-printf", "C15", "V",
  ("cmd/goag/main.go", "log.Fatalf(\"Error on generate: %v\", err)", "log.Printf(\"Error on generate: %v\", err)"))
M("c15-exit-discard-dir-error", "C15", "V",
  ("cmd/goag/main.go", "\t\terr = g.GenerateDir(", "\t\t_ = g.GenerateDir("))

# ------------------------------------------------------------------ round 3: refactored-but-wrong variants
# (each uses a spelling the generalised recognisers accept and adds a defect: they must still be reported)
SPLIT_OLD = "\tidx := strings.Index(s[1:], \"/\")\n\tif idx == -1 {\n\t\treturn s, \"\"\n\t}\n\treturn s[:idx+1], s[idx+1:]\n"
M("c03-splitpath-rewritten-ok", "C03", "S",
  ("generator/file_router.gotmpl", SPLIT_OLD,
   "\tif idx := strings.IndexByte(s[1:], '/'); idx >= 0 {\n\t\tend := idx + 1\n\t\treturn s[:end], s[end:]\n\t}\n\treturn s, \"\"\n"))
M("c03-splitpath-rewritten-off-by-one", "C03", "V",
  ("generator/file_router.gotmpl", SPLIT_OLD,
   "\tif idx := strings.IndexByte(s[1:], '/'); idx >= 0 {\n\t\tend := idx + 2\n\t\treturn s[:end], s[end:]\n\t}\n\treturn s, \"\"\n"))
M("c03-splitpath-rewritten-gt-zero", "C03", "V",
  ("generator/file_router.gotmpl", SPLIT_OLD,
   "\tif idx := strings.IndexByte(s[1:], '/'); idx > 0 {\n\t\tend := idx + 1\n\t\treturn s[:end], s[end:]\n\t}\n\treturn s, \"\"\n"))
M("c14-splitpath-rewritten-off-by-one", "C14", "V",
  ("generator/file_router.gotmpl", SPLIT_OLD,
   "\tif idx := strings.IndexByte(s[1:], '/'); idx >= 0 {\n\t\tend := idx + 3\n\t\treturn s[:end], s[end:]\n\t}\n\treturn s, \"\"\n"))
PV_OLD = "\tidx := strings.Index({{ .From }}, \"/\")\n\tif idx == -1 {\n\t\tidx = len({{ .From }})\n\t}\n\tvPath := {{ .From }}[:idx]\n\t{{ .From }} = {{ .From }}[idx:]\n"
M("c05-segment-cut-ok", "C05", "S",
  ("generator/file_handler.gotmpl", PV_OLD, "\tvPath, _, _ := strings.Cut({{ .From }}, \"/\")\n\t{{ .From }} = {{ .From }}[len(vPath):]\n"))
M("c05-segment-cut-swallows-slash", "C05", "V",
  ("generator/file_handler.gotmpl", PV_OLD, "\tvPath, rest, found := strings.Cut({{ .From }}, \"/\")\n\t_ = found\n\t{{ .From }} = rest\n"))
M("c05-segment-until-last-slash", "C05", "V",
  ("generator/file_handler.gotmpl", PV_OLD, "\tidx := strings.LastIndex({{ .From }}, \"/\")\n\tif idx == -1 {\n\t\tidx = len({{ .From }})\n\t}\n\tvPath := {{ .From }}[:idx]\n\t{{ .From }} = {{ .From }}[idx:]\n"))
LOOP_OLD = "\t\tfor i := len(rt.Middlewares) - 1; i >= 0; i-- {\n\t\t\th = rt.Middlewares[i](h)\n\t\t}\n"
M("c16-loop-form-ok", "C16", "S",
  ("generator/file_router.gotmpl", LOOP_OLD, "\t\tfor n := len(rt.Middlewares); n > 0; n-- {\n\t\t\th = rt.Middlewares[n-1](h)\n\t\t}\n"))
M("c16-loop-form-skips-first", "C16", "V",
  ("generator/file_router.gotmpl", LOOP_OLD, "\t\tfor n := len(rt.Middlewares); n > 1; n-- {\n\t\t\th = rt.Middlewares[n-1](h)\n\t\t}\n"))
M("c16-loop-form-forward", "C16", "V",
  ("generator/file_router.gotmpl", LOOP_OLD, "\t\tfor i := range rt.Middlewares {\n\t\t\th = rt.Middlewares[i](h)\n\t\t}\n"))
M("c14-loop-form-out-of-range", "C14", "V",
  ("generator/file_router.gotmpl", LOOP_OLD, "\t\tfor n := len(rt.Middlewares); n >= 0; n-- {\n\t\t\th = rt.Middlewares[n](h)\n\t\t}\n"))
OR_OLD = "\t\t\tfor _, fn := range fns {\n\t\t\t\tif fn == nil {\n\t\t\t\t\tcontinue\n\t\t\t\t}\n\t\t\t\tauthReq, ok := fn.Auth(r)\n\t\t\t\tif ok {\n\t\t\t\t\tnext.ServeHTTP(w, authReq)\n\t\t\t\t\treturn\n\t\t\t\t}\n\t\t\t}\n\t\t\tw.WriteHeader(401)\n"
HELPER = "\nfunc authFirstOf(r *http.Request, fns []AuthMiddleware) (*http.Request, bool) {\n\tfor _, fn := range fns {\n\t\tif fn == nil {\n\t\t\tcontinue\n\t\t}\n\t\tif authReq, ok := fn.Auth(r); ok {\n\t\t\treturn authReq, true\n\t\t}\n\t}\n\treturn nil, false\n}\n\ntype AuthMiddleware interface {"
M("c11-or-helper-ok", "C11", "S",
  ("generator/file_router.gotmpl", OR_OLD, "\t\t\tauthReq, ok := authFirstOf(r, fns)\n\t\t\tif !ok {\n\t\t\t\tw.WriteHeader(401)\n\t\t\t\treturn\n\t\t\t}\n\t\t\tnext.ServeHTTP(w, authReq)\n"),
  ("generator/file_router.gotmpl", "\ntype AuthMiddleware interface {", HELPER))
M("c11-or-helper-stops-at-first", "C11", "V",
  ("generator/file_router.gotmpl", OR_OLD, "\t\t\tauthReq, ok := authFirstOf(r, fns)\n\t\t\tif !ok {\n\t\t\t\tw.WriteHeader(401)\n\t\t\t\treturn\n\t\t\t}\n\t\t\tnext.ServeHTTP(w, authReq)\n"),
  ("generator/file_router.gotmpl", "\ntype AuthMiddleware interface {", HELPER.replace("\t\t\treturn authReq, true\n\t\t}\n\t}", "\t\t\treturn authReq, true\n\t\t}\n\t\tbreak\n\t}")))
M("c11-or-helper-serves-original-request", "C11", "V",
  ("generator/file_router.gotmpl", OR_OLD, "\t\t\tauthReq, ok := authFirstOf(r, fns)\n\t\t\tif !ok {\n\t\t\t\tw.WriteHeader(401)\n\t\t\t\treturn\n\t\t\t}\n\t\t\t_ = authReq\n\t\t\tnext.ServeHTTP(w, r)\n"),
  ("generator/file_router.gotmpl", "\ntype AuthMiddleware interface {", HELPER))
M("c11-or-helper-accepts-on-reject", "C11", "V",
  ("generator/file_router.gotmpl", OR_OLD, "\t\t\tauthReq, ok := authFirstOf(r, fns)\n\t\t\tif !ok {\n\t\t\t\tw.WriteHeader(401)\n\t\t\t\treturn\n\t\t\t}\n\t\t\tnext.ServeHTTP(w, authReq)\n"),
  ("generator/file_router.gotmpl", "\ntype AuthMiddleware interface {", HELPER.replace("if authReq, ok := fn.Auth(r); ok {", "if authReq, ok := fn.Auth(r); ok || authReq != nil {")))
TOK_OLD = "\tvar token string\n\ths := r.Header.Values(\"Authorization\")\n\tif len(hs) == 0 {\n\t\treturn nil, false\n\t}\n\ttoken = hs[0]\n\n\ttoken = strings.TrimPrefix(token, \"Bearer \")\n"
M("c11-token-flow-ok", "C11", "S",
  ("generator/file_router.gotmpl", TOK_OLD, "\tvalues := r.Header.Values(\"Authorization\")\n\tif len(values) == 0 {\n\t\treturn nil, false\n\t}\n\ttoken := strings.TrimPrefix(values[0], \"Bearer \")\n"))
M("c11-token-flow-last-value", "C11", "V",
  ("generator/file_router.gotmpl", TOK_OLD, "\tvalues := r.Header.Values(\"Authorization\")\n\tif len(values) == 0 {\n\t\treturn nil, false\n\t}\n\ttoken := strings.TrimPrefix(values[len(values)-1], \"Bearer \")\n"))
M("c11-token-flow-no-guard", "C11", "V",
  ("generator/file_router.gotmpl", TOK_OLD, "\tvalues := r.Header.Values(\"Authorization\")\n\tvalues = append(values, \"\")\n\ttoken := strings.TrimPrefix(values[0], \"Bearer \")\n"))
WF_OLD = "\timportedBs, err := imports.Process(\"\", bs, nil)\n\tif err != nil {\n\t\treturn fmt.Errorf(\"error on format go source (%s): %w\", filepath, err)\n\t}\n"
M("c01-format-wrapper-ok", "C01", "S",
  ("goag.go", WF_OLD, "\timportedBs, err := formatGoSource(bs, filepath)\n\tif err != nil {\n\t\treturn err\n\t}\n"),
  ("goag.go", "func WriteToFile(bs []byte, filepath string) error {", "func formatGoSource(src []byte, filename string) ([]byte, error) {\n\tout, err := imports.Process(\"\", src, nil)\n\tif err != nil {\n\t\treturn nil, fmt.Errorf(\"error on format go source (%s): %w\", filename, err)\n\t}\n\treturn out, nil\n}\n\nfunc WriteToFile(bs []byte, filepath string) error {"))
M("c01-format-wrapper-returns-raw-on-error", "C01", "V",
  ("goag.go", WF_OLD, "\timportedBs, err := formatGoSource(bs, filepath)\n\tif err != nil {\n\t\treturn err\n\t}\n"),
  ("goag.go", "func WriteToFile(bs []byte, filepath string) error {", "func formatGoSource(src []byte, filename string) ([]byte, error) {\n\tout, err := imports.Process(\"\", src, nil)\n\tif err != nil {\n\t\tlog.Printf(\"format %s: %v\", filename, err)\n\t\treturn src, nil\n\t}\n\treturn out, nil\n}\n\nfunc WriteToFile(bs []byte, filepath string) error {"))
