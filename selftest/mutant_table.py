# One entry per hand-written mutant. edits = [(path, old, new)], each `old`
# must occur exactly once. expect "V" = must be reported, "S" = must be silent.
MUTANTS = []


def M(name, prop, expect, *edits):
    MUTANTS.append(dict(name=name, prop=prop, expect=expect, edits=list(edits)))


# ------------------------------------------------------------------ C12
M("c12-unsort-paths", "C12", "V",
  ("specification/spec.go", "for _, pathKey := range sortedKeys(spec.Paths) {\n\t\tpathItem := spec.Paths[pathKey]",
   "for pathKey, pathItem := range spec.Paths {"))
M("c12-drop-sort-in-sortedKeys", "C12", "V",
  ("specification/spec.go", "\tsort.Strings(out)\n\treturn out", "\t_ = sort.Strings\n\treturn out"))
M("c12-drop-sort-in-NewMapPrefix", "C12", "V",
  ("specification/map.go", "\tsort.Strings(keys)\n", "\t_ = sort.Strings\n"))
M("c12-revert-discriminator-fix", "C12", "V",
  ("specification/spec.go", "for _, k := range sortedKeys(schema.Discriminator.Mapping) {\n\t\t\t\tv := schema.Discriminator.Mapping[k]",
   "for k, v := range schema.Discriminator.Mapping {"))
M("c12-time-now-in-header", "C12", "V",
  ("generator/go_file.go", "func (g GoFile) Render() (string, error) {\n\treturn ExecuteTemplate(\"GoFile\", g)",
   "func (g GoFile) Render() (string, error) {\n\tg.PackageName += \"\" + time.Now().Format(\"\")[:0]\n\treturn ExecuteTemplate(\"GoFile\", g)"),
  ("generator/go_file.go", "package generator\n", "package generator\n\nimport \"time\"\n"))
M("c12-goroutine-render", "C12", "V",
  ("goag.go", "\terr = WriteToFile([]byte(s), filepath)\n", "\tdone := make(chan error, 1)\n\tgo func() { done <- WriteToFile([]byte(s), filepath) }()\n\terr = <-done\n"))
M("c12-preserve-rename-var", "C12", "S",
  ("specification/spec.go", "func sortedKeys[T any](m map[string]T) (out []string) {\n\tfor k := range m {\n\t\tout = append(out, k)\n\t}\n\tsort.Strings(out)\n\treturn out",
   "func sortedKeys[T any](m map[string]T) (keys []string) {\n\tfor name := range m {\n\t\tkeys = append(keys, name)\n\t}\n\tsort.Strings(keys)\n\treturn keys"))
M("c12-preserve-sort-slice", "C12", "S",
  ("specification/map.go", "\tsort.Strings(keys)\n", "\tsort.Slice(keys, func(i, j int) bool { return keys[i] < keys[j] })\n"))

# ------------------------------------------------------------------ C19
M("c19-drop-remove-client", "C19", "V",
  ("goag.go", "\terr = os.Remove(clientFile)\n\tif err != nil {\n\t\tif !os.IsNotExist(err) {\n\t\t\treturn fmt.Errorf(\"remove client file (%s): %w\", clientFile, err)\n\t\t}\n\t}\n", "\t_ = clientFile\n"))
M("c19-drop-remove-router", "C19", "V",
  ("goag.go", "\t\terr = os.Remove(path.Join(outDir, \"router.go\"))\n\t\tif err != nil {\n\t\t\tif !os.IsNotExist(err) {\n\t\t\t\treturn fmt.Errorf(\"remove router.go (%s): %w\", path.Join(outDir, \"router.go\"), err)\n\t\t\t}\n\t\t}\n", ""))
M("c19-no-trunc", "C19", "V",
  ("goag.go", "os.O_CREATE|os.O_WRONLY|os.O_TRUNC", "os.O_CREATE|os.O_WRONLY"))
M("c19-append", "C19", "V",
  ("goag.go", "os.O_CREATE|os.O_WRONLY|os.O_TRUNC", "os.O_CREATE|os.O_WRONLY|os.O_TRUNC|os.O_APPEND"))
M("c19-wrong-remove-name", "C19", "V",
  ("goag.go", "err = os.Remove(path.Join(outDir, \"spec_file.go\"))", "err = os.Remove(path.Join(outDir, \"router.go\"))"))
M("c19-removeall-outdir", "C19", "V",
  ("goag.go", "\tclientFile := path.Join(outDir, \"client.go\")\n", "\tif !g.GenAPIHandler && !g.GenClient {\n\t\t_ = os.RemoveAll(outDir)\n\t}\n\tclientFile := path.Join(outDir, \"client.go\")\n"))
M("c19-swallow-remove-error", "C19", "V",
  ("goag.go", "\t\t\t\treturn fmt.Errorf(\"remove handler.go (%s): %w\", path.Join(outDir, \"handler.go\"), err)\n", "\t\t\t\tlog.Printf(\"remove handler.go: %v\", err)\n"))
M("c19-inverted-polarity", "C19", "V",
  ("goag.go", "\tif g.GenClient {\n\t\terr = RenderToFile(path.Join(outDir, \"client.go\")", "\tif !g.GenAPIHandler {\n\t\terr = RenderToFile(path.Join(outDir, \"client.go\")"))
M("c19-components-only-with-handler", "C19", "V",
  ("goag.go", "\tif gen.Components.LenToRender() > 0 {", "\tif gen.Components.LenToRender() > 0 && g.GenAPIHandler {"))
M("c19-preserve-else-form", "C19", "S",
  ("goag.go", "\tclientFile := path.Join(outDir, \"client.go\")\n\terr = os.Remove(clientFile)\n\tif err != nil {\n\t\tif !os.IsNotExist(err) {\n\t\t\treturn fmt.Errorf(\"remove client file (%s): %w\", clientFile, err)\n\t\t}\n\t}\n\tif g.GenClient {\n\t\terr = RenderToFile(path.Join(outDir, \"client.go\"), gen.ClientFile(cfg))\n\t\tif err != nil {\n\t\t\treturn fmt.Errorf(\"generate client.go: %w\", err)\n\t\t}\n\t}\n",
   "\tclientFile := path.Join(outDir, \"client.go\")\n\tif g.GenClient {\n\t\terr = RenderToFile(clientFile, gen.ClientFile(cfg))\n\t\tif err != nil {\n\t\t\treturn fmt.Errorf(\"generate client.go: %w\", err)\n\t\t}\n\t} else {\n\t\terr = os.Remove(clientFile)\n\t\tif err != nil && !os.IsNotExist(err) {\n\t\t\treturn fmt.Errorf(\"remove client file (%s): %w\", clientFile, err)\n\t\t}\n\t}\n"))

# ------------------------------------------------------------------ C13 (S1)
M("c13-revert-to-hand-rolled", "C13", "V",
  ("generator/files.go", "\treturn strconv.Quote(s)\n", "\treturn `\"` + strings.ReplaceAll(strconv.Quote(s)[1:len(strconv.Quote(s))-1], \"\\\\r\", \"\") + `\"`\n"),
  ("generator/files.go", "import \"strconv\"", "import (\n\t\"strconv\"\n\t\"strings\"\n)"))
M("c13-trimspace-content", "C13", "V",
  ("generator/files.go", "encodeRawFileAsString(string(fileContent))", "encodeRawFileAsString(strings.TrimSpace(string(fileContent)))"),
  ("generator/files.go", "import \"strconv\"", "import (\n\t\"strconv\"\n\t\"strings\"\n)"))
M("c13-normalise-crlf-in-generate", "C13", "V",
  ("goag.go", "gen.SpecFile(specRaw)", "gen.SpecFile([]byte(strings.ReplaceAll(string(specRaw), \"\\r\\n\", \"\\n\")))"))
M("c13-embed-other-file", "C13", "V",
  ("goag.go", "specRaw, err := os.ReadFile(specFilename)", "specRaw, err := os.ReadFile(filepath.Clean(specFilename))"))
M("c13-preserve-direct-quote", "C13", "S",
  ("generator/files.go", "\"const SpecFile string = \" + encodeRawFileAsString(string(fileContent))", "\"const SpecFile string = \" + strconv.Quote(string(fileContent))"))

# ------------------------------------------------------------------ C01 (S1)
M("c01-swallow-format-error", "C01", "V",
  ("goag.go", "\tif err != nil {\n\t\treturn fmt.Errorf(\"error on format go source (%s): %w\", filepath, err)\n\t}\n", "\tif err != nil {\n\t\tlog.Printf(\"format: %v\", err)\n\t\timportedBs = bs\n\t}\n"))
M("c01-write-raw", "C01", "V",
  ("goag.go", "_, err = f.Write(importedBs)", "_ = importedBs\n\t_, err = f.Write(bs)"))
M("c01-drop-render-error", "C01", "V",
  ("goag.go", "\t\terr = RenderToFile(path.Join(outDir, \"router.go\"), gen.RouterFile())\n\t\tif err != nil {\n\t\t\treturn fmt.Errorf(\"generate router.go: %w\", err)\n\t\t}\n", "\t\t_ = RenderToFile(path.Join(outDir, \"router.go\"), gen.RouterFile())\n"))
M("c01-main-logs-instead-of-fatal", "C01", "V",
  ("cmd/goag/main.go", "log.Fatalf(\"Error on generate: %v\", err)", "log.Printf(\"Error on generate: %v\", err)"))
M("c01-header-name-split", "C01", "V",
  ("generator/parameters.go", "out.FieldName = Title(s.Name)", "out.FieldName = PublicFieldName(s.Name)"))
M("c01-preserve-wrap-message", "C01", "S",
  ("goag.go", "return fmt.Errorf(\"to bytes: %w\", err)", "return fmt.Errorf(\"render: %w\", err)"))
