#!/usr/bin/env python3
"""Regenerates /verif/MANIFEST.json from the table below (kept in one place so
the manifest is always valid and in step with the checks that exist)."""
import json, os, sys

HERE = os.path.dirname(os.path.abspath(__file__))
ALL = ["C%02d" % i for i in range(1, 21)]

TRUST = ("Trusted: Go type checker, go/ssa, go/cfg, x/tools VTA call graph, the contracts of the Go "
         "standard library named in DESIGN.md §11. The check never executes goag's generated code.")

CHECKS = {
    "C12": dict(
        text="Static source/idiom enumeration over the generator: every nondeterminism source (range over map, "
             "maps.Keys/Values, go/select/channel, time/rand/env, pointer formatting) reachable from "
             "Generator.Generate*/main is an obligation that must match a neutralising idiom. Covers all specs and "
             "all runs (no corpus); this is a sufficient structural condition for determinism modulo the trusted "
             "libraries, not an observation of outputs.",
        note=TRUST + " Libraries (kin-openapi, yaml, imports, text/template) are assumed deterministic on deterministic input.",
        technique="static analysis: AST+types idiom rules over call-graph-reachable functions (go/packages, go/ssa, VTA)",
        design="§4 C12"),
}

CHECKS["C19"] = dict(
    text="Pairing/ownership analysis of goag.go on the CFG of the generating function (path-sensitive in the three controlling "
         "conditions): every owned file is written or removed on every success path with the documented polarity, the writer "
         "truncates, file-system mutators and reads reachable from Generate are exactly the enumerated sites. Holds for all "
         "invocation histories by induction over runs; it is a structural sufficient condition, not an observation of directories.",
    note=TRUST + " Successful runs only; byte-level idempotence additionally relies on C12.",
    technique="static analysis: go/cfg path-sensitive typestate (written/removed per owned file) + who-may-call over the VTA call graph",
    design="§4 C19")
CHECKS["C13"] = dict(
    text="SSA value-flow: the text after `const SpecFile string = ` is strconv.Quote of a value that traces back through parameters, "
         "closure captures and string/[]byte conversions only to os.ReadFile(spec file) — clause (a) for ALL byte strings is thereby "
         "delegated to strconv.Quote's contract. Serving clause: structural rules on the generated router of every corpus program "
         "(spec branch precedes routing and middlewares; handler writes the package-level []byte(SpecFile) once).",
    note=TRUST + " strconv.Quote denotes exactly its input; gofmt does not alter string literals.",
    technique="static analysis: backward SSA value-flow (go/ssa + VTA callers) and AST shape rules on instantiated router code",
    design="§4 C13")

CHECKS["C01"] = dict(
    text="All specs/flags (S1): SSA rule that every file write on the generation path writes the formatter's (imports.Process) output on its "
         "success branch and that a formatter failure returns an error — so success implies syntactically valid, gofmt-stable files by go/format's "
         "contract; error-propagation discipline in goag/cmd; O_TRUNC; one naming function per parameter location on handler and client side. "
         "Type-correctness of the composed template output is NOT decidable statically here and is sampled: every corpus program instantiated from "
         "the current templates must parse, be gofmt-idempotent and type-check.",
    note=TRUST + " go/format emits valid gofmt-stable Go. Clause (b) (type-checks) is corpus-bounded.",
    technique="static analysis: SSA dominance/value rules + AST error-discipline lint on the generator; go/types over instantiated corpus packages",
    design="§4 C01")

NA_REASON = {}
DEFAULT_NA = "not claimed yet: static checker for this property is still under construction (design in DESIGN.md §4)"

def main():
    checks = []
    for pid in ALL:
        c = CHECKS.get(pid)
        if not c:
            continue
        checks.append({
            "property_id": pid,
            "quick_cmd": "./check.sh %s quick" % pid,
            "thorough_cmd": "./check.sh %s thorough" % pid,
            "evidence_file": "/verif/evidence/%s.json" % pid,
            "replay_cmd_template": "cat {path}; ./check.sh %s quick" % pid,
            "engine": "verif",
            "level_claimed": {"category": "other", "text": c["text"], "design_ref": "DESIGN.md " + c["design"]},
            "level_note": c["note"],
            "technique": c["technique"],
        })
    na = [{"property_id": p, "reason": NA_REASON.get(p, DEFAULT_NA)} for p in ALL if p not in CHECKS]
    m = {
        "version": 1,
        "setup_cmd": "./setup.sh",
        "hooks": {
            "guard": "verif",
            "enable": "no hooks are needed: checks analyse source and use goag's existing TEMPLATE_DEBUG switch; build tag `verif` guards nothing",
            "baseline_off_cmd": "cd /repo && GOFLAGS=-mod=mod GOPROXY=off GOSUMDB=off go test -vet=off -count=1 ./...",
            "source_commits": [],
            "add_only": True,
        },
        "engines": [{
            "name": "verif", "path": "/verif/tool",
            "serves_properties": [c["property_id"] for c in checks],
            "kind_free_text": "purpose-built Go static analyser (go/packages + go/types + go/cfg + go/ssa + VTA call graph + text/template/parse) for vkd/goag: analyses the generator source, its templates, and the Go packages instantiated from the current templates; never runs generated code",
        }],
        "checks": checks,
        "not_applicable": na,
        "notes": "All checks: ./check.sh <id> <tier>. Known findings: /verif/known_findings.json. Seeded breaking changes: /verif/seeded/.",
    }
    with open(os.path.join(HERE, "MANIFEST.json"), "w") as f:
        json.dump(m, f, indent=1)
        f.write("\n")
    try:
        import jsonschema
        jsonschema.validate(m, json.load(open("/root/.vp/MANIFEST.schema.json")))
        print("MANIFEST.json valid; claimed:", [c["property_id"] for c in checks])
    except ImportError:
        print("written (jsonschema not available for validation)")

if __name__ == "__main__":
    main()
