#!/usr/bin/env python3
"""Regenerates /verif/MANIFEST.json from the table below (kept in one place so
the manifest is always valid and in step with the checks that exist)."""
import json, os, sys

HERE = os.path.dirname(os.path.abspath(__file__))
ALL = ["C%02d" % i for i in range(1, 21)]

TRUST = ("Trusted: Go type checker, go/ssa, go/cfg, x/tools VTA call graph, the contracts of the Go "
         "standard library named in DESIGN.md §11. The check never executes goag's generated code.")

CHECKS = {
    "C12": dict(
        text="Static source/idiom enumeration over the generator: every nondeterminism source (range over map, "
             "maps.Keys/Values, go/select/channel, time/rand/env, pointer formatting) reachable from "
             "Generator.Generate*/main is an obligation that must match a neutralising idiom. Covers all specs and "
             "all runs (no corpus); this is a sufficient structural condition for determinism modulo the trusted "
             "libraries, not an observation of outputs.",
        note=TRUST + " Libraries (kin-openapi, yaml, imports, text/template) are assumed deterministic on deterministic input.",
        technique="static analysis: AST+types idiom rules over call-graph-reachable functions (go/packages, go/ssa, VTA)",
        design="§4 C12"),
}

CHECKS["C19"] = dict(
    text="Pairing/ownership analysis of goag.go on the CFG of the generating function (path-sensitive in the three controlling "
         "conditions): every owned file is written or removed on every success path with the documented polarity, the writer "
         "truncates, file-system mutators and reads reachable from Generate are exactly the enumerated sites. Holds for all "
         "invocation histories by induction over runs; it is a structural sufficient condition, not an observation of directories.",
    note=TRUST + " Successful runs only; byte-level idempotence additionally relies on C12.",
    technique="static analysis: go/cfg path-sensitive typestate (written/removed per owned file) + who-may-call over the VTA call graph",
    design="§4 C19")
CHECKS["C13"] = dict(
    text="SSA value-flow: the text after `const SpecFile string = ` is strconv.Quote of a value that traces back through parameters, "
         "closure captures and string/[]byte conversions only to os.ReadFile(spec file) — clause (a) for ALL byte strings is thereby "
         "delegated to strconv.Quote's contract. Serving clause: structural rules on the generated router of every corpus program "
         "(spec branch precedes routing and middlewares; handler writes the package-level []byte(SpecFile) once).",
    note=TRUST + " strconv.Quote denotes exactly its input; gofmt does not alter string literals.",
    technique="static analysis: backward SSA value-flow (go/ssa + VTA callers) and AST shape rules on instantiated router code",
    design="§4 C13")

CHECKS["C01"] = dict(
    text="All specs/flags (S1): SSA rule that every file write on the generation path writes the formatter's (imports.Process) output on its "
         "success branch and that a formatter failure returns an error — so success implies syntactically valid, gofmt-stable files by go/format's "
         "contract; error-propagation discipline in goag/cmd; O_TRUNC; one naming function per parameter location on handler and client side. "
         "Type-correctness of the composed template output is NOT decidable statically here and is sampled: every corpus program instantiated from "
         "the current templates must parse, be gofmt-idempotent and type-check.",
    note=TRUST + " go/format emits valid gofmt-stable Go. Clause (b) (type-checks) is corpus-bounded.",
    technique="static analysis: SSA dominance/value rules + AST error-discipline lint on the generator; go/types over instantiated corpus packages",
    design="§4 C01")

S3NOTE = (" Programs quantifier: the generated packages analysed are instantiated from the CURRENT templates/generator for the repo's 43 specs plus /verif/corpus "
          "(template define coverage is reported in evidence); within each program the rule covers all requests/values/paths. Generated code is never executed.")
CHECKS["C03"] = dict(
    text="Decompile-to-model: every route* function of every instantiated program is turned by a total recogniser into a trie model, which is compared with a reference "
         "matcher built from the spec by an oracle independent of goag on an exhaustive space of abstract requests (all segment lists up to depth+1 over the spec's literals, "
         "a fresh literal and the empty segment x methods x base-path near-misses). ServeHTTP is recognised structurally.",
    note=TRUST + S3NOTE, technique="static analysis: AST/type-based decompilation of generated router to a finite model + exhaustive model-vs-oracle comparison", design="§4 C03")
CHECKS["C11"] = dict(
    text="Per program: authenticator types are mapped to the credential they read by decompiling their Auth method; the OR-combinator is recognised statement by statement "
         "(next served exactly once, only after an accept, with the authenticator's request; else 401); for every operation leaf of the route model the credential set of its "
         "authenticator list equals the effective requirement computed by the independent oracle. Holds for all credential combinations of each program.",
    note=TRUST + S3NOTE, technique="static analysis: AST decompilation of generated auth code + set comparison with spec oracle", design="§4 C11")
CHECKS["C14"] = dict(
    text="Panic-obligation enumeration over every function of every instantiated package: index/slice sites discharged by the Go compiler's prove pass (check_bce residue) or by "
         "checked guard idioms; no unchecked assertion/panic/variable division; map stores dominated by make; dynamic callees never from lookups; WriteHeader exactly once per "
         "writer path (CFG min/max); ServeHTTP/authMiddlewareOr fully recognised; parser returns value xor error.",
    note=TRUST + S3NOTE + " The compiler's prove pass is trusted as a sound discharger.", technique="static analysis: obligation enumeration on AST/SSA + compiler prove pass (check_bce) + go/cfg path counting", design="§4 C14")
CHECKS["C16"] = dict(
    text="Structural analysis of API.ServeHTTP (total recogniser): reverse index loop over rt.Middlewares inside `if hasPath` only, template stored in context before wrapping, "
         "spec/not-found bypass; from the route model every operation leaf returns hasPath=true with its template and every CORS leaf false. Parametric in stack length; all requests.",
    note=TRUST + S3NOTE, technique="static analysis: AST shape recognition of generated dispatcher + route-model leaf table", design="§4 C16")
CHECKS["C17"] = dict(
    text="CORS leaves of the decompiled route model compared, as duplicate-free sets, with the path item's declared methods and canonicalised header parameters + security headers "
         "computed by the independent oracle; declared OPTIONS never shadowed; nil-handler guard present; no CORS artefacts when disabled.",
    note=TRUST + S3NOTE, technique="static analysis: route-model evaluation + set comparison with spec oracle", design="§4 C17")
CHECKS["C20"] = dict(
    text="SSA scan of all functions of all instantiated packages for shared mutable state: package variables stored only in init and otherwise only loaded for read-only uses, "
         "no stores through the shared API/Client receivers, no goroutines/sync, writer methods only on request-local storage. Absence of shared writes is sufficient for "
         "race-freedom and isolation under every schedule (Go memory model); schedules themselves are not enumerated.",
    note=TRUST + S3NOTE, technique="static analysis: SSA effect/ownership scan (stores, map updates, address escapes) with positive witnesses", design="§4 C20")

CHECKS["C15"] = dict(
    text="Generator-side (S1) crash-freedom rules for every loader-accepted document: optional kin-openapi members (table derived from the openapi3 type declarations minus loader "
         "guarantees) are nil-tested before any dereference, with an interprocedural fixed point for callees that dereference parameters; no unchecked type assertion; explicit "
         "panics only reachable through text/template (which recovers them); every index/slice site proven by the compiler or a checked idiom; main exits non-zero on error. "
         "Termination and message quality are not decided.",
    note=TRUST + " kin-openapi's loader guarantees (non-nil *Ref wrappers with non-nil Value) are assumed; text/template's safeCall recovers panics.",
    technique="static analysis: SSA dominance-based nil-guard rule with interprocedural summaries + compiler prove pass residue + call-graph confinement", design="§4 C15")

CHECKS["C04"] = dict(
    text="Every generated request parser is decomposed exactly at the top level; each query/header parameter block is decided by a path-sensitive typestate analysis over its CFG "
         "(finite state: present / cardinality / conversion-failed / stored) plus def-use provenance: absent+required, repeated scalar and failed conversion must end in an error "
         "naming the parameter; absent optional stores nothing; a present value is stored only into its own field, through the converter (callee + bit size/base/layout constants) "
         "the declared type demands; blocks are in bijection with the declared parameters (independent oracle). The exact lexical space of strconv/time is their contract, not decided.",
    note=TRUST + S3NOTE, technique="static analysis: go/cfg path-sensitive typestate + def-use provenance + table comparison with spec oracle", design="§4 C04")
CHECKS["C05"] = dict(
    text="The path section of every generated parser is decompiled to a strip/extract pattern that must equal base path + template of the operation its handler type declares, with the "
         "router's base constant and the dispatching leaf's template cross-checked (two independently generated siblings); every extraction rejects the empty segment naming the "
         "parameter and converts through the declared converter (same typestate machinery as C04). Together with C03 this ties each value to the segment at its template position.",
    note=TRUST + S3NOTE, technique="static analysis: AST decompilation to a path pattern + sibling cross-check + typestate/def-use on the conversion", design="§4 C05")

CHECKS["C02"] = dict(
    text="Per operation of every instantiated program: the response interface is sealed (only unexported methods); the implementer set computed with go/types method sets, reduced through "
         "write<Op> -> Write to (status, Content-Type, header keys/requiredness/formatters, body kind) rows, equals the documented response set from the independent oracle (incl. shared "
         "component responses and aliases, default <=> caller-supplied code); every Write is recognised completely with header-before-status-before-body order. Covers all response "
         "values of each type (the rows do not depend on values); body value conformance is C07.",
    note=TRUST + S3NOTE, technique="static analysis: go/types implementer sets + AST decompilation of response writers + table comparison with spec oracle", design="§4 C02")

CHECKS["C09"] = dict(
    text="Sibling cross-check of the two independently generated implementations of the request wire format: every client method and the matching server parser are decompiled; rows must "
         "agree on (location, name) and on the struct field (types.Var identity), the URL must follow the template, client formatter and server converter must be an inverse pair with "
         "equal bit size/layout, optional <=> guarded on the client and not required on the server, JSON/raw body handled symmetrically, path values escaped. This is the codec-level "
         "necessary condition of the round trip for all parameter values; validity under an external validator and escaping of runtime strings are NOT decided.",
    note=TRUST + S3NOTE + " strconv/time Format and Parse round-trip for equal bit size/layout (library contract).",
    technique="static analysis: AST decompilation of client and server + table/inverse-pair cross-check", design="§4 C09")
CHECKS["C10"] = dict(
    text="Every client status switch is decompiled and cross-checked with the server's response writers (C02 rows) and the spec oracle: case constants = documented statuses, arm type "
         "identical to the server type writing that status for this operation, typed default with Code iff documented (else error), header rows equal (key, field, required) with the "
         "client parser inverse to the server formatter and the request-parsing typestate obligations, body decoded/handed over symmetrically. Covers all statuses and response values "
         "at the table level; equality of body values is C06/C08.",
    note=TRUST + S3NOTE, technique="static analysis: AST decompilation of client response arms + typestate + cross-check with server writer rows", design="§4 C10")

CHECKS["C06"] = dict(
    text="Round-trip VALUE equality quantifies over runtime values and is not decided. Decided for every generated object codec, for all values: (1) JSON separator typestate of the hand-rolled "
         "writer (members via writeProperty, embedded allOf members via the member type's own writer: where they may stand and when the separator advances); (2) key quoting (JSON-safe "
         "constants / runtime keys through a JSON quoting function); (3) writer/reader key-table agreement (same keys on the same struct fields, required/optional, IsSet, null, embedded order, "
         "additionalProperties). These are necessary conditions of the property: breaking any of them yields invalid JSON or a value that does not survive the round trip.",
    note=TRUST + S3NOTE + " Everything delegated to encoding/json (scalar rendering, RawMessage) is trusted.",
    technique="static analysis: abstract interpretation (separator typestate) of generated encoders + reader/writer table agreement", design="§4 C06")
CHECKS["C07"] = dict(
    text="Schema-to-type walk from every JSON body site (response Write -> writeJSON(r.Body), parser -> Decode(&params.Body)) and component schema: at each position the generated writer key table "
         "and Go type are compared with the schema from the independent oracle (exact key spelling, required <=> unconditional, optional <=> Maybe guard, null <=> nullable, base type per "
         "type/format, nil-slice normalisation, allOf merge into one object, additionalProperties). Table level for all values; scalar value formats belong to encoding/json.",
    note=TRUST + S3NOTE, technique="static analysis: type/schema structural walk + writer key-table comparison with spec oracle", design="§4 C07")
CHECKS["C08"] = dict(
    text="Losslessness on all valid documents is a value-level clause and is not decided. Decided at every schema position: reader key table vs schema (every declared key looked up; required <=> "
         "missing-key error naming it; null handling; leftovers collected <=> additionalProperties, each into a fresh variable; embedded members), strict error discipline inside each key block "
         "(every decode error returned with the key named, decode reads this key's raw value), oneOf discriminator switch = schema mapping (explicit + implicit) with error default / one probe "
         "per variant, and JSON request bodies decoded into params.Body with the error returned.",
    note=TRUST + S3NOTE, technique="static analysis: AST decompilation of generated decoders + table comparison with spec oracle", design="§4 C08")

CHECKS["C18"] = dict(
    text="Relational check on pairs of generated programs: for every corpus/fixture spec with references the tool derives the inline form (kin-openapi's resolved tree, references cleared, unused "
         "components dropped), instantiates both from the current templates and requires equality of name-erased wire-level tables: route leaves with security credential sets, parameter rows "
         "(name, required, array, converter constants, Go base type), path patterns, response rows (Content-Type, header keys/optional/formatters, body kind) and JSON written/accepted "
         "signatures at every body site (allOf flattened). Both forms must also be accepted/compile alike. Table-level abstraction of 'behaviour on the wire'; value formatting below the tables "
         "is not decided; hoist rewrites are not generated.",
    note=TRUST + S3NOTE + " Specs using x-goag-go-type are skipped (hand-written helper types are tied to component names).",
    technique="static analysis: pairwise comparison of decompiled wire tables of two instantiated programs (ref form vs tool-derived inline form)", design="§4 C18")

NA_REASON = {}
DEFAULT_NA = "not claimed yet: static checker for this property is still under construction (design in DESIGN.md §4)"

# texts added for the rules built in rounds 2 and 3 (appended to the level text)
EXTRA_TEXT = {
 "C06": " Added in rounds 2-3: (4) date-time properties are formatted and parsed with the layout the schema demands (RFC3339Nano unless x-goag-go-time-format); (5) every looked-up key is deleted from the shared raw map before a later additionalProperties collector ranges over it (flattened through allOf delegation); (6) a set nullable array is nil-normalised; (7) integers are not decoded through float variables; (8) null tests are exactly string(raw)==\"null\" (truth table over their two atoms); (9) every MarshalJSON has a value receiver; (10) fresh-element: decoder loops decode into storage that is fresh per element; the separator writer is judged by an abstract execution of its Write over all input classes.",
 "C07": " Added: the JSON body helper is exactly json.NewEncoder(w).Encode(v); every MarshalJSON has a value receiver; a component that is a bare $ref to another delegates both JSON methods to it.",
 "C13": " Added: fmt.Sprintf with a single %q is accepted as the literal producer; a field-based step in the bytes flow; every parameter of package goag's functions on the generation path is used (no flag silently replaced).",
 "C14": " Added: value-dependent panics of make/Grow/Repeat/MustCompile with a computed argument; func- or interface-typed fields of package structs are nil-tested before they are called unless every in-package construction sets them; bounds inside splitPath and the path-segment extraction are proven by a case-partitioned evaluation (strcut) whatever their spelling; a witness package is flagged on every run.",
 "C15": " Added: schema-ref-phase (Schema methods that follow Ref into a possibly unfilled component are guarded by Ref == nil in the construction phase); template-nil-chain (typed templates: a field chain through an optional pointer stands under an if/with/and guard of that prefix or a call-site guarantee); the exit-code rule follows Generate* errors interprocedurally to a fatal exit; error-reaches-exit is the failure-flow reading of the driver interpreter (a failure overwritten by a later success in a helper closure is reported); optional-deref also covers goag's own model: a nillable field of a specification struct that is only assigned below a nil test is an optional source for its readers.",
 "C12": " Added: the keyed-build exemption of map-range requires that the range key is not reassigned in the loop body; comparator sorts count only when the comparator is a plain element comparison; hash/maphash and package-level initialisers are scanned; FuncMap functions are resolved from the literal; the per-spec loop of --dir carries no variable between iterations; file-system reads are classified by role.",
 "C19": " Added: the re-run clause is decided here as well (C12's order/environment/state enumeration under C19 rule names). Round 3: events, polarity and remove errors are read off a path-sensitive abstract interpretation of the driver (fsinterp: helpers and closures inlined, constant lists unrolled, os.Remove with nil / not-exist / real-failure outcomes), so the verdict does not depend on how the code is factored.",
 "C11": " Added: the OR-combinator is interpreted path by path (authcomb), authenticators by value flow; known findings carry the authenticator set observed today as `match`.",
 "C16": " Added: own-template (the leaf reached for an instance of a declared template returns exactly that template); the middleware loop is recognised by its index progression (revloop) in any spelling.",
 "C03": " The splitter's contract is decided by a case-partitioned evaluation of its body (strcut), not by its spelling.",
 "C05": " The segment extraction is decided by the same case-partitioned evaluation (strcut).",
 "C09": " Added: the client formats date-time parameters with the declared layout; a slice stored into the query map is not re-sliced or overwritten afterwards (shared backing array); the URL may be built through strings.Builder, query rows through a local closure, headers through a table of rows (views).",
 "C04": " Added: fresh-element (every loop that parses the elements of an array parameter parses into storage that is fresh per element).",
 "C10": " Added: a response-header lookup may index the header map with a constant key exactly when the key is in canonical form (directly or behind a one-expression helper); a raw body handed to the caller is never closed by the client (default arms included).",
 "C01": " Added: fmt-or-error follows formatter wrappers and parameters to their call sites; err-propagation is the failure-flow reading of the driver interpreter (every error-returning call forks, a failed path must end in an error exit), including closures that assign an outer err.",
 "C08": " Added in round 3: fresh-element (every decoder loop decodes into a variable declared in the loop body or reset before the decode, because json.Unmarshal and the generated UnmarshalJSON merge into their target); date-time properties are parsed and re-encoded with the layout the schema demands; alias components are followed to their target's decoder. Witness package flagged on every run.",
 "C20": " Added in round 3: shared-data-read-only (no store, map update, append, copy or in-place library mutation such as slices.Reverse/sort through a reference rooted in the shared API/Client receiver or in a value receiver's data, followed through parameters of in-package callees and closure captures).",
 "C18": " Added: the JSON write signature records for inline array properties as well as for array components whether a nil slice is written as [].",
}

def main():
    checks = []
    for pid in ALL:
        c = CHECKS.get(pid)
        if not c:
            continue
        checks.append({
            "property_id": pid,
            "quick_cmd": "./check.sh %s quick" % pid,
            "thorough_cmd": "./check.sh %s thorough" % pid,
            "evidence_file": "/verif/evidence/%s.json" % pid,
            "replay_cmd_template": "cat {path}; ./check.sh %s quick" % pid,
            "engine": "verif",
            "level_claimed": {"category": "other", "text": c["text"] + EXTRA_TEXT.get(pid, ""), "design_ref": "DESIGN.md " + c["design"]},
            "level_note": c["note"],
            "technique": c["technique"],
        })
    na = [{"property_id": p, "reason": NA_REASON.get(p, DEFAULT_NA)} for p in ALL if p not in CHECKS]
    m = {
        "version": 1,
        "setup_cmd": "./setup.sh",
        "hooks": {
            "guard": "verif",
            "enable": "no hooks are needed: checks analyse source and use goag's existing TEMPLATE_DEBUG switch; build tag `verif` guards nothing",
            "baseline_off_cmd": "cd /repo && GOFLAGS=-mod=mod GOPROXY=off GOSUMDB=off go test -vet=off -count=1 ./...",
            "source_commits": [],
            "add_only": True,
        },
        "engines": [{
            "name": "verif", "path": "/verif/tool",
            "serves_properties": [c["property_id"] for c in checks],
            "kind_free_text": "purpose-built Go static analyser (go/packages + go/types + go/cfg + go/ssa + VTA call graph + text/template/parse) for vkd/goag: analyses the generator source, its templates, and the Go packages instantiated from the current templates; never runs generated code",
        }],
        "checks": checks,
        "not_applicable": na,
        "notes": "All checks: ./check.sh <id> <tier>. Known findings: /verif/known_findings.json. Seeded breaking changes: /verif/seeded/.",
    }
    with open(os.path.join(HERE, "MANIFEST.json"), "w") as f:
        json.dump(m, f, indent=1)
        f.write("\n")
    try:
        import jsonschema
        jsonschema.validate(m, json.load(open("/root/.vp/MANIFEST.schema.json")))
        print("MANIFEST.json valid; claimed:", [c["property_id"] for c in checks])
    except ImportError:
        print("written (jsonschema not available for validation)")

if __name__ == "__main__":
    main()
