#!/usr/bin/env python3
"""One-off helper that inserted the 'As built' notes into DESIGN.md (kept for
reference; idempotent: it does nothing if the notes are already there)."""
import re

p = '/verif/DESIGN.md'
s = open(p).read()
if s.count('**As built') > 5:
    raise SystemExit('already applied')

s = s.replace('''**thorough** tier additionally enumerates machine-built specs:''', '''**As built.** 42 hand-written specs (flat directory): `route_*` (9: base path
none / `/` / trailing slash / variables / `--basepath` / percent-escaped;
literal-vs-variable siblings to depth 5; node without leaf; root variable;
literal sorting after `{`; all nine methods), `param_*` (6: every scalar kind x
required/optional in query and header, arrays, every kind as path parameter
under a base path, schema `$ref`s and component-parameter `$ref`s, path-item
level overridden at operation level, header arrays with the client off),
`resp_*` (3: status sets with/without default, six header kinds, JSON / raw /
`+json` / empty bodies, shared component responses incl. aliases and trailing
slash paths, unreferenced component response), `json_*` (9: all property kinds
required/optional/nullable, nested inline objects, maps, `any`, allOf in three
orders, oneOf with/without discriminator and partial mapping, `$ref` to
primitive/array/nullable components, multi-line descriptions), `sec_*` (6) and
`cors_*` (3) as planned, `spec_*` (3: CRLF, one-line JSON with backslash and
backticks, markdown fences) and `neg_*` (2: one known C01 finding, one spec the
generator must refuse). `ref_pairs` are derived at run time by C18 (not stored).
Define-level template coverage of fixtures + corpus: 61 defines emit markers
(reported per run in `analysed.template_defines_instantiated`).

**thorough** tier additionally enumerates machine-built specs (`gen.go`; as
built: all 300 pairs of templates of depth <=2 and 900 seeded pairs + 400 seeded
triples of depth <=3 over segments `{a, ~c, {x_i}, ""(last)}` with base path
none / `/v1` / `/api/v2`; an 18-spec parameter matrix kind x location x
required x {inline, schema `$ref`, parameter `$ref`} x {operation, path-item};
a 9-spec JSON matrix: 20 property kinds x required/optional x component/inline
body, five allOf orders). Original plan:''', 1)

notes = {
 'C01': "**As built.** `c01.go`, `c01_s3.go`, `fsrules.go`. Rules `fmt-or-error` (SSA dominance on `goag.WriteToFile`), `err-propagation` (AST discipline over all error-returning calls of packages goag and cmd/goag, 30+ sites, incl. the if/else-then-test idiom of `main`), `truncate`, `name-slots`, `corpus-typecheck` (plain generator output, `go/format` idempotence + go/types). `single-writer` is covered by C19/owner-only. Repaired: `WriteToFile` swallow (cf2074d), header `Title` vs `PublicFieldName` (4041371 - repaired after all: using `Title` on the client side only changes output that did not compile), query-only apiKey helpers (9f49782), duplicate `qv` (6ac7c73), multi-line description (ee3b700), nullable numeric `v := v` (a2b034e, 64e1b75), property `$ref` to primitive (93385ab). Known finding: `neg_resp_alias_inline_body`.",
 'C02': "**As built.** `resp_model.go`, `c02.go`. As designed; header rows additionally carry the formatter (callee + constants) and a def-use check that the emitted values come from the response's own header field. `neg_resp_default_and_numbered` (expect: generator error) guards the ParseSwagger rejection: if the generator ever accepts it, the impl-set rule sees a numbered status written from `r.Code`.",
 'C03': "**As built.** `router_model.go`, `c03.go`. The abstract request space is explored as a tree of segment lists with two-sided viability pruning (a prefix is extended while some template has it as a proper prefix *or* some route function of the model would still be entered; below a prefix dead on both sides every longer request misses on both sides because each route function consumes exactly one segment) - exhaustive to depth+1 at about 5 s. Reference semantics chosen: a variable matches any single segment *including the empty one* (C05 makes the parser reject it), segment counts must be equal, the method is part of the match (so a literal path without the method falls back to a templated sibling that has it - this is what goag's back-tracking arm does and what the statement's wording admits). Repaired: exhausted path accepted by a trailing variable (28bfa0f), base path `/` or with trailing slash (bf23c94).",
 'C04': "**As built.** `params_model.go`, `c0405.go`. Instead of enumerating every snippet composition syntactically, each parameter block is decided by a **path-sensitive typestate analysis over its go/cfg graph** (finite state: present / cardinality / conversion-failed / stores) with branch refinement on `ok`, `len(v) <op> k`, `err != nil` (x/tools v0.29 go/cfg keeps `a && b` as one condition node, handled explicitly), plus flow-insensitive def-use provenance and an allow-list of calls on the value path. The top-level structure of the parser is still recognised exactly. This made the rule robust to the Optional/Nullable/Custom/Ref wrapper compositions while still catching a lost `len == 1` test (seed C04-1), a wrong bit size, a foreign call (`url.PathUnescape`, seed C05-2) and a wrong header key.",
 'C05': "**As built.** `c0405.go`. As designed; the link leaf -> handler field -> handler func type -> `Path()`/`Method()` constants -> `new<Op>Params` is followed through go/types, so a leaf dispatching the wrong handler is reported (`C05/leaf-template`).",
 'C06': "**As built.** `json_model.go`, `c060708.go`. `json-typestate`, `json-quoting`, `codec-agreement` as designed plus `oneof-arms` (schema mapping values <-> decoder arms) and an exact check of the `writeProperty` closure (every value reaches the output through `encoder.Encode` only; seed C07-2 added a `strconv.Quote` fast path). All three predicted defects were **repaired**: key quoting (256195d), allOf separators through a small `commaWriter` (900a45b); the typestate rule knows both the old idiom (fresh separator in the member's writer - only legal where nothing was emitted, forced comma only after an always-emitting member) and the new one.",
 'C07': "**As built.** `c060708.go` (`shapeWalker`, mode C07). Roots are the body sites found by the response and parser models plus component schemas by name. Additional rules: nil-slice normalisation for non-nullable arrays, named array components must bracket unconditionally (seed C18-2), an object schema standing at a type without generated codec is a violation (found: request bodies from `components/requestBodies` lost their codec - repaired for `$ref` schemas by 53f0ac1, recorded for inline schemas).",
 'C08': "**As built.** `c060708.go` (mode C08). Adds `DecodeTargets`: the variable handed to `json.Unmarshal` for a primitive property must have the admissible Go base type (seed C08-1 decoded integers through `json.Number`), and additional properties must be decoded into a variable declared inside the loop (seeds C06-2 / C08-3).",
 'C09': "**As built.** `client_model.go`, `c0910.go`. Field agreement is checked by `types.Var` identity (the client reads exactly the struct field the server stores for the same wire name). `url.PathEscape` is required for string and time values only (integer/float/bool text is URL-safe). Zero-argument accessor methods on the value (component/custom types) are accepted as transparent; any other call on the value path is reported.",
 'C10': "**As built.** `c0910.go`. The per-arm header blocks reuse the C04 typestate analysis (source = `resp.Header.Values(K)`, failure value `nil`). A `defer resp.Body.Close()` hoisted out of the arms (seed C10-1) is unrecognised structure, hence undecided, hence reported.",
 'C11': "**As built.** `c11.go`. `scheme-map` and `sec-set` as designed; `or-combinator` is an exact statement-by-statement AST recogniser of `authMiddlewareOr`, `middlewares` and `MiddlewareFunc.Middleware` rather than an SSA dominance rule (simpler, same obligations, any deviation is undecided and therefore reported). Repaired: bearer flag per path item (88f9f51). Known findings: AND-alternative (`sec_and`), http basic and oauth2 dropped silently (`sec_unsupported`).",
 'C12': "**As built.** `c12.go`, `fsrules.go`. As designed, plus three rules the seeded changes showed to be necessary conditions of 'output is a function of spec, config and flags only': `truncate` (a missing `O_TRUNC` makes bytes depend on the previous file), `fs-reads` (every file-system read on the generation path is allow-listed: spec, config, `--dir` listing; `imports.Process` must get an empty file name, otherwise goimports consults sibling files) and `global-state` (no store/map-update rooted at a package variable outside `init`: a process-wide cache makes `--dir` output depend on earlier specs). I3' accepts an error return inside a map range. All three predicted defects repaired (988c4ba, 3f0460c, e3a74b1).",
 'C13': "**As built.** `c13.go`, `c13_s3.go`. `bytes-flow`, `literal-by-quote`, `same-file` on SSA as designed; S3: `const-equals-file` (go/constant value of `SpecFile` = file bytes, incl. CRLF / backslash / backtick corpus), `serve` on the ServeHTTP model. Repaired: hand-rolled literal (6205e1f).",
 'C14': "**As built.** `c14.go`. (p1) uses the compiler's `check_bce` residue exactly as designed (on the corpus the residue maps to the idioms G1-G4/G6; positions that map to no index/slice node are inlined stdlib helpers and are counted, not judged); (p3) map stores: MakeMap dominance or the `if len(m) > 0 { X = make } ; for ... range m { X[k] = ... }` idiom; (p5) WriteHeader min/max path counting on go/cfg; (p7) dynamic callee classification (seed C14-2: handler table `map[string]func` indexed and called).",
 'C15': "**As built.** `c15.go`. `optional-deref` with go/ssa's missing CSE handled by access-path keys, loader guarantees derived by reading `swagger_loader.go` (nil `*...Ref` wrappers are rejected by the loader; nil `*PathItem`, `*MediaType`, `*ServerVariable` are not), callback parameters of the generic `NewMap*` helpers treated as map elements. Extra rules: `error-reaches-exit` (the C01 discipline under this property; seed C15-1 let `GenerateDir` continue after an error), `ref-value-phase` (typestate of the self-referential component maps: `Ref[T].Value()` must not be reachable from the callbacks that fill the map of the same kind - seed C15-2), `ref-recursion` (on the `SchemaRef.Ref != \"\"` branch of a constructor no call may re-enter it - a structural part of termination, seed C15-3). Repaired: nil schema (9d7e03c), server variables (0e3834f), null path item (e90988d), `NewCustomType` bounds (1ffd4a9). `PublicFieldName`'s `runes[li:ri+1]` is a confirmed exception with its invariant written next to it.",
 'C16': "**As built.** `c16.go` on the ServeHTTP model of `router_model.go` (exact six-statement recognition) and the leaf table.",
 'C17': "**As built.** `c17.go`; the CORS leaf of a path is found by evaluating the model on an instance of the path with OPTIONS, so shadowing by a more literal path is handled by the reference matcher.",
 'C18': "**As built.** `c18.go`. `inline(s)`: references cleared in paths (parameters, headers, request bodies, responses, schemas recursively; oneOf members and recursive back edges keep theirs), component sections that nothing references any more are dropped (otherwise the inline copy of a component collides with the component itself), re-marshalled as JSON. Specs using `x-goag-go-type` are skipped (hand-written helper types are tied to component names). Tables: route leaves + credential sets, parser rows, response rows, JSON written/accepted signatures with allOf flattened. Hoist rewrites are not generated. Known findings: inline oneOf body without codec, inline requestBodies schema without codec, doubly emitted nested inline type.",
 'C19': "**As built.** `c19.go`, `fsrules.go`. As designed (go/cfg walk with abstract state = per-file last event x assumed truth of the three controlling conditions), plus `reads-enumerated` (seed C19-2: goimports given the real file name reads sibling files of the output directory).",
 'C20': "**As built.** `c20.go`. As designed; `request-local` is subsumed by the classification of every package-variable use. Witness package `testdata/witness/c20` (counter, cache, lazy init, scribbling on the spec bytes, receiver writes, goroutine, mutex, writer on a global) must be flagged on every run.",
}
for pid, note in notes.items():
    m = re.search(r'^### ' + pid + r' — .*$', s, re.M)
    assert m, pid
    s = s[:m.end()] + "\n" + note + "\n" + s[m.end():]
open(p, 'w').write(s)
print('applied')
