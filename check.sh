#!/bin/sh
# usage: ./check.sh <Cnn> [quick|thorough]
# Builds the checker if needed (offline) and decides one property on the
# current /repo working tree. Exit 0 = held, 1 = VIOLATION printed.
set -u
cd "$(dirname "$0")"
export GOFLAGS=-mod=mod GOPROXY=off GOSUMDB=off GOTOOLCHAIN=local GOWORK=off
if [ ! -x bin/verif ] || [ -n "$(find tool -name '*.go' -newer bin/verif -print -quit 2>/dev/null)" ] || [ tool/go.mod -nt bin/verif ]; then
  mkdir -p bin
  (cd tool && go build -o ../bin/verif ./cmd/verif) || { echo "checker build failed" >&2; exit 2; }
fi
id="$1"; tier="${2:-${VERIF_TIER:-quick}}"
exec ./bin/verif check "$id" "$tier"
