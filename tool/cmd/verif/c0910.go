package main

// C09 — generated client and server agree on every request.
// C10 — generated client reconstructs every response.
// Sibling cross-checks between client.go and handler.go/components.go of the
// same program, plus the spec oracle.

import (
	"fmt"
	"go/types"
	"net/textproto"
	"regexp"
	"sort"
	"strings"
)

// inversePair: the formatter list (one side) and the converter list (other side) are inverse codecs.
func inversePair(formats []FormatCall, convs []ConvCall) (bool, string) {
	show := func() string {
		var fs, cs []string
		for _, f := range formats {
			fs = append(fs, f.Callee+"("+strings.Join(f.Consts, ",")+")")
		}
		for _, c := range convs {
			cs = append(cs, c.Callee+"("+strings.Join(c.Consts, ",")+")")
		}
		return "formatter [" + strings.Join(fs, "; ") + "] vs parser [" + strings.Join(cs, "; ") + "]"
	}
	if len(formats) != len(convs) {
		return false, "not an inverse pair: " + show()
	}
	for i := range formats {
		f, c := formats[i], convs[i]
		ok := false
		switch f.Callee {
		case "strconv.FormatInt":
			ok = c.Callee == "strconv.ParseInt" && len(f.Consts) == 2 && len(c.Consts) == 3 && f.Consts[1] == c.Consts[1]
		case "strconv.FormatFloat":
			ok = c.Callee == "strconv.ParseFloat" && len(f.Consts) == 4 && len(c.Consts) == 2 && f.Consts[3] == c.Consts[1] && f.Consts[2] == "-1"
		case "strconv.FormatBool":
			ok = c.Callee == "strconv.ParseBool"
		case "time.Time.Format":
			ok = c.Callee == "time.Parse" && len(f.Consts) == 1 && len(c.Consts) == 2 && f.Consts[0] == c.Consts[0]
		}
		if !ok {
			return false, "not an inverse pair: " + show()
		}
	}
	return true, ""
}

type clientProgram struct {
	*paramProgram
	Methods []*ClientMethod
	Writes  map[string]*RespWrite
}

func loadClientPrograms(r *Report, prefix string) (*S3, []*clientProgram) {
	s3, pps := loadParamPrograms(r, prefix)
	if s3 == nil {
		return nil, nil
	}
	var out []*clientProgram
	for _, pp := range pps {
		if pp.P.Pkg.Types.Scope().Lookup("Client") == nil {
			continue // generated without client
		}
		out = append(out, &clientProgram{paramProgram: pp, Methods: clientMethods(pp.P), Writes: respWrites(pp.P)})
	}
	return s3, out
}

func handlerFor(cp *clientProgram, m *ClientMethod) *handlerInfo {
	for _, h := range cp.Handlers {
		if h.RespIface != nil && types.Identical(h.RespIface, m.RespIface) {
			return h
		}
	}
	return nil
}

var varSegRe = regexp.MustCompile(`\{[^}]*\}`)

func runC10(r *Report) {
	r.Explanation = "For every client method of every instantiated program the status switch is decompiled and cross-checked against the server's response writers (the C02 rows of the same program) and the spec oracle: the case constants equal the operation's documented numbered statuses; each arm declares a value of exactly the type (types.Identical) whose Write emits that status for this operation; a default arm builds the default response type and copies resp.StatusCode into Code iff the operation documents `default`, otherwise it returns (nil, error) — an undocumented status can never come back as a documented type; per arm the header rows (key, struct field identity, required) equal the server's emitted rows and the client parser is the inverse of the server formatter (same bit size / layout), analysed with the same path-sensitive typestate as request parsing (required & absent, repeated scalar, failed conversion ⇒ error); body: JSON ⇔ json.NewDecoder(resp.Body).Decode(&response.Body) with the error returned, raw ⇔ response.Body = resp.Body and the body is not closed in that arm."
	r.Rule("C10/structure", "the client method is recognised completely (URL, query, body, headers, Do, status switch)")
	r.Rule("C10/status-table", "case constants = documented numbered statuses; arm type identical to the server type writing that status for this operation")
	r.Rule("C10/default", "default arm ⇔ documented default (typed, Code := resp.StatusCode); otherwise (nil, error)")
	r.Rule("C10/headers", "per arm: header rows equal the server Write rows (key, field, required), parser inverse to the server formatter, typestate obligations hold")
	r.Rule("C10/body", "JSON ⇔ decoded into response.Body with error returned; raw ⇔ resp.Body handed over unclosed; none ⇔ neither")
	r.Assumptions = append(r.Assumptions, "equality of decoded body VALUES is C06/C08 territory", "strconv/time Format∘Parse round-trip exactly for equal bit size/layout (library contract)", "programs bounded by the corpus")
	s3, cps := loadClientPrograms(r, "C10")
	if s3 == nil {
		return
	}
	defer s3.Close()
	nM, nArms, nHdr := 0, 0, 0
	for _, cp := range cps {
		p := cp.P
		ops := opByKey(cp.O)
		for _, m := range cp.Methods {
			key := p.Name + ":Client." + m.Name
			pos := s3.pos(m.Decl.Pos())
			nM++
			if len(m.Undecided) > 0 {
				r.Undecided("C10/structure", key, pos, strings.Join(m.Undecided, "; ")+" (template define "+p.Provenance(s3, m.Decl.Body.Pos()+1)+")")
				continue
			}
			h := handlerFor(cp, m)
			if h == nil {
				r.Undecided("C10/structure", key, pos, "no handler type shares the method's response interface")
				continue
			}
			op := ops[h.Method+" "+h.Path]
			if op == nil {
				r.Undecided("C10/structure", key, pos, "no declared operation for "+h.Method+" "+h.Path)
				continue
			}
			r.OK("C10/structure", key, pos, "")
			impls := respImplementers(p, h.RespIface, cp.Writes)
			byStatus := map[string]*RespImpl{}
			for _, im := range impls {
				if len(im.Undecided) == 0 && len(im.W.Undecided) == 0 {
					byStatus[im.Status] = im
				}
			}
			want := map[string]bool{}
			hasDefault := false
			for _, ro := range op.Responses {
				if ro.Status == "default" {
					hasDefault = true
				} else {
					want[ro.Status] = true
				}
			}
			seen := map[string]bool{}
			checkArm := func(arm *ClientArm, status string) {
				nArms++
				ak := key + ":case " + status
				apos := s3.pos(arm.Pos)
				if len(arm.Undecided) > 0 {
					r.Undecided("C10/structure", ak, apos, strings.Join(arm.Undecided, "; "))
					return
				}
				im := byStatus[status]
				if im == nil {
					r.Undecided("C10/status-table", ak, apos, "no recognised server-side response type writes status "+status+" for this operation")
					return
				}
				if arm.Type == nil || !types.Identical(types.Unalias(arm.Type), im.W.Type) {
					r.Violation("C10/status-table", ak, apos, fmt.Sprintf("status %s is returned to the caller as %s, but the server writes it from %s: a response comes back as the wrong documented kind", status, arm.TypeName, im.W.TypeName))
					return
				}
				r.OK("C10/status-table", ak, apos, arm.TypeName)
				// body
				switch {
				case arm.Body != im.W.Body:
					r.Violation("C10/body", ak, apos, "client handles the body as "+arm.Body+" but the server writes "+im.W.Body)
				case arm.Body == "raw" && arm.ClosesBody:
					r.Violation("C10/body", ak, apos, "the raw body handed to the caller is closed by the client before the caller can read it")
				default:
					r.OK("C10/body", ak, apos, arm.Body)
				}
				// headers
				srv := map[string]RespHeaderRow{}
				for _, hr := range im.W.Headers {
					srv[textproto.CanonicalMIMEHeaderKey(hr.Key)] = hr
				}
				var problems []string
				got := map[string]bool{}
				for _, row := range arm.Rows {
					nHdr++
					ck := textproto.CanonicalMIMEHeaderKey(row.Key)
					if len(row.Undecided) > 0 {
						problems = append(problems, "header "+row.Key+": "+strings.Join(row.Undecided, "; "))
						continue
					}
					sh, ok := srv[ck]
					if !ok {
						problems = append(problems, "client reads header "+row.Key+" which the server never writes for this response")
						continue
					}
					got[ck] = true
					if len(row.Problems) > 0 {
						problems = append(problems, "header "+row.Key+": "+strings.Join(row.Problems, "; "))
					}
					if row.Field != sh.Field {
						problems = append(problems, fmt.Sprintf("header %s is stored into field %s but the server emits it from field %s", row.Key, nameOfVar(row.Field), nameOfVar(sh.Field)))
					}
					if row.Required == sh.Optional {
						problems = append(problems, fmt.Sprintf("header %s: server writes it %s but the client treats it as required=%v", row.Key, map[bool]string{true: "only when set", false: "always"}[sh.Optional], row.Required))
					}
					if !strings.HasPrefix(strings.Join(row.OtherCalls, ","), "custom:") {
						if ok, why := inversePair(sh.Formats, row.Convs); !ok {
							problems = append(problems, "header "+row.Key+": "+why)
						}
					}
					if row.Array != sh.Array && len(sh.Formats) > 0 {
						problems = append(problems, "header "+row.Key+": array on one side only")
					}
				}
				for ck := range srv {
					if !got[ck] {
						problems = append(problems, "server writes header "+ck+" which the client never reads")
					}
				}
				if len(problems) > 0 {
					sort.Strings(problems)
					r.Violation("C10/headers", ak, apos, strings.Join(problems, "; "))
				} else {
					r.OK("C10/headers", ak, apos, fmt.Sprintf("%d headers", len(arm.Rows)))
				}
			}
			for _, arm := range m.Arms {
				if seen[arm.Status] {
					r.Violation("C10/status-table", key+":case "+arm.Status, s3.pos(arm.Pos), "duplicate case")
					continue
				}
				seen[arm.Status] = true
				if !want[arm.Status] {
					r.Violation("C10/status-table", key+":case "+arm.Status, s3.pos(arm.Pos), "the client accepts status "+arm.Status+" which the operation does not document")
					continue
				}
				checkArm(arm, arm.Status)
			}
			for st := range want {
				if !seen[st] {
					r.Violation("C10/status-table", key+":case "+st, pos, "documented status "+st+" has no case in the client: it would be delivered through default / as an error")
				}
			}
			dk := key + ":default"
			switch {
			case m.Default == nil:
				r.Violation("C10/default", dk, pos, "status switch has no default arm")
			case hasDefault && m.Default.ErrorOnly:
				r.Violation("C10/default", dk, s3.pos(m.Default.Pos), "the operation documents a default response but undocumented statuses are returned as errors")
			case hasDefault:
				if !m.Default.CodeAssigned {
					r.Violation("C10/default", dk, s3.pos(m.Default.Pos), "default response does not receive resp.StatusCode in Code")
				} else {
					r.OK("C10/default", dk, s3.pos(m.Default.Pos), "typed default")
				}
				checkArm(m.Default, "default")
			case !m.Default.ErrorOnly:
				r.Violation("C10/default", dk, s3.pos(m.Default.Pos), "no default response is documented, yet an undocumented status is returned as a value of type "+m.Default.TypeName)
			default:
				r.OK("C10/default", dk, s3.pos(m.Default.Pos), "undocumented status ⇒ error")
			}
		}
	}
	r.Analysed["client_methods"] = nM
	r.Analysed["arms"] = nArms
	r.Analysed["response_header_rows"] = nHdr
	r.FloorMin("client methods", nM, 100)
	r.FloorMin("status arms", nArms, 150)
}

func nameOfVar(v *types.Var) string {
	if v == nil {
		return "<none>"
	}
	return v.Name()
}

func runC09(r *Report) {
	r.Explanation = "For every operation of every instantiated program the client method (client.go) and the request parser (handler.go) — two independently generated implementations of one wire format — are decompiled and cross-checked against each other and the spec oracle: same (location, wire name) rows; the client reads exactly the struct field (types.Var identity) the server stores for that name; URL literals and variable positions equal the template (the client does not add the base path: BaseURL is the caller's); each client formatter and server converter form an inverse pair from a fixed table (FormatInt(10)↔ParseInt(10,N), FormatFloat(-1,N)↔ParseFloat(N) with the same N, FormatBool↔ParseBool, Format(L)↔Parse(L) with the same layout constant, identity↔identity, element-wise for arrays); optional ⇔ the client writes the row only under Get() ok and the server leaves the field unset when absent; JSON body ⇔ json.Marshal(request.Body) of the very field the server decodes into, raw ⇔ reader passed through; path values are wrapped in url.PathEscape; no other call touches a value on its way to the wire."
	r.Rule("C09/structure", "client method recognised completely")
	r.Rule("C09/wire-names", "client rows and server rows agree on (location, name) and on the struct field; URL pattern equals the template; HTTP method equals the operation's")
	r.Rule("C09/codec-pairs", "client formatter and server converter are an inverse pair with equal bit size / layout")
	r.Rule("C09/presence", "optional ⇔ guarded by Get() on the client and not required on the server; required ⇔ unconditional")
	r.Rule("C09/body", "JSON ⇔ json.Marshal(request.Body) sent and decoded into the same field type; raw ⇔ reader on both sides")
	r.Assumptions = append(r.Assumptions,
		"clause (b) — validity of the wire request under an independent OpenAPI validator — is NOT decided (needs a validator run)",
		"reserved characters / percent-encoding (url.PathEscape, Values.Encode, header text) are net/url, net/http behaviour on runtime strings; time instants vs zones not judged",
		"programs bounded by the corpus")
	s3, cps := loadClientPrograms(r, "C09")
	if s3 == nil {
		return
	}
	defer s3.Close()
	nM, nRows := 0, 0
	for _, cp := range cps {
		p := cp.P
		ops := opByKey(cp.O)
		for _, m := range cp.Methods {
			key := p.Name + ":Client." + m.Name
			pos := s3.pos(m.Decl.Pos())
			nM++
			if len(m.Undecided) > 0 {
				r.Undecided("C09/structure", key, pos, strings.Join(m.Undecided, "; ")+" (template define "+p.Provenance(s3, m.Decl.Body.Pos()+1)+")")
				continue
			}
			h := handlerFor(cp, m)
			var pm *ParserModel
			if h != nil {
				pm = cp.Parsers[h.Parser]
			}
			if h == nil || pm == nil || ops[h.Method+" "+h.Path] == nil {
				r.Undecided("C09/structure", key, pos, "no handler/parser/operation for this client method")
				continue
			}
			if len(pm.Undecided) > 0 {
				r.Undecided("C09/structure", key, pos, "server parser not recognised: "+strings.Join(pm.Undecided, "; "))
				continue
			}
			r.OK("C09/structure", key, pos, "")
			var problems []string
			if m.Method != h.Method {
				problems = append(problems, "client sends "+m.Method+", operation is "+h.Method)
			}
			// URL pattern
			if varSegRe.ReplaceAllString(m.URLPattern, "{}") != varSegRe.ReplaceAllString(h.Path, "{}") {
				problems = append(problems, fmt.Sprintf("client URL %q does not follow the template %q", m.URLPattern, h.Path))
			}
			srv := map[string]*ParamRow{}
			var srvPath []*ParamRow
			for _, row := range pm.Rows {
				if row.In == "path" {
					srvPath = append(srvPath, row)
				} else {
					srv[row.In+":"+textproto.CanonicalMIMEHeaderKey(row.Key)] = row
					if row.In == "query" {
						srv["query:"+row.Key] = row
					}
				}
			}
			var cliPath []*ClientReqRow
			seen := map[string]bool{}
			var codec, presence []string
			// the layout a date-time parameter is formatted with must be the declared one
			// (RFC3339Nano unless x-goag-go-time-format): the same coarser layout on both
			// sides is still an inverse pair on the wire, but drops the sub-second part
			declLayout := func(in, name string, formats []FormatCall) {
				for _, prm := range ops[h.Method+" "+h.Path].Params {
					if prm.In != in || !strings.EqualFold(prm.Name, name) || prm.Schema == nil || isCustom(prm.Schema) {
						continue
					}
					want := expectedFormat(prm.Schema)
					if len(want) == 1 && want[0].Callee == "time.Time.Format" {
						if ok, why := formatsEqual(formats, want); !ok {
							codec = append(codec, in+" "+name+": "+why)
						}
					}
				}
			}
			for _, row := range m.Rows {
				nRows++
				for _, pr := range row.Problems {
					codec = append(codec, row.In+" "+row.Key+": "+pr)
				}
				if row.In == "path" {
					cliPath = append(cliPath, row)
					continue
				}
				k := row.In + ":" + row.Key
				if row.In == "header" {
					k = row.In + ":" + textproto.CanonicalMIMEHeaderKey(row.Key)
				}
				sr := srv[k]
				if sr == nil {
					problems = append(problems, "client sends "+row.In+" "+row.Key+" which the server does not parse")
					continue
				}
				seen[k] = true
				if row.Field == nil || row.Field != sr.Field {
					problems = append(problems, fmt.Sprintf("%s %s: client reads field %s, server stores field %s", row.In, row.Key, nameOfVar(row.Field), nameOfVar(sr.Field)))
				}
				if !strings.HasPrefix(strings.Join(sr.OtherCalls, ","), "custom:") {
					if ok, why := inversePair(row.Formats, sr.Convs); !ok {
						codec = append(codec, row.In+" "+row.Key+": "+why)
					}
				}
				declLayout(row.In, row.Key, row.Formats)
				if row.Array != sr.Array {
					codec = append(codec, row.In+" "+row.Key+": array on one side only")
				}
				if row.Optional == sr.Required {
					presence = append(presence, fmt.Sprintf("%s %s: client %s, server required=%v", row.In, row.Key, map[bool]string{true: "sends it only when set", false: "always sends it"}[row.Optional], sr.Required))
				}
			}
			for k, sr := range srv {
				if !seen[k] && !(sr.In == "query" && seen["query:"+sr.Key]) {
					if sr.In == "query" && k != "query:"+sr.Key {
						continue
					}
					problems = append(problems, "server parses "+sr.In+" "+sr.Key+" which the client never sends")
				}
			}
			if len(cliPath) != len(srvPath) {
				problems = append(problems, fmt.Sprintf("client fills %d path variables, server extracts %d", len(cliPath), len(srvPath)))
			} else {
				for i := range cliPath {
					if cliPath[i].Field != srvPath[i].Field {
						problems = append(problems, fmt.Sprintf("path variable #%d: client writes field %s, server reads that segment into field %s", i+1, nameOfVar(cliPath[i].Field), nameOfVar(srvPath[i].Field)))
					}
					urlSafe := len(cliPath[i].Formats) > 0
					for _, f := range cliPath[i].Formats {
						if f.Callee == "time.Time.Format" {
							urlSafe = false
						}
					}
					if !cliPath[i].Escaped && !urlSafe {
						problems = append(problems, "path variable "+nameOfVar(cliPath[i].Field)+" is not passed through url.PathEscape")
					}
					declLayout("path", srvPath[i].Key, cliPath[i].Formats)
					if !strings.HasPrefix(strings.Join(srvPath[i].OtherCalls, ","), "custom:") {
						if ok, why := inversePair(cliPath[i].Formats, srvPath[i].Convs); !ok {
							codec = append(codec, "path "+srvPath[i].Key+": "+why)
						}
					}
				}
			}
			if len(problems) > 0 {
				sort.Strings(problems)
				r.Violation("C09/wire-names", key, pos, strings.Join(problems, "; "))
			} else {
				r.OK("C09/wire-names", key, pos, fmt.Sprintf("%d rows, URL %s", len(m.Rows), m.URLPattern))
			}
			if len(codec) > 0 {
				r.Violation("C09/codec-pairs", key, pos, strings.Join(codec, "; "))
			} else {
				r.OK("C09/codec-pairs", key, pos, "")
			}
			if len(presence) > 0 {
				r.Violation("C09/presence", key, pos, strings.Join(presence, "; "))
			} else {
				r.OK("C09/presence", key, pos, "")
			}
			// body
			wantBody := map[string]string{"json": "json", "reader": "reader", "": "none"}[pm.Body]
			if m.Body != wantBody {
				r.Violation("C09/body", key, pos, "client sends body kind "+m.Body+", server expects "+wantBody)
			} else {
				r.OK("C09/body", key, pos, m.Body)
			}
		}
	}
	r.Analysed["client_methods"] = nM
	r.Analysed["request_rows"] = nRows
	r.FloorMin("client methods", nM, 100)
	r.FloorMin("request rows compared", nRows, 150)
}
