package main

// client_model.go — decompiles the generated client methods
// `func (c *Client) <Op>(ctx, request <Op>Params) (<Op>Response, error)`:
// URL assembly, query rows, body, header rows, and the status switch with one
// arm per documented status. The header-parsing part of each arm reuses the
// typestate analysis of params_model.go.

import (
	"fmt"
	"go/ast"
	"go/constant"
	"go/token"
	"go/types"
	"net/textproto"
	"strconv"
	"strings"
)

type ClientReqRow struct {
	In        string // query | header | path
	Key       string
	Field     *types.Var
	Optional  bool
	Array     bool
	Formats   []FormatCall
	FromField bool
	Escaped   bool // path: wrapped in url.PathEscape
	Problems  []string
	Pos       token.Pos
}

type ClientArm struct {
	Status       string // "200" | "default"
	TypeName     string
	Type         types.Type
	Rows         []*ParamRow
	Body         string // json | raw | none
	ClosesBody   bool
	CodeAssigned bool
	ErrorOnly    bool // undocumented default: returns nil, error
	Pos          token.Pos
	Undecided    []string
}

type ClientMethod struct {
	Name       string
	Decl       *ast.FuncDecl
	ReqType    types.Type
	RespIface  types.Type
	Method     string
	URLPattern string
	Rows       []*ClientReqRow
	Body       string // json | reader | none
	Arms       []*ClientArm
	Default    *ClientArm
	Undecided  []string
}

func collectFormats(info *types.Info, n ast.Node) []FormatCall {
	var out []FormatCall
	ast.Inspect(n, func(x ast.Node) bool {
		call, ok := x.(*ast.CallExpr)
		if !ok {
			return true
		}
		if tv, ok := info.Types[call.Fun]; ok && tv.IsType() {
			return true
		}
		nm := calleeName(info, call)
		switch nm {
		case "strconv.FormatInt", "strconv.FormatFloat", "strconv.FormatBool", "strconv.Itoa", "time.Time.Format", "strconv.FormatUint":
			fc := FormatCall{Callee: nm}
			for _, a := range call.Args {
				if tv := info.Types[a]; tv.Value != nil {
					fc.Consts = append(fc.Consts, tv.Value.ExactString())
				} else if sel, ok := a.(*ast.SelectorExpr); ok {
					if k, ok := info.Uses[sel.Sel].(*types.Const); ok {
						fc.Consts = append(fc.Consts, k.Val().ExactString())
					} else {
						fc.Consts = append(fc.Consts, "_")
					}
				} else {
					fc.Consts = append(fc.Consts, "_")
				}
			}
			out = append(out, fc)
		}
		return true
	})
	return out
}

// unexpectedCalls lists calls in n that are neither formatters, conversions,
// transparent accessors of component types, nor the listed allowed names.
func unexpectedCalls(p *Program, n ast.Node, allowed map[string]bool) []string {
	info := p.Pkg.TypesInfo
	var out []string
	ast.Inspect(n, func(x ast.Node) bool {
		call, ok := x.(*ast.CallExpr)
		if !ok {
			return true
		}
		if tv, ok := info.Types[call.Fun]; ok && tv.IsType() {
			return true
		}
		nm := calleeName(info, call)
		switch nm {
		case "strconv.FormatInt", "strconv.FormatFloat", "strconv.FormatBool", "strconv.Itoa", "time.Time.Format", "len", "make", "append", "net/url.PathEscape":
			return true
		}
		if allowed[nm] {
			return true
		}
		if sel, ok := call.Fun.(*ast.SelectorExpr); ok {
			// x.Get() of Maybe; accessor of a named component type: func (c T) Xxx() Base { return Base(c) }
			if sel.Sel.Name == "Get" {
				return true
			}
			if fn, ok := info.Uses[sel.Sel].(*types.Func); ok && isTransparentAccessor(p, fn) {
				return true
			}
			// custom types (x-goag-go-type): user-provided zero-argument accessor (String/Int32/Int32s…) exposing the base value
			if fn, ok := info.Uses[sel.Sel].(*types.Func); ok && fn.Pkg() != nil && !strings.HasPrefix(fn.Pkg().Path(), "net/") && fn.Pkg().Path() != "strings" {
				if sig := fn.Type().(*types.Signature); sig.Recv() != nil && sig.Params().Len() == 0 && sig.Results().Len() == 1 {
					return true
				}
			}
		}
		if nm == "" {
			nm = types.ExprString(call.Fun)
		}
		out = append(out, nm)
		return true
	})
	return out
}

// isTransparentAccessor: func (c T) Name() Base { return Base(c) }
func isTransparentAccessor(p *Program, f *types.Func) bool {
	for _, file := range p.Pkg.Syntax {
		for _, d := range file.Decls {
			fd, ok := d.(*ast.FuncDecl)
			if !ok || p.Pkg.TypesInfo.Defs[fd.Name] != f || fd.Body == nil || fd.Recv == nil {
				continue
			}
			if len(fd.Body.List) != 1 || len(paramObjs(p.Pkg.TypesInfo, fd)) != 0 {
				return false
			}
			ret, ok := fd.Body.List[0].(*ast.ReturnStmt)
			if !ok || len(ret.Results) != 1 {
				return false
			}
			call, ok := ast.Unparen(ret.Results[0]).(*ast.CallExpr)
			if !ok || len(call.Args) != 1 {
				return false
			}
			if tv, ok := p.Pkg.TypesInfo.Types[call.Fun]; ok && tv.IsType() {
				return identObj(p.Pkg.TypesInfo, call.Args[0]) == recvObj(p.Pkg.TypesInfo, fd)
			}
			return false
		}
	}
	return false
}

func clientMethods(p *Program) []*ClientMethod {
	var out []*ClientMethod
	for _, f := range p.Pkg.Syntax {
		for _, d := range f.Decls {
			fd, ok := d.(*ast.FuncDecl)
			if !ok || fd.Recv == nil || fd.Body == nil || recvTypeName(fd) != "Client" {
				continue
			}
			sig, _ := p.Pkg.TypesInfo.Defs[fd.Name].Type().(*types.Signature)
			if sig == nil || sig.Params().Len() != 2 || sig.Results().Len() != 2 {
				continue
			}
			out = append(out, buildClientMethod(p, fd, sig))
		}
	}
	return out
}

// builderAsConcat: view of a statement list in which a local strings.Builder that is only fed by
// WriteString presents itself as string concatenation:
//
//	var u strings.Builder ; u.WriteString(a) ; u.WriteString(b)   →   u := a + b
//	u.WriteString(c) ; u.WriteString(d)   (later)                  →   u += c + d
//
// (`u.String()` readers are matched by the consumers). The tree is not changed.
func builderAsConcat(info *types.Info, list []ast.Stmt) []ast.Stmt {
	var b types.Object
	var declAt int
	for k, st := range list {
		ds, ok := st.(*ast.DeclStmt)
		if !ok {
			continue
		}
		gd, ok := ds.Decl.(*ast.GenDecl)
		if !ok || gd.Tok != token.VAR || len(gd.Specs) != 1 {
			continue
		}
		vs := gd.Specs[0].(*ast.ValueSpec)
		if len(vs.Names) != 1 || len(vs.Values) != 0 {
			continue
		}
		if o := info.Defs[vs.Names[0]]; o != nil && o.Type().String() == "strings.Builder" {
			b, declAt = o, k
			break
		}
	}
	if b == nil {
		return list
	}
	writeArg := func(st ast.Stmt) ast.Expr {
		es, ok := st.(*ast.ExprStmt)
		if !ok {
			return nil
		}
		call, ok := es.X.(*ast.CallExpr)
		if !ok || len(call.Args) != 1 {
			return nil
		}
		sel, ok := call.Fun.(*ast.SelectorExpr)
		if !ok || identObj(info, sel.X) != b {
			return nil
		}
		switch sel.Sel.Name {
		case "WriteString":
			return call.Args[0]
		case "WriteByte", "WriteRune":
			// a constant byte / rune is the one-character string
			if tv := info.Types[call.Args[0]]; tv.Value != nil && tv.Value.Kind() == constant.Int {
				if v, ok := constant.Int64Val(tv.Value); ok && v > 0 && v < 0x110000 {
					lit := &ast.BasicLit{ValuePos: call.Args[0].Pos(), Kind: token.STRING, Value: strconv.Quote(string(rune(v)))}
					info.Types[lit] = types.TypeAndValue{Type: types.Typ[types.String], Value: constant.MakeString(string(rune(v)))}
					return lit
				}
			}
		}
		return nil
	}
	// every other use of the builder must be u.String()
	okUses := true
	for _, st := range list {
		ast.Inspect(st, func(n ast.Node) bool {
			if sel, ok := n.(*ast.SelectorExpr); ok && identObj(info, sel.X) == b {
				if sel.Sel.Name != "WriteString" && sel.Sel.Name != "WriteByte" && sel.Sel.Name != "WriteRune" && sel.Sel.Name != "String" {
					okUses = false
				}
				return false
			}
			if id, ok := n.(*ast.Ident); ok && info.Uses[id] == b {
				okUses = false
			}
			return true
		})
	}
	if !okUses {
		return list
	}
	var out []ast.Stmt
	first := true
	for k := 0; k < len(list); k++ {
		if k == declAt {
			continue
		}
		arg := writeArg(list[k])
		if arg == nil {
			out = append(out, list[k])
			continue
		}
		sum := arg
		j := k + 1
		for j < len(list) {
			a2 := writeArg(list[j])
			if a2 == nil {
				break
			}
			be := &ast.BinaryExpr{X: sum, OpPos: a2.Pos(), Op: token.ADD, Y: a2}
			info.Types[be] = types.TypeAndValue{Type: types.Typ[types.String]}
			sum = be
			j++
		}
		id := &ast.Ident{NamePos: list[k].Pos(), Name: b.Name()}
		tok := token.ADD_ASSIGN
		if first {
			tok = token.DEFINE
			info.Defs[id] = b
			first = false
		} else {
			info.Uses[id] = b
		}
		out = append(out, &ast.AssignStmt{Lhs: []ast.Expr{id}, TokPos: list[k].Pos(), Tok: tok, Rhs: []ast.Expr{sum}})
		k = j - 1
	}
	return out
}

// expandVoidClosures: view of a statement list in which a local closure without result and without
// return statement, used only as the callee of statement calls, is expanded at those calls and its
// definition dropped (`setQuery := func(k string, v []string) { query[k] = v }` ; `setQuery("a", vs)`
// →  `query["a"] = vs`). Nested if / block bodies are rewritten as shallow copies; the tree is not changed.
func expandVoidClosures(p *Program, list []ast.Stmt) []ast.Stmt {
	info := p.Pkg.TypesInfo
	ic := p.inliner()
	// candidates defined in this list
	cands := map[types.Object]int{}
	for k, st := range list {
		as, ok := st.(*ast.AssignStmt)
		if !ok || as.Tok != token.DEFINE || len(as.Lhs) != 1 || len(as.Rhs) != 1 {
			continue
		}
		fl, ok := ast.Unparen(as.Rhs[0]).(*ast.FuncLit)
		if !ok || (fl.Type.Results != nil && fl.Type.Results.NumFields() > 0) {
			continue
		}
		if o := info.Defs[as.Lhs[0].(*ast.Ident)]; o != nil && ic.lits[o] == fl {
			cands[o] = k
		}
	}
	if len(cands) == 0 {
		return list
	}
	// every use must be the callee of an expression statement that expands
	okUse := map[types.Object]bool{}
	for o := range cands {
		okUse[o] = true
	}
	var checkUses func(n ast.Node)
	checkUses = func(n ast.Node) {
		ast.Inspect(n, func(x ast.Node) bool {
			if es, ok := x.(*ast.ExprStmt); ok {
				if call, ok := es.X.(*ast.CallExpr); ok {
					if o := identObj(info, call.Fun); o != nil {
						if _, isCand := cands[o]; isCand {
							if _, ok := ic.expandVoidCall(es); !ok {
								okUse[o] = false
							}
							for _, a := range call.Args {
								checkUses(a)
							}
							return false
						}
					}
				}
			}
			if id, ok := x.(*ast.Ident); ok {
				if o := info.Uses[id]; o != nil {
					if _, isCand := cands[o]; isCand {
						okUse[o] = false
					}
				}
			}
			return true
		})
	}
	for _, st := range list {
		checkUses(st)
	}
	var rewrite func(l []ast.Stmt) []ast.Stmt
	rewrite = func(l []ast.Stmt) []ast.Stmt {
		var out []ast.Stmt
		for _, st := range l {
			switch x := st.(type) {
			case *ast.AssignStmt:
				if x.Tok == token.DEFINE && len(x.Lhs) == 1 {
					if id, ok := x.Lhs[0].(*ast.Ident); ok {
						if o := info.Defs[id]; o != nil && okUse[o] {
							if _, isCand := cands[o]; isCand {
								continue // the definition
							}
						}
					}
				}
				out = append(out, st)
			case *ast.ExprStmt:
				if call, ok := x.X.(*ast.CallExpr); ok {
					if o := identObj(info, call.Fun); o != nil && okUse[o] {
						if _, isCand := cands[o]; isCand {
							if exp, ok := ic.expandVoidCall(x); ok {
								out = append(out, exp...)
								continue
							}
						}
					}
				}
				out = append(out, st)
			case *ast.IfStmt:
				cp := *x
				cp.Body = &ast.BlockStmt{Lbrace: x.Body.Lbrace, List: rewrite(x.Body.List), Rbrace: x.Body.Rbrace}
				if eb, ok := x.Else.(*ast.BlockStmt); ok {
					cp.Else = &ast.BlockStmt{Lbrace: eb.Lbrace, List: rewrite(eb.List), Rbrace: eb.Rbrace}
				}
				out = append(out, &cp)
			case *ast.BlockStmt:
				out = append(out, &ast.BlockStmt{Lbrace: x.Lbrace, List: rewrite(x.List), Rbrace: x.Rbrace})
			default:
				out = append(out, st)
			}
		}
		return out
	}
	return rewrite(list)
}

// rowsTableAsCalls: view of a statement list in which a local table of fixed-size rows that is only
// appended to and then applied by one loop presents itself as the calls the loop makes:
//
//	T := make([][2]string, 0, n) ; T = append(T, [2]string{a, b}) … ; for _, r := range T { f(r[0], r[1]) }
//	  →  f(a, b) at the position of every append (also inside if bodies), in the same order
//
// Exact when nothing between the first append and the loop observes what f changes; the consumers
// accept only statements of the header section there. The tree is not changed.
func rowsTableAsCalls(info *types.Info, list []ast.Stmt) []ast.Stmt {
	var T types.Object
	defAt, loopAt := -1, -1
	var loop *ast.RangeStmt
	for k, st := range list {
		as, ok := st.(*ast.AssignStmt)
		if !ok || as.Tok != token.DEFINE || len(as.Lhs) != 1 || len(as.Rhs) != 1 {
			continue
		}
		call, ok := as.Rhs[0].(*ast.CallExpr)
		if !ok || types.ExprString(call.Fun) != "make" || len(call.Args) < 2 {
			continue
		}
		if tv := info.Types[call.Args[1]]; tv.Value == nil || tv.Value.String() != "0" {
			continue
		}
		t := info.TypeOf(call)
		sl, isSl := t.Underlying().(*types.Slice)
		if !isSl {
			continue
		}
		if _, isArr := sl.Elem().Underlying().(*types.Array); !isArr {
			continue
		}
		o := info.Defs[as.Lhs[0].(*ast.Ident)]
		// the applying loop
		for j := k + 1; j < len(list); j++ {
			if rs, ok := list[j].(*ast.RangeStmt); ok && identObj(info, rs.X) == o && rs.Value != nil && len(rs.Body.List) == 1 {
				if key, isId := rs.Key.(*ast.Ident); rs.Key == nil || (isId && key.Name == "_") {
					if _, isCall := rs.Body.List[0].(*ast.ExprStmt); isCall {
						T, defAt, loopAt, loop = o, k, j, rs
					}
				}
			}
		}
		if T != nil {
			break
		}
	}
	if T == nil {
		return list
	}
	rowVar := identObj(info, loop.Value)
	tmpl, _ := loop.Body.List[0].(*ast.ExprStmt).X.(*ast.CallExpr)
	if tmpl == nil || rowVar == nil {
		return list
	}
	// the call's arguments must be exactly row[0], row[1], … ; its callee must not mention the row
	for i, a := range tmpl.Args {
		ix, ok := ast.Unparen(a).(*ast.IndexExpr)
		if !ok || identObj(info, ix.X) != rowVar {
			return list
		}
		if tv := info.Types[ix.Index]; tv.Value == nil || tv.Value.String() != fmt.Sprint(i) {
			return list
		}
	}
	if usesObj(info, tmpl.Fun, rowVar) {
		return list
	}
	appendOf := func(st ast.Stmt) *ast.CompositeLit {
		as, ok := st.(*ast.AssignStmt)
		if !ok || as.Tok != token.ASSIGN || len(as.Lhs) != 1 || len(as.Rhs) != 1 || identObj(info, as.Lhs[0]) != T {
			return nil
		}
		call, ok := as.Rhs[0].(*ast.CallExpr)
		if !ok || types.ExprString(call.Fun) != "append" || len(call.Args) != 2 || identObj(info, call.Args[0]) != T || call.Ellipsis.IsValid() {
			return nil
		}
		cl, ok := ast.Unparen(call.Args[1]).(*ast.CompositeLit)
		if !ok || len(cl.Elts) != len(tmpl.Args) {
			return nil
		}
		for _, el := range cl.Elts {
			if _, keyed := el.(*ast.KeyValueExpr); keyed {
				return nil
			}
		}
		return cl
	}
	// every use of T between its definition and the loop must be such an append
	okUses := true
	var check func(l []ast.Stmt)
	check = func(l []ast.Stmt) {
		for _, st := range l {
			if appendOf(st) != nil {
				continue
			}
			switch x := st.(type) {
			case *ast.IfStmt:
				if x.Init != nil && usesObj(info, x.Init, T) || usesObj(info, x.Cond, T) {
					okUses = false
				}
				check(x.Body.List)
				if eb, ok := x.Else.(*ast.BlockStmt); ok {
					check(eb.List)
				} else if x.Else != nil {
					okUses = false
				}
			case *ast.BlockStmt:
				check(x.List)
			default:
				if usesObj(info, st, T) {
					okUses = false
				}
			}
		}
	}
	check(list[defAt+1 : loopAt])
	for _, st := range list[loopAt+1:] {
		if usesObj(info, st, T) {
			okUses = false
		}
	}
	if !okUses {
		return list
	}
	var rewrite func(l []ast.Stmt) []ast.Stmt
	rewrite = func(l []ast.Stmt) []ast.Stmt {
		var out []ast.Stmt
		for _, st := range l {
			if cl := appendOf(st); cl != nil {
				call := &ast.CallExpr{Fun: tmpl.Fun, Lparen: st.Pos(), Args: append([]ast.Expr{}, cl.Elts...), Rparen: st.End()}
				if tv, ok := info.Types[tmpl]; ok {
					info.Types[call] = tv
				}
				out = append(out, &ast.ExprStmt{X: call})
				continue
			}
			switch x := st.(type) {
			case *ast.IfStmt:
				cp := *x
				cp.Body = &ast.BlockStmt{Lbrace: x.Body.Lbrace, List: rewrite(x.Body.List), Rbrace: x.Body.Rbrace}
				if eb, ok := x.Else.(*ast.BlockStmt); ok {
					cp.Else = &ast.BlockStmt{Lbrace: eb.Lbrace, List: rewrite(eb.List), Rbrace: eb.Rbrace}
				}
				out = append(out, &cp)
			case *ast.BlockStmt:
				out = append(out, &ast.BlockStmt{Lbrace: x.Lbrace, List: rewrite(x.List), Rbrace: x.Rbrace})
			default:
				out = append(out, st)
			}
		}
		return out
	}
	var out []ast.Stmt
	out = append(out, list[:defAt]...)
	out = append(out, rewrite(list[defAt+1:loopAt])...)
	out = append(out, list[loopAt+1:]...)
	return out
}

// clientDoHelper: call is `c.<m>(req)` of a method of the client whose body is nothing but
//
//	resp, err := c.HTTPClient.Do(req) ; if err != nil { return nil, <non-nil error> } ; return resp, nil
//
// (or `return c.HTTPClient.Do(req)`): the same response / a non-nil error exactly when Do fails.
func clientDoHelper(p *Program, rc *rmCtx, call *ast.CallExpr) bool {
	info := p.Pkg.TypesInfo
	sel, ok := call.Fun.(*ast.SelectorExpr)
	if !ok || identObj(info, sel.X) != rc.recv {
		return false
	}
	fo, _ := info.Uses[sel.Sel].(*types.Func)
	fd := declOfObj(p, fo)
	if fd == nil || fd.Recv == nil || fo.Exported() {
		return false
	}
	recv := recvObj(info, fd)
	ps := paramObjs(info, fd)
	if recv == nil || len(ps) != 1 {
		return false
	}
	isDo := func(e ast.Expr) bool {
		c2, ok := ast.Unparen(e).(*ast.CallExpr)
		return ok && len(c2.Args) == 1 && identObj(info, c2.Args[0]) == ps[0] && types.ExprString(c2.Fun) == recv.Name()+".HTTPClient.Do"
	}
	list := mergeCommaOk(info, fd.Body.List)
	if len(list) == 1 {
		ret, ok := list[0].(*ast.ReturnStmt)
		return ok && len(ret.Results) == 1 && isDo(ret.Results[0])
	}
	if len(list) != 3 {
		return false
	}
	as, ok := list[0].(*ast.AssignStmt)
	if !ok || len(as.Lhs) != 2 || len(as.Rhs) != 1 || !isDo(as.Rhs[0]) {
		return false
	}
	respO, errO := identObj(info, as.Lhs[0]), identObj(info, as.Lhs[1])
	ifs, ok := list[1].(*ast.IfStmt)
	if !ok || ifs.Else != nil || !condTestsErrG(info, ifs.Cond, errO) || len(ifs.Body.List) != 1 {
		return false
	}
	r1, ok := ifs.Body.List[0].(*ast.ReturnStmt)
	if !ok || len(r1.Results) != 2 || !isNilIdent(r1.Results[0]) || isNilIdent(r1.Results[1]) {
		return false
	}
	r2, ok := list[2].(*ast.ReturnStmt)
	return ok && len(r2.Results) == 2 && identObj(info, r2.Results[0]) == respO && respO != nil && isNilIdent(r2.Results[1])
}

func buildClientMethod(p *Program, fd *ast.FuncDecl, sig *types.Signature) *ClientMethod {
	info := p.Pkg.TypesInfo
	m := &ClientMethod{Name: fd.Name.Name, Decl: fd, ReqType: sig.Params().At(1).Type(), RespIface: sig.Results().At(0).Type(), Body: "none"}
	und := func(f string, a ...any) { m.Undecided = append(m.Undecided, fmt.Sprintf(f, a...)) }
	rc := &rmCtx{p: p, info: info, recv: recvObj(info, fd)}
	ps := paramObjs(info, fd)
	ctx, request := ps[0], ps[1]
	list := rowsTableAsCalls(info, expandVoidClosures(p, builderAsConcat(info, mergeCommaOk(info, fd.Body.List))))
	i := 0
	// request field selector: request.<Sec>.<F>
	reqField := func(e ast.Expr) (sec string, fld *types.Var) {
		path, f := rc.fieldSel(e, request)
		if len(path) == 2 {
			return path[0], f
		}
		if len(path) == 1 {
			return path[0], f
		}
		return "", nil
	}
	findReqField := func(n ast.Node, alias types.Object, aliasFld *types.Var, sec string) (*types.Var, bool) {
		var fld *types.Var
		ok := false
		ast.Inspect(n, func(x ast.Node) bool {
			if sel, isSel := x.(*ast.SelectorExpr); isSel {
				if s, f := reqField(sel); s == sec && f != nil {
					fld, ok = f, true
					return false
				}
			}
			if id, isId := x.(*ast.Ident); isId && alias != nil && identObj(info, id) == alias {
				fld, ok = aliasFld, true
			}
			return true
		})
		return fld, ok
	}
	// 1. URL: `var requestURL = c.BaseURL + a + b…` or `requestURL := c.BaseURL` followed by
	// `requestURL += a` statements — the concatenation operands in order, whatever the spelling
	var urlInit ast.Expr
	var urlObj types.Object
	switch st := list[i].(type) {
	case *ast.DeclStmt:
		if gd, ok := st.Decl.(*ast.GenDecl); ok && gd.Tok == token.VAR && len(gd.Specs) == 1 {
			if vs, _ := gd.Specs[0].(*ast.ValueSpec); vs != nil && len(vs.Values) == 1 && len(vs.Names) == 1 {
				urlInit, urlObj = vs.Values[0], info.Defs[vs.Names[0]]
			}
		}
	case *ast.AssignStmt:
		if st.Tok == token.DEFINE && len(st.Lhs) == 1 && len(st.Rhs) == 1 {
			if t := info.TypeOf(st.Rhs[0]); t != nil && types.Identical(t.Underlying(), types.Typ[types.String]) {
				urlInit, urlObj = st.Rhs[0], identObj(info, st.Lhs[0])
			}
		}
	}
	if urlInit != nil && urlObj != nil {
		var parts []ast.Expr
		var flat func(e ast.Expr)
		flat = func(e ast.Expr) {
			if be, ok := ast.Unparen(e).(*ast.BinaryExpr); ok && be.Op == token.ADD {
				flat(be.X)
				flat(be.Y)
				return
			}
			parts = append(parts, e)
		}
		flat(urlInit)
		for i+1 < len(list) {
			as, ok := list[i+1].(*ast.AssignStmt)
			if !ok || as.Tok != token.ADD_ASSIGN || len(as.Lhs) != 1 || identObj(info, as.Lhs[0]) != urlObj {
				break
			}
			flat(as.Rhs[0])
			i++
		}
		if len(parts) == 0 || types.ExprString(parts[0]) != rc.recv.Name()+".BaseURL" {
			und("request URL does not start with c.BaseURL")
			return m
		}
		for _, pe := range parts[1:] {
			if s, ok := rc.constStr(pe); ok {
				m.URLPattern += s
				continue
			}
			call, ok := rc.stdCall(pe, "net/url.PathEscape")
			row := &ClientReqRow{In: "path", Pos: pe.Pos()}
			arg := pe
			if ok && len(call.Args) == 1 {
				row.Escaped = true
				arg = call.Args[0]
			}
			fld, okf := findReqField(arg, nil, nil, "Path")
			if !okf {
				und("URL operand %s does not read a field of request.Path", types.ExprString(pe))
				continue
			}
			row.Field, row.FromField = fld, true
			row.Formats = collectFormats(info, arg)
			if bad := unexpectedCalls(p, arg, nil); len(bad) > 0 {
				und("URL operand for %s passes through %v", fld.Name(), bad)
			}
			m.URLPattern += "{" + fld.Name() + "}"
			row.Key = fld.Name()
			m.Rows = append(m.Rows, row)
		}
		i++
	} else {
		und("first statement is not the request URL declaration")
		return m
	}
	// 2. query
	var queryObj types.Object
	if as, ok := list[i].(*ast.AssignStmt); ok && as.Tok == token.DEFINE && len(as.Lhs) == 1 {
		if call, ok := as.Rhs[0].(*ast.CallExpr); ok && len(call.Args) == 2 {
			if id, ok := call.Fun.(*ast.Ident); ok && id.Name == "make" && types.ExprString(call.Args[0]) == "url.Values" {
				queryObj = info.Defs[as.Lhs[0].(*ast.Ident)]
				i++
			}
		}
	}
	if queryObj != nil {
		// slices stored into the query map by reference (a temporary shared between rows)
		storedTemps := map[types.Object]string{}
		for ; i < len(list); i++ {
			st := list[i]
			// terminator: requestURL += "?" + query.Encode()
			if as, ok := st.(*ast.AssignStmt); ok && as.Tok == token.ADD_ASSIGN {
				if types.ExprString(as.Rhs[0]) == `"?" + `+queryObj.Name()+".Encode()" {
					i++
					break
				}
			}
			if ds, isDecl := st.(*ast.DeclStmt); isDecl {
				// `var queryValues []string`: a temporary shared by the rows (each row assigns it before use)
				if gd, ok := ds.Decl.(*ast.GenDecl); ok && gd.Tok == token.VAR {
					bare := true
					for _, sp := range gd.Specs {
						if vs, ok := sp.(*ast.ValueSpec); !ok || len(vs.Values) > 0 {
							bare = false
						}
					}
					if bare {
						continue
					}
				}
			}
			row := &ClientReqRow{In: "query", Pos: st.Pos()}
			unit := ast.Node(st)
			var alias types.Object
			var aliasFld *types.Var
			if _, isIf := st.(*ast.IfStmt); !isIf {
				// a required row may span several statements (cv := …; query[K] = …): group up to the store
				hasStore := func(n ast.Node) bool {
					found := false
					ast.Inspect(n, func(x ast.Node) bool {
						if as, ok := x.(*ast.AssignStmt); ok && len(as.Lhs) == 1 {
							if ix, ok := as.Lhs[0].(*ast.IndexExpr); ok && identObj(info, ix.X) == queryObj {
								found = true
							}
						}
						return !found
					})
					return found
				}
				grp := []ast.Stmt{st}
				for !hasStore(grp[len(grp)-1]) && i+1 < len(list) {
					if _, isIf := list[i+1].(*ast.IfStmt); isIf {
						break
					}
					i++
					grp = append(grp, list[i])
				}
				unit = &ast.BlockStmt{Lbrace: grp[0].Pos(), List: grp, Rbrace: grp[len(grp)-1].End()}
			}
			if ifs, ok := st.(*ast.IfStmt); ok {
				as, okA := ifs.Init.(*ast.AssignStmt)
				if !okA || ifs.Else != nil || len(as.Lhs) != 2 || identObj(info, ifs.Cond) != identObj(info, as.Lhs[1]) {
					und("query row: unexpected if statement")
					continue
				}
				call, okC := as.Rhs[0].(*ast.CallExpr)
				if !okC {
					und("query row: optional guard is not <field>.Get()")
					continue
				}
				sel, okS := call.Fun.(*ast.SelectorExpr)
				if !okS || sel.Sel.Name != "Get" {
					und("query row: optional guard is not <field>.Get()")
					continue
				}
				sec, fld := reqField(sel.X)
				if sec != "Query" || fld == nil {
					und("query row: optional guard does not read request.Query")
					continue
				}
				row.Optional = true
				alias, aliasFld = identObj(info, as.Lhs[0]), fld
				unit = ifs.Body
			}
			// the store query[K] = …
			var store *ast.AssignStmt
			nStores := 0
			ast.Inspect(unit, func(x ast.Node) bool {
				if as, ok := x.(*ast.AssignStmt); ok && len(as.Lhs) == 1 {
					if ix, ok := as.Lhs[0].(*ast.IndexExpr); ok && identObj(info, ix.X) == queryObj {
						store = as
						nStores++
					}
				}
				return true
			})
			if store == nil || nStores != 1 {
				und("query row: expected exactly one `query[<const>] = …`")
				continue
			}
			k, okK := rc.constStr(store.Lhs[0].(*ast.IndexExpr).Index)
			if !okK {
				und("query row: key is not a constant")
				continue
			}
			row.Key = k
			fld, okf := findReqField(unit, alias, aliasFld, "Query")
			if okf {
				row.Field, row.FromField = fld, true
			}
			row.Formats = collectFormats(info, unit)
			ast.Inspect(unit, func(x ast.Node) bool {
				if _, ok := x.(*ast.RangeStmt); ok {
					row.Array = true
				}
				return true
			})
			// a temporary that an earlier row stored into the map must not be re-sliced or written in place:
			// the map holds the same backing array (`qv = qv[:0]` + append rewrites the earlier parameter)
			ast.Inspect(unit, func(x ast.Node) bool {
				as, ok := x.(*ast.AssignStmt)
				if !ok {
					return true
				}
				for j, l := range as.Lhs {
					if ix, isIx := ast.Unparen(l).(*ast.IndexExpr); isIx {
						if o := identObj(info, ix.X); o != nil && storedTemps[o] != "" {
							row.Problems = append(row.Problems, fmt.Sprintf("element of %s is overwritten after the slice was stored under query key %q: the earlier parameter's values change", o.Name(), storedTemps[o]))
						}
					}
					if o := identObj(info, l); o != nil && storedTemps[o] != "" && j < len(as.Rhs) && len(as.Lhs) == len(as.Rhs) {
						if sl, isSl := ast.Unparen(as.Rhs[j]).(*ast.SliceExpr); isSl && identObj(info, sl.X) == o {
							row.Problems = append(row.Problems, fmt.Sprintf("%s is re-sliced (%s) after it was stored under query key %q: the next append overwrites the values of that parameter in the map (shared backing array)", o.Name(), types.ExprString(as.Rhs[j]), storedTemps[o]))
						}
					}
				}
				return true
			})
			if o := identObj(info, store.Rhs[0]); o != nil {
				if v, isVar := o.(*types.Var); isVar && !v.IsField() && v.Parent() != nil && v.Parent() != p.Pkg.Types.Scope() {
					if _, isSlice := v.Type().Underlying().(*types.Slice); isSlice {
						storedTemps[o] = k
					}
				}
			}
			// []string passed through: query[K] = request.Query.F / qvOpt
			stored := store.Rhs[0]
			if o := identObj(info, stored); o != nil {
				// a temporary assigned once in this row: judge what it was assigned
				var defs []ast.Expr
				ast.Inspect(unit, func(x ast.Node) bool {
					if as, ok := x.(*ast.AssignStmt); ok && as != store && len(as.Lhs) == len(as.Rhs) {
						for j, l := range as.Lhs {
							if identObj(info, l) == o {
								defs = append(defs, as.Rhs[j])
							}
						}
					}
					return true
				})
				if len(defs) == 1 {
					stored = defs[0]
				}
			}
			if t := info.TypeOf(stored); t != nil {
				if _, isLit := ast.Unparen(stored).(*ast.CompositeLit); !isLit {
					if sl, ok := t.Underlying().(*types.Slice); ok && types.Identical(sl.Elem(), types.Typ[types.String]) {
						row.Array = true
					}
				}
			}
			if bad := unexpectedCalls(p, unit, nil); len(bad) > 0 {
				und("query row %s passes through %v", k, bad)
			}
			m.Rows = append(m.Rows, row)
		}
	}
	// 3. body marshal
	var bsObj types.Object
	if i < len(list) {
		if as, ok := list[i].(*ast.AssignStmt); ok && as.Tok == token.DEFINE && len(as.Lhs) == 2 && len(as.Rhs) == 1 {
			if call, ok := rc.stdCall(as.Rhs[0], "encoding/json.Marshal"); ok && len(call.Args) == 1 {
				if sec, _ := reqField(call.Args[0]); sec == "Body" {
					bsObj = info.Defs[as.Lhs[0].(*ast.Ident)]
					m.Body = "json"
					i++
					if ifs, ok := list[i].(*ast.IfStmt); ok && condTestsErrG(info, ifs.Cond, identObj(info, as.Lhs[1])) {
						i++
					} else {
						und("json.Marshal error is not tested")
					}
				}
			}
		}
	}
	// 4. NewRequestWithContext (optionally preceded by `bodyReader := bytes.NewReader(bs)`)
	var reqObj types.Object
	var bodyTmp types.Object
	if i < len(list) {
		if as, ok := list[i].(*ast.AssignStmt); ok && as.Tok == token.DEFINE && len(as.Lhs) == 1 && len(as.Rhs) == 1 {
			if b, ok := as.Rhs[0].(*ast.CallExpr); ok && calleeName(info, b) == "bytes.NewReader" && len(b.Args) == 1 && identObj(info, b.Args[0]) == bsObj && bsObj != nil {
				bodyTmp = identObj(info, as.Lhs[0])
				i++
			}
		}
	}
	if i < len(list) {
		if as, ok := list[i].(*ast.AssignStmt); ok && len(as.Lhs) == 2 && len(as.Rhs) == 1 {
			if call, ok := rc.stdCall(as.Rhs[0], "net/http.NewRequestWithContext"); ok && len(call.Args) == 4 {
				if !rc.isObj(call.Args[0], ctx) {
					und("request is not created with the caller's context")
				}
				if s, ok := rc.constStr(call.Args[1]); ok {
					m.Method = s
				}
				urlArg := ast.Unparen(call.Args[2])
				if sc, isCall := urlArg.(*ast.CallExpr); isCall && len(sc.Args) == 0 {
					// requestURL.String() of the strings.Builder spelling
					if sel, isSel := sc.Fun.(*ast.SelectorExpr); isSel && sel.Sel.Name == "String" {
						urlArg = sel.X
					}
				}
				if urlObj == nil || identObj(info, urlArg) != urlObj {
					und("request is not created with requestURL")
				}
				switch b := call.Args[3].(type) {
				case *ast.Ident:
					if bodyTmp != nil && identObj(info, b) == bodyTmp {
						break // the reader over the marshalled body, bound to a local first
					}
					if b.Name != "nil" {
						und("unexpected request body %s", b.Name)
					}
					if m.Body == "json" {
						und("marshalled body is not sent")
					}
				case *ast.CallExpr:
					if calleeName(info, b) == "bytes.NewReader" && len(b.Args) == 1 && identObj(info, b.Args[0]) == bsObj && bsObj != nil {
						// ok
					} else {
						und("request body is not bytes.NewReader(<marshalled request.Body>)")
					}
				case *ast.SelectorExpr:
					if sec, _ := reqField(b); sec == "Body" {
						m.Body = "reader"
					} else {
						und("request body is not request.Body")
					}
				}
				reqObj = identObj(info, as.Lhs[0])
				i++
				if ifs, ok := list[i].(*ast.IfStmt); ok && condTestsErrG(info, ifs.Cond, identObj(info, as.Lhs[1])) {
					i++
				}
			}
		}
	}
	if reqObj == nil {
		und("http.NewRequestWithContext call not found where expected")
		return m
	}
	// 5. header rows
	for ; i < len(list); i++ {
		st := list[i]
		var unit ast.Node = st
		row := &ClientReqRow{In: "header", Pos: st.Pos()}
		var alias types.Object
		var aliasFld *types.Var
		if ifs, ok := st.(*ast.IfStmt); ok {
			as, okA := ifs.Init.(*ast.AssignStmt)
			if !okA || len(as.Lhs) != 2 {
				break
			}
			call, okC := as.Rhs[0].(*ast.CallExpr)
			if !okC {
				break
			}
			sel, okS := call.Fun.(*ast.SelectorExpr)
			if !okS || sel.Sel.Name != "Get" || identObj(info, ifs.Cond) != identObj(info, as.Lhs[1]) {
				break
			}
			sec, fld := reqField(sel.X)
			if sec != "Headers" || fld == nil {
				break
			}
			row.Optional = true
			alias, aliasFld = identObj(info, as.Lhs[0]), fld
			unit = ifs.Body
			if len(ifs.Body.List) != 1 {
				und("header row: optional block has %d statements", len(ifs.Body.List))
				continue
			}
			st = ifs.Body.List[0]
		}
		es, ok := st.(*ast.ExprStmt)
		if !ok {
			break
		}
		call, ok := es.X.(*ast.CallExpr)
		if !ok || calleeName(info, call) != "net/http.Header.Set" || len(call.Args) != 2 {
			if ok && strings.Contains(types.ExprString(call.Fun), reqObj.Name()+".Header") {
				und("header row is not req.Header.Set(<const>, …): %s", types.ExprString(call.Fun))
				continue
			}
			break
		}
		if sel, ok := call.Fun.(*ast.SelectorExpr); !ok || types.ExprString(sel.X) != reqObj.Name()+".Header" {
			break
		}
		k, okK := rc.constStr(call.Args[0])
		if !okK {
			und("header row: key is not a constant")
			continue
		}
		row.Key = k
		if fld, okf := findReqField(call.Args[1], alias, aliasFld, "Headers"); okf {
			row.Field, row.FromField = fld, true
		}
		row.Formats = collectFormats(info, call.Args[1])
		if bad := unexpectedCalls(p, unit, map[string]bool{"net/http.Header.Set": true}); len(bad) > 0 {
			und("header row %s passes through %v", k, bad)
		}
		m.Rows = append(m.Rows, row)
	}
	// 6. Do
	var respObj types.Object
	if i < len(list) {
		if as, ok := list[i].(*ast.AssignStmt); ok && len(as.Lhs) == 2 && len(as.Rhs) == 1 {
			if call, ok := as.Rhs[0].(*ast.CallExpr); ok && len(call.Args) == 1 && identObj(info, call.Args[0]) == reqObj && (types.ExprString(call.Fun) == rc.recv.Name()+".HTTPClient.Do" || clientDoHelper(p, rc, call)) {
				respObj = identObj(info, as.Lhs[0])
				i++
				if ifs, ok := list[i].(*ast.IfStmt); ok && condTestsErrG(info, ifs.Cond, identObj(info, as.Lhs[1])) {
					i++
				} else {
					und("error of HTTPClient.Do is not tested")
				}
			}
		}
	}
	if respObj == nil {
		und("c.HTTPClient.Do(req) not found where expected")
		return m
	}
	// 7. switch resp.StatusCode
	if i >= len(list) {
		und("missing status switch")
		return m
	}
	sw, ok := list[i].(*ast.SwitchStmt)
	// `switch resp.StatusCode` or `switch code := resp.StatusCode; code` (code then stands for it)
	var codeAlias types.Object
	if ok && sw.Init != nil {
		if as, isAs := sw.Init.(*ast.AssignStmt); isAs && as.Tok == token.DEFINE && len(as.Lhs) == 1 && len(as.Rhs) == 1 &&
			types.ExprString(as.Rhs[0]) == respObj.Name()+".StatusCode" && identObj(info, sw.Tag) == identObj(info, as.Lhs[0]) && identObj(info, sw.Tag) != nil {
			codeAlias = identObj(info, as.Lhs[0])
		} else {
			ok = false
		}
	}
	if !ok || sw.Tag == nil || (codeAlias == nil && types.ExprString(sw.Tag) != respObj.Name()+".StatusCode") {
		und("statement after Do is not `switch resp.StatusCode`")
		return m
	}
	for _, cc := range sw.Body.List {
		cl := cc.(*ast.CaseClause)
		arm := buildClientArm(p, fd, cl, respObj, codeAlias)
		if cl.List == nil {
			arm.Status = "default"
			m.Default = arm
			continue
		}
		if len(cl.List) != 1 {
			arm.Undecided = append(arm.Undecided, "case with several values")
		} else if tv := info.Types[cl.List[0]]; tv.Value != nil && tv.Value.Kind() == constant.Int {
			arm.Status = tv.Value.ExactString()
		} else {
			arm.Undecided = append(arm.Undecided, "non-constant case")
		}
		m.Arms = append(m.Arms, arm)
	}
	i++
	for ; i < len(list); i++ {
		und("unconsumed statement %T after the status switch", list[i])
	}
	return m
}

func buildClientArm(p *Program, fd *ast.FuncDecl, cl *ast.CaseClause, respObj, codeAlias types.Object) *ClientArm {
	info := p.Pkg.TypesInfo
	arm := &ClientArm{Body: "none", Pos: cl.Pos()}
	und := func(f string, a ...any) { arm.Undecided = append(arm.Undecided, fmt.Sprintf(f, a...)) }
	list := cl.Body
	i := 0
	rn := respObj.Name()
	// optional close (first statement, or after the declaration / Code assignment of the response)
	isClose := func(st ast.Stmt) bool {
		if ifs, ok := st.(*ast.IfStmt); ok && ifs.Else == nil && types.ExprString(ifs.Cond) == rn+".Body != nil" && len(ifs.Body.List) == 1 {
			if df, ok := ifs.Body.List[0].(*ast.DeferStmt); ok && types.ExprString(df.Call) == rn+".Body.Close()" {
				return true
			}
		}
		return false
	}
	if i < len(list) && isClose(list[i]) {
		arm.ClosesBody = true
		i++
	}
	// error-only arm
	if i < len(list) {
		if ret, ok := list[i].(*ast.ReturnStmt); ok && len(ret.Results) == 2 && isNilIdent(ret.Results[0]) && !isNilIdent(ret.Results[1]) && i == len(list)-1 {
			arm.ErrorOnly = true
			return arm
		}
	}
	// var response T
	var response types.Object
	if i < len(list) {
		if ds, ok := list[i].(*ast.DeclStmt); ok {
			if gd, ok := ds.Decl.(*ast.GenDecl); ok && gd.Tok == token.VAR && len(gd.Specs) == 1 {
				vs := gd.Specs[0].(*ast.ValueSpec)
				if len(vs.Names) == 1 && len(vs.Values) == 0 {
					response = info.Defs[vs.Names[0]]
					arm.Type = response.Type()
					if n, ok := types.Unalias(arm.Type).(*types.Named); ok {
						arm.TypeName = n.Obj().Name()
					}
					i++
				}
			}
		}
	}
	if response == nil {
		und("arm does not declare `var response <T>`")
		return arm
	}
	c := &pmCtx{p: p, info: info, fd: fd, zeroNil: true, params: response, m: &ParserModel{}}
	for ; i < len(list)-1; i++ {
		switch st := list[i].(type) {
		case *ast.AssignStmt:
			// response.Code = resp.StatusCode (or the switch's alias of it)
			if len(st.Lhs) == 1 && types.ExprString(st.Lhs[0]) == response.Name()+".Code" &&
				(types.ExprString(st.Rhs[0]) == rn+".StatusCode" || codeAlias != nil && identObj(info, st.Rhs[0]) == codeAlias) {
				arm.CodeAssigned = true
				continue
			}
			// response.Body = resp.Body
			if len(st.Lhs) == 1 && types.ExprString(st.Lhs[0]) == response.Name()+".Body" && types.ExprString(st.Rhs[0]) == rn+".Body" {
				arm.Body = "raw"
				continue
			}
			// hs = resp.Header.Values(K) (or hs := …, a variable per header) ; followed by if
			if len(st.Lhs) == 1 && len(st.Rhs) == 1 && identObj(info, st.Lhs[0]) != nil {
				call, ok := st.Rhs[0].(*ast.CallExpr)
				if ok && calleeName(info, call) != "net/http.Header.Values" {
					// the lookup behind a one-expression helper: responseHeaderValues(resp.Header, K)
					if e, ok2 := p.inliner().expandExprCall(call); ok2 {
						if ec, ok3 := ast.Unparen(e).(*ast.CallExpr); ok3 {
							call = ec
						}
					}
				}
				// the header map indexed directly (possibly behind a helper): resp.Header[K] is Values(K) exactly
				// when K is already in canonical form
				var directKey ast.Expr
				rhsE := ast.Unparen(st.Rhs[0])
				if ok && calleeName(info, call) != "net/http.Header.Values" {
					if e, ok2 := p.inliner().expandExprCall(call); ok2 {
						rhsE = ast.Unparen(e)
					}
				}
				if ix, isIx := rhsE.(*ast.IndexExpr); isIx && types.ExprString(ix.X) == rn+".Header" {
					directKey = ix.Index
				}
				if directKey != nil || (ok && calleeName(info, call) == "net/http.Header.Values" && len(call.Args) == 1 && strings.HasPrefix(types.ExprString(call.Fun), rn+".Header.")) {
					hsObj := identObj(info, st.Lhs[0])
					row := &ParamRow{In: "header", Pos: st.Pos()}
					arm.Rows = append(arm.Rows, row)
					keyExpr := directKey
					if keyExpr == nil {
						keyExpr = call.Args[0]
					}
					k, okK := c.constStr(keyExpr)
					if okK && directKey != nil && textproto.CanonicalMIMEHeaderKey(k) != k {
						row.Problems = append(row.Problems, fmt.Sprintf("the header map is indexed with the non-canonical key %q: net/http stores headers under canonical keys, the lookup never matches", k))
					}
					if !okK {
						row.Undecided = append(row.Undecided, "response header key is not a constant")
						continue
					}
					row.Key = k
					if i+1 < len(list)-1 {
						if ifs, ok := list[i+1].(*ast.IfStmt); ok {
							// the block of this header: its if statement, or a guard clause followed by the
							// parse (`if len(hs) == 0 { return … }` ; `if len(hs) > 0 { … }`)
							grp := []ast.Stmt{ifs}
							for i+1+len(grp) < len(list)-1 {
								nx, isIf := list[i+1+len(grp)].(*ast.IfStmt)
								if !isIf || nx.Init != nil || !usesObj(info, nx.Cond, hsObj) {
									break
								}
								grp = append(grp, nx)
							}
							blk := &ast.BlockStmt{Lbrace: ifs.Pos(), List: grp, Rbrace: grp[len(grp)-1].End()}
							c.foldKey = directKey != nil
							c.typestate(row, blk, hsObj, nil, false)
							c.foldKey = false
							i += len(grp)
							continue
						}
					}
					row.Undecided = append(row.Undecided, "header lookup is not followed by its if-block")
					continue
				}
			}
			// err := json.NewDecoder(resp.Body).Decode(&response.Body)
			if len(st.Rhs) == 1 {
				if call, ok := st.Rhs[0].(*ast.CallExpr); ok && calleeName(info, call) == "encoding/json.Decoder.Decode" && len(call.Args) == 1 {
					okDec := false
					if sel, ok := call.Fun.(*ast.SelectorExpr); ok {
						if nd, ok := sel.X.(*ast.CallExpr); ok && calleeName(info, nd) == "encoding/json.NewDecoder" && types.ExprString(nd.Args[0]) == rn+".Body" {
							okDec = true
						}
					}
					if u, ok := call.Args[0].(*ast.UnaryExpr); ok && okDec && u.Op == token.AND && types.ExprString(u.X) == response.Name()+".Body" {
						if i+1 < len(list) {
							if ifs, ok := list[i+1].(*ast.IfStmt); ok && condTestsErrG(info, ifs.Cond, identObj(info, st.Lhs[0])) && c.isReject(ifs.Body.List) {
								arm.Body = "json"
								i++
								continue
							}
						}
						und("response body decode error is not tested and returned")
						continue
					}
				}
			}
			und("unexpected statement %s", types.ExprString(st.Lhs[0]))
		case *ast.DeclStmt:
			// var hs []string
			if gd, ok := st.Decl.(*ast.GenDecl); ok && gd.Tok == token.VAR && len(gd.Specs) == 1 {
				vs := gd.Specs[0].(*ast.ValueSpec)
				if len(vs.Names) == 1 && len(vs.Values) == 0 {
					continue // a shared header-values variable; each lookup is identified by its call
				}
			}
			und("unexpected declaration")
		case *ast.IfStmt:
			if isClose(st) && !arm.ClosesBody && arm.Body == "none" && len(arm.Rows) == 0 {
				arm.ClosesBody = true // nothing was read from the response before the deferred close is set up
				continue
			}
			und("unexpected statement %T in response arm", st)
		default:
			und("unexpected statement %T in response arm", st)
		}
	}
	ret, ok := list[len(list)-1].(*ast.ReturnStmt)
	if !ok || len(ret.Results) != 2 || identObj(info, ret.Results[0]) != response || !isNilIdent(ret.Results[1]) {
		und("arm does not end in `return response, nil`")
	}
	return arm
}
