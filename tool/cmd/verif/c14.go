package main

// C14 — the generated server never panics and always answers.
// Rule template: every potentially panicking operation in every function of
// every instantiated package is an obligation that must be discharged.

import (
	"fmt"
	"go/ast"
	"go/constant"
	"go/token"
	"go/types"
	"golang.org/x/tools/go/packages"
	"golang.org/x/tools/go/ssa/ssautil"
	"path/filepath"
	"regexp"
	"strconv"
	"strings"

	"golang.org/x/tools/go/cfg"
	"golang.org/x/tools/go/ssa"
)

var bceLine = regexp.MustCompile(`^(\S+\.go):(\d+):(\d+): Found (IsInBounds|IsSliceInBounds)`)

// bceResidue compiles the emitted packages with the compiler's bounds-check
// debug flag and returns the positions whose check the prove pass could NOT
// eliminate, keyed "relfile:line:col".
func bceResidue(s3 *S3) (map[string]bool, error) {
	var pats []string
	for _, p := range s3.Usable() {
		pats = append(pats, "./"+p.RelDir)
	}
	args := append([]string{"build", "-gcflags=-d=ssa/check_bce/debug=1"}, pats...)
	out, code, err := run(s3.Root, goEnv(), "go", args...)
	if err != nil || code != 0 {
		return nil, fmt.Errorf("go build with check_bce failed (%d): %v\n%s", code, err, firstLines(out, 5))
	}
	res := map[string]bool{}
	for _, l := range strings.Split(out, "\n") {
		if m := bceLine.FindStringSubmatch(strings.TrimSpace(l)); m != nil {
			res[filepath.Clean(m[1])+":"+m[2]+":"+m[3]] = true
		}
	}
	return res, nil
}

type c14 struct {
	r                     *Report
	s3                    *S3
	p                     *Program
	info                  *types.Info
	residue               map[string]bool
	nIdx, nProved, nIdiom int
}

func (c *c14) relPos(pos token.Pos) string {
	ps := c.s3.Fset.Position(pos)
	rel, _ := filepath.Rel(c.s3.Root, ps.Filename)
	return rel + ":" + strconv.Itoa(ps.Line) + ":" + strconv.Itoa(ps.Column)
}

func runC14(r *Report) {
	r.Explanation = "Every potentially panicking operation in every function of every instantiated package is an obligation. (p1) index/slice expressions on slices, arrays and strings: discharged when the Go compiler's prove pass eliminated the bounds check (site absent from `-gcflags=-d=ssa/check_bce/debug=1` output for the emitted package — the compiler only removes a check it proved cannot fail), otherwise it must match a guard idiom checked here (prefix strip under HasPrefix, cut at Index/len, reverse index loop, splitPath contract). (p2) single-result type assertions, panic calls, integer division by a non-constant, slice-to-array conversions: expected 0. (p3) map stores: the map is made non-nil on every path before the store. (p5) exactly one response: ServeHTTP and authMiddlewareOr are fully recognised; every response writer calls WriteHeader exactly once on every path (min = max = 1 over the CFG). (p6) new<Op>Params returns either (zero, non-nil error) or (params, nil). (p7) dynamic calls: the callee value is a parameter, an API/Client field (user configuration), a guarded field, or a package hook initialised non-nil — never the result of a map/slice lookup."
	r.Rule("C14/bounds", "every index/slice expression is proven by the compiler's prove pass or matches a checked guard idiom")
	r.Rule("C14/no-panic-construct", "no single-result type assertion, no panic(), no integer division by a variable, no slice->array conversion, no make / Grow / Repeat / MustCompile with a computed (possibly negative) argument in generated code")
	r.Rule("C14/witness", "the construct rules flag the positive witnesses in testdata and stay silent on the negative ones (anti-vacuity for zero-count rules)")
	r.Rule("C14/map-store", "every map store is preceded on all paths by a make of that map")
	r.Rule("C14/one-response", "ServeHTTP / authMiddlewareOr recognised; every response Write calls WriteHeader exactly once on every path")
	r.Rule("C14/parse-result", "new<Op>Params returns (zero, err != nil) or (params, nil) on every return")
	r.Rule("C14/dynamic-call", "a dynamically called function value is never the unchecked result of a map or slice lookup")
	r.Assumptions = append(r.Assumptions,
		"net/http hands handlers a non-nil *http.Request with non-nil URL and Body; resp.Body non-nil on the client side",
		"API handler fields / authenticator hooks left nil are user configuration, not requests",
		"panics inside user handlers, net/http, encoding/json are outside generated code; encoding/json bounds recursion depth",
		"the Go compiler's prove pass is sound")
	s3, progs := loadRouted(r, "C14", S3Options{TemplateDebug: true, SSA: true})
	if s3 == nil {
		return
	}
	defer s3.Close()
	c14Witness(r)
	residue, err := bceResidue(s3)
	if err != nil {
		r.Break("%v", err)
		return
	}
	r.Analysed["compiler_residual_bounds_checks"] = len(residue)
	totIdx, totProved, totIdiom, nWriters, nParsers := 0, 0, 0, 0, 0
	usedResidue := map[string]bool{}
	byProg := map[*Program]*routedProgram{}
	for _, rp := range progs {
		byProg[rp.P] = rp
	}
	for _, p := range s3.Usable() {
		c := &c14{r: r, s3: s3, p: p, info: p.Pkg.TypesInfo, residue: residue}
		c.bounds(usedResidue)
		c.constructs()
		nw, np := c.responsesAndParsers()
		nWriters += nw
		nParsers += np
		totIdx += c.nIdx
		totProved += c.nProved
		totIdiom += c.nIdiom
		if rp := byProg[p]; rp != nil {
			sm := rp.M.Serve
			if len(sm.Undecided) > 0 {
				r.Undecided("C14/one-response", p.Name+":API.ServeHTTP", s3.pos(sm.Decl.Pos()), strings.Join(sm.Undecided, "; "))
			} else {
				r.OK("C14/one-response", p.Name+":API.ServeHTTP", s3.pos(sm.Decl.Pos()), "")
			}
			if rp.M.AuthOrFn != nil || rp.M.DirectOr {
				if ok, why := recogniseOrCombinator(p, rp.M); ok {
					r.OK("C14/one-response", p.Name+":authMiddlewareOr", "", "")
				} else {
					r.Undecided("C14/one-response", p.Name+":authMiddlewareOr", "", why)
				}
			}
		}
	}
	// residue positions that did not map to an index/slice expression are inside inlined library helpers
	inl := 0
	for k := range residue {
		if !usedResidue[k] {
			inl++
		}
	}
	r.Analysed["index_slice_sites"] = totIdx
	r.Analysed["discharged_by_compiler_prove_pass"] = totProved
	r.Analysed["discharged_by_idiom"] = totIdiom
	r.Analysed["residual_checks_inside_inlined_stdlib_helpers"] = inl
	r.Analysed["response_writers"] = nWriters
	r.Analysed["params_parsers"] = nParsers
	r.FloorMin("index/slice sites", totIdx, 400)
	r.FloorMin("sites discharged by idiom", totIdiom, 100)
	r.FloorMin("response writers", nWriters, 80)
	r.FloorMin("params parsers", nParsers, 80)
}

// enclosingFuncs maps each node to its innermost enclosing FuncDecl.
func (c *c14) bounds(used map[string]bool) {
	for _, file := range c.p.Pkg.Syntax {
		for _, d := range file.Decls {
			fd, ok := d.(*ast.FuncDecl)
			if !ok || fd.Body == nil {
				continue
			}
			seq := map[string]int{}
			ast.Inspect(fd.Body, func(n ast.Node) bool {
				var x ast.Expr
				var lb token.Pos
				switch e := n.(type) {
				case *ast.IndexExpr:
					x, lb = e.X, e.Lbrack
				case *ast.SliceExpr:
					x, lb = e.X, e.Lbrack
				default:
					return true
				}
				t := c.info.TypeOf(x)
				if t == nil {
					return true
				}
				switch u := t.Underlying().(type) {
				case *types.Slice, *types.Array:
				case *types.Basic:
					if u.Info()&types.IsString == 0 {
						return true
					}
				case *types.Pointer:
					if _, ok := u.Elem().Underlying().(*types.Array); !ok {
						return true
					}
				default:
					return true // map index, generic instantiation
				}
				if tv, ok := c.info.Types[n.(ast.Expr)]; ok && tv.Value != nil {
					return true // constant expression
				}
				c.nIdx++
				txt := types.ExprString(n.(ast.Expr))
				base := c.p.Name + ":" + funcDeclName(fd) + ":" + txt
				seq[base]++
				key := base
				if seq[base] > 1 {
					key += "#" + strconv.Itoa(seq[base])
				}
				rp := c.relPos(lb)
				if !c.residue[rp] {
					c.nProved++
					return true // discharged by the compiler; not listed individually (counted)
				}
				used[rp] = true
				if why := c.idiom(fd, n.(ast.Expr)); why != "" {
					c.nIdiom++
					c.r.OK("C14/bounds", key, c.s3.pos(lb), "compiler could not prove it; idiom: "+why)
				} else {
					c.r.Violation("C14/bounds", key, c.s3.pos(lb), "bounds check neither eliminated by the compiler's prove pass nor covered by a guard idiom: a request can make this index/slice panic (template define "+c.p.Provenance(c.s3, lb)+")")
				}
				return true
			})
		}
	}
}

// twoIndexLoop: `for i, j := 0, len(W)-1; i < j; i, j = i+1, j-1` over the local slice W.
func twoIndexLoop(c *rmCtx, f *ast.ForStmt, w types.Object) (i, j types.Object, ok bool) {
	init, isAs := f.Init.(*ast.AssignStmt)
	if !isAs || init.Tok != token.DEFINE || len(init.Lhs) != 2 || len(init.Rhs) != 2 {
		return nil, nil, false
	}
	i, j = identObj(c.info, init.Lhs[0]), identObj(c.info, init.Lhs[1])
	if v, isC := c.constInt(init.Rhs[0]); !isC || v != 0 || i == nil || j == nil {
		return nil, nil, false
	}
	be, isBin := init.Rhs[1].(*ast.BinaryExpr)
	if !isBin || be.Op != token.SUB {
		return nil, nil, false
	}
	lc, isCall := be.X.(*ast.CallExpr)
	if !isCall || len(lc.Args) != 1 || !c.isObj(lc.Args[0], w) || types.ExprString(lc.Fun) != "len" {
		return nil, nil, false
	}
	if v, isC := c.constInt(be.Y); !isC || v != 1 {
		return nil, nil, false
	}
	cond, isBin := f.Cond.(*ast.BinaryExpr)
	if !isBin || cond.Op != token.LSS || !c.isObj(cond.X, i) || !c.isObj(cond.Y, j) {
		return nil, nil, false
	}
	post, isAs := f.Post.(*ast.AssignStmt)
	if !isAs || len(post.Lhs) != 2 || len(post.Rhs) != 2 || !c.isObj(post.Lhs[0], i) || !c.isObj(post.Lhs[1], j) {
		return nil, nil, false
	}
	if types.ExprString(post.Rhs[0]) != i.Name()+" + 1" || types.ExprString(post.Rhs[1]) != j.Name()+" - 1" {
		return nil, nil, false
	}
	return i, j, true
}

func funcDeclName(fd *ast.FuncDecl) string {
	if r := recvTypeName(fd); r != "" {
		return r + "." + fd.Name.Name
	}
	return fd.Name.Name
}

// idiom returns a reason when the residual site matches a checked guard idiom.
func (c *c14) idiom(fd *ast.FuncDecl, e ast.Expr) string {
	info := c.info
	rc := &rmCtx{p: c.p, info: info, recv: recvObj(info, fd)}
	// G3: inside a func(string) (string, string) that satisfies the splitPath contract in every
	// case of the partition; the evaluation proves 0 <= lo <= hi <= len for each slice it meets
	if fd.Recv == nil && len(paramObjs(info, fd)) == 1 && fd.Type.Results != nil && len(fd.Type.Results.List) == 2 {
		if res := checkSplitPathContract(c.p, fd); res.Why == "" && res.Proven[e] {
			return "G3 splitPath contract: bounds proven in every case of the input partition (strcut)"
		}
	}
	// G7: inside a block that extracts the text before the next "/" from a cursor string: bounds
	// proven by the same case-partitioned evaluation
	{
		var base ast.Expr
		switch x := e.(type) {
		case *ast.SliceExpr:
			base = x.X
		case *ast.IndexExpr:
			base = x.X
		}
		if bo := identObj(info, base); bo != nil {
			var blocks []*ast.BlockStmt
			ast.Inspect(fd.Body, func(n ast.Node) bool {
				if b, ok := n.(*ast.BlockStmt); ok && b.Pos() <= e.Pos() && e.End() <= b.End() && b != fd.Body {
					blocks = append(blocks, b)
				}
				return true
			})
			for _, b := range blocks {
				stop := func(st ast.Stmt) bool {
					ifs, ok := st.(*ast.IfStmt)
					if !ok {
						return false
					}
					be, ok := ast.Unparen(ifs.Cond).(*ast.BinaryExpr)
					if !ok || be.Op != token.EQL {
						return false
					}
					call, ok := ast.Unparen(be.X).(*ast.CallExpr)
					if !ok || len(call.Args) != 1 {
						return false
					}
					id, ok := call.Fun.(*ast.Ident)
					k, okk := rc.constInt(be.Y)
					return ok && id.Name == "len" && okk && k == 0
				}
				// candidate cursors: the sliced variable itself, or a variable it was cut from
				cands := []types.Object{bo}
				ast.Inspect(b, func(n ast.Node) bool {
					if sl, ok := n.(*ast.SliceExpr); ok {
						if o := identObj(info, sl.X); o != nil && o != bo {
							cands = append(cands, o)
						}
					}
					return true
				})
				for _, cur := range cands {
					if _, _, res := pathVarExtraction(c.p, b.List, cur, stop); res.Why == "" && res.Proven[e] {
						return "G7 path segment extraction: bounds proven in every case of the input partition (strcut)"
					}
				}
			}
		}
	}
	// G4: h = S[idx](h) / S[idx].M(h) inside a loop whose index expression provably visits
	// len(S)-1 … 0 (revloop.go): every index is within bounds
	if ix, ok := e.(*ast.IndexExpr); ok {
		var loop ast.Stmt
		ast.Inspect(fd.Body, func(n ast.Node) bool {
			switch l := n.(type) {
			case *ast.ForStmt:
				if l.Pos() <= e.Pos() && e.End() <= l.End() {
					loop = l
				}
			case *ast.RangeStmt:
				if l.Pos() <= e.Pos() && e.End() <= l.End() {
					loop = l
				}
			}
			return true
		})
		if loop != nil {
			var before []ast.Stmt
			if blk, i := enclosingBlockOfStmt(fd.Body, loop); blk != nil {
				before = blk.List[:i]
			}
			sliceStr := types.ExprString(ix.X)
			isSlice := func(x ast.Expr) bool { return types.ExprString(x) == sliceStr }
			if newRevLoop(info, loop, before, isSlice).visitsDescending(ix.Index) {
				return "G4 the index expression visits len(S)-1 … 0 over the iterations of the loop"
			}
		}
	}
	// G8: W[i] / W[j] inside `for i, j := 0, len(W)-1; i < j; i, j = i+1, j-1 { … }` whose body assigns
	// neither index nor W: by induction 0 <= i < j <= len(W)-1
	if ix, ok := e.(*ast.IndexExpr); ok {
		if w := identObj(info, ix.X); w != nil {
			var loop *ast.ForStmt
			ast.Inspect(fd.Body, func(n ast.Node) bool {
				if l, ok := n.(*ast.ForStmt); ok && l.Body.Pos() <= e.Pos() && e.End() <= l.Body.End() {
					loop = l
				}
				return true
			})
			if loop != nil {
				if i, j, ok := twoIndexLoop(rc, loop, w); ok {
					idx := identObj(info, ix.Index)
					bodyTouches := false
					ast.Inspect(loop.Body, func(n ast.Node) bool {
						switch x := n.(type) {
						case *ast.AssignStmt:
							for _, l := range x.Lhs {
								if o := identObj(info, l); o != nil && (o == i || o == j || o == w) {
									bodyTouches = true
								}
							}
						case *ast.IncDecStmt:
							if o := identObj(info, x.X); o != nil && (o == i || o == j) {
								bodyTouches = true
							}
						case *ast.UnaryExpr:
							if x.Op == token.AND {
								if o := identObj(info, x.X); o != nil && (o == i || o == j || o == w) {
									bodyTouches = true
								}
							}
						}
						return true
					})
					if !bodyTouches && idx != nil && (idx == i || idx == j) {
						return "G8 two-index loop: 0 <= i < j <= len(W)-1 holds at every iteration"
					}
				}
			}
		}
	}
	// G2: x[:idx] / x[idx:] where the immediately preceding statements are
	//   idx := strings.Index(x, sep); if idx == -1 { idx = len(x) }
	if sl, ok := e.(*ast.SliceExpr); ok && sl.Slice3 == false {
		x := identObj(info, sl.X)
		var idxE ast.Expr
		if sl.Low == nil && sl.High != nil {
			idxE = sl.High
		} else if sl.High == nil && sl.Low != nil {
			idxE = sl.Low
		}
		idx := identObj(info, idxE)
		if x != nil && idx != nil {
			if blk, i := enclosingBlockStmt(fd.Body, e); blk != nil {
				// search backwards in the same block for the definition pair
				for j := i - 1; j >= 1; j-- {
					ifs, ok1 := blk.List[j].(*ast.IfStmt)
					as, ok2 := blk.List[j-1].(*ast.AssignStmt)
					if !ok1 || !ok2 {
						continue
					}
					if as.Tok != token.DEFINE || len(as.Lhs) != 1 || identObj(info, as.Lhs[0]) != idx {
						continue
					}
					call, okc := rc.stdCall(as.Rhs[0], "strings.Index")
					if !okc || identObj(info, call.Args[0]) != x {
						continue
					}
					be, okb := ifs.Cond.(*ast.BinaryExpr)
					if !okb || be.Op != token.EQL || identObj(info, be.X) != idx || len(ifs.Body.List) != 1 || ifs.Else != nil {
						continue
					}
					if k, ok := rc.constInt(be.Y); !ok || k != -1 {
						continue
					}
					fix, okf := ifs.Body.List[0].(*ast.AssignStmt)
					if !okf || fix.Tok != token.ASSIGN || identObj(info, fix.Lhs[0]) != idx {
						continue
					}
					lc, okl := fix.Rhs[0].(*ast.CallExpr)
					if !okl || len(lc.Args) != 1 || identObj(info, lc.Args[0]) != x {
						continue
					}
					if id, ok := lc.Fun.(*ast.Ident); !ok || id.Name != "len" {
						continue
					}
					// no reassignment of x or idx between j+1 and i, except `x = x[idx:]` after the use
					clean := true
					for k := j + 1; k < i; k++ {
						if assignsTo(info, blk.List[k], idx) {
							clean = false
						}
						if assignsTo(info, blk.List[k], x) {
							// allowed only if it is x = x[idx:] itself being judged later
							clean = false
						}
					}
					if clean {
						return "G2 cut at idx where idx = strings.Index(x, sep), or len(x) when absent: 0 <= idx <= len(x)"
					}
					// the second cut `x = x[idx:]` follows `v := x[:idx]` directly
					if i-1 > j && !assignsTo(info, blk.List[i-1], idx) {
						if prev, ok := blk.List[i-1].(*ast.AssignStmt); ok && len(prev.Rhs) == 1 {
							if psl, ok := prev.Rhs[0].(*ast.SliceExpr); ok && identObj(info, psl.X) == x && identObj(info, prev.Lhs[0]) != x {
								return "G2 cut at idx (second cut)"
							}
						}
					}
				}
			}
		}
	}
	// G6: A[i] inside `for i := range F` directly preceded by `A = make([]T, len(F))`
	if ix, ok := e.(*ast.IndexExpr); ok {
		if why := c.makeLenLoop(fd, ix); why != "" {
			return why
		}
	}
	// G1: x = x[c:] directly after `if !strings.HasPrefix(x, L) { return … }` with c == len(L)
	if sl, ok := e.(*ast.SliceExpr); ok && sl.High == nil && sl.Low != nil {
		x := identObj(info, sl.X)
		if k, ok := rc.constInt(sl.Low); ok && x != nil {
			if blk, i := enclosingBlockStmt(fd.Body, e); blk != nil && i >= 1 {
				if ifs, ok := blk.List[i-1].(*ast.IfStmt); ok && ifs.Else == nil && len(ifs.Body.List) >= 1 {
					if pre, ok := rc.notHasPrefix(ifs.Cond, x); ok && int(k) <= len(pre) {
						if _, isRet := ifs.Body.List[len(ifs.Body.List)-1].(*ast.ReturnStmt); isRet {
							return "G1 strip of a constant no longer than the prefix just tested with strings.HasPrefix"
						}
					}
				}
			}
		}
	}
	return ""
}

func assignsTo(info *types.Info, st ast.Stmt, obj types.Object) bool {
	found := false
	ast.Inspect(st, func(n ast.Node) bool {
		switch x := n.(type) {
		case *ast.AssignStmt:
			for _, l := range x.Lhs {
				if identObj(info, l) == obj {
					found = true
				}
			}
		case *ast.IncDecStmt:
			if identObj(info, x.X) == obj {
				found = true
			}
		}
		return !found
	})
	return found
}

// enclosingBlockStmt: the innermost block whose statement i contains e.
func enclosingBlockStmt(body *ast.BlockStmt, e ast.Node) (*ast.BlockStmt, int) {
	var best *ast.BlockStmt
	bi := -1
	ast.Inspect(body, func(n ast.Node) bool {
		if b, ok := n.(*ast.BlockStmt); ok {
			for i, st := range b.List {
				if st.Pos() <= e.Pos() && e.End() <= st.End() {
					best, bi = b, i
				}
			}
		}
		return true
	})
	return best, bi
}

// constructs: p2, p3, p7 on SSA.
func (c *c14) constructs() {
	if c.p.SSAPkg == nil {
		c.r.Undecided("C14/no-panic-construct", c.p.Name+":ssa", "", "no SSA")
		return
	}
	nMap, nDyn := 0, 0
	bad := 0
	for _, fn := range pkgFunctions(c.p.SSAPkg) {
		if fn.Blocks == nil {
			continue
		}
		// the property is about the server: the generated client (client.go) is C09/C10's subject
		if f := c.p.Pkg.Fset.File(fn.Pos()); f != nil && filepath.Base(f.Name()) == "client.go" {
			continue
		}
		fkey := c.p.Name + ":" + shortFuncName(fn)
		for _, b := range fn.Blocks {
			for _, ins := range b.Instrs {
				switch x := ins.(type) {
				case *ssa.TypeAssert:
					if !x.CommaOk {
						bad++
						c.r.Violation("C14/no-panic-construct", fkey+":type assertion to "+x.AssertedType.String(), c.s3.pos(x.Pos()), "single-result type assertion panics when the dynamic type differs")
					}
				case *ssa.Panic:
					bad++
					c.r.Violation("C14/no-panic-construct", fkey+":panic", c.s3.pos(x.Pos()), "explicit panic in generated code")
				case *ssa.BinOp:
					if (x.Op == token.QUO || x.Op == token.REM) && isIntType(x.X.Type()) {
						if _, isConst := x.Y.(*ssa.Const); !isConst {
							bad++
							c.r.Violation("C14/no-panic-construct", fkey+":integer division", c.s3.pos(x.Pos()), "integer division by a non-constant can panic")
						}
					}
				case *ssa.SliceToArrayPointer:
					bad++
					c.r.Violation("C14/no-panic-construct", fkey+":slice to array conversion", c.s3.pos(x.Pos()), "panics when the slice is shorter than the array")
				case *ssa.MapUpdate:
					nMap++
					why := c.mapMade(fn, x)
					if why != "" {
						if fd := c.declOf(fn); fd != nil && c.rangeMakeIdiom(fd, x.Pos()) {
							c.r.OK("C14/map-store", fkey+":map store", c.s3.pos(x.Pos()), "idiom: map made under len(m) > 0 directly before ranging over the same m")
							continue
						}
					}
					if why != "" {
						c.r.Violation("C14/map-store", fkey+":store into "+x.Map.Name(), c.s3.pos(x.Pos()), why)
					} else {
						c.r.OK("C14/map-store", fkey+":map store", c.s3.pos(x.Pos()), "map is made on every path to the store")
					}
				case *ssa.MakeSlice:
					for _, v := range []ssa.Value{x.Len, x.Cap} {
						if v != nil && !nonNegativeByConstruction(v, 0) {
							bad++
							c.r.Violation("C14/no-panic-construct", fkey+":make with computed length", c.s3.pos(x.Pos()), "make([]T, n) with n neither a constant nor built from len()/cap(): a negative or huge n panics")
						}
					}
				case *ssa.Call:
					cc := x.Call
					// a func-typed or interface-typed FIELD of a struct declared in this package that is
					// called / invoked must be nil-tested first: such fields are optional hooks
					// (rt.CORSHandler, rt.SpecFileHandler) or optional parts of a value (ErrParseParam.Err)
					if ld, ok := cc.Value.(*ssa.UnOp); ok && ld.Op == token.MUL {
						if fa, ok := ld.X.(*ssa.FieldAddr); ok && c.ownStructField(fa) {
							if !fieldNilGuarded(fn, fa, b) && !c.fieldAlwaysSet(fa) {
								bad++
								what := "called"
								if cc.IsInvoke() {
									what = "used as the receiver of ." + cc.Method.Name() + "()"
								}
								c.r.Violation("C14/no-panic-construct", fkey+":nil "+fieldNameOf(fa), c.s3.pos(x.Pos()), "field "+fieldNameOf(fa)+" is "+what+" without a dominating nil test: when it is not set (a hook left nil, an error value built without it) the call panics")
							}
						}
					}
					if sc := cc.StaticCallee(); sc != nil && !cc.IsInvoke() {
						if idx, ok := c14ArgPanics[sc.String()]; ok && idx < len(cc.Args) && !nonNegativeByConstruction(cc.Args[idx], 0) {
							bad++
							c.r.Violation("C14/no-panic-construct", fkey+":"+sc.String()+" with computed argument", c.s3.pos(x.Pos()), sc.String()+" panics on a negative/invalid argument and the argument is neither a constant nor built from len()/cap() (e.g. Request.ContentLength is -1 for chunked bodies)")
						}
					}
					if cc.IsInvoke() || cc.StaticCallee() != nil {
						continue
					}
					if _, isB := cc.Value.(*ssa.Builtin); isB {
						continue
					}
					nDyn++
					if why := dynCalleeOK(cc.Value); why != "" {
						c.r.Violation("C14/dynamic-call", fkey+":call of "+cc.Value.Name(), c.s3.pos(x.Pos()), why)
					}
				}
			}
		}
	}
	if bad == 0 {
		c.r.OK("C14/no-panic-construct", c.p.Name, "", "no single-result assertion / panic / variable integer division / slice-to-array conversion")
	}
	c.r.OK("C14/dynamic-call", c.p.Name, "", fmt.Sprintf("%d dynamic calls classified", nDyn))
}

// standard-library functions that panic on an argument value (argument index in
// the SSA call, receiver included)
var c14ArgPanics = map[string]int{
	"(*bytes.Buffer).Grow": 1, "(*strings.Builder).Grow": 1, "strings.Repeat": 1, "bytes.Repeat": 1,
	"slices.Grow": 1, "regexp.MustCompile": 0, "regexp.MustCompilePOSIX": 0, "math/rand.Intn": 0, "math/rand.Int63n": 0,
	"math/rand.Int31n": 0, "time.NewTicker": 0, "time.Tick": 0, "(*bufio.Reader).Discard": 1, "bufio.NewReaderSize": 1,
}

// nonNegativeByConstruction: a non-negative constant, len()/cap(), or sums/products of those.
func nonNegativeByConstruction(v ssa.Value, depth int) bool {
	if depth > 6 {
		return false
	}
	switch x := v.(type) {
	case *ssa.Const:
		if x.Value == nil {
			return false
		}
		if x.Value.Kind() == constant.String {
			return true // constant pattern (MustCompile): checked by the compiler's vet/tests, not value dependent
		}
		return constant.Sign(x.Value) >= 0
	case *ssa.Call:
		if b, ok := x.Call.Value.(*ssa.Builtin); ok && (b.Name() == "len" || b.Name() == "cap") {
			return true
		}
	case *ssa.BinOp:
		if x.Op == token.ADD || x.Op == token.MUL {
			return nonNegativeByConstruction(x.X, depth+1) && nonNegativeByConstruction(x.Y, depth+1)
		}
	case *ssa.Convert:
		return nonNegativeByConstruction(x.X, depth+1)
	case *ssa.ChangeType:
		return nonNegativeByConstruction(x.X, depth+1)
	}
	return false
}

func isIntType(t types.Type) bool {
	b, ok := t.Underlying().(*types.Basic)
	return ok && b.Info()&types.IsInteger != 0
}

// dynCalleeOK: "" if the called value cannot be a nil obtained from a lookup.
func dynCalleeOK(v ssa.Value) string {
	switch x := v.(type) {
	case *ssa.Parameter, *ssa.FreeVar, *ssa.MakeClosure, *ssa.Function:
		return ""
	case *ssa.UnOp:
		if x.Op == token.MUL {
			switch a := x.X.(type) {
			case *ssa.Global:
				return "" // package hook, initialised non-nil (C20: never stored outside init)
			case *ssa.FieldAddr, *ssa.FreeVar, *ssa.Alloc:
				_ = a
				return "" // field of a receiver / captured variable: user configuration
			case *ssa.IndexAddr:
				return "" // element of a slice the loop bounds (rt.Middlewares[i]); bounds judged by C14/bounds
			}
		}
	case *ssa.Field, *ssa.Phi, *ssa.ChangeType, *ssa.Call:
		return ""
	case *ssa.Lookup:
		return "the called function value is the result of a map lookup: a key that is not in the map yields nil and the call panics"
	case *ssa.Extract:
		if _, ok := x.Tuple.(*ssa.Lookup); ok {
			return "the called function value comes from a map lookup"
		}
		return ""
	case *ssa.Index:
		return "the called function value is an array element selected by a runtime index"
	}
	return fmt.Sprintf("called function value %s (%T) is not a recognised non-nil source", v.Name(), v)
}

// mapMade: the map operand of a MapUpdate must be a MakeMap (or a φ of them),
// or loaded from a field/local that is stored a MakeMap on a dominating path.
func (c *c14) mapMade(fn *ssa.Function, mu *ssa.MapUpdate) string {
	var isMade func(v ssa.Value, depth int) bool
	isMade = func(v ssa.Value, depth int) bool {
		if depth > 8 {
			return false
		}
		switch x := v.(type) {
		case *ssa.MakeMap:
			return true
		case *ssa.Phi:
			for _, e := range x.Edges {
				if !isMade(e, depth+1) {
					return false
				}
			}
			return true
		case *ssa.ChangeType:
			return isMade(x.X, depth+1)
		case *ssa.UnOp:
			if x.Op != token.MUL {
				return false
			}
			// load from address A: need a Store(A', MakeMap) with A' the same field of the same base, dominating the load
			for _, b := range fn.Blocks {
				for _, ins := range b.Instrs {
					st, ok := ins.(*ssa.Store)
					if !ok || !sameAddr(st.Addr, x.X) {
						continue
					}
					if !isMade(st.Val, depth+1) {
						continue
					}
					if st.Block().Dominates(x.Block()) {
						return true
					}
				}
			}
			return false
		}
		return false
	}
	if isMade(mu.Map, 0) {
		return ""
	}
	return "the map stored into may be nil: no make() of it dominates this store (assignment to an entry of a nil map panics)"
}

func sameAddr(a, b ssa.Value) bool {
	if a == b {
		return true
	}
	fa, ok1 := a.(*ssa.FieldAddr)
	fb, ok2 := b.(*ssa.FieldAddr)
	if ok1 && ok2 && fa.Field == fb.Field {
		return sameAddr(fa.X, fb.X)
	}
	return false
}

// responsesAndParsers: p5 for response writers and p6 for params parsers.
func (c *c14) responsesAndParsers() (nWriters, nParsers int) {
	info := c.info
	for _, file := range c.p.Pkg.Syntax {
		for _, d := range file.Decls {
			fd, ok := d.(*ast.FuncDecl)
			if !ok || fd.Body == nil {
				continue
			}
			// response writer: method named Write / write<Op> with a http.ResponseWriter parameter
			if fd.Recv != nil && (fd.Name.Name == "Write" || fd.Name.Name == "writeResponse") {
				ps := paramObjs(info, fd)
				var w types.Object
				for _, p := range ps {
					if p != nil && p.Type().String() == "net/http.ResponseWriter" {
						w = p
					}
				}
				if w == nil {
					continue
				}
				nWriters++
				key := c.p.Name + ":" + funcDeclName(fd)
				min, max := writeHeaderCounts(info, fd, w)
				if min == 1 && max == 1 {
					c.r.OK("C14/one-response", key, c.s3.pos(fd.Pos()), "WriteHeader exactly once on every path")
				} else {
					c.r.Violation("C14/one-response", key, c.s3.pos(fd.Pos()), fmt.Sprintf("WriteHeader is called between %d and %d times depending on the path (expected exactly once)", min, max))
				}
			}
			// params parser: func new<Op>Params(r *http.Request) (zero T[, _ error])
			if fd.Recv == nil && strings.HasPrefix(fd.Name.Name, "new") && strings.HasSuffix(fd.Name.Name, "Params") && fd.Type.Results != nil {
				nres := 0
				for _, f := range fd.Type.Results.List {
					if len(f.Names) == 0 {
						nres++
					} else {
						nres += len(f.Names)
					}
				}
				nParsers++
				key := c.p.Name + ":" + fd.Name.Name
				if nres == 1 {
					c.r.OK("C14/parse-result", key, c.s3.pos(fd.Pos()), "parser cannot fail")
					continue
				}
				var zero types.Object
				if len(fd.Type.Results.List[0].Names) > 0 {
					zero = info.Defs[fd.Type.Results.List[0].Names[0]]
				}
				var params types.Object
				ast.Inspect(fd.Body, func(n ast.Node) bool {
					if ds, ok := n.(*ast.DeclStmt); ok && params == nil {
						if gd, ok := ds.Decl.(*ast.GenDecl); ok && gd.Tok == token.VAR {
							params = info.Defs[gd.Specs[0].(*ast.ValueSpec).Names[0]]
						}
					}
					return params == nil
				})
				bad := ""
				nRet := 0
				ast.Inspect(fd.Body, func(n ast.Node) bool {
					if _, ok := n.(*ast.FuncLit); ok {
						return false
					}
					ret, ok := n.(*ast.ReturnStmt)
					if !ok {
						return true
					}
					nRet++
					if len(ret.Results) != 2 {
						bad = "return with " + strconv.Itoa(len(ret.Results)) + " results"
						return true
					}
					v, e := ret.Results[0], ret.Results[1]
					switch {
					case identObj(info, v) == zero && zero != nil && !isNilIdent(e):
					case identObj(info, v) == params && params != nil && isNilIdent(e):
					default:
						bad = "return " + types.ExprString(v) + ", " + types.ExprString(e) + " is neither (zero, err) nor (params, nil)"
					}
					return true
				})
				if bad == "" && nRet > 0 {
					c.r.OK("C14/parse-result", key, c.s3.pos(fd.Pos()), fmt.Sprintf("%d returns", nRet))
				} else {
					c.r.Violation("C14/parse-result", key, c.s3.pos(fd.Pos()), "Parse() may return a value together with an error, or neither: "+bad)
				}
			}
		}
	}
	return
}

// writeHeaderCounts: min and max number of w.WriteHeader calls over all paths of fd (go/cfg dataflow).
func writeHeaderCounts(info *types.Info, fd *ast.FuncDecl, w types.Object) (int, int) {
	g := cfg.New(fd.Body, func(*ast.CallExpr) bool { return true })
	count := func(b *cfg.Block) int {
		n := 0
		for _, nd := range b.Nodes {
			ast.Inspect(nd, func(x ast.Node) bool {
				if _, ok := x.(*ast.FuncLit); ok {
					return false
				}
				if call, ok := x.(*ast.CallExpr); ok {
					if sel, ok := call.Fun.(*ast.SelectorExpr); ok && sel.Sel.Name == "WriteHeader" && identObj(info, sel.X) == w {
						n++
					}
				}
				return true
			})
		}
		return n
	}
	const inf = 1 << 20
	minIn := make([]int, len(g.Blocks))
	maxIn := make([]int, len(g.Blocks))
	for i := range minIn {
		minIn[i], maxIn[i] = inf, -1
	}
	minIn[0], maxIn[0] = 0, 0
	resMin, resMax := inf, -1
	for iter := 0; iter < len(g.Blocks)+2; iter++ {
		changed := false
		for _, b := range g.Blocks {
			if maxIn[b.Index] < 0 {
				continue
			}
			n := count(b)
			omin, omax := minIn[b.Index]+n, maxIn[b.Index]+n
			if omax > 50 {
				omax = 50
			}
			if len(b.Succs) == 0 {
				if omin < resMin {
					resMin = omin
				}
				if omax > resMax {
					resMax = omax
				}
			}
			for _, sct := range b.Succs {
				if omin < minIn[sct.Index] {
					minIn[sct.Index] = omin
					changed = true
				}
				if omax > maxIn[sct.Index] {
					maxIn[sct.Index] = omax
					changed = true
				}
			}
		}
		if !changed {
			break
		}
	}
	return resMin, resMax
}

// makeLenLoop: G6.
func (c *c14) makeLenLoop(fd *ast.FuncDecl, ix *ast.IndexExpr) string {
	info := c.info
	i := identObj(info, ix.Index)
	if i == nil {
		return ""
	}
	var loop *ast.RangeStmt
	ast.Inspect(fd.Body, func(n ast.Node) bool {
		if rs, ok := n.(*ast.RangeStmt); ok && rs.Body.Pos() <= ix.Pos() && ix.End() <= rs.Body.End() && rs.Key != nil && identObj(info, rs.Key) == i {
			loop = rs
		}
		return true
	})
	if loop == nil || loop.Value != nil && identObj(info, loop.Value) == i {
		return ""
	}
	blk, li := enclosingBlockStmt(fd.Body, loop)
	if blk == nil || li < 1 || blk.List[li] != ast.Stmt(loop) {
		return ""
	}
	as, ok := blk.List[li-1].(*ast.AssignStmt)
	if !ok || len(as.Lhs) != 1 || len(as.Rhs) != 1 {
		return ""
	}
	mk, ok := as.Rhs[0].(*ast.CallExpr)
	if !ok || len(mk.Args) != 2 {
		return ""
	}
	if id, ok := mk.Fun.(*ast.Ident); !ok || id.Name != "make" {
		return ""
	}
	lc, ok := mk.Args[1].(*ast.CallExpr)
	if !ok || len(lc.Args) != 1 {
		return ""
	}
	if id, ok := lc.Fun.(*ast.Ident); !ok || id.Name != "len" {
		return ""
	}
	if types.ExprString(lc.Args[0]) != types.ExprString(loop.X) || types.ExprString(as.Lhs[0]) != types.ExprString(ix.X) {
		return ""
	}
	// neither A nor F is reassigned inside the loop
	bad := false
	ast.Inspect(loop.Body, func(n ast.Node) bool {
		if a, ok := n.(*ast.AssignStmt); ok {
			for _, l := range a.Lhs {
				ls := types.ExprString(l)
				if ls == types.ExprString(ix.X) || ls == types.ExprString(loop.X) {
					bad = true
				}
			}
		}
		return true
	})
	if bad {
		return ""
	}
	return "G6 A = make([]T, len(F)) directly before `for i := range F`: 0 <= i < len(F) = len(A)"
}

// rangeMakeIdiom: a store X[k] = v inside `for k, _ := range m` directly preceded by `if len(m) > 0 { X = make(...) }`.
func (c *c14) rangeMakeIdiom(fd *ast.FuncDecl, pos token.Pos) bool {
	info := c.info
	var store *ast.AssignStmt
	ast.Inspect(fd.Body, func(n ast.Node) bool {
		if as, ok := n.(*ast.AssignStmt); ok && as.Pos() <= pos && pos <= as.End() && len(as.Lhs) == 1 {
			if _, ok := as.Lhs[0].(*ast.IndexExpr); ok {
				store = as
			}
		}
		return true
	})
	if store == nil {
		return false
	}
	ix := store.Lhs[0].(*ast.IndexExpr)
	var loop *ast.RangeStmt
	ast.Inspect(fd.Body, func(n ast.Node) bool {
		if rs, ok := n.(*ast.RangeStmt); ok && rs.Body.Pos() <= store.Pos() && store.End() <= rs.Body.End() {
			loop = rs
		}
		return true
	})
	if loop == nil {
		return false
	}
	blk, li := enclosingBlockStmt(fd.Body, loop)
	if blk == nil || li < 1 || blk.List[li] != ast.Stmt(loop) {
		return false
	}
	// declarations without initialiser (`var v, zero T`) may stand between the guard and the loop
	gi := li - 1
	for gi > 0 {
		ds, isDecl := blk.List[gi].(*ast.DeclStmt)
		if !isDecl {
			break
		}
		pure := true
		if gd, ok := ds.Decl.(*ast.GenDecl); ok {
			for _, sp := range gd.Specs {
				if vs, ok := sp.(*ast.ValueSpec); !ok || len(vs.Values) > 0 {
					pure = false
				}
			}
		}
		if !pure {
			break
		}
		gi--
	}
	ifs, ok := blk.List[gi].(*ast.IfStmt)
	if !ok || ifs.Else != nil || len(ifs.Body.List) != 1 {
		return false
	}
	be, ok := ifs.Cond.(*ast.BinaryExpr)
	if !ok || be.Op != token.GTR {
		return false
	}
	lc, ok := be.X.(*ast.CallExpr)
	if !ok || len(lc.Args) != 1 || types.ExprString(lc.Args[0]) != types.ExprString(loop.X) {
		return false
	}
	if id, ok := lc.Fun.(*ast.Ident); !ok || id.Name != "len" {
		return false
	}
	if tv := info.Types[be.Y]; tv.Value == nil || tv.Value.String() != "0" {
		return false
	}
	mk, ok := ifs.Body.List[0].(*ast.AssignStmt)
	if !ok || len(mk.Lhs) != 1 || types.ExprString(mk.Lhs[0]) != types.ExprString(ix.X) {
		return false
	}
	call, ok := mk.Rhs[0].(*ast.CallExpr)
	if !ok {
		return false
	}
	if id, ok := call.Fun.(*ast.Ident); !ok || id.Name != "make" {
		return false
	}
	// the loop body must not reassign X or delete from m before the store
	bad := false
	ast.Inspect(loop.Body, func(n ast.Node) bool {
		if a, ok := n.(*ast.AssignStmt); ok {
			for _, l := range a.Lhs {
				if types.ExprString(l) == types.ExprString(ix.X) {
					bad = true
				}
			}
		}
		return true
	})
	return !bad
}

func (c *c14) declOf(fn *ssa.Function) *ast.FuncDecl {
	for fn.Parent() != nil {
		fn = fn.Parent()
	}
	if fd, ok := fn.Syntax().(*ast.FuncDecl); ok {
		return fd
	}
	return nil
}

// c14Witness: the construct rules expect zero findings on a healthy tree; the
// witness package must be flagged exactly as annotated on every run.
func c14Witness(r *Report) {
	p, err := loadWitness("c14")
	if err != nil {
		r.Break("load witness c14: %v", err)
		return
	}
	prog, pkgs := ssautil.Packages([]*packages.Package{p}, ssa.InstantiateGenerics)
	prog.Build()
	scratch := NewReport("C14")
	c := &c14{r: scratch, s3: &S3{Fset: p.Fset, Root: witnessDir()}, p: &Program{Name: "w", Pkg: p, SSAPkg: pkgs[0]}, info: p.TypesInfo}
	c.constructs()
	for i := range scratch.Obls {
		// "w:c14.Func:what" -> "w.Func:what"; rule "C14/x" -> "x"
		k := strings.TrimPrefix(scratch.Obls[i].Key, "w:")
		name := k
		if j := strings.Index(name, ":"); j >= 0 {
			name = name[:j]
		}
		if j := strings.LastIndex(name, "."); j >= 0 {
			name = name[j+1:]
		}
		scratch.Obls[i].Key = "w." + name + ":x"
	}
	compareWitness(r, "C14", scratch, witnessExpectations(p))
}

// enclosingBlockOfStmt: the block whose list contains st, and its position there.
func enclosingBlockOfStmt(root *ast.BlockStmt, st ast.Stmt) (*ast.BlockStmt, int) {
	var blk *ast.BlockStmt
	idx := -1
	ast.Inspect(root, func(n ast.Node) bool {
		if b, ok := n.(*ast.BlockStmt); ok {
			for i, s := range b.List {
				if s == st {
					blk, idx = b, i
				}
			}
		}
		return blk == nil
	})
	return blk, idx
}

func fieldNameOf(fa *ssa.FieldAddr) string {
	t := fa.X.Type()
	if p, ok := t.Underlying().(*types.Pointer); ok {
		t = p.Elem()
	}
	if st, ok := t.Underlying().(*types.Struct); ok && fa.Field < st.NumFields() {
		return st.Field(fa.Field).Name()
	}
	return "?"
}

// ownStructField: the field belongs to a struct type declared in the analysed package and is of
// func or interface type.
func (c *c14) ownStructField(fa *ssa.FieldAddr) bool {
	t := fa.X.Type()
	if p, ok := t.Underlying().(*types.Pointer); ok {
		t = p.Elem()
	}
	n, ok := types.Unalias(t).(*types.Named)
	if !ok || n.Obj().Pkg() == nil || n.Obj().Pkg() != c.p.Pkg.Types {
		return false
	}
	st, ok := n.Underlying().(*types.Struct)
	if !ok || fa.Field >= st.NumFields() {
		return false
	}
	switch st.Field(fa.Field).Type().Underlying().(type) {
	case *types.Signature, *types.Interface:
		return true
	}
	return false
}

// fieldNilGuarded: block `at` is dominated by the non-nil branch of a test `<same base>.<same field> != nil`.
func fieldNilGuarded(fn *ssa.Function, fa *ssa.FieldAddr, at *ssa.BasicBlock) bool {
	for _, b := range fn.Blocks {
		if len(b.Instrs) == 0 {
			continue
		}
		iff, ok := b.Instrs[len(b.Instrs)-1].(*ssa.If)
		if !ok {
			continue
		}
		// the test behind a read-only predicate of the package: `if rt.isSpecFileRequest(path) {…}` where
		// the predicate can only return true below `rt.F != nil`
		if call, isCall := iff.Cond.(*ssa.Call); isCall {
			if callee := call.Call.StaticCallee(); callee != nil && callee.Blocks != nil && callee.Pkg == fn.Pkg {
				for ai, a := range call.Call.Args {
					if ai < len(callee.Params) && sameBase(a, fa.X) && trueImpliesFieldNonNil(callee, callee.Params[ai], fa.Field) {
						if t := b.Succs[0]; t.Dominates(at) && t != b {
							return true
						}
					}
				}
			}
			continue
		}
		bo, ok := iff.Cond.(*ssa.BinOp)
		if !ok || (bo.Op != token.NEQ && bo.Op != token.EQL) {
			continue
		}
		var other ssa.Value
		var ld *ssa.UnOp
		if l, ok := bo.X.(*ssa.UnOp); ok && l.Op == token.MUL {
			ld, other = l, bo.Y
		} else if l, ok := bo.Y.(*ssa.UnOp); ok && l.Op == token.MUL {
			ld, other = l, bo.X
		}
		k, isConst := other.(*ssa.Const)
		if ld == nil || !isConst || k.Value != nil {
			continue
		}
		g, ok := ld.X.(*ssa.FieldAddr)
		if !ok || g.Field != fa.Field || !sameBase(g.X, fa.X) {
			continue
		}
		nonNil := b.Succs[0]
		if bo.Op == token.EQL {
			nonNil = b.Succs[1]
		}
		if nonNil.Dominates(at) && nonNil != b {
			return true
		}
	}
	return false
}

// trueImpliesFieldNonNil: every way the bool function can return true lies below the non-nil
// branch of a test of <param>.<field>.
func trueImpliesFieldNonNil(fn *ssa.Function, param *ssa.Parameter, field int) bool {
	if fn.Signature.Results().Len() != 1 {
		return false
	}
	// a synthetic field address of the parameter to reuse fieldNilGuarded's matching
	var probe *ssa.FieldAddr
	for _, b := range fn.Blocks {
		for _, ins := range b.Instrs {
			if fa, ok := ins.(*ssa.FieldAddr); ok && fa.Field == field && fa.X == ssa.Value(param) {
				probe = fa
			}
		}
	}
	if probe == nil {
		return false
	}
	var okValue func(v ssa.Value, at *ssa.BasicBlock, depth int) bool
	okValue = func(v ssa.Value, at *ssa.BasicBlock, depth int) bool {
		if depth > 8 {
			return false
		}
		if k, ok := v.(*ssa.Const); ok && k.Value != nil && k.Value.String() == "false" {
			return true
		}
		if fieldNilGuarded(fn, probe, at) {
			return true
		}
		if phi, ok := v.(*ssa.Phi); ok {
			for i, e := range phi.Edges {
				if !okValue(e, phi.Block().Preds[i], depth+1) {
					return false
				}
			}
			return true
		}
		return false
	}
	n := 0
	for _, b := range fn.Blocks {
		for _, ins := range b.Instrs {
			if ret, ok := ins.(*ssa.Return); ok && len(ret.Results) == 1 {
				n++
				if !okValue(ret.Results[0], b, 0) {
					return false
				}
			}
		}
	}
	return n > 0
}

func sameBase(a, b ssa.Value) bool {
	if a == b {
		return true
	}
	// loads of the same local cell (value receivers are spilled: t0 = local T; *t0 = recv)
	la, ok1 := a.(*ssa.UnOp)
	lb, ok2 := b.(*ssa.UnOp)
	if ok1 && ok2 && la.Op == token.MUL && lb.Op == token.MUL {
		return la.X == lb.X
	}
	return false
}

// fieldAlwaysSet: the struct type is unexported-constructed only: every construction of it in the
// package (composite literal, or `var x T` followed by `x.F = v` in the same function) gives the
// field a value, and there is at least one construction. Exported configuration structs that the
// user fills (API, Client) never qualify: their literals live outside the package.
func (c *c14) fieldAlwaysSet(fa *ssa.FieldAddr) bool {
	t := fa.X.Type()
	if p, ok := t.Underlying().(*types.Pointer); ok {
		t = p.Elem()
	}
	n, ok := types.Unalias(t).(*types.Named)
	if !ok {
		return false
	}
	exported := n.Obj().Exported()
	st := n.Underlying().(*types.Struct)
	fname := st.Field(fa.Field).Name()
	info := c.p.Pkg.TypesInfo
	nCons, allSet := 0, true
	for _, f := range c.p.Pkg.Syntax {
		for _, d := range f.Decls {
			fd, ok := d.(*ast.FuncDecl)
			if !ok || fd.Body == nil {
				continue
			}
			ast.Inspect(fd.Body, func(nd ast.Node) bool {
				switch x := nd.(type) {
				case *ast.CompositeLit:
					lt := info.TypeOf(x)
					if lt == nil || !types.Identical(lt, n) {
						return true
					}
					nCons++
					set := false
					for i, el := range x.Elts {
						if kv, ok := el.(*ast.KeyValueExpr); ok {
							if id, ok := kv.Key.(*ast.Ident); ok && id.Name == fname && !isNilIdent(kv.Value) {
								set = true
							}
						} else if i == fa.Field && !isNilIdent(el) {
							set = true
						}
					}
					if !set {
						allSet = false
					}
				case *ast.ValueSpec:
					if x.Type == nil || len(x.Values) != 0 {
						return true
					}
					if vt := info.TypeOf(x.Type); vt == nil || !types.Identical(vt, n) {
						return true
					}
					for _, nm := range x.Names {
						nCons++
						vo := info.Defs[nm]
						set := false
						ast.Inspect(fd.Body, func(m ast.Node) bool {
							if as, ok := m.(*ast.AssignStmt); ok {
								for i, l := range as.Lhs {
									if sel, ok := l.(*ast.SelectorExpr); ok && sel.Sel.Name == fname && identObj(info, sel.X) == vo && i < len(as.Rhs) && !isNilIdent(as.Rhs[i]) {
										set = true
									}
								}
							}
							return true
						})
						if !set {
							allSet = false
						}
					}
				}
				return true
			})
		}
	}
	// unexported and never constructed in the package: its methods are unreachable. An exported
	// type qualifies only through the package's own constructions (constructor functions /
	// literals): values the user builds by hand are the user's responsibility, but a type the
	// package never constructs (API, Client: pure configuration) is all optional hooks.
	if exported {
		return nCons > 0 && allSet
	}
	return allSet
}
