package main

// strcut.go — case-partitioned abstract evaluation of small string-cutting code.
//
// Two helpers of the generated code cut a path at its first "/": splitPath and
// the path-variable extraction block of the request parsers. Their exact
// spelling is irrelevant; what the router/parameter models (and the bounds
// rule) need is their CONTRACT. Instead of matching one frozen shape the code
// is evaluated over a finite partition of its input, with values in closed
// form:
//
//   base string b (the input), L = len(b)
//   K    = position of the separator looked for (strings.Index/IndexByte in
//          b[o:]), either "absent" (-1) or symbolic with 0 <= K, o+K+1 <= L
//   ints   are linear forms  c0 + c1*K + c2*L
//   strings are b[lo:hi] (lo, hi linear forms) or literals
//   conditions evaluate to true / false under the case, or the evaluation
//   stops (undecided) — no solver, no search: each case fixes every atom the
//   supported operators can ask about.
//
// Supported statements: :=, =, if/else, return, blocks; expressions: len,
// slicing, indexing b[0], strings.Index / IndexByte / HasPrefix, comparisons,
// &&, ||, !, + and - on ints. Anything else ⇒ undecided (reported as such).
// Every slice/index expression evaluated is checked against 0 <= lo <= hi <= L
// under the case; the nodes proven in all cases are handed to C14/bounds.

import (
	"fmt"
	"go/ast"
	"go/constant"
	"go/token"
	"go/types"
	"golang.org/x/tools/go/types/typeutil"
)

type lin struct{ c, k, l int } // c + k*K + l*L

func (a lin) add(b lin) lin  { return lin{a.c + b.c, a.k + b.k, a.l + b.l} }
func (a lin) sub(b lin) lin  { return lin{a.c - b.c, a.k - b.k, a.l - b.l} }
func (a lin) String() string { return fmt.Sprintf("%d%+dK%+dL", a.c, a.k, a.l) }

// scCase fixes the atoms.
type scCase struct {
	name       string
	empty      bool // L == 0
	firstIsSep bool // b[0] == sep (only meaningful when !empty)
	found      bool // the Index call finds the separator
	off        int  // offset o of the searched suffix b[o:] (set when the Index call is evaluated)
	offSet     bool
}

// sign of a linear form under the case: -1, 0, +1, or 2 = unknown.
// Facts: L >= 0; empty ⇒ L == 0; !empty ⇒ L >= 1; found ⇒ K >= 0 and L >= off+K+1; !found ⇒ K == -1.
func (cs *scCase) sign(a lin) int {
	if cs.empty {
		a = lin{a.c, a.k, 0}
	}
	if !cs.found {
		a = lin{a.c - a.k, 0, a.l} // K = -1
	}
	if a.k == 0 && a.l == 0 {
		switch {
		case a.c < 0:
			return -1
		case a.c == 0:
			return 0
		}
		return 1
	}
	// substitute L = minL + M (M >= 0), with minL depending on the case; K >= 0 when found
	minL, kInL := 0, 0
	if !cs.empty {
		minL = 1
	}
	if cs.found {
		// L = off + K + 1 + M
		minL, kInL = cs.off+1, 1
	}
	c0 := a.c + a.l*minL
	ck := a.k + a.l*kInL // coefficient of K
	cm := a.l            // coefficient of M
	if ck >= 0 && cm >= 0 {
		if c0 > 0 {
			return 1
		}
		if c0 == 0 && ck == 0 && cm == 0 {
			return 0
		}
		if c0 >= 0 {
			return 3 // >= 0, possibly 0
		}
	}
	if ck <= 0 && cm <= 0 {
		if c0 < 0 {
			return -1
		}
		if c0 <= 0 {
			return -3 // <= 0
		}
	}
	return 2
}

func (cs *scCase) geZero(a lin) bool { s := cs.sign(a); return s == 0 || s == 1 || s == 3 }

type scVal struct {
	kind   int // 0 unknown, 1 int, 2 string-slice-of-base, 3 string literal, 4 bool
	i      lin
	lo, hi lin
	lit    string
	b      bool
}

type scEval struct {
	prog   *Program // for following calls of helpers of the same package (may be nil)
	depth  int
	info   *types.Info
	base   types.Object // the input string variable
	sep    string
	cs     *scCase
	env    map[types.Object]scVal
	why    string // first reason evaluation stopped
	proven map[ast.Node]bool
	unsafe map[ast.Node]string
}

func (e *scEval) fail(format string, a ...any) scVal {
	if e.why == "" {
		e.why = fmt.Sprintf(format, a...)
	}
	return scVal{}
}

func (e *scEval) baseVal() scVal { return scVal{kind: 2, lo: lin{}, hi: lin{l: 1}} }

func (e *scEval) expr(x ast.Expr) scVal {
	x = ast.Unparen(x)
	if tv := e.info.Types[x]; tv.Value != nil {
		switch tv.Value.Kind() {
		case constant.Int:
			if v, ok := constant.Int64Val(tv.Value); ok {
				return scVal{kind: 1, i: lin{c: int(v)}}
			}
		case constant.String:
			return scVal{kind: 3, lit: constant.StringVal(tv.Value)}
		case constant.Bool:
			return scVal{kind: 4, b: constant.BoolVal(tv.Value)}
		}
	}
	switch n := x.(type) {
	case *ast.Ident:
		o := identObj(e.info, n)
		if v, ok := e.env[o]; ok {
			return v
		}
		return e.fail("variable %s has no tracked value", n.Name)
	case *ast.CallExpr:
		if id, ok := n.Fun.(*ast.Ident); ok && id.Name == "len" && len(n.Args) == 1 {
			if _, isB := e.info.Uses[id].(*types.Builtin); isB {
				v := e.expr(n.Args[0])
				switch v.kind {
				case 2:
					return scVal{kind: 1, i: v.hi.sub(v.lo)}
				case 3:
					return scVal{kind: 1, i: lin{c: len(v.lit)}}
				}
				return e.fail("len of an untracked value")
			}
		}
		switch calleeName(e.info, n) {
		case "strings.Index", "strings.IndexByte":
			if len(n.Args) != 2 {
				return e.fail("Index arity")
			}
			sep := ""
			if tv := e.info.Types[n.Args[1]]; tv.Value != nil {
				if tv.Value.Kind() == constant.String {
					sep = constant.StringVal(tv.Value)
				} else if v, ok := constant.Int64Val(constant.ToInt(tv.Value)); ok {
					sep = string(rune(v))
				}
			}
			if sep != e.sep {
				return e.fail("Index separator is not %q", e.sep)
			}
			v := e.expr(n.Args[0])
			// the searched string must be b[o:L] with constant o
			if v.kind != 2 || v.hi != (lin{l: 1}) || v.lo.k != 0 || v.lo.l != 0 {
				return e.fail("Index is not applied to a suffix b[o:] of the input")
			}
			if e.cs.offSet && e.cs.off != v.lo.c {
				return e.fail("two Index calls over different suffixes")
			}
			e.cs.off, e.cs.offSet = v.lo.c, true
			if e.cs.empty && v.lo.c == 0 {
				// Index in the empty string: absent
				if e.cs.found {
					return e.fail("infeasible case")
				}
			}
			if !e.cs.found {
				return scVal{kind: 1, i: lin{c: -1}}
			}
			return scVal{kind: 1, i: lin{k: 1}}
		case "strings.HasPrefix":
			if len(n.Args) == 2 {
				if tv := e.info.Types[n.Args[1]]; tv.Value != nil && tv.Value.Kind() == constant.String && constant.StringVal(tv.Value) == e.sep {
					v := e.expr(n.Args[0])
					if v.kind == 2 && v.lo == (lin{}) && v.hi == (lin{l: 1}) {
						return scVal{kind: 4, b: !e.cs.empty && e.cs.firstIsSep}
					}
				}
			}
			return e.fail("HasPrefix on something other than (input, %q)", e.sep)
		}
		return e.fail("unsupported call %s", types.ExprString(n.Fun))
	case *ast.SliceExpr:
		v := e.expr(n.X)
		if v.kind != 2 || n.Slice3 {
			return e.fail("slicing of an untracked string")
		}
		lo, hi := lin{}, v.hi.sub(v.lo)
		if n.Low != nil {
			lv := e.expr(n.Low)
			if lv.kind != 1 {
				return e.fail("slice bound is not a tracked int")
			}
			lo = lv.i
		}
		if n.High != nil {
			hv := e.expr(n.High)
			if hv.kind != 1 {
				return e.fail("slice bound is not a tracked int")
			}
			hi = hv.i
		}
		length := v.hi.sub(v.lo)
		if e.cs.geZero(lo) && e.cs.geZero(hi.sub(lo)) && e.cs.geZero(length.sub(hi)) {
			if _, bad := e.unsafe[n]; !bad {
				e.proven[n] = true
			}
		} else {
			e.unsafe[n] = fmt.Sprintf("case %s: bounds %s:%s of a string of length %s not provable", e.cs.name, lo, hi, length)
			delete(e.proven, n)
		}
		return scVal{kind: 2, lo: v.lo.add(lo), hi: v.lo.add(hi)}
	case *ast.IndexExpr:
		// b[0] compared with the separator byte: handled in the comparison; here only bounds
		v := e.expr(n.X)
		iv := e.expr(n.Index)
		if v.kind != 2 || iv.kind != 1 {
			return e.fail("index of an untracked string")
		}
		length := v.hi.sub(v.lo)
		if e.cs.geZero(iv.i) && e.cs.sign(length.sub(iv.i)) == 1 {
			if _, bad := e.unsafe[n]; !bad {
				e.proven[n] = true
			}
		} else {
			e.unsafe[n] = fmt.Sprintf("case %s: index %s of a string of length %s not provable", e.cs.name, iv.i, length)
			delete(e.proven, n)
		}
		if v.lo.add(iv.i) == (lin{}) {
			return scVal{kind: 5} // the first byte of the input
		}
		return e.fail("byte other than input[0] read")
	case *ast.UnaryExpr:
		if n.Op == token.NOT {
			v := e.expr(n.X)
			if v.kind == 4 {
				return scVal{kind: 4, b: !v.b}
			}
			return e.fail("negation of an undecided condition")
		}
		if n.Op == token.SUB {
			v := e.expr(n.X)
			if v.kind == 1 {
				return scVal{kind: 1, i: lin{}.sub(v.i)}
			}
		}
		return e.fail("unsupported unary operator")
	case *ast.BinaryExpr:
		switch n.Op {
		case token.LAND, token.LOR:
			l := e.expr(n.X)
			if l.kind != 4 {
				return e.fail("undecided operand of %s", n.Op)
			}
			if n.Op == token.LAND && !l.b {
				return scVal{kind: 4, b: false}
			}
			if n.Op == token.LOR && l.b {
				return scVal{kind: 4, b: true}
			}
			r := e.expr(n.Y)
			if r.kind != 4 {
				return e.fail("undecided operand of %s", n.Op)
			}
			return r
		case token.ADD, token.SUB:
			l, r := e.expr(n.X), e.expr(n.Y)
			if l.kind == 1 && r.kind == 1 {
				if n.Op == token.ADD {
					return scVal{kind: 1, i: l.i.add(r.i)}
				}
				return scVal{kind: 1, i: l.i.sub(r.i)}
			}
			return e.fail("arithmetic on untracked values")
		case token.EQL, token.NEQ, token.LSS, token.LEQ, token.GTR, token.GEQ:
			l, r := e.expr(n.X), e.expr(n.Y)
			// first byte vs separator
			if l.kind == 5 || r.kind == 5 {
				other := r
				if r.kind == 5 {
					other = l
				}
				isSep := false
				if other.kind == 1 && len(e.sep) == 1 && other.i == (lin{c: int(e.sep[0])}) {
					isSep = true
				}
				if !isSep || (n.Op != token.EQL && n.Op != token.NEQ) {
					return e.fail("first byte compared with something other than the separator")
				}
				eq := e.cs.firstIsSep
				return scVal{kind: 4, b: eq == (n.Op == token.EQL)}
			}
			if l.kind == 3 && r.kind == 2 {
				l, r = r, l
			}
			if l.kind == 2 && r.kind == 3 && r.lit == "" && (n.Op == token.EQL || n.Op == token.NEQ) {
				s := e.cs.sign(l.hi.sub(l.lo))
				switch s {
				case 0:
					return scVal{kind: 4, b: n.Op == token.EQL}
				case 1:
					return scVal{kind: 4, b: n.Op == token.NEQ}
				}
				return e.fail("emptiness of a cut is not decided by the case")
			}
			if l.kind != 1 || r.kind != 1 {
				return e.fail("comparison of untracked values")
			}
			s := e.cs.sign(l.i.sub(r.i))
			dec := func(b bool) scVal { return scVal{kind: 4, b: b} }
			switch n.Op {
			case token.EQL:
				if s == 0 {
					return dec(true)
				}
				if s == 1 || s == -1 {
					return dec(false)
				}
			case token.NEQ:
				if s == 0 {
					return dec(false)
				}
				if s == 1 || s == -1 {
					return dec(true)
				}
			case token.LSS:
				if s == -1 {
					return dec(true)
				}
				if s == 0 || s == 1 || s == 3 {
					return dec(false)
				}
			case token.LEQ:
				if s == -1 || s == 0 || s == -3 {
					return dec(true)
				}
				if s == 1 {
					return dec(false)
				}
			case token.GTR:
				if s == 1 {
					return dec(true)
				}
				if s == 0 || s == -1 || s == -3 {
					return dec(false)
				}
			case token.GEQ:
				if s == 1 || s == 0 || s == 3 {
					return dec(true)
				}
				if s == -1 {
					return dec(false)
				}
			}
			return e.fail("comparison %s is not decided by case %s", types.ExprString(n), e.cs.name)
		}
	}
	return e.fail("unsupported expression %s", types.ExprString(x))
}

// exec runs a statement list. It returns (returned values, true) when a return was
// executed, (nil, false) when the list fell through. stop, when non-nil, is asked before
// each statement; returning true ends the evaluation with a fall-through at that point.
func (e *scEval) exec(list []ast.Stmt, stop func(ast.Stmt) bool) (rets []scVal, returned bool, stoppedAt ast.Stmt) {
	for _, st := range list {
		if e.why != "" {
			return nil, false, nil
		}
		if stop != nil && stop(st) {
			return nil, false, st
		}
		switch s := st.(type) {
		case *ast.AssignStmt:
			// before, after, found := strings.Cut(x, sep)
			if len(s.Lhs) == 3 && len(s.Rhs) == 1 {
				if call, ok := ast.Unparen(s.Rhs[0]).(*ast.CallExpr); ok && calleeName(e.info, call) == "strings.Cut" && len(call.Args) == 2 {
					sepOK := false
					if tv := e.info.Types[call.Args[1]]; tv.Value != nil && tv.Value.Kind() == constant.String && constant.StringVal(tv.Value) == e.sep {
						sepOK = true
					}
					v := e.expr(call.Args[0])
					if !sepOK || v.kind != 2 || v.hi != (lin{l: 1}) || v.lo.k != 0 || v.lo.l != 0 {
						e.fail("strings.Cut is not applied to a suffix of the input with the separator %q", e.sep)
						return nil, false, nil
					}
					if e.cs.offSet && e.cs.off != v.lo.c {
						e.fail("two separator searches over different suffixes")
						return nil, false, nil
					}
					e.cs.off, e.cs.offSet = v.lo.c, true
					var before, after scVal
					if e.cs.found && !(e.cs.empty && v.lo.c == 0) {
						cut := v.lo.add(lin{k: 1})
						before = scVal{kind: 2, lo: v.lo, hi: cut}
						after = scVal{kind: 2, lo: cut.add(lin{c: len(e.sep)}), hi: v.hi}
					} else {
						before = v
						after = scVal{kind: 3, lit: ""}
					}
					vals := []scVal{before, after, {kind: 4, b: e.cs.found}}
					for i, l := range s.Lhs {
						if id, ok := l.(*ast.Ident); ok && id.Name == "_" {
							continue
						}
						if o := identObj(e.info, l); o != nil {
							e.env[o] = vals[i]
						}
					}
					continue
				}
			}
			// a, b = helper(x): the helper of the same package is evaluated on the argument values
			if len(s.Lhs) > 1 && len(s.Rhs) == 1 && e.prog != nil && e.depth < 3 {
				if call, ok := ast.Unparen(s.Rhs[0]).(*ast.CallExpr); ok {
					if fo, ok := typeutil.Callee(e.info, call).(*types.Func); ok && fo.Pkg() == e.prog.Pkg.Types {
						if fd := declOfObj(e.prog, fo); fd != nil && fd.Recv == nil && fd.Body != nil {
							ps := paramObjs(e.info, fd)
							if len(ps) == len(call.Args) {
								for i, a := range call.Args {
									e.env[ps[i]] = e.expr(a)
								}
								e.depth++
								rets, returned, _ := e.exec(fd.Body.List, nil)
								e.depth--
								if e.why != "" {
									return nil, false, nil
								}
								if !returned || len(rets) != len(s.Lhs) {
									e.fail("helper %s does not return %d values on this path", fo.Name(), len(s.Lhs))
									return nil, false, nil
								}
								for i, l := range s.Lhs {
									if id, ok := l.(*ast.Ident); ok && id.Name == "_" {
										continue
									}
									if o := identObj(e.info, l); o != nil {
										e.env[o] = rets[i]
									}
								}
								continue
							}
						}
					}
				}
			}
			if len(s.Lhs) != len(s.Rhs) || (s.Tok != token.DEFINE && s.Tok != token.ASSIGN) {
				e.fail("unsupported assignment form")
				return nil, false, nil
			}
			vals := make([]scVal, len(s.Rhs))
			for i, r := range s.Rhs {
				vals[i] = e.expr(r)
			}
			for i, l := range s.Lhs {
				if id, ok := l.(*ast.Ident); ok && id.Name == "_" {
					continue
				}
				o := identObj(e.info, l)
				if o == nil {
					e.fail("assignment to something that is not a variable")
					return nil, false, nil
				}
				e.env[o] = vals[i]
			}
		case *ast.IfStmt:
			if s.Init != nil {
				if _, r, at := e.exec([]ast.Stmt{s.Init}, stop); r || at != nil {
					return nil, false, at
				}
			}
			c := e.expr(s.Cond)
			if e.why != "" {
				return nil, false, nil
			}
			if c.kind != 4 {
				e.fail("condition %s not decided", types.ExprString(s.Cond))
				return nil, false, nil
			}
			if c.b {
				if r, ok, at := e.exec(s.Body.List, stop); ok || at != nil {
					return r, ok, at
				}
			} else if s.Else != nil {
				var l []ast.Stmt
				switch el := s.Else.(type) {
				case *ast.BlockStmt:
					l = el.List
				default:
					l = []ast.Stmt{el}
				}
				if r, ok, at := e.exec(l, stop); ok || at != nil {
					return r, ok, at
				}
			}
		case *ast.BlockStmt:
			if r, ok, at := e.exec(s.List, stop); ok || at != nil {
				return r, ok, at
			}
		case *ast.ReturnStmt:
			for _, r := range s.Results {
				rets = append(rets, e.expr(r))
			}
			return rets, true, nil
		case *ast.DeclStmt:
			gd, ok := s.Decl.(*ast.GenDecl)
			if !ok || gd.Tok != token.VAR {
				e.fail("unsupported declaration")
				return nil, false, nil
			}
			for _, sp := range gd.Specs {
				vs := sp.(*ast.ValueSpec)
				for i, nme := range vs.Names {
					if i < len(vs.Values) {
						e.env[e.info.Defs[nme]] = e.expr(vs.Values[i])
					} else if b, ok := e.info.Defs[nme].Type().Underlying().(*types.Basic); ok && b.Info()&types.IsString != 0 {
						e.env[e.info.Defs[nme]] = scVal{kind: 3, lit: ""}
					} else if ok && b.Info()&types.IsInteger != 0 {
						e.env[e.info.Defs[nme]] = scVal{kind: 1}
					}
				}
			}
		case *ast.EmptyStmt:
		default:
			e.fail("unsupported statement %T", st)
			return nil, false, nil
		}
	}
	return nil, false, nil
}

// scCases enumerates the partition.
func scCases() []*scCase {
	return []*scCase{
		{name: "empty input", empty: true},
		{name: "first byte is not the separator, no separator later", firstIsSep: false, found: false},
		{name: "first byte is not the separator, separator found", firstIsSep: false, found: true},
		{name: "first byte is the separator, none later", firstIsSep: true, found: false},
		{name: "first byte is the separator, another found", firstIsSep: true, found: true},
	}
}

type scResult struct {
	Why    string            // "" when the contract holds in every case
	Proven map[ast.Node]bool // slice/index nodes whose bounds hold in every case that evaluates them
}

// checkSplitPathContract: for every case, fd(b) returns
//
//	(b, "")                       when b does not start with "/" or has no second "/"
//	(b[:1+K+1-?]…)                = (b[:K+1], b[K+1:]) with K the position of "/" in b[1:]
func checkSplitPathContract(p *Program, fd *ast.FuncDecl) scResult {
	info := p.Pkg.TypesInfo
	res := scResult{Proven: map[ast.Node]bool{}}
	ps := paramObjs(info, fd)
	if len(ps) != 1 {
		res.Why = "splitPath does not have exactly one parameter"
		return res
	}
	unsafe := map[ast.Node]string{}
	for _, cs := range scCases() {
		e := &scEval{prog: p, info: info, base: ps[0], sep: "/", cs: cs, env: map[types.Object]scVal{}, proven: res.Proven, unsafe: unsafe}
		e.env[ps[0]] = e.baseVal()
		rets, returned, _ := e.exec(fd.Body.List, nil)
		if e.why != "" {
			res.Why = fmt.Sprintf("case %q: %s", cs.name, e.why)
			return res
		}
		if !returned || len(rets) != 2 {
			res.Why = fmt.Sprintf("case %q: no two-value return reached", cs.name)
			return res
		}
		// In cases where the first byte is not the separator the search is never needed; when
		// the function searched anyway, the offset must still be consistent (checked in expr).
		whole := func(v scVal) bool { return v.kind == 2 && v.lo == (lin{}) && v.hi == (lin{l: 1}) }
		isEmpty := func(v scVal) bool {
			return v.kind == 3 && v.lit == "" || v.kind == 2 && cs.sign(v.hi.sub(v.lo)) == 0
		}
		wantCut := !cs.empty && cs.firstIsSep && cs.found
		if !wantCut {
			if !(whole(rets[0]) || cs.empty && isEmpty(rets[0])) || !isEmpty(rets[1]) {
				res.Why = fmt.Sprintf("case %q: must return (s, \"\")", cs.name)
				return res
			}
			continue
		}
		if !cs.offSet || cs.off != 1 {
			res.Why = fmt.Sprintf("case %q: the second separator is not searched in s[1:]", cs.name)
			return res
		}
		cut := lin{c: 1, k: 1} // 1 + K
		if rets[0].kind != 2 || rets[0].lo != (lin{}) || rets[0].hi != cut || rets[1].kind != 2 || rets[1].lo != cut || rets[1].hi != (lin{l: 1}) {
			res.Why = fmt.Sprintf("case %q: must return (s[:idx+1], s[idx+1:])", cs.name)
			return res
		}
	}
	for n, why := range unsafe {
		delete(res.Proven, n)
		if res.Why == "" {
			res.Why = "bounds: " + why
		}
	}
	return res
}

// pathVarExtraction evaluates the first statements of a path-variable block: up to the first
// statement `stop` accepts, the block must have produced a variable V with
//
//	V = p[:K], p' = p[K:]   (separator found at K in p)     or    V = p, p' = ""  (not found)
//
// Returns V.
func pathVarExtraction(p *Program, list []ast.Stmt, pObj types.Object, stop func(ast.Stmt) bool) (seg types.Object, consumed int, res scResult) {
	info := p.Pkg.TypesInfo
	res = scResult{Proven: map[ast.Node]bool{}}
	unsafe := map[ast.Node]string{}
	var segs []types.Object
	stopIdx := -1
	for ci, cs := range []*scCase{
		{name: "empty rest", empty: true},
		{name: "no separator in the rest", found: false},
		{name: "separator found", found: true},
	} {
		e := &scEval{prog: p, info: info, base: pObj, sep: "/", cs: cs, env: map[types.Object]scVal{}, proven: res.Proven, unsafe: unsafe}
		e.env[pObj] = e.baseVal()
		_, returned, at := e.exec(list, stop)
		if e.why != "" {
			res.Why = fmt.Sprintf("case %q: %s", cs.name, e.why)
			return nil, 0, res
		}
		if returned || at == nil {
			res.Why = fmt.Sprintf("case %q: the extraction does not reach the empty-segment check", cs.name)
			return nil, 0, res
		}
		idx := -1
		for i, st := range list {
			if st == at {
				idx = i
			}
		}
		if ci == 0 {
			stopIdx = idx
		} else if idx != stopIdx {
			res.Why = "the extraction ends at different statements in different cases"
			return nil, 0, res
		}
		if cs.found && (!cs.offSet || cs.off != 0) {
			res.Why = "the separator is not searched in the rest of the path itself"
			return nil, 0, res
		}
		// expected values
		wantSegHi, wantRestLo := lin{l: 1}, lin{l: 1}
		if cs.found {
			wantSegHi, wantRestLo = lin{k: 1}, lin{k: 1}
		}
		rest := e.env[pObj]
		okRest := rest.kind == 2 && rest.hi == (lin{l: 1}) && cs.sign(rest.lo.sub(wantRestLo)) == 0 || rest.kind == 3 && rest.lit == "" && cs.sign(lin{l: 1}.sub(wantRestLo)) == 0
		if !okRest {
			res.Why = fmt.Sprintf("case %q: the rest of the path is not advanced to the separator / the end", cs.name)
			return nil, 0, res
		}
		var cand []types.Object
		for o, v := range e.env {
			if o == pObj {
				continue
			}
			if v.kind == 2 && cs.sign(v.lo) == 0 && cs.sign(v.hi.sub(wantSegHi)) == 0 || cs.empty && v.kind == 3 && v.lit == "" {
				cand = append(cand, o)
			}
		}
		if ci == 0 {
			segs = cand
		} else {
			var keep []types.Object
			for _, o := range segs {
				for _, c2 := range cand {
					if o == c2 {
						keep = append(keep, o)
					}
				}
			}
			segs = keep
		}
	}
	for n, why := range unsafe {
		delete(res.Proven, n)
		if res.Why == "" {
			res.Why = "bounds: " + why
		}
	}
	if res.Why != "" {
		return nil, 0, res
	}
	if len(segs) != 1 {
		res.Why = fmt.Sprintf("%d variables hold the segment in every case (one expected)", len(segs))
		return nil, 0, res
	}
	return segs[0], stopIdx, res
}
