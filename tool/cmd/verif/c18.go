package main

// C18 — a $ref behaves exactly like the component it points to.
// Relational check on pairs of programs: for every corpus/fixture spec s that
// uses references, the tool derives inline(s) (kin-openapi's resolved tree
// re-marshalled with every $ref cleared), instantiates both, reduces both
// generated packages to wire-level tables (routes+security, parameter rows
// with codecs, response rows, JSON key-table signatures at every body site)
// with Go type names erased, and requires the tables to be equal.

import (
	"encoding/json"
	"fmt"
	"go/types"
	"os"
	"path/filepath"
	"sort"
	"strings"

	"github.com/getkin/kin-openapi/openapi3"
)

// inlineDoc clears every $ref in place (cycle-guarded for recursive schemas).
func inlineDoc(doc *openapi3.Swagger) (nRefs int, cyclic bool) {
	onStack := map[*openapi3.Schema]bool{}
	var schema func(sr *openapi3.SchemaRef)
	schema = func(sr *openapi3.SchemaRef) {
		if sr == nil || sr.Value == nil {
			return
		}
		if onStack[sr.Value] {
			cyclic = true
			return // keep the reference on the back edge
		}
		if sr.Ref != "" {
			nRefs++
			sr.Ref = ""
		}
		onStack[sr.Value] = true
		s := sr.Value
		schema(s.Items)
		schema(s.AdditionalProperties)
		schema(s.Not)
		for _, x := range s.Properties {
			schema(x)
		}
		for _, x := range s.AllOf {
			schema(x)
		}
		for _, x := range s.OneOf {
			// oneOf members keep their references: goag names variants after the component
			_ = x
		}
		for _, x := range s.AnyOf {
			schema(x)
		}
		delete(onStack, sr.Value)
	}
	header := func(h *openapi3.HeaderRef) {
		if h == nil || h.Value == nil {
			return
		}
		if h.Ref != "" {
			nRefs++
			h.Ref = ""
		}
		schema(h.Value.Schema)
	}
	content := func(c openapi3.Content) {
		for _, mt := range c {
			if mt != nil {
				schema(mt.Schema)
			}
		}
	}
	param := func(p *openapi3.ParameterRef) {
		if p == nil || p.Value == nil {
			return
		}
		if p.Ref != "" {
			nRefs++
			p.Ref = ""
		}
		schema(p.Value.Schema)
		content(p.Value.Content)
	}
	reqBody := func(rb *openapi3.RequestBodyRef) {
		if rb == nil || rb.Value == nil {
			return
		}
		if rb.Ref != "" {
			nRefs++
			rb.Ref = ""
		}
		content(rb.Value.Content)
	}
	response := func(rr *openapi3.ResponseRef) {
		if rr == nil || rr.Value == nil {
			return
		}
		if rr.Ref != "" {
			nRefs++
			rr.Ref = ""
		}
		for _, h := range rr.Value.Headers {
			header(h)
		}
		content(rr.Value.Content)
	}
	for _, item := range doc.Paths {
		if item == nil {
			continue
		}
		for _, p := range item.Parameters {
			param(p)
		}
		for _, op := range item.Operations() {
			for _, p := range op.Parameters {
				param(p)
			}
			reqBody(op.RequestBody)
			for _, rr := range op.Responses {
				response(rr)
			}
		}
	}
	// drop component sections that nothing references any more (keeps the inline form free of
	// artificial name clashes between a component and the inline copy of itself)
	keepSchemas := map[string]bool{}
	var mark func(sr *openapi3.SchemaRef, depth int)
	mark = func(sr *openapi3.SchemaRef, depth int) {
		if sr == nil || depth > 30 {
			return
		}
		if sr.Ref != "" {
			name := sr.Ref[strings.LastIndex(sr.Ref, "/")+1:]
			if keepSchemas[name] {
				return
			}
			keepSchemas[name] = true
		}
		if sr.Value == nil {
			return
		}
		s := sr.Value
		mark(s.Items, depth+1)
		mark(s.AdditionalProperties, depth+1)
		for _, x := range s.Properties {
			mark(x, depth+1)
		}
		for _, x := range s.AllOf {
			mark(x, depth+1)
		}
		for _, x := range s.OneOf {
			mark(x, depth+1)
		}
		for _, x := range s.AnyOf {
			mark(x, depth+1)
		}
	}
	markContent := func(c openapi3.Content) {
		for _, mt := range c {
			if mt != nil {
				mark(mt.Schema, 0)
			}
		}
	}
	for _, item := range doc.Paths {
		if item == nil {
			continue
		}
		ps := append(openapi3.Parameters{}, item.Parameters...)
		for _, op := range item.Operations() {
			ps = append(ps, op.Parameters...)
			if op.RequestBody != nil && op.RequestBody.Value != nil {
				markContent(op.RequestBody.Value.Content)
			}
			for _, rr := range op.Responses {
				if rr != nil && rr.Value != nil {
					markContent(rr.Value.Content)
					for _, h := range rr.Value.Headers {
						if h != nil && h.Value != nil {
							mark(h.Value.Schema, 0)
						}
					}
				}
			}
		}
		for _, p := range ps {
			if p != nil && p.Value != nil {
				mark(p.Value.Schema, 0)
			}
		}
	}
	// transitive closure over kept components
	for changed := true; changed; {
		changed = false
		for name, sr := range doc.Components.Schemas {
			if keepSchemas[name] {
				before := len(keepSchemas)
				mark(&openapi3.SchemaRef{Value: sr.Value}, 0)
				if len(keepSchemas) != before {
					changed = true
				}
			}
		}
	}
	for name := range doc.Components.Schemas {
		if !keepSchemas[name] {
			delete(doc.Components.Schemas, name)
		}
	}
	doc.Components.Parameters = nil
	doc.Components.Headers = nil
	doc.Components.RequestBodies = nil
	doc.Components.Responses = nil
	return
}

// wireTable reduces one program to name-erased rows.
func wireTable(jp *jsonProgram) map[string]string {
	t := map[string]string{}
	p := jp.P
	ops := opByKey(jp.O)
	// routes + security
	cred := map[string]string{}
	for _, lf := range jp.Router.AllLeaves() {
		if lf.Kind == "cors" {
			t["cors:"+strings.Join(lf.CorsMethods, ",")] = strings.Join(lf.CorsHeaders, ",")
			continue
		}
		for _, a := range lf.Auth {
			if _, ok := cred[a]; !ok {
				if fd := p.funcDecl(apiFieldTypeName(jp, a), "Auth"); fd != nil {
					cr, _ := authCredential(p, fd)
					cred[a] = cr
				}
			}
		}
		var cs []string
		for _, a := range lf.Auth {
			cs = append(cs, cred[a])
		}
		sort.Strings(cs)
		t["route:"+lf.Method+" "+lf.Template] = fmt.Sprintf("hasPath=%v auth=[%s]", lf.HasPath, strings.Join(cs, ","))
	}
	// parsers
	for _, h := range jp.Handlers {
		op := ops[h.Method+" "+h.Path]
		pm := jp.Parsers[h.Parser]
		if op == nil || pm == nil {
			continue
		}
		ok := h.Method + " " + h.Path
		if len(pm.Undecided) > 0 {
			t["parser:"+ok] = "UNDECIDED"
			continue
		}
		pat := pm.BaseStrip
		for _, pc := range pm.Pieces {
			if pc.Lit != "" {
				pat += pc.Lit
			} else {
				pat += "{" + pc.Var + "}"
			}
		}
		t["parser:"+ok+":pattern"] = pat
		t["parser:"+ok+":body"] = pm.Body
		if pm.Body == "json" {
			t["json-write:"+ok+" request"] = jsonSig(jp, pm.BodyType, "w", 0)
			t["json-read:"+ok+" request"] = jsonSig(jp, pm.BodyType, "r", 0)
		}
		for _, row := range pm.Rows {
			var cv []string
			for _, c := range row.Convs {
				cv = append(cv, c.Callee+"("+strings.Join(c.Consts, ",")+")")
			}
			base := ""
			if row.Field != nil {
				b, opt, arr := goBaseOf(row.Field.Type())
				base = fmt.Sprintf("%s opt=%v arr=%v", b, opt, arr)
			}
			t["param:"+ok+":"+row.In+":"+row.Key] = fmt.Sprintf("required=%v array=%v conv=[%s] problems=%d type=%s", row.Required, row.Array, strings.Join(cv, ";"), len(row.Problems)+len(row.Undecided), base)
		}
		// responses
		if h.RespIface != nil {
			for _, im := range respImplementers(p, h.RespIface, jp.Writes) {
				rk := "response:" + ok + ":" + im.Status
				if len(im.Undecided)+len(im.W.Undecided) > 0 {
					t[rk] = "UNDECIDED"
					continue
				}
				var hs []string
				for _, hr := range im.W.Headers {
					var fs []string
					for _, f := range hr.Formats {
						fs = append(fs, f.Callee+"("+strings.Join(f.Consts, ",")+")")
					}
					hs = append(hs, fmt.Sprintf("%s opt=%v arr=%v fmt=[%s]", strings.ToLower(hr.Key), hr.Optional, hr.Array, strings.Join(fs, ";")))
				}
				sort.Strings(hs)
				t[rk] = fmt.Sprintf("ct=%q body=%s callerCode=%v headers={%s}", im.W.ContentType, im.W.Body, im.W.StatusKind == "field", strings.Join(hs, " | "))
				if im.W.Body == "json" {
					t["json-write:"+ok+" response "+im.Status] = jsonSig(jp, im.W.BodyType, "w", 0)
					t["json-read:"+ok+" response "+im.Status] = jsonSig(jp, im.W.BodyType, "r", 0)
				}
			}
		}
	}
	return t
}

func apiFieldTypeName(jp *jsonProgram, field string) string {
	if st, ok := jp.Router.APIType.Underlying().(*types.Struct); ok {
		for i := 0; i < st.NumFields(); i++ {
			if st.Field(i).Name() == field {
				if n, ok := st.Field(i).Type().(*types.Named); ok {
					return n.Obj().Name()
				}
			}
		}
	}
	return ""
}

// jsonSig: name-erased signature of the JSON written ("w") or accepted ("r") for a Go type.
func jsonSig(jp *jsonProgram, t types.Type, side string, depth int) string {
	if depth > 8 {
		return "…"
	}
	inner, _, nullable := unwrapWrappers(t)
	pre := ""
	if nullable {
		pre = "null|"
	}
	if n, ok := types.Unalias(inner).(*types.Named); ok {
		if n.Obj().Pkg() != nil && n.Obj().Pkg().Path() == "time" {
			return pre + "time"
		}
		if n.Obj().Pkg() != nil && n.Obj().Pkg().Path() == "encoding/json" {
			return pre + "any"
		}
		if n.Obj().Pkg() != jp.P.Pkg.Types {
			return pre + "custom"
		}
		if o := jp.Objects[n.Obj().Name()]; o != nil {
			return pre + objectSig(jp, o, side, depth)
		}
		if tgt := delegateTarget(jp.P, n); tgt != nil {
			return pre + jsonSig(jp, tgt, side, depth+1)
		}
		if oo := jp.OneOfs[n.Obj().Name()]; oo != nil {
			var vs []string
			if st, ok := n.Underlying().(*types.Struct); ok {
				for i := 0; i < st.NumFields(); i++ {
					vs = append(vs, jsonSig(jp, st.Field(i).Type(), side, depth+1))
				}
			}
			var cs []string
			for k := range oo.Cases {
				cs = append(cs, k)
			}
			sort.Strings(cs)
			return pre + "oneOf(" + strings.Join(vs, "|") + ";disc=" + oo.Discriminator + ";cases=" + strings.Join(cs, ",") + ")"
		}
		if why := arrayComponentProblem(jp.P, n); why != "" {
			pre += "nil-not-[]|"
		}
		inner = n.Underlying()
	}
	switch u := inner.(type) {
	case *types.Slice:
		return pre + "[" + jsonSig(jp, u.Elem(), side, depth+1) + "]"
	case *types.Basic:
		return pre + u.Name()
	case *types.Map:
		return pre + "map(" + jsonSig(jp, u.Elem(), side, depth+1) + ")"
	case *types.Interface:
		return pre + "any"
	case *types.Struct:
		if u.NumFields() == 0 {
			return pre + "{}"
		}
		return pre + "struct-without-codec"
	}
	return pre + inner.String()
}

func objectSig(jp *jsonProgram, o *JSONObject, side string, depth int) string {
	var rows []string
	var collect func(o *JSONObject, d int)
	collect = func(o *JSONObject, d int) {
		if d > 6 {
			return
		}
		if side == "w" {
			for _, w := range o.Writer {
				switch w.Kind {
				case "prop":
					sig := jsonSig(jp, w.Field.Type(), side, depth+1)
					// an inline array property written without the nil→[] normalisation behaves unlike
					// the same array hoisted to a component (whose MarshalJSON always brackets)
					if in, _, nullable := unwrapWrappers(w.Field.Type()); !nullable && !w.NilSliceFix {
						if _, isSlice := in.(*types.Slice); isSlice {
							sig = "nil-not-[]|" + sig
						}
					}
					rows = append(rows, fmt.Sprintf("%q%s%s:%s", w.Key, map[bool]string{true: "?", false: "!"}[w.Optional], map[bool]string{true: "~", false: ""}[w.NullCapable], sig))
				case "additional":
					rows = append(rows, "*:"+jsonSig(jp, w.Field.Type(), side, depth+1))
				case "embedded":
					if n, ok := derefNamed(w.Field.Type()); ok {
						if eo := jp.Objects[n.Obj().Name()]; eo != nil {
							collect(eo, d+1)
						}
					}
				}
			}
		} else {
			for _, r := range o.Reader {
				switch r.Kind {
				case "prop":
					ft := "?"
					if r.Field != nil {
						ft = jsonSig(jp, r.Field.Type(), side, depth+1)
					}
					rows = append(rows, fmt.Sprintf("%q%s%s:%s", r.Key, map[bool]string{true: "!", false: "?"}[r.Required], map[bool]string{true: "~", false: ""}[r.NullTest], ft))
				case "additional":
					ft := "?"
					if r.Field != nil {
						ft = jsonSig(jp, r.Field.Type(), side, depth+1)
					}
					rows = append(rows, "*:"+ft)
				case "embedded":
					if r.Field != nil {
						if n, ok := derefNamed(r.Field.Type()); ok {
							if eo := jp.Objects[n.Obj().Name()]; eo != nil {
								collect(eo, d+1)
							}
						}
					}
				}
			}
		}
	}
	collect(o, 0)
	sort.Strings(rows)
	und := ""
	if len(o.WUndecided)+len(o.RUndecided) > 0 {
		und = "UNDECIDED"
	}
	return "{" + strings.Join(rows, ",") + "}" + und
}

func runC18(r *Report) {
	r.Explanation = "Relational check between two generated programs. For every corpus and fixture spec s that uses $ref (parameters, headers, request bodies, responses, schemas, alias chains), the tool derives inline(s): the document as resolved by kin-openapi with every reference cleared and re-marshalled (oneOf members keep their references because variants are named after components; back edges of recursive schemas are kept). Both specs are instantiated from the current templates with the same flags. Each program is reduced to wire-level tables with Go type names erased — route leaves with security credential sets, parser rows (location, name, required, array, converter with constants, Go base type), path patterns, response rows (status source, Content-Type, header keys/optional/formatters, body kind) and JSON signatures of what is written and what is accepted at every body site (key, required/optional, null, nested shape, allOf members flattened, additionalProperties) — and the tables must be equal; the set of specs the generator refuses must be the same on both sides. Behaviour below the table abstraction (value formatting) is not decided."
	r.Rule("C18/table-equality", "wire-level tables of the $ref form and of the inline form of the same spec are equal")
	r.Rule("C18/same-acceptance", "the generator accepts / refuses both forms alike, and both generated packages type-check alike")
	r.Assumptions = append(r.Assumptions, "oracle(s) = oracle(inline(s)) by construction: a difference always coincides with an oracle mismatch on one side (C02–C11)", "hoisting rewrites and random partial rewrites are not generated", "programs bounded by the corpus")
	// 1. derive inline specs into a temp corpus
	tmp, err := os.MkdirTemp("", "verif-c18-")
	if err != nil {
		r.Break("%v", err)
		return
	}
	defer os.RemoveAll(tmp)
	type src struct {
		name, dir, label string
		flags            []string
	}
	var srcs []src
	for _, sub := range []string{"tests", "examples"} {
		ents, _ := os.ReadDir(filepath.Join(repoDir(), sub))
		for _, e := range ents {
			if e.IsDir() {
				flags := []string{"--package", "test", "--client=true"}
				if sub == "tests" {
					flags = append(flags, "--donotedit=false")
				}
				srcs = append(srcs, src{sub + "/" + e.Name(), filepath.Join(repoDir(), sub, e.Name()), sub + "_" + e.Name(), flags})
			}
		}
	}
	ents, _ := os.ReadDir(filepath.Join(verifDir(), "corpus"))
	for _, e := range ents {
		if e.IsDir() {
			var meta corpusMeta
			if bs, err := os.ReadFile(filepath.Join(verifDir(), "corpus", e.Name(), "meta.json")); err == nil {
				json.Unmarshal(bs, &meta)
			}
			if meta.Expect == "error" || meta.Expect == "any" {
				continue
			}
			flags := append([]string{"--package", pkgNameOf(e.Name())}, meta.Flags...)
			srcs = append(srcs, src{"corpus/" + e.Name(), filepath.Join(verifDir(), "corpus", e.Name()), "corpus_" + e.Name(), flags})
		}
	}
	// thorough tier: the generated JSON matrix specs are paired too (they are copied into the same
	// extra corpus, so both forms are instantiated side by side)
	if isThorough(r) {
		for _, gs := range genJSONMatrix() {
			d := filepath.Join(tmp, gs.name)
			os.MkdirAll(d, 0o755)
			os.WriteFile(filepath.Join(d, "openapi.yaml"), []byte(gs.yaml), 0o644)
			os.WriteFile(filepath.Join(d, "meta.json"), []byte(`{"expect": "ok"}`), 0o644)
			srcs = append(srcs, src{"gen/" + gs.name, d, "gen_" + gs.name, []string{"--package", pkgNameOf(gs.name)}})
		}
	}
	pairs := map[string]string{} // original program name -> inline program name
	nNoRef, nCyclic, nCustom := 0, 0, 0
	for _, s := range srcs {
		specPath := filepath.Join(s.dir, "openapi.yaml")
		doc, err := openapi3.NewSwaggerLoader().LoadSwaggerFromFile(specPath)
		if err != nil {
			continue
		}
		if raw, err := os.ReadFile(specPath); err == nil && strings.Contains(string(raw), "x-goag-go-type") {
			nCustom++ // hand-written helper types are named after the components: inlining is not a fair rewrite
			continue
		}
		n, cyc := inlineDoc(doc)
		if cyc {
			nCyclic++
		}
		if n == 0 {
			nNoRef++
			continue
		}
		bs, err := doc.MarshalJSON()
		if err != nil {
			r.Undecided("C18/table-equality", s.name+":inline", "", "cannot re-marshal the resolved document: "+err.Error())
			continue
		}
		dst := filepath.Join(tmp, s.label+"__inline")
		os.MkdirAll(dst, 0o755)
		os.WriteFile(filepath.Join(dst, "openapi.yaml"), bs, 0o644)
		// helper files (hand-written Go next to the fixture) and config
		fes, _ := os.ReadDir(s.dir)
		for _, fe := range fes {
			nm := fe.Name()
			if fe.IsDir() || nm == "openapi.yaml" || strings.HasSuffix(nm, "_test.go") || nm == "meta.json" {
				continue
			}
			skip := false
			for _, own := range goagOwned {
				if nm == own {
					skip = true
				}
			}
			if skip {
				continue
			}
			if b, err := os.ReadFile(filepath.Join(s.dir, nm)); err == nil {
				os.WriteFile(filepath.Join(dst, nm), b, 0o644)
			}
		}
		mb, _ := json.Marshal(corpusMeta{Flags: s.flags, Expect: "any"})
		os.WriteFile(filepath.Join(dst, "meta.json"), mb, 0o644)
		pairs[s.name] = "gen/" + s.label + "__inline"
	}
	r.Analysed["specs_without_refs_skipped"] = nNoRef
	r.Analysed["specs_with_recursive_schemas"] = nCyclic
	r.Analysed["specs_with_custom_go_types_skipped"] = nCustom
	// 2. instantiate everything
	s3, err := BuildS3(S3Options{TemplateDebug: true, ExtraCorpus: tmp})
	if err != nil {
		r.Break("S3 build: %v", err)
		return
	}
	defer s3.Close()
	byName := map[string]*Program{}
	for _, p := range s3.Programs {
		byName[p.Name] = p
	}
	mk := func(p *Program) (*jsonProgram, string) {
		if p.GenExit != 0 {
			return nil, "generator refused: " + firstLines(p.GenStderr, 1)
		}
		if p.Pkg == nil || len(p.LoadErrs) > 0 {
			return nil, "package does not type-check: " + strings.Join(firstN(p.LoadErrs, 1), "")
		}
		if p.funcDecl("API", "ServeHTTP") == nil {
			return nil, "no router"
		}
		o, err := LoadOracle(p.SpecPath, p.BasePathFlag)
		if err != nil {
			return nil, "oracle: " + err.Error()
		}
		p.Oracle = o
		m, err := BuildRouterModel(p)
		if err != nil {
			return nil, "router model: " + err.Error()
		}
		pp := &paramProgram{P: p, O: o, Parsers: parserModels(p), Handlers: handlerInfos(p), Router: m}
		return &jsonProgram{paramProgram: pp, Objects: jsonObjects(p), OneOfs: jsonOneOfs(p), Writes: respWrites(p)}, ""
	}
	var names []string
	for n := range pairs {
		names = append(names, n)
	}
	sort.Strings(names)
	nPairs, nRows := 0, 0
	for _, n := range names {
		a, b := byName[n], byName[pairs[n]]
		if a == nil || b == nil {
			r.Undecided("C18/table-equality", n, "", "pair not instantiated")
			continue
		}
		ja, whyA := mk(a)
		jb, whyB := mk(b)
		switch {
		case ja == nil && jb == nil:
			r.OK("C18/same-acceptance", n, "", "both forms are not analysable alike ("+whyA+")")
			continue
		case ja == nil || jb == nil:
			side, why := "the $ref form", whyA
			if ja != nil {
				side, why = "the inline form", whyB
			}
			r.Violation("C18/same-acceptance", n, "", side+" cannot be generated/compiled while the other form can: "+why)
			continue
		}
		r.OK("C18/same-acceptance", n, "", "")
		nPairs++
		ta, tb := wireTable(ja), wireTable(jb)
		keys := map[string]bool{}
		for k := range ta {
			keys[k] = true
		}
		for k := range tb {
			keys[k] = true
		}
		// one obligation per differing row, so that a recorded finding names the row and
		// the two observed forms, and any other difference in the same program is reported
		nDiff := 0
		for k := range keys {
			nRows++
			if ta[k] != tb[k] {
				nDiff++
				r.Violation("C18/table-equality", n+":"+k, "", fmt.Sprintf("row differs between the $ref form and its inline copy: ref form [%s] vs inline form [%s]", ta[k], tb[k]))
			}
		}
		if nDiff == 0 {
			r.OK("C18/table-equality", n, "", fmt.Sprintf("%d rows equal", len(keys)))
		}
	}
	s3.coverageSummary(r)
	r.Analysed["pairs_compared"] = nPairs
	r.Analysed["table_rows_compared"] = nRows
	r.FloorMin("ref/inline pairs compared", nPairs, 20)
	r.FloorMin("table rows compared", nRows, 300)
}
