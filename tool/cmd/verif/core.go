package main

// core.go — obligations, findings, evidence, exit discipline shared by every
// check. A check creates a Report, records one Obligation per rule instance
// it decided, and calls Finish, which (1) matches violations against the
// committed known-findings file, (2) writes evidence/<id>.json, (3) prints
// KNOWN-FINDING / VIOLATION lines and returns the process exit status.

import (
	"encoding/json"
	"fmt"
	"os"
	"path/filepath"
	"sort"
	"strconv"
	"strings"
	"time"
)

type Status string

const (
	StOK        Status = "ok"
	StViolation Status = "violation"
	StUndecided Status = "undecided" // counts as a violation (DESIGN §2.5)
)

type Obligation struct {
	Rule   string `json:"rule"`
	Key    string `json:"key"`           // rule instance: construct, never a line number
	Pos    string `json:"pos,omitempty"` // file:line for diagnosis only
	Status Status `json:"status"`
	Detail string `json:"detail,omitempty"`
	Known  string `json:"known_finding,omitempty"`
}

type Floor struct {
	Name string `json:"name"`
	Got  int    `json:"got"`
	Min  int    `json:"min"`
}

type Report struct {
	Prop        string
	Tier        string
	Seed        int
	Start       time.Time
	Obls        []Obligation
	Floors      []Floor
	Analysed    map[string]any
	Assumptions []string
	Explanation string
	Samples     []any
	Rules       map[string]string // rule -> one-line statement
	Broken      []string          // reasons the check could not run (fail)
	Programs    int
}

func NewReport(prop string) *Report {
	tier := os.Getenv("VERIF_TIER")
	if tier != "thorough" {
		tier = "quick"
	}
	seed, _ := strconv.Atoi(os.Getenv("VERIF_SEED"))
	return &Report{Prop: prop, Tier: tier, Seed: seed, Start: time.Now(), Analysed: map[string]any{}, Rules: map[string]string{}}
}

func (r *Report) Rule(name, statement string) { r.Rules[name] = statement }

func (r *Report) OK(rule, key, pos, detail string) {
	r.Obls = append(r.Obls, Obligation{Rule: rule, Key: key, Pos: pos, Status: StOK, Detail: detail})
}
func (r *Report) Violation(rule, key, pos, detail string) {
	r.Obls = append(r.Obls, Obligation{Rule: rule, Key: key, Pos: pos, Status: StViolation, Detail: detail})
}
func (r *Report) Undecided(rule, key, pos, detail string) {
	r.Obls = append(r.Obls, Obligation{Rule: rule, Key: key, Pos: pos, Status: StUndecided, Detail: detail})
}
func (r *Report) Check(cond bool, rule, key, pos, detail string) {
	if cond {
		r.OK(rule, key, pos, "")
	} else {
		r.Violation(rule, key, pos, detail)
	}
}

// FloorMin records an anti-vacuity floor: the number of instances a rule
// matched must not fall below what was confirmed by hand on the pinned tree.
func (r *Report) FloorMin(name string, got, min int) {
	r.Floors = append(r.Floors, Floor{name, got, min})
}

func (r *Report) Break(format string, a ...any) {
	r.Broken = append(r.Broken, fmt.Sprintf(format, a...))
}

type KnownFinding struct {
	Property string `json:"property"`
	Rule     string `json:"rule"`
	Key      string `json:"key"`
	// Match, when set, must occur in the violation's detail: the finding is the
	// specific failure observed (e.g. the exact authenticator set generated), so a
	// different failure at the same construct is still reported as a violation.
	Match string `json:"match,omitempty"`
	What  string `json:"what"`
}
type FixedFinding struct {
	Property string `json:"property"`
	Commit   string `json:"commit"`
	What     string `json:"what"`
}
type KnownFile struct {
	Findings []KnownFinding `json:"findings"`
	Fixed    []FixedFinding `json:"fixed"`
}

func verifDir() string {
	if d := os.Getenv("VERIF_DIR"); d != "" {
		return d
	}
	return "/verif"
}

func repoDir() string {
	if d := os.Getenv("VERIF_REPO"); d != "" {
		return d
	}
	return "/repo"
}

func loadKnown() KnownFile {
	var k KnownFile
	bs, err := os.ReadFile(filepath.Join(verifDir(), "known_findings.json"))
	if err != nil {
		return k
	}
	if err := json.Unmarshal(bs, &k); err != nil {
		fmt.Fprintf(os.Stderr, "known_findings.json: %v\n", err)
		os.Exit(2)
	}
	return k
}

// Finish writes evidence and returns the exit status.
func (r *Report) Finish() int {
	known := loadKnown()
	kidx := map[string]KnownFinding{}
	for _, k := range known.Findings {
		kidx[k.Property+"\x00"+k.Rule+"\x00"+k.Key] = k
	}
	sort.SliceStable(r.Obls, func(i, j int) bool {
		if r.Obls[i].Rule != r.Obls[j].Rule {
			return r.Obls[i].Rule < r.Obls[j].Rule
		}
		return r.Obls[i].Key < r.Obls[j].Key
	})
	{ // identical (rule, key, status, detail) obligations are one obligation
		seen := map[string]bool{}
		out := r.Obls[:0]
		for _, o := range r.Obls {
			id := o.Rule + "\x00" + o.Key + "\x00" + string(o.Status) + "\x00" + o.Detail
			if seen[id] {
				continue
			}
			seen[id] = true
			out = append(out, o)
		}
		r.Obls = out
	}
	for _, f := range r.Floors {
		if f.Got < f.Min {
			r.Obls = append(r.Obls, Obligation{Rule: "floor", Key: f.Name, Status: StViolation,
				Detail: fmt.Sprintf("rule matched %d instances, confirmed floor is %d: the rule no longer sees the constructs it was written for", f.Got, f.Min)})
		}
	}
	for _, b := range r.Broken {
		r.Obls = append(r.Obls, Obligation{Rule: "analysis", Key: "broken", Status: StUndecided, Detail: b})
	}
	nOK, nKnown, nViol := 0, 0, 0
	var viol []Obligation
	seenKnown := map[string]bool{}
	for i := range r.Obls {
		o := &r.Obls[i]
		if o.Status == StOK {
			nOK++
			continue
		}
		if k, ok := kidx[r.Prop+"\x00"+o.Rule+"\x00"+o.Key]; ok && (k.Match == "" || strings.Contains(o.Detail, k.Match)) {
			o.Known = k.What
			nKnown++
			id := o.Rule + "\x00" + o.Key
			if !seenKnown[id] {
				seenKnown[id] = true
				fmt.Printf("KNOWN-FINDING: property=%s rule=%s at=%s %s\n", r.Prop, o.Rule, o.Key, k.What)
			}
			continue
		}
		nViol++
		viol = append(viol, *o)
	}
	evdir := filepath.Join(verifDir(), "evidence")
	os.MkdirAll(filepath.Join(evdir, "replay"), 0o755)
	// stale replays of this property are removed so that a replay path always
	// belongs to the run that printed it
	old, _ := filepath.Glob(filepath.Join(evdir, "replay", r.Prop+"-*.json"))
	for _, f := range old {
		os.Remove(f)
	}
	for i, v := range viol {
		p := filepath.Join(evdir, "replay", fmt.Sprintf("%s-%d.json", r.Prop, i+1))
		bs, _ := json.MarshalIndent(map[string]any{
			"property": r.Prop, "rule": v.Rule, "rule_statement": r.Rules[v.Rule], "construct": v.Key, "position": v.Pos,
			"status": v.Status, "detail": v.Detail, "repo": repoDir(),
			"replay": fmt.Sprintf("cd /verif && ./check.sh %s %s   # re-analyses the current tree; this obligation is keyed rule=%q construct=%q", r.Prop, r.Tier, v.Rule, v.Key),
		}, "", " ")
		os.WriteFile(p, bs, 0o644)
		fmt.Printf("VIOLATION property=%s replay=%s\n", r.Prop, p)
		fmt.Printf("  rule=%s construct=%s at=%s status=%s\n  %s\n", v.Rule, v.Key, v.Pos, v.Status, strings.ReplaceAll(v.Detail, "\n", "\n  "))
	}

	// evidence
	perRule := map[string]map[string]int{}
	for _, o := range r.Obls {
		m := perRule[o.Rule]
		if m == nil {
			m = map[string]int{}
			perRule[o.Rule] = m
		}
		st := string(o.Status)
		if o.Known != "" {
			st = "known_finding"
		}
		m[st]++
	}
	distinct := map[string]bool{}
	for _, o := range r.Obls {
		distinct[o.Rule+"\x00"+o.Key] = true
	}
	samples := r.Samples
	if len(samples) == 0 {
		// a spread of obligations, one or two per rule
		cnt := map[string]int{}
		for _, o := range r.Obls {
			if cnt[o.Rule] < 2 {
				cnt[o.Rule]++
				samples = append(samples, o)
			}
		}
	}
	var nonOK []Obligation
	for _, o := range r.Obls {
		if o.Status != StOK {
			nonOK = append(nonOK, o)
		}
	}
	cov := map[string]any{
		"explanation":         r.Explanation,
		"obligations":         len(r.Obls),
		"discharged":          nOK,
		"known_findings":      nKnown,
		"evaluations":         len(r.Obls),
		"distinct_nontrivial": len(distinct),
		"rule":                "one obligation per (rule, construct) instance decided by static analysis of the current /repo tree; distinct = distinct (rule, construct) keys; every obligation is non-trivial in the sense that its rule matched a real construct",
		"rules":               r.Rules,
		"per_rule":            perRule,
		"floors":              r.Floors,
		"analysed":            r.Analysed,
		"samples":             samples,
		"not_discharged":      nonOK,
		"checker_cmd":         fmt.Sprintf("./check.sh %s %s", r.Prop, r.Tier),
		"exhaustive":          false,
	}
	if r.Programs > 0 {
		cov["programs"] = r.Programs
	}
	ev := map[string]any{
		"property_id": r.Prop,
		"tier":        r.Tier,
		"seed":        r.Seed,
		"level":       "other",
		"coverage":    cov,
		"assumptions": r.Assumptions,
		"wall_s":      time.Since(r.Start).Seconds(),
		"violations":  nViol,
	}
	bs, _ := json.MarshalIndent(ev, "", " ")
	if err := os.WriteFile(filepath.Join(evdir, r.Prop+".json"), bs, 0o644); err != nil {
		fmt.Fprintf(os.Stderr, "write evidence: %v\n", err)
		return 2
	}
	fmt.Printf("%s tier=%s obligations=%d ok=%d known=%d violations=%d wall=%.1fs\n", r.Prop, r.Tier, len(r.Obls), nOK, nKnown, nViol, time.Since(r.Start).Seconds())
	if nViol > 0 {
		return 1
	}
	return 0
}
