package main

// C01 (S3 part): corpus-typecheck. Every program for which the generator
// reports success must be syntactically valid, gofmt-idempotent and
// type-check. Decided by go/parser, go/format and go/types on the emitted
// files (no execution). Run WITHOUT TEMPLATE_DEBUG: the real artefact.

import (
	"bytes"
	"go/format"
	"os"
	"path/filepath"
	"strings"
)

var goagOwned = []string{"components.go", "handler.go", "router.go", "spec_file.go", "client.go"}

func runC01S3(r *Report) {
	gdir, gclean := thoroughCorpusFor(r, "C01")
	defer gclean()
	s3, err := BuildS3(S3Options{TemplateDebug: false, ExtraCorpus: gdir})
	if err != nil {
		r.Break("S3 build: %v", err)
		return
	}
	defer s3.Close()
	nOK, nFiles := 0, 0
	for _, p := range s3.Programs {
		key := p.Name
		if p.GenExit != 0 {
			if p.Expect == "ok" {
				r.Undecided("C01/corpus-typecheck", key, "", "the generator now refuses a corpus spec it accepted on the pinned tree (cannot be judged): "+firstLines(p.GenStderr, 2))
			} else {
				r.OK("C01/corpus-typecheck", key, "", "generator reported an error (legitimate outcome)")
			}
			continue
		}
		var problems []string
		for _, f := range goagOwned {
			bs, err := os.ReadFile(filepath.Join(p.Dir, f))
			if err != nil {
				continue
			}
			nFiles++
			out, ferr := format.Source(bs)
			if ferr != nil {
				problems = append(problems, f+": not valid Go syntax: "+ferr.Error())
				continue
			}
			if !bytes.Equal(out, bs) {
				problems = append(problems, f+": not gofmt-stable")
			}
		}
		for _, e := range firstN(p.LoadErrs, 3) {
			problems = append(problems, strings.TrimPrefix(e, s3.Root+"/"))
		}
		if p.Pkg == nil && len(p.LoadErrs) == 0 {
			problems = append(problems, "package could not be loaded")
		}
		if len(problems) == 0 {
			nOK++
			r.OK("C01/corpus-typecheck", key, "", "")
		} else {
			r.Violation("C01/corpus-typecheck", key, "", "goag exited 0 but the generated package is broken: "+strings.Join(problems, " ;; "))
		}
	}
	s3.coverageSummary(r)
	r.Analysed["generated_files_checked"] = nFiles
	r.FloorMin("corpus programs type-checked", nOK, 50)
}
