package main

// runC01S3 is filled in once the S3 builder exists.
func runC01S3(r *Report) {}
