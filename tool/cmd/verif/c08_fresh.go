package main

// C08/fresh-element — a decoder loop must decode every element into fresh
// storage. encoding/json (and the generated UnmarshalJSON methods, which set
// only the keys present) MERGE into the target they are given: a target
// declared outside the loop carries the previous element's optional
// properties, map entries and — for `null` — whole value into the next one.

import (
	"go/ast"
	"go/token"
	"go/types"
)

// freshElements scans every loop of the package. A decode target is a local variable x that,
// inside the loop body, is handed to a call as &x or is the receiver of a pointer-receiver
// method named UnmarshalJSON / Set…, and whose value is accumulated in the same body (appended,
// stored into an element or map entry). It must be declared inside the body, or be assigned
// (reset) at the top level of the body before the decode.
func freshElements(r *Report, s3 *S3, p *Program, pkg *types.Package, info *types.Info, files []*ast.File, rule string) (nLoops int) {
	for _, f := range files {
		for _, d := range f.Decls {
			fd, ok := d.(*ast.FuncDecl)
			if !ok || fd.Body == nil {
				continue
			}
			fkey := p.Name + ":" + declName(fd)
			ast.Inspect(fd.Body, func(n ast.Node) bool {
				var body *ast.BlockStmt
				switch l := n.(type) {
				case *ast.RangeStmt:
					body = l.Body
				case *ast.ForStmt:
					body = l.Body
				}
				if body == nil {
					return true
				}
				targets := map[types.Object]token.Pos{}
				ast.Inspect(body, func(m ast.Node) bool {
					call, ok := m.(*ast.CallExpr)
					if !ok {
						return true
					}
					for _, a := range call.Args {
						if u, ok := ast.Unparen(a).(*ast.UnaryExpr); ok && u.Op == token.AND {
							if o := identObj(info, u.X); o != nil {
								if _, seen := targets[o]; !seen {
									targets[o] = call.Pos()
								}
							}
						}
					}
					if sel, ok := call.Fun.(*ast.SelectorExpr); ok {
						if s := info.Selections[sel]; s != nil && s.Kind() == types.MethodVal {
							if fn, ok := s.Obj().(*types.Func); ok {
								if sig, ok := fn.Type().(*types.Signature); ok && sig.Recv() != nil {
									if _, isPtr := sig.Recv().Type().(*types.Pointer); isPtr {
										if o := identObj(info, sel.X); o != nil {
											if _, seen := targets[o]; !seen {
												targets[o] = call.Pos()
											}
										}
									}
								}
							}
						}
					}
					return true
				})
				if len(targets) == 0 {
					return true
				}
				counted := false
				for o, decodeAt := range targets {
					v, isVar := o.(*types.Var)
					if !isVar || v.IsField() || v.Parent() == nil || v.Parent() == pkg.Scope() {
						continue
					}
					if o.Pos() >= body.Pos() && o.Pos() < body.End() {
						if !counted {
							nLoops++
							counted = true
						}
						continue // declared inside the loop: fresh per iteration
					}
					if !accumulated(info, body, o) {
						continue
					}
					if !counted {
						nLoops++
						counted = true
					}
					if resetBefore(info, body, o, decodeAt) {
						continue
					}
					r.Violation(rule, fkey+":"+o.Name(), s3.pos(decodeAt), "the loop decodes every element into the variable "+o.Name()+", which is declared outside the loop and never reset: encoding/json and the generated UnmarshalJSON merge into their target, so an element inherits the optional properties, map entries or (for null) the whole value of the element before it")
				}
				return true
			})
		}
	}
	return
}

func declName(fd *ast.FuncDecl) string {
	if fd.Recv != nil {
		return recvTypeName(fd) + "." + fd.Name.Name
	}
	return fd.Name.Name
}

// accumulated: inside body the value of o is appended, stored into an element / map entry /
// field, or placed in a composite literal.
func accumulated(info *types.Info, body *ast.BlockStmt, o types.Object) bool {
	acc := false
	mentions := func(e ast.Expr) bool {
		hit := false
		ast.Inspect(e, func(n ast.Node) bool {
			if id, ok := n.(*ast.Ident); ok && info.Uses[id] == o {
				hit = true
			}
			return true
		})
		return hit
	}
	ast.Inspect(body, func(n ast.Node) bool {
		switch x := n.(type) {
		case *ast.CallExpr:
			if id, ok := x.Fun.(*ast.Ident); ok && id.Name == "append" && len(x.Args) > 1 {
				for _, a := range x.Args[1:] {
					if mentions(a) {
						acc = true
					}
				}
			}
		case *ast.AssignStmt:
			for i, l := range x.Lhs {
				switch ast.Unparen(l).(type) {
				case *ast.IndexExpr, *ast.SelectorExpr, *ast.StarExpr:
					if i < len(x.Rhs) && mentions(x.Rhs[i]) {
						acc = true
					}
				}
			}
		}
		return true
	})
	return acc
}

// resetBefore: a top-level statement of the loop body before pos assigns o a value that does not
// depend on o.
func resetBefore(info *types.Info, body *ast.BlockStmt, o types.Object, pos token.Pos) bool {
	for _, st := range body.List {
		if st.Pos() >= pos {
			break
		}
		as, ok := st.(*ast.AssignStmt)
		if !ok || as.Tok != token.ASSIGN {
			continue
		}
		for i, l := range as.Lhs {
			if identObj(info, l) != o || i >= len(as.Rhs) || len(as.Lhs) != len(as.Rhs) {
				continue
			}
			self := false
			ast.Inspect(as.Rhs[i], func(n ast.Node) bool {
				if id, ok := n.(*ast.Ident); ok && info.Uses[id] == o {
					self = true
				}
				return true
			})
			if !self {
				return true
			}
		}
	}
	return false
}

func c08Witness(r *Report) {
	p, err := loadWitness("c08")
	if err != nil {
		r.Break("load witness c08: %v", err)
		return
	}
	scratch := NewReport("C08")
	s3 := &S3{Fset: p.Fset, Root: witnessDir()}
	freshElements(scratch, s3, &Program{Name: "w", Pkg: p}, p.Types, p.TypesInfo, p.Syntax, "C08/fresh-element")
	for i := range scratch.Obls {
		// "w:Func:var" -> "w.Func:x"
		k := scratch.Obls[i].Key[len("w:"):]
		for j := 0; j < len(k); j++ {
			if k[j] == ':' {
				k = k[:j]
				break
			}
		}
		scratch.Obls[i].Key = "w." + k + ":x"
	}
	compareWitness(r, "C08", scratch, witnessExpectations(p))
}
