package main

// C17 — CORS preflight advertises exactly what the path declares.

import (
	"fmt"
	"go/types"
	"sort"
	"strings"
)

func sameSet(a, b []string) (bool, string) {
	ma, mb := map[string]int{}, map[string]int{}
	for _, x := range a {
		ma[x]++
	}
	for _, x := range b {
		mb[x]++
	}
	var diff []string
	for x, n := range ma {
		if n > 1 {
			diff = append(diff, "duplicate "+x)
		}
		if mb[x] == 0 {
			diff = append(diff, "unexpected "+x)
		}
	}
	for x := range mb {
		if ma[x] == 0 {
			diff = append(diff, "missing "+x)
		}
	}
	sort.Strings(diff)
	return len(diff) == 0, strings.Join(diff, ", ")
}

func runC17(r *Report) {
	r.Explanation = "For every instantiated program the CORS leaves of the decompiled route model are compared with the spec oracle: for a cors-enabled program, an OPTIONS request to an instance of every declared path without its own OPTIONS operation must reach (in the model) a leaf of the form `if rt.CORSHandler == nil {miss}; h := rt.CORSHandler(M, H); return h, \"\", false` whose constant slices equal, as duplicate-free sets, the path item's declared methods and the canonicalised header parameters (path-item level included) plus the headers its effective security schemes read; a path with a declared OPTIONS operation must reach that operation's leaf; a cors-disabled program has no CORSHandler field and no CORS leaf. No request is sent; the model is evaluated."
	r.Rule("C17/cors-leaf", "per path item without OPTIONS: exactly the CORS leaf with methods = declared methods, headers = canonical header params + security headers, nil-handler guard present")
	r.Rule("C17/no-shadow", "a declared OPTIONS operation is dispatched to its own handler, never to the CORS leaf")
	r.Rule("C17/cors-off", "with CORS disabled the API has no CORSHandler field and the router no CORS leaf")
	r.Assumptions = append(r.Assumptions, "net/textproto canonicalisation is the reference for header names", "what the user's CORS handler answers is outside generated code")
	s3, progs := loadRouted(r, "C17", S3Options{TemplateDebug: true})
	if s3 == nil {
		return
	}
	defer s3.Close()
	nCors, nOn := 0, 0
	for _, rp := range progs {
		p, m, o := rp.P, rp.M, rp.O
		modelUndecided(r, s3, rp, "C17/cors-leaf")
		hasField := false
		if st, ok := m.APIType.Underlying().(*types.Struct); ok {
			for i := 0; i < st.NumFields(); i++ {
				if st.Field(i).Name() == "CORSHandler" {
					hasField = true
				}
			}
		}
		var corsLeaves []*Leaf
		for _, lf := range m.AllLeaves() {
			if lf.Kind == "cors" {
				corsLeaves = append(corsLeaves, lf)
			}
		}
		if !p.Cors {
			r.Check(!hasField && len(corsLeaves) == 0, "C17/cors-off", p.Name, "", fmt.Sprintf("CORS is disabled in the config but the router has CORSHandler field=%v and %d CORS leaves", hasField, len(corsLeaves)))
			continue
		}
		nOn++
		used := map[*Leaf]bool{}
		for _, po := range o.Paths {
			segs := make([]string, len(po.Segments))
			for i, sgm := range po.Segments {
				if isVarSeg(sgm) {
					segs[i] = "zz~fresh"
				} else {
					segs[i] = sgm
				}
			}
			full := o.BasePath + "/" + strings.Join(segs, "/")
			key := p.Name + ":OPTIONS " + po.Template
			lf := m.Eval(full, "OPTIONS")
			if po.Ops["OPTIONS"] != nil {
				if lf == nil || lf.Kind != "op" || lf.Template != po.Template {
					r.Violation("C17/no-shadow", key, "", "the path declares an OPTIONS operation but an OPTIONS request does not reach its handler")
				} else {
					r.OK("C17/no-shadow", key, s3.pos(lf.Pos), "")
				}
				continue
			}
			// is the instance shadowed by a more literal path (then its leaf belongs to that path)?
			if ref := o.Match(segs, "OPTIONS"); ref != nil {
				continue
			}
			nCors++
			if lf == nil || lf.Kind != "cors" {
				r.Violation("C17/cors-leaf", key, "", "CORS is enabled and the path has no OPTIONS operation, but an OPTIONS request to it reaches no CORS leaf")
				continue
			}
			used[lf] = true
			wantM, wantH := o.CORSSets(po)
			okM, dM := sameSet(lf.CorsMethods, wantM)
			okH, dH := sameSet(lf.CorsHeaders, wantH)
			switch {
			case !lf.CorsNilGuard:
				r.Violation("C17/cors-leaf", key, s3.pos(lf.Pos), "missing `rt.CORSHandler == nil` guard")
			case !okM:
				r.Violation("C17/cors-leaf", key, s3.pos(lf.Pos), fmt.Sprintf("advertised methods %v differ from the declared methods %v: %s (template define %s)", lf.CorsMethods, wantM, dM, p.Provenance(s3, lf.Pos)))
			case !okH:
				r.Violation("C17/cors-leaf", key, s3.pos(lf.Pos), fmt.Sprintf("advertised headers %v differ from the declared header parameters + security headers %v: %s", lf.CorsHeaders, wantH, dH))
			default:
				r.OK("C17/cors-leaf", key, s3.pos(lf.Pos), fmt.Sprintf("methods %v headers %v", lf.CorsMethods, lf.CorsHeaders))
			}
		}
		for _, lf := range corsLeaves {
			if !used[lf] {
				// a CORS leaf not reached by any declared path instance: either shadowed instance or spurious
				_ = lf
			}
		}
	}
	r.Analysed["cors_enabled_programs"] = nOn
	r.Analysed["cors_leaves_checked"] = nCors
	r.FloorMin("cors-enabled programs", nOn, 3)
	r.FloorMin("CORS leaves checked", nCors, 8)
}
