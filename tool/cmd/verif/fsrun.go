package main

// fsrun.go — drives the interpreter of fsinterp.go over the functions of a
// package and turns exits into obligations.

import (
	"go/ast"
	"go/token"
	"go/types"
	"sort"
	"strings"
)

type fsFuncResult struct {
	fd      *ast.FuncDecl
	lit     *ast.FuncLit
	key     string
	success []fexit              // exits that report success (or may)
	lost    map[string]token.Pos // failed call -> a success exit it reaches
	hasEv   bool
	und     []string
	sites   []*fsSite // file-system primitive sites visited while interpreting this function
}

// analyseFunc interprets one function standalone: parameters are caller-provided values.
func (in *fsInterp) analyseFunc(ftype *ast.FuncType, body *ast.BlockStmt, isMain bool) (res fsFuncResult, parametric bool) {
	st := newFState()
	for _, f := range ftype.Params.List {
		for _, nm := range f.Names {
			if o := in.info.Defs[nm]; o != nil {
				st.env[o] = fval{k: fvParam, obj: o}
			}
		}
	}
	if ftype.Results != nil {
		for _, f := range ftype.Results.List {
			for _, nm := range f.Names {
				if o := in.info.Defs[nm]; o != nil {
					st.env[o] = in.zeroOf(o.Type())
				}
			}
		}
	}
	in.paramHit = false
	in.touched = map[token.Pos]bool{}
	undBefore := len(in.und)
	stepsBefore := in.steps
	exits := in.run(body, st, 0, ftype.Results)
	if in.steps-stepsBefore > fsMaxSteps/2 || in.steps > fsMaxSteps {
		in.und = append(in.und, "state budget exhausted")
	}
	res.und = append(res.und, in.und[undBefore:]...)
	for pos := range in.touched {
		res.sites = append(res.sites, in.sites[pos])
	}
	sort.Slice(res.sites, func(i, j int) bool { return res.sites[i].pos < res.sites[j].pos })
	in.touched = nil
	res.lost = map[string]token.Pos{}
	errIdx := -1
	if ftype.Results != nil {
		n := 0
		for _, f := range ftype.Results.List {
			k := len(f.Names)
			if k == 0 {
				k = 1
			}
			n += k
		}
		if n > 0 && isErrorType(in.info.TypeOf(ftype.Results.List[len(ftype.Results.List)-1].Type)) {
			errIdx = n - 1
		}
	}
	for _, e := range exits {
		if len(e.st.ev) > 0 {
			res.hasEv = true
		}
		success := false
		switch e.kind {
		case "fatal":
		case "exit0", "exit?":
			success = true
		case "return":
			if errIdx < 0 {
				success = true
			} else if errIdx < len(e.vals) {
				v := e.vals[errIdx]
				success = !(v.k == fvErr && v.nilness < 0)
			} else {
				success = true
			}
		}
		if !success {
			continue
		}
		res.success = append(res.success, e)
		for d := range e.st.failed {
			if _, ok := res.lost[d]; !ok {
				res.lost[d] = e.pos
			}
		}
	}
	return res, in.paramHit
}

// analyseAll: fixpoint over the helpers that must be inlined, then the reported pass.
func (in *fsInterp) analyseAll() []fsFuncResult {
	var fos []*types.Func
	for fo := range in.decls {
		fos = append(fos, fo)
	}
	sort.Slice(fos, func(i, j int) bool { return in.decls[fos[i]].Pos() < in.decls[fos[j]].Pos() })
	for round := 0; round < 6; round++ {
		changed := false
		for _, fo := range fos {
			if in.inline[fo] {
				continue
			}
			fd := in.decls[fo]
			saved := in.sites
			in.sites = map[token.Pos]*fsSite{}
			_, parametric := in.analyseFunc(fd.Type, fd.Body, false)
			in.sites = saved
			if parametric {
				in.inline[fo] = true
				changed = true
			}
		}
		if !changed {
			break
		}
	}
	in.sites = map[token.Pos]*fsSite{}
	in.evViol = map[string]token.Pos{}
	in.und = nil
	in.steps = 0
	var out []fsFuncResult
	for _, fo := range fos {
		fd := in.decls[fo]
		if in.inline[fo] {
			continue
		}
		before := len(in.evViol)
		r, _ := in.analyseFunc(fd.Type, fd.Body, fd.Name.Name == "main" && fd.Recv == nil)
		r.fd = fd
		r.key = funcKey(in.c.p, fd)
		if len(in.evViol) > before {
			r.hasEv = true
		}
		out = append(out, r)
	}
	// closures handed to code that is not interpreted: their failures must surface through their own result
	var lits []*ast.FuncLit
	for fl := range in.passed {
		lits = append(lits, fl)
	}
	sort.Slice(lits, func(i, j int) bool { return lits[i].Pos() < lits[j].Pos() })
	for _, fl := range lits {
		r, _ := in.analyseFunc(fl.Type, fl.Body, false)
		r.lit = fl
		r.key = "closure@" + in.c.s.pos(fl.Pos())
		out = append(out, r)
	}
	return out
}

// inlinedHelpers: names of the helpers that were inlined (evidence).
func (in *fsInterp) inlinedHelpers() []string {
	var out []string
	for fo := range in.inline {
		out = append(out, fo.Name())
	}
	sort.Strings(out)
	return out
}

// failureFlow reports, for every interpreted function, failed calls that reach a success exit.
func failureFlow(r *Report, s *S1, in *fsInterp, results []fsFuncResult, rule string, only func(desc string) bool) (nFuncs, nForks int) {
	for _, fr := range results {
		nFuncs++
		if len(fr.und) > 0 {
			r.Undecided(rule, fr.key, "", strings.Join(uniq(fr.und), "; "))
			continue
		}
		var ds []string
		for d := range fr.lost {
			if only == nil || only(d) {
				ds = append(ds, d)
			}
		}
		sort.Strings(ds)
		for _, d := range ds {
			name := d
			if i := strings.Index(name, "@"); i >= 0 {
				name = name[:i]
			}
			r.Violation(rule, fr.key+":"+name, s.pos(fr.lost[d]), "on the path where "+d+" fails, the function still reaches a success exit (return nil / end of main): the failure is overwritten or dropped and success is reported")
		}
		if len(ds) == 0 {
			r.OK(rule, fr.key, "", "every failing call leads to an error exit")
		}
	}
	return
}
