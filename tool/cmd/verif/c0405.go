package main

// C04 — query/header parsing rejects exactly the malformed requests.
// C05 — path parameters are the matched segments.
// Both consume the parser models of params_model.go and the spec oracle.

import (
	"fmt"
	"go/types"
	"net/textproto"
	"sort"
	"strconv"
	"strings"

	"github.com/getkin/kin-openapi/openapi3"
)

const rfc3339NanoLit = `"2006-01-02T15:04:05.999999999Z07:00"`

type expectConv struct {
	convs  []ConvCall
	goBase string // string|int|int32|int64|float32|float64|bool|time.Time|"" (custom: not judged)
	array  bool
	custom bool
}

func extString(s *openapi3.Schema, key string) string {
	if s == nil {
		return ""
	}
	if v, ok := s.ExtensionProps.Extensions[key]; ok {
		str := fmt.Sprintf("%s", v)
		return strings.Trim(str, "\"")
	}
	return ""
}

// timeLayoutLit: x-goag-go-time-format holds a Go expression (a constant of
// package time or a string literal); returns the quoted constant value.
func timeLayoutLit(ext string) string {
	std := map[string]string{
		"time.Layout": "01/02 03:04:05PM '06 -0700", "time.ANSIC": "Mon Jan _2 15:04:05 2006", "time.UnixDate": "Mon Jan _2 15:04:05 MST 2006",
		"time.RubyDate": "Mon Jan 02 15:04:05 -0700 2006", "time.RFC822": "02 Jan 06 15:04 MST", "time.RFC822Z": "02 Jan 06 15:04 -0700",
		"time.RFC850": "Monday, 02-Jan-06 15:04:05 MST", "time.RFC1123": "Mon, 02 Jan 2006 15:04:05 MST", "time.RFC1123Z": "Mon, 02 Jan 2006 15:04:05 -0700",
		"time.RFC3339": "2006-01-02T15:04:05Z07:00", "time.RFC3339Nano": "2006-01-02T15:04:05.999999999Z07:00", "time.Kitchen": "3:04PM",
		"time.Stamp": "Jan _2 15:04:05", "time.StampMilli": "Jan _2 15:04:05.000", "time.StampMicro": "Jan _2 15:04:05.000000", "time.StampNano": "Jan _2 15:04:05.000000000",
		"time.DateTime": "2006-01-02 15:04:05", "time.DateOnly": "2006-01-02", "time.TimeOnly": "15:04:05",
		// layout constants of other standard packages are Go expressions too
		"http.TimeFormat": "Mon, 02 Jan 2006 15:04:05 GMT",
	}
	if v, ok := std[ext]; ok {
		return strconv.Quote(v)
	}
	return "\"" + ext + "\""
}

func expectedFor(s *openapi3.Schema) expectConv {
	var e expectConv
	if s == nil {
		return e
	}
	if s.Type == "array" {
		if s.Items != nil {
			e = expectedFor(s.Items.Value)
		}
		e.array = true
		if extString(s, "x-goag-go-type") != "" {
			e.custom = true
		}
		return e
	}
	if extString(s, "x-goag-go-type") != "" {
		e.custom = true
	}
	switch s.Type {
	case "string":
		if s.Format == "date-time" {
			layout := rfc3339NanoLit
			if f := extString(s, "x-goag-go-time-format"); f != "" {
				layout = timeLayoutLit(f)
			}
			e.convs = []ConvCall{{Callee: "time.Parse", Consts: []string{layout, "_"}}}
			e.goBase = "time.Time"
		} else {
			e.goBase = "string"
		}
	case "integer":
		bits, gt := "0", "int"
		switch s.Format {
		case "int32":
			bits, gt = "32", "int32"
		case "int64":
			bits, gt = "64", "int64"
		}
		e.convs = []ConvCall{{Callee: "strconv.ParseInt", Consts: []string{"_", "10", bits}}}
		e.goBase = gt
	case "number":
		bits, gt := "64", "float64"
		if s.Format == "float" {
			bits, gt = "32", "float32"
		}
		e.convs = []ConvCall{{Callee: "strconv.ParseFloat", Consts: []string{"_", bits}}}
		e.goBase = gt
	case "boolean":
		e.convs = []ConvCall{{Callee: "strconv.ParseBool", Consts: []string{"_"}}}
		e.goBase = "bool"
	}
	return e
}

func convsEqual(got, want []ConvCall) (bool, string) {
	show := func(cs []ConvCall) string {
		var ss []string
		for _, c := range cs {
			ss = append(ss, c.Callee+"("+strings.Join(c.Consts, ",")+")")
		}
		if len(ss) == 0 {
			return "identity (no conversion)"
		}
		return strings.Join(ss, " ; ")
	}
	if len(got) != len(want) {
		return false, "converter is " + show(got) + ", the declared type needs " + show(want)
	}
	for i := range got {
		if got[i].Callee != want[i].Callee || strings.Join(got[i].Consts, ",") != strings.Join(want[i].Consts, ",") {
			return false, "converter is " + show(got) + ", the declared type needs " + show(want)
		}
		if !got[i].FromSrc {
			return false, "the converter's input is not the supplied value"
		}
	}
	return true, ""
}

// goBaseOf unwraps Maybe/Nullable, slices and named types.
func goBaseOf(t types.Type) (base string, optional, array bool) {
	for i := 0; i < 6; i++ {
		if n, ok := t.(*types.Named); ok {
			if n.Obj().Pkg() != nil && n.Obj().Pkg().Path() == "time" && n.Obj().Name() == "Time" {
				return "time.Time", optional, array
			}
			if (n.Obj().Name() == "Maybe" || n.Obj().Name() == "Nullable") && n.TypeArgs() != nil && n.TypeArgs().Len() == 1 {
				if n.Obj().Name() == "Maybe" {
					optional = true
				}
				t = n.TypeArgs().At(0)
				continue
			}
			t = n.Underlying()
			continue
		}
		if sl, ok := t.(*types.Slice); ok {
			array = true
			t = sl.Elem()
			continue
		}
		break
	}
	if b, ok := t.(*types.Basic); ok {
		return b.Name(), optional, array
	}
	if st, ok := t.(*types.Struct); ok && st.NumFields() == 3 {
		return "time.Time", optional, array // underlying struct of time.Time (type When time.Time)
	}
	return t.String(), optional, array
}

type paramProgram struct {
	P        *Program
	O        *Oracle
	Parsers  map[string]*ParserModel
	Handlers []*handlerInfo
	Router   *RouterModel
}

func loadParamPrograms(r *Report, prefix string) (*S3, []*paramProgram) {
	s3, progs := loadRouted(r, prefix, S3Options{TemplateDebug: true})
	if s3 == nil {
		return nil, nil
	}
	var out []*paramProgram
	for _, rp := range progs {
		out = append(out, &paramProgram{P: rp.P, O: rp.O, Parsers: parserModels(rp.P), Handlers: handlerInfos(rp.P), Router: rp.M})
	}
	return s3, out
}

func opByKey(o *Oracle) map[string]*OpOracle {
	m := map[string]*OpOracle{}
	for _, op := range o.AllOps() {
		m[op.Method+" "+op.Template] = op
	}
	return m
}

func runC04(r *Report) {
	r.Explanation = "Every new<Op>Params of every instantiated program is decomposed exactly at the top level (query section, header section, path section, body decode, final return); every parameter block is then analysed by a path-sensitive typestate analysis over its control-flow graph with the finite state (present, cardinality, conversion-failed, stored) refined at the branches `ok`, `len(v) ⋈ k`, `err != nil`: absent+required, several values for a scalar and any failed conversion must end in `return zero, <error naming the parameter>`; an absent optional must fall through with no store; a present well-formed value must be stored exactly into this parameter's field. Flow-insensitive def-use shows the stored value derives from the supplied text through the converter; the converter and its constant arguments (bit size, base, time layout) and the Go field type are compared with the declared schema from the independent oracle; any other call on the value path, any dropped error and any store to another field is reported. Table equality: one block per declared query/header parameter (path-item level merged, operation level wins) and vice versa."
	r.Rule("C04/structure", "the parser's top-level shape is recognised completely (totality)")
	r.Rule("C04/param-table", "query/header blocks are in bijection with the declared parameters (in, name) of the operation")
	r.Rule("C04/presence", "required ⇔ absent value ends in an error naming the parameter; optional ⇔ absent value stores nothing")
	r.Rule("C04/cardinality", "scalar ⇔ more than one value ends in an error naming the parameter; array ⇔ every element is converted")
	r.Rule("C04/typestate", "failed conversion ⇒ error return naming the parameter; present well-formed value ⇒ stored into this parameter's field only; no dropped error; no foreign call on the value path; stored value derives from the supplied text")
	r.Rule("C04/codec", "converter callee + constant arguments and the Go field type match the declared type/format")
	r.Assumptions = append(r.Assumptions,
		"the lexical space accepted by strconv.Parse*/time.Parse for a given bit size/layout is their documented contract (the iff on value text is not decided; that the declared converter is applied and obeyed is)",
		"custom types (x-goag-go-type) delegate to user code (Parse<Base> method), whose behaviour is outside generated code",
		"programs bounded by the corpus")
	s3, progs := loadParamPrograms(r, "C04")
	if s3 == nil {
		return
	}
	defer s3.Close()
	r.Rule("C04/fresh-element", "every loop that parses the elements of an array parameter parses into storage that is fresh per element (declared in the loop body, or reset): a custom type's Parse method, like json.Unmarshal, need not overwrite every field of its target")
	for _, pp := range progs {
		before := len(r.Obls)
		n := freshElements(r, s3, pp.P, pp.P.Pkg.Types, pp.P.Pkg.TypesInfo, pp.P.Pkg.Syntax, "C04/fresh-element")
		if len(r.Obls) == before {
			r.OK("C04/fresh-element", pp.P.Name, "", fmt.Sprintf("%d element loops", n))
		}
	}
	nParsers, nRows := 0, 0
	for _, pp := range progs {
		ops := opByKey(pp.O)
		for _, h := range pp.Handlers {
			pm := pp.Parsers[h.Parser]
			op := ops[h.Method+" "+h.Path]
			key := pp.P.Name + ":" + h.Parser
			if pm == nil || op == nil {
				r.Undecided("C04/structure", key, "", fmt.Sprintf("handler %s (%s %s) has no parser / no declared operation", h.TypeName, h.Method, h.Path))
				continue
			}
			nParsers++
			pos := s3.pos(pm.Decl.Pos())
			if len(pm.Undecided) > 0 {
				r.Undecided("C04/structure", key, pos, strings.Join(pm.Undecided, "; "))
				continue
			}
			r.OK("C04/structure", key, pos, "")
			// table
			want := map[string]ParamOracle{}
			for _, prm := range op.Params {
				if prm.In == "query" || prm.In == "header" {
					want[prm.In+":"+prm.Name] = prm
				}
			}
			// security headers are added to the header section by goag (apiKey header / bearer)
			secHdr := map[string]bool{}
			for _, alt := range op.Security {
				for _, sc := range alt {
					if sc.Type == "apiKey" && sc.In == "header" {
						secHdr[textproto.CanonicalMIMEHeaderKey(sc.Name)] = true
					}
					if sc.Type == "http" && sc.Scheme == "bearer" {
						secHdr["Authorization"] = true
					}
				}
			}
			seenField := map[*types.Var]string{}
			got := map[string]bool{}
			for _, row := range pm.Rows {
				if row.In == "path" {
					continue
				}
				nRows++
				rk := fmt.Sprintf("%s:%s %s", key, row.In, row.Key)
				rpos := s3.pos(row.Pos)
				if len(row.Undecided) > 0 {
					r.Undecided("C04/structure", rk, rpos, strings.Join(row.Undecided, "; "))
					continue
				}
				prm, declared := want[row.In+":"+row.Key]
				if !declared && row.In == "header" {
					for k, v := range want {
						if strings.HasPrefix(k, "header:") && textproto.CanonicalMIMEHeaderKey(v.Name) == textproto.CanonicalMIMEHeaderKey(row.Key) {
							prm, declared = v, true
						}
					}
				}
				if !declared {
					if row.In == "header" && secHdr[textproto.CanonicalMIMEHeaderKey(row.Key)] {
						r.OK("C04/param-table", rk, rpos, "security credential header exposed as a parameter")
						continue
					}
					r.Violation("C04/param-table", rk, rpos, "the parser reads a "+row.In+" parameter the operation does not declare")
					continue
				}
				got[prm.In+":"+prm.Name] = true
				r.OK("C04/param-table", rk, rpos, "")
				if row.Field != nil {
					if prev, dup := seenField[row.Field]; dup {
						r.Violation("C04/typestate", rk, rpos, "field "+row.FieldPath+" is also written for parameter "+prev)
					}
					seenField[row.Field] = row.Key
				}
				if len(row.Problems) > 0 {
					r.Violation("C04/typestate", rk, rpos, strings.Join(row.Problems, "; ")+" (template define "+pp.P.Provenance(s3, row.Pos)+")")
				} else {
					r.OK("C04/typestate", rk, rpos, "")
				}
				r.Check(row.Required == prm.Required, "C04/presence", rk, rpos, fmt.Sprintf("declared required=%v but the parser %s an absent value", prm.Required, map[bool]string{true: "rejects", false: "accepts"}[row.Required]))
				exp := expectedFor(prm.Schema)
				r.Check(row.Array == exp.array, "C04/cardinality", rk, rpos, fmt.Sprintf("declared array=%v but the parser treats the parameter as array=%v", exp.array, row.Array))
				if exp.custom {
					r.OK("C04/codec", rk, rpos, "custom type: delegated to the user's Parse method")
					continue
				}
				okc, why := convsEqual(row.Convs, exp.convs)
				if okc && row.Field != nil {
					base, opt, arr := goBaseOf(row.Field.Type())
					switch {
					case base != exp.goBase:
						okc, why = false, "field type "+row.Field.Type().String()+" has base "+base+", the declared type needs "+exp.goBase
					case arr != exp.array:
						okc, why = false, "field type "+row.Field.Type().String()+" slice-ness differs from the declaration"
					case opt == prm.Required:
						okc, why = false, fmt.Sprintf("field type %s optional=%v but declared required=%v", row.Field.Type().String(), opt, prm.Required)
					}
				}
				r.Check(okc, "C04/codec", rk, rpos, why)
			}
			for k := range want {
				if !got[k] {
					r.Violation("C04/param-table", key+":"+strings.Replace(k, ":", " ", 1), pos, "declared parameter has no block in the parser: it is silently ignored")
				}
			}
		}
	}
	r.Analysed["parsers"] = nParsers
	r.Analysed["query_header_rows"] = nRows
	r.FloorMin("parsers analysed", nParsers, 100)
	r.FloorMin("query/header parameter blocks", nRows, 100)
}

func runC05(r *Report) {
	r.Explanation = "The path section of every new<Op>Params is decompiled into the pattern B · Π(literal-strip | {variable extraction}) where every strip constant equals the length of the literal just tested and every extraction is `idx := Index(p,\"/\") (or len(p)); v := p[:idx]; p = p[idx:]; empty ⇒ error naming the parameter`. The pattern must equal BasePath · template of the operation the parser belongs to (independent oracle), B must equal the constant the router strips (sibling cross-check of two independently generated pieces) and the route leaf that dispatches the handler must carry the same template. Each extraction's remainder is analysed with the C04 typestate/codec machinery (source = the extracted segment). With C03 (dispatch only for requests matching the template under the base path) equal patterns imply the value is the segment at the template position."
	r.Rule("C05/pattern", "strip/extract sequence of the parser equals base path + template; strip constants equal literal lengths; base constant equals the router's")
	r.Rule("C05/leaf-template", "the route leaf dispatching handler field F reports the template that F's handler type declares and parses")
	r.Rule("C05/extract", "every variable extraction is the recognised 5-statement cut with an empty-segment rejection naming the parameter")
	r.Rule("C05/convert", "conversion of the segment: typestate (failed ⇒ error naming the parameter, stored into the parameter's own field), declared converter and field type")
	r.Rule("C05/param-table", "extractions are in bijection with the template's variables, which are the declared path parameters")
	r.Assumptions = append(r.Assumptions, "percent-decoding is done by net/url before URL.Path (outside generated code)", "programs bounded by the corpus")
	s3, progs := loadParamPrograms(r, "C05")
	if s3 == nil {
		return
	}
	defer s3.Close()
	nPath, nVars := 0, 0
	for _, pp := range progs {
		ops := opByKey(pp.O)
		// API field -> handler type
		fieldType := map[string]string{}
		if st, ok := pp.Router.APIType.Underlying().(*types.Struct); ok {
			for i := 0; i < st.NumFields(); i++ {
				if n, ok := st.Field(i).Type().(*types.Named); ok {
					fieldType[st.Field(i).Name()] = n.Obj().Name()
				}
			}
		}
		hByType := map[string]*handlerInfo{}
		for _, h := range pp.Handlers {
			hByType[h.TypeName] = h
		}
		for _, lf := range pp.Router.AllLeaves() {
			if lf.Kind != "op" {
				continue
			}
			key := fmt.Sprintf("%s:%s %s", pp.P.Name, lf.Method, lf.Template)
			h := hByType[fieldType[lf.Field]]
			if h == nil {
				r.Undecided("C05/leaf-template", key, s3.pos(lf.Pos), "handler field "+lf.Field+" has no handler func type with Path()/Method()")
				continue
			}
			r.Check(h.Path == lf.Template && h.Method == lf.Method, "C05/leaf-template", key, s3.pos(lf.Pos),
				fmt.Sprintf("the leaf reports %s %s but dispatches handler %s declared for %s %s: parameters would be cut at the wrong positions", lf.Method, lf.Template, h.TypeName, h.Method, h.Path))
		}
		for _, h := range pp.Handlers {
			pm := pp.Parsers[h.Parser]
			op := ops[h.Method+" "+h.Path]
			if pm == nil || op == nil {
				continue // reported by C04
			}
			key := pp.P.Name + ":" + h.Parser
			pos := s3.pos(pm.Decl.Pos())
			if len(pm.Undecided) > 0 {
				r.Undecided("C05/pattern", key, pos, strings.Join(pm.Undecided, "; "))
				continue
			}
			tmplVars := 0
			for _, sgm := range splitTemplate(h.Path) {
				if isVarSeg(sgm) {
					tmplVars++
				}
			}
			hasPathRows := false
			for _, row := range pm.Rows {
				if row.In == "path" {
					hasPathRows = true
				}
			}
			if !hasPathRows && tmplVars == 0 {
				continue
			}
			nPath++
			// pattern
			pat := pm.BaseStrip
			for _, pc := range pm.Pieces {
				if pc.Lit != "" {
					pat += pc.Lit
				} else {
					pat += "{" + pc.Var + "}"
				}
			}
			want := pp.O.BasePath + h.Path
			routerBase := pp.Router.Nodes["route"].BaseStrip
			switch {
			case pat != want:
				r.Violation("C05/pattern", key, pos, fmt.Sprintf("the parser cuts the path as %q but base path + template is %q: a parameter would be taken from another segment", pat, want))
			case pm.BaseStrip != routerBase:
				r.Violation("C05/pattern", key, pos, fmt.Sprintf("the parser strips base path %q but the router strips %q", pm.BaseStrip, routerBase))
			case pm.BaseStrip != "" && !pm.BaseSlash:
				r.Violation("C05/pattern", key, pos, "base path stripped without checking the following slash")
			default:
				r.OK("C05/pattern", key, pos, pat)
			}
			declared := map[string]ParamOracle{}
			for _, prm := range op.Params {
				if prm.In == "path" {
					declared[prm.Name] = prm
				}
			}
			seen := map[string]bool{}
			for _, row := range pm.Rows {
				if row.In != "path" {
					continue
				}
				nVars++
				rk := key + ":path " + row.Key
				rpos := s3.pos(row.Pos)
				if len(row.Undecided) > 0 {
					r.Undecided("C05/extract", rk, rpos, strings.Join(row.Undecided, "; ")+" (template define "+pp.P.Provenance(s3, row.Pos)+")")
					continue
				}
				r.OK("C05/extract", rk, rpos, "")
				prm, ok := declared[row.Key]
				if !ok {
					r.Violation("C05/param-table", rk, rpos, "extraction names a path parameter the operation does not declare")
					continue
				}
				if seen[row.Key] {
					r.Violation("C05/param-table", rk, rpos, "path parameter extracted twice")
				}
				seen[row.Key] = true
				r.OK("C05/param-table", rk, rpos, "")
				exp := expectedFor(prm.Schema)
				problems := append([]string{}, row.Problems...)
				if !exp.custom {
					if okc, why := convsEqual(row.Convs, exp.convs); !okc {
						problems = append(problems, why)
					} else if row.Field != nil {
						base, opt, arr := goBaseOf(row.Field.Type())
						if base != exp.goBase || opt || arr {
							problems = append(problems, "field type "+row.Field.Type().String()+" is not admissible for the declared type ("+exp.goBase+")")
						}
					}
				}
				if len(problems) > 0 {
					r.Violation("C05/convert", rk, rpos, strings.Join(problems, "; ")+" (template define "+pp.P.Provenance(s3, row.Pos)+")")
				} else {
					r.OK("C05/convert", rk, rpos, "")
				}
			}
			var missing []string
			for n := range declared {
				if !seen[n] {
					missing = append(missing, n)
				}
			}
			sort.Strings(missing)
			if len(missing) > 0 {
				r.Violation("C05/param-table", key, pos, "declared path parameters without extraction: "+strings.Join(missing, ", "))
			}
		}
	}
	r.Analysed["parsers_with_path_section"] = nPath
	r.Analysed["path_variable_extractions"] = nVars
	r.FloorMin("parsers with a path section", nPath, 40)
	r.FloorMin("path variable extractions", nVars, 50)
}
