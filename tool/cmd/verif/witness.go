package main

// witness.go — positive/negative witnesses for rules whose expected count on
// a healthy tree is zero (DESIGN §2.6). A witness package is analysed with
// the same rule code on every run; functions annotated `// want <rule>` must
// be flagged by that rule, functions annotated `// clean` must not be
// flagged at all. A mismatch makes the check report itself broken.

import (
	"fmt"
	"go/ast"
	"go/token"
	"path/filepath"
	"strings"

	"golang.org/x/tools/go/packages"
)

func witnessDir() string { return filepath.Join(verifDir(), "tool", "testdata", "witness") }

func loadWitness(sub string) (*packages.Package, error) {
	cfg := &packages.Config{Mode: packages.LoadAllSyntax, Dir: witnessDir(), Fset: token.NewFileSet(), Env: goEnv()}
	pkgs, err := packages.Load(cfg, "./"+sub)
	if err != nil {
		return nil, err
	}
	if len(pkgs) != 1 {
		return nil, fmt.Errorf("witness %s: %d packages", sub, len(pkgs))
	}
	if len(pkgs[0].Errors) > 0 {
		return nil, fmt.Errorf("witness %s: %v", sub, pkgs[0].Errors[0])
	}
	return pkgs[0], nil
}

// witnessExpectations reads `// want a b` / `// clean` annotations on the
// line of each func declaration.
func witnessExpectations(p *packages.Package) map[string][]string {
	out := map[string][]string{}
	for _, f := range p.Syntax {
		lineOf := map[int]string{}
		for _, cg := range f.Comments {
			for _, c := range cg.List {
				lineOf[p.Fset.Position(c.Pos()).Line] = strings.TrimSpace(strings.TrimPrefix(c.Text, "//"))
			}
		}
		for _, d := range f.Decls {
			fd, ok := d.(*ast.FuncDecl)
			if !ok {
				continue
			}
			txt := lineOf[p.Fset.Position(fd.Pos()).Line]
			if strings.HasPrefix(txt, "want ") {
				out[fd.Name.Name] = strings.Fields(strings.TrimPrefix(txt, "want "))
			} else if strings.HasPrefix(txt, "clean") {
				out[fd.Name.Name] = []string{}
			}
		}
	}
	return out
}

// compareWitness checks a scratch report against expectations. Obligation
// keys of the scratch report start with "<pkg>.<Func>:".
func compareWitness(r *Report, prop string, scratch *Report, exp map[string][]string) {
	flagged := map[string]map[string]bool{}
	for _, o := range scratch.Obls {
		if o.Status == StOK {
			continue
		}
		fn := o.Key
		if i := strings.Index(fn, ":"); i >= 0 {
			fn = fn[:i]
		}
		if i := strings.LastIndex(fn, "."); i >= 0 {
			fn = fn[i+1:]
		}
		if flagged[fn] == nil {
			flagged[fn] = map[string]bool{}
		}
		flagged[fn][strings.TrimPrefix(o.Rule, prop+"/")] = true
	}
	n := 0
	for fn, want := range exp {
		n++
		if len(want) == 0 {
			if len(flagged[fn]) > 0 {
				r.Violation(prop+"/witness", "witness."+fn, "", fmt.Sprintf("clean witness flagged by %v: the rule raises false alarms on an accepted idiom", keysOf(flagged[fn])))
			} else {
				r.OK(prop+"/witness", "witness."+fn, "", "clean witness silent")
			}
			continue
		}
		for _, w := range want {
			if flagged[fn][w] {
				r.OK(prop+"/witness", "witness."+fn+"/"+w, "", "positive witness flagged")
			} else {
				r.Violation(prop+"/witness", "witness."+fn+"/"+w, "", "positive witness NOT flagged: rule "+w+" is blind")
			}
		}
	}
	r.Analysed["witness_functions"] = n
}

func keysOf(m map[string]bool) []string {
	var out []string
	for k := range m {
		out = append(out, k)
	}
	return out
}
