package main

// s3.go — "instantiate, then analyse" (DESIGN §2.2). The current working tree
// of the repo is copied to a scratch directory, cmd/goag is built from the
// copy, and it is run over the repo's own specs plus the verif corpus. The
// emitted Go packages are then loaded (syntax + types, optionally SSA) for
// static analysis. No generated function is ever called.

import (
	"bytes"
	"encoding/json"
	"fmt"
	"go/ast"
	"go/token"
	"os"
	"os/exec"
	"path/filepath"
	"regexp"
	"sort"
	"strings"
	"sync"

	"golang.org/x/tools/go/packages"
	"golang.org/x/tools/go/ssa"
	"golang.org/x/tools/go/ssa/ssautil"
)

type Program struct {
	Name            string // e.g. tests/router, corpus/route_basic
	Dir             string // absolute dir inside the scratch copy
	RelDir          string // relative to module root
	SpecPath        string
	Flags           []string
	Client          bool
	Cors            bool
	BasePathFlag    string
	SpecHandlerName string
	Expect          string // "ok" (default) | "error" (generator must refuse) | "any"

	GenExit   int
	GenStderr string

	Pkg      *packages.Package
	SSAPkg   *ssa.Package
	Oracle   *Oracle
	LoadErrs []string

	markers map[string][]marker // file -> markers

	// index/slice expressions whose bounds were proven by the case-partitioned evaluation of
	// the string-cutting helpers (strcut.go)
	ProvenSafe map[ast.Node]bool

	inl *inlineCtx
}

// inliner: the demand-driven helper expansion of this package (inlineview.go).
func (p *Program) inliner() *inlineCtx {
	if p.inl == nil {
		p.inl = newInlineCtx(p.Pkg.TypesInfo, p.Pkg.Types, p.Pkg.Syntax)
	}
	return p.inl
}

type marker struct {
	start, end token.Pos
	name       string
}

type S3 struct {
	Scratch  string
	Root     string // scratch/w
	Fset     *token.FileSet
	Programs []*Program
	Prog     *ssa.Program
	Defines  map[string]bool // template defines seen as markers
	Debug    bool
	cleanups []func()
	shared   bool // owned by the process-level cache (checkall mode)
}

type S3Options struct {
	TemplateDebug bool
	SSA           bool
	Filter        func(name string) bool
	ExtraCorpus   string // additional corpus dir (thorough tier: generated specs)
}

func (s *S3) Close() {
	if s != nil {
		for _, f := range s.cleanups {
			f()
		}
		s.cleanups = nil
		if s.shared {
			return
		}
	}
	if s != nil && s.Scratch != "" && os.Getenv("VERIF_KEEP_SCRATCH") == "" {
		os.RemoveAll(s.Scratch)
	}
}

func run(dir string, env []string, name string, args ...string) (string, int, error) {
	cmd := exec.Command(name, args...)
	cmd.Dir = dir
	cmd.Env = env
	var buf bytes.Buffer
	cmd.Stdout = &buf
	cmd.Stderr = &buf
	err := cmd.Run()
	code := 0
	if err != nil {
		if ee, ok := err.(*exec.ExitError); ok {
			code = ee.ExitCode()
			err = nil
		} else {
			code = -1
		}
	}
	return buf.String(), code, err
}

type corpusMeta struct {
	Flags  []string `json:"flags"`
	Expect string   `json:"expect"`
	Note   string   `json:"note"`
}

// BuildS3 copies, builds, instantiates and loads.
// process-level sharing of instantiated corpora (checkall mode only)
var (
	shareS3   bool
	sharedS3s = map[string]*S3{}
)

func closeSharedS3() {
	for k, s := range sharedS3s {
		s.shared = false
		s.Close()
		delete(sharedS3s, k)
	}
}

func BuildS3(opt S3Options) (*S3, error) {
	if shareS3 && opt.Filter == nil && opt.ExtraCorpus == "" {
		key := fmt.Sprint(opt.TemplateDebug)
		if s := sharedS3s[key]; s != nil {
			return s, nil
		}
		opt.SSA = true
		s, err := buildS3(opt)
		if err != nil {
			return nil, err
		}
		s.shared = true
		sharedS3s[key] = s
		return s, nil
	}
	return buildS3(opt)
}

func buildS3(opt S3Options) (*S3, error) {
	scratch, err := os.MkdirTemp("", "verif-s3-")
	if err != nil {
		return nil, err
	}
	s := &S3{Scratch: scratch, Root: filepath.Join(scratch, "w"), Fset: token.NewFileSet(), Defines: map[string]bool{}}
	ok := false
	defer func() {
		if !ok {
			s.Close()
		}
	}()
	env := goEnv()
	if out, code, err := run("/", env, "rsync", "-a", "--exclude", ".git", repoDir()+"/", s.Root+"/"); err != nil || code != 0 {
		return nil, fmt.Errorf("copy repo: %v %s", err, out)
	}
	bin := filepath.Join(scratch, "goag")
	if out, code, err := run(s.Root, env, "go", "build", "-trimpath", "-o", bin, "./cmd/goag"); err != nil || code != 0 {
		return nil, fmt.Errorf("build cmd/goag from the working tree failed: %v\n%s", err, out)
	}
	// programs: repo fixtures
	add := func(name, rel string, flags []string, expect string) {
		p := &Program{Name: name, RelDir: rel, Dir: filepath.Join(s.Root, rel), Flags: flags, Expect: expect}
		p.SpecPath = filepath.Join(p.Dir, "openapi.yaml")
		if opt.Filter != nil && !opt.Filter(name) {
			return
		}
		s.Programs = append(s.Programs, p)
	}
	ents, _ := os.ReadDir(filepath.Join(s.Root, "tests"))
	for _, e := range ents {
		if e.IsDir() {
			if _, err := os.Stat(filepath.Join(s.Root, "tests", e.Name(), "openapi.yaml")); err == nil {
				add("tests/"+e.Name(), filepath.Join("tests", e.Name()), []string{"--package", "test", "--client=true", "--donotedit=false"}, "ok")
			}
		}
	}
	ents, _ = os.ReadDir(filepath.Join(s.Root, "examples"))
	for _, e := range ents {
		if e.IsDir() {
			if _, err := os.Stat(filepath.Join(s.Root, "examples", e.Name(), "openapi.yaml")); err == nil {
				add("examples/"+e.Name(), filepath.Join("examples", e.Name()), []string{"--package", "test", "--client=true"}, "ok")
			}
		}
	}
	// verif corpus
	corpusDirs := []string{filepath.Join(verifDir(), "corpus")}
	if opt.ExtraCorpus != "" {
		corpusDirs = append(corpusDirs, opt.ExtraCorpus)
	}
	for ci, cdir := range corpusDirs {
		ents, _ = os.ReadDir(cdir)
		for _, e := range ents {
			if !e.IsDir() {
				continue
			}
			src := filepath.Join(cdir, e.Name())
			if _, err := os.Stat(filepath.Join(src, "openapi.yaml")); err != nil {
				continue
			}
			sub := "verifcorpus"
			label := "corpus/"
			if ci > 0 {
				sub = "verifgen"
				label = "gen/"
			}
			rel := filepath.Join(sub, e.Name())
			os.MkdirAll(filepath.Join(s.Root, sub), 0o755)
			if out, code, err := run("/", env, "rsync", "-a", src+"/", filepath.Join(s.Root, rel)+"/"); err != nil || code != 0 {
				return nil, fmt.Errorf("copy corpus %s: %v %s", e.Name(), err, out)
			}
			var meta corpusMeta
			if bs, err := os.ReadFile(filepath.Join(src, "meta.json")); err == nil {
				if err := json.Unmarshal(bs, &meta); err != nil {
					return nil, fmt.Errorf("corpus %s meta.json: %v", e.Name(), err)
				}
			}
			flags := append([]string{"--package", pkgNameOf(e.Name())}, meta.Flags...)
			hasClient := false
			for _, f := range flags {
				if strings.HasPrefix(f, "--client") {
					hasClient = true
				}
			}
			if !hasClient {
				flags = append(flags, "--client=true")
			}
			exp := meta.Expect
			if exp == "" {
				exp = "ok"
			}
			add(label+e.Name(), rel, flags, exp)
		}
	}
	if len(s.Programs) == 0 {
		return nil, fmt.Errorf("no programs to instantiate")
	}
	// instantiate (parallel)
	genEnv := env
	if opt.TemplateDebug {
		genEnv = append(append([]string{}, env...), "TEMPLATE_DEBUG=1")
	}
	var wg sync.WaitGroup
	sem := make(chan struct{}, 12)
	for _, p := range s.Programs {
		p := p
		for i := 0; i < len(p.Flags); i++ {
			f := p.Flags[i]
			switch {
			case strings.HasPrefix(f, "--client"):
				p.Client = f == "--client" || f == "--client=true"
			case f == "--basepath" && i+1 < len(p.Flags):
				p.BasePathFlag = p.Flags[i+1]
			case strings.HasPrefix(f, "--basepath="):
				p.BasePathFlag = strings.TrimPrefix(f, "--basepath=")
			case f == "--spec-handler-name" && i+1 < len(p.Flags):
				p.SpecHandlerName = p.Flags[i+1]
			}
		}
		if p.SpecHandlerName == "" {
			p.SpecHandlerName = "openapi.yaml"
		}
		// generated files of the committed fixtures are removed first, so that
		// what is analysed is exactly what the current generator emits
		for _, f := range []string{"handler.go", "router.go", "spec_file.go", "components.go", "client.go"} {
			os.Remove(filepath.Join(p.Dir, f))
		}
		wg.Add(1)
		sem <- struct{}{}
		go func() {
			defer wg.Done()
			defer func() { <-sem }()
			args := append([]string{"--file", p.SpecPath, "--out", p.Dir, "--config", filepath.Join(p.Dir, ".goag.yaml")}, p.Flags...)
			out, code, err := run(p.Dir, genEnv, bin, args...)
			if err != nil {
				code = -1
				out += err.Error()
			}
			p.GenExit, p.GenStderr = code, out
		}()
	}
	wg.Wait()
	for _, p := range s.Programs {
		if bs, err := os.ReadFile(filepath.Join(p.Dir, ".goag.yaml")); err == nil {
			p.Cors = regexp.MustCompile(`(?s)cors:\s*\n\s+enable:\s*true`).Match(bs)
		}
	}
	// load
	var pats []string
	byDir := map[string]*Program{}
	for _, p := range s.Programs {
		if p.GenExit != 0 {
			continue
		}
		pats = append(pats, "./"+p.RelDir)
		byDir[p.Dir] = p
	}
	mode := packages.NeedName | packages.NeedFiles | packages.NeedCompiledGoFiles | packages.NeedImports | packages.NeedTypes | packages.NeedTypesSizes | packages.NeedSyntax | packages.NeedTypesInfo | packages.NeedDeps
	cfg := &packages.Config{Mode: mode, Dir: s.Root, Fset: s.Fset, Env: env, Tests: false,
		ParseFile: nil}
	if len(pats) > 0 {
		pkgs, err := packages.Load(cfg, pats...)
		if err != nil {
			return nil, fmt.Errorf("load generated packages: %v", err)
		}
		for _, pk := range pkgs {
			if len(pk.GoFiles) == 0 && len(pk.Errors) > 0 {
				// directory-level failure
				for _, p := range s.Programs {
					if strings.HasSuffix(pk.PkgPath, "/"+filepath.ToSlash(p.RelDir)) {
						for _, e := range pk.Errors {
							p.LoadErrs = append(p.LoadErrs, e.Error())
						}
					}
				}
				continue
			}
			dir := ""
			if len(pk.GoFiles) > 0 {
				dir = filepath.Dir(pk.GoFiles[0])
			}
			p := byDir[dir]
			if p == nil {
				continue
			}
			for _, e := range pk.Errors {
				p.LoadErrs = append(p.LoadErrs, e.Error())
			}
			p.Pkg = pk
		}
		if opt.SSA {
			var good []*packages.Package
			for _, p := range s.Programs {
				if p.Pkg != nil && len(p.LoadErrs) == 0 {
					good = append(good, p.Pkg)
				}
			}
			prog, spkgs := ssautil.Packages(good, ssa.InstantiateGenerics)
			prog.Build()
			s.Prog = prog
			for i, g := range good {
				for _, p := range s.Programs {
					if p.Pkg == g {
						p.SSAPkg = spkgs[i]
					}
				}
			}
		}
	}
	for _, p := range s.Programs {
		if p.Pkg != nil {
			p.indexMarkers(s)
			// idiom normalisation (after SSA construction, which wants the original trees)
			if len(p.LoadErrs) == 0 && p.Pkg.TypesInfo != nil {
				normalizePackage(p.Pkg.TypesInfo, p.Pkg.Syntax)
			}
		}
	}
	sort.Slice(s.Programs, func(i, j int) bool { return s.Programs[i].Name < s.Programs[j].Name })
	ok = true
	return s, nil
}

func pkgNameOf(dir string) string {
	n := strings.Map(func(r rune) rune {
		if r >= 'a' && r <= 'z' || r >= '0' && r <= '9' || r == '_' {
			return r
		}
		if r >= 'A' && r <= 'Z' {
			return r + 32
		}
		return '_'
	}, dir)
	if n == "" || n[0] >= '0' && n[0] <= '9' {
		n = "p" + n
	}
	return n
}

var markerOpen = regexp.MustCompile(`^/\*\* (\S+) >>> \*/$`)
var markerClose = regexp.MustCompile(`^/\*\* <<< (\S+) \*/$`)

func (p *Program) indexMarkers(s *S3) {
	p.markers = map[string][]marker{}
	for _, f := range p.Pkg.Syntax {
		fname := s.Fset.Position(f.Pos()).Filename
		var stack []marker
		for _, cg := range f.Comments {
			for _, c := range cg.List {
				// several markers may share one comment token only if adjacent without space; split on "*/"
				for _, part := range strings.SplitAfter(c.Text, "*/") {
					part = strings.TrimSpace(part)
					if m := markerOpen.FindStringSubmatch(part); m != nil {
						stack = append(stack, marker{start: c.Pos(), name: m[1]})
						s.Defines[m[1]] = true
					} else if m := markerClose.FindStringSubmatch(part); m != nil {
						for i := len(stack) - 1; i >= 0; i-- {
							if stack[i].name == m[1] {
								mk := stack[i]
								mk.end = c.End()
								p.markers[fname] = append(p.markers[fname], mk)
								stack = append(stack[:i], stack[i+1:]...)
								break
							}
						}
					}
				}
			}
		}
	}
}

// Provenance: innermost template define whose marker pair encloses pos.
func (p *Program) Provenance(s *S3, pos token.Pos) string {
	if !pos.IsValid() {
		return ""
	}
	fname := s.Fset.Position(pos).Filename
	best := ""
	var bestLen token.Pos = 1 << 40
	for _, m := range p.markers[fname] {
		if m.start <= pos && pos <= m.end && m.end-m.start < bestLen {
			best, bestLen = m.name, m.end-m.start
		}
	}
	return best
}

func (s *S3) pos(p token.Pos) string {
	if !p.IsValid() {
		return ""
	}
	ps := s.Fset.Position(p)
	rel, err := filepath.Rel(s.Root, ps.Filename)
	if err != nil {
		rel = ps.Filename
	}
	return fmt.Sprintf("<generated>/%s:%d", rel, ps.Line)
}

// Usable programs: generated, loaded, type-checked.
func (s *S3) Usable() []*Program {
	var out []*Program
	for _, p := range s.Programs {
		if p.GenExit == 0 && p.Pkg != nil && len(p.LoadErrs) == 0 {
			out = append(out, p)
		}
	}
	return out
}

// reportUnusable: programs that were expected to instantiate but could not be
// analysed are UNDECIDED obligations of the calling check (never silently skipped).
func (s *S3) reportUnusable(r *Report, rule string) {
	for _, p := range s.Programs {
		switch {
		case p.Expect == "error":
			continue
		case p.GenExit != 0 && p.Expect == "ok":
			r.Undecided(rule, p.Name+":not analysed", "", "the generator refused a corpus spec it accepted on the pinned tree: "+firstLines(p.GenStderr, 3))
		case p.GenExit == 0 && (p.Pkg == nil || len(p.LoadErrs) > 0) && p.Expect == "ok":
			r.Undecided(rule, p.Name+":not analysed", "", "generated package does not load/type-check (see C01): "+strings.Join(firstN(p.LoadErrs, 2), "; "))
		}
	}
}

func firstLines(s string, n int) string {
	ls := strings.Split(strings.TrimSpace(s), "\n")
	if len(ls) > n {
		ls = ls[len(ls)-n:]
	}
	return strings.Join(ls, " | ")
}

func firstN(ss []string, n int) []string {
	if len(ss) > n {
		return ss[:n]
	}
	return ss
}

// funcDecl finds a top-level function or method by receiver type name and name.
func (p *Program) funcDecl(recv, name string) *ast.FuncDecl {
	for _, f := range p.Pkg.Syntax {
		for _, d := range f.Decls {
			fd, ok := d.(*ast.FuncDecl)
			if !ok || fd.Name.Name != name {
				continue
			}
			if recv == "" && fd.Recv == nil {
				return fd
			}
			if recv != "" && fd.Recv != nil && recvTypeName(fd) == recv {
				return fd
			}
		}
	}
	return nil
}

func recvTypeName(fd *ast.FuncDecl) string {
	if fd.Recv == nil || len(fd.Recv.List) == 0 {
		return ""
	}
	t := fd.Recv.List[0].Type
	if s, ok := t.(*ast.StarExpr); ok {
		t = s.X
	}
	if ix, ok := t.(*ast.IndexExpr); ok {
		t = ix.X
	}
	if id, ok := t.(*ast.Ident); ok {
		return id.Name
	}
	return ""
}

func (s *S3) coverageSummary(r *Report) {
	var defs []string
	for d := range s.Defines {
		defs = append(defs, d)
	}
	sort.Strings(defs)
	r.Analysed["template_defines_instantiated"] = len(defs)
	if ti, err := LoadTemplates(filepath.Join(repoDir(), "generator")); err == nil && len(defs) > 0 {
		var missing []string
		for d := range ti.Defines {
			if !s.Defines[d] {
				missing = append(missing, d)
			}
		}
		sort.Strings(missing)
		r.Analysed["template_defines_not_instantiated"] = missing
	}
	var names []string
	nGenFail := 0
	for _, p := range s.Programs {
		names = append(names, p.Name)
		if p.GenExit != 0 {
			nGenFail++
		}
	}
	r.Analysed["programs"] = names
	r.Analysed["programs_generator_refused"] = nGenFail
	r.Programs = len(s.Usable())
}
