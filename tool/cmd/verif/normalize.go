package main

// normalize.go — idiom normalisation of the generated packages' syntax trees.
//
// The decompilers recognise statement shapes. Two spellings of the same code
// must not be told apart, so before any recogniser runs every function body
// of an instantiated package is brought into one canonical form:
//
//   N1  `if init; cond { … }`        →  `init` ; `if cond { … }`
//       (also `else if init; cond`   →  `else { init; if cond … }`)
//   N8  `for i := 0; i < len(X); i++ { B }`   →  `for i := range X { B }`   (B assigns neither i nor X)
//   N9  `switch { case A: S; case B: T; default: U }`  →  `if A { S } else if B { T } else { U }`
//       (no init, no fallthrough, no unlabelled break that would leave the switch)
//   N3  `x, ok := strings.CutPrefix(x, C)` ; `if !ok { T }`
//         →  `if !strings.HasPrefix(x, C) { T }` ; `x = x[len(C):]`
//
// A second equivalence is offered as a VIEW to the consumers that need it
// (normGuards, used by the JSON reader model):
//
//   N2  `v, ok := X` ; `if !ok { …return }` ; rest
//         →  `v, ok := X` ; `if ok { rest } else { …return }`
//
// go/types information stays valid: nodes are moved, never re-created, and
// the recognisers identify variables by object, not by scope. SSA is built
// before normalisation. Consumers that want the comma-ok guard as one
// statement use mergeCommaOk, which presents `v, ok := X ; if ok {…}` as
// `if v, ok := X; ok {…}` again (a view; the tree is not changed).

import (
	"go/ast"
	"go/constant"
	"go/token"
	"go/types"
	"strconv"
)

func normalizePackage(info *types.Info, files []*ast.File) {
	if len(files) > 0 {
		if pkg := pkgOfFiles(info, files); pkg != nil {
			normalizeResultStructs(info, pkg, files)
		}
	}
	for _, f := range files {
		for _, d := range f.Decls {
			if fd, ok := d.(*ast.FuncDecl); ok && fd.Body != nil {
				normBlock(info, fd.Body)
			}
		}
	}
}

func normBlock(info *types.Info, b *ast.BlockStmt) {
	if b == nil {
		return
	}
	b.List = normList(info, b.List)
}

func normList(info *types.Info, list []ast.Stmt) []ast.Stmt {
	var out []ast.Stmt
	for _, st := range list {
		out = append(out, normStmt(info, st)...)
	}
	return normCutPrefix(info, out)
}

// normCutPrefix (N3): `x, ok := strings.CutPrefix(x, C)` ; `if !ok { T }`  →
// `if !strings.HasPrefix(x, C) { T }` ; `x = x[len(C):]`   (C constant, ok not used elsewhere).
// The synthesised nodes get their go/types entries so that the recognisers can read them.
func normCutPrefix(info *types.Info, list []ast.Stmt) []ast.Stmt {
	for i := 0; i+1 < len(list); i++ {
		as, ok := list[i].(*ast.AssignStmt)
		if !ok || len(as.Lhs) != 2 || len(as.Rhs) != 1 {
			continue
		}
		call, ok := as.Rhs[0].(*ast.CallExpr)
		if !ok || len(call.Args) != 2 || calleeName(info, call) != "strings.CutPrefix" {
			continue
		}
		x := identObj(info, as.Lhs[0])
		okObj := identObj(info, as.Lhs[1])
		tv := info.Types[call.Args[1]]
		if x == nil || okObj == nil || identObj(info, call.Args[0]) != x || tv.Value == nil || tv.Value.Kind() != constant.String {
			continue
		}
		ifs, isIf := list[i+1].(*ast.IfStmt)
		if !isIf || ifs.Init != nil || ifs.Else != nil {
			continue
		}
		ue, isNot := ast.Unparen(ifs.Cond).(*ast.UnaryExpr)
		if !isNot || ue.Op != token.NOT || identObj(info, ue.X) != okObj {
			continue
		}
		// ok must not be used anywhere else in the list
		uses := 0
		for _, st := range list {
			ast.Inspect(st, func(n ast.Node) bool {
				if id, isId := n.(*ast.Ident); isId && info.Uses[id] == okObj {
					uses++
				}
				return true
			})
		}
		if uses != 1 {
			continue
		}
		sel, isSel := call.Fun.(*ast.SelectorExpr)
		if !isSel {
			continue
		}
		pkgName, _ := info.Uses[identOf(sel.X)].(*types.PkgName)
		if pkgName == nil {
			continue
		}
		hasPrefix, _ := pkgName.Imported().Scope().Lookup("HasPrefix").(*types.Func)
		if hasPrefix == nil {
			continue
		}
		hpIdent := &ast.Ident{NamePos: sel.Sel.NamePos, Name: "HasPrefix"}
		info.Uses[hpIdent] = hasPrefix
		hpSel := &ast.SelectorExpr{X: sel.X, Sel: hpIdent}
		info.Types[hpSel] = types.TypeAndValue{Type: hasPrefix.Type()}
		hpCall := &ast.CallExpr{Fun: hpSel, Lparen: call.Lparen, Args: []ast.Expr{call.Args[0], call.Args[1]}, Rparen: call.Rparen}
		info.Types[hpCall] = types.TypeAndValue{Type: types.Typ[types.Bool]}
		ifs.Cond = &ast.UnaryExpr{OpPos: ue.OpPos, Op: token.NOT, X: hpCall}
		info.Types[ifs.Cond] = types.TypeAndValue{Type: types.Typ[types.Bool]}
		n := len(constant.StringVal(tv.Value))
		lit := &ast.BasicLit{ValuePos: call.Args[1].Pos(), Kind: token.INT, Value: strconv.Itoa(n)}
		info.Types[lit] = types.TypeAndValue{Type: types.Typ[types.Int], Value: constant.MakeInt64(int64(n))}
		lhs, _ := as.Lhs[0].(*ast.Ident)
		xUse := &ast.Ident{NamePos: lhs.NamePos, Name: lhs.Name}
		info.Uses[xUse] = x
		sl := &ast.SliceExpr{X: call.Args[0], Lbrack: call.Lparen, Low: lit, Rbrack: call.Rparen}
		info.Types[sl] = types.TypeAndValue{Type: x.Type()}
		strip := &ast.AssignStmt{Lhs: []ast.Expr{xUse}, TokPos: as.TokPos, Tok: token.ASSIGN, Rhs: []ast.Expr{sl}}
		list = append(append(append([]ast.Stmt{}, list[:i]...), ifs, strip), list[i+2:]...)
	}
	return list
}

// normStmt returns the statement(s) that replace st in its list.
func normStmt(info *types.Info, st ast.Stmt) []ast.Stmt {
	switch s := st.(type) {
	case *ast.IfStmt:
		normBlock(info, s.Body)
		switch e := s.Else.(type) {
		case *ast.BlockStmt:
			normBlock(info, e)
		case *ast.IfStmt:
			repl := normStmt(info, e)
			if len(repl) == 1 {
				s.Else = repl[0]
			} else {
				s.Else = &ast.BlockStmt{Lbrace: e.Pos(), List: repl, Rbrace: e.End()}
			}
		}
		if s.Init != nil {
			init := s.Init
			s.Init = nil
			return []ast.Stmt{init, s}
		}
		return []ast.Stmt{s}
	case *ast.BlockStmt:
		normBlock(info, s)
	case *ast.ForStmt:
		normBlock(info, s.Body)
		if rs := indexLoopAsRange(info, s); rs != nil {
			return []ast.Stmt{rs}
		}
	case *ast.RangeStmt:
		normBlock(info, s.Body)
	case *ast.SwitchStmt:
		normBlock(info, s.Body)
		if ifs := taglessSwitchAsIf(s); ifs != nil {
			return []ast.Stmt{ifs}
		}
	case *ast.TypeSwitchStmt:
		normBlock(info, s.Body)
	case *ast.SelectStmt:
		normBlock(info, s.Body)
	case *ast.CaseClause:
		s.Body = normList(info, s.Body)
	case *ast.CommClause:
		s.Body = normList(info, s.Body)
	case *ast.LabeledStmt:
		repl := normStmt(info, s.Stmt)
		if len(repl) == 1 {
			s.Stmt = repl[0]
		}
	case *ast.ExprStmt, *ast.AssignStmt, *ast.ReturnStmt, *ast.DeferStmt, *ast.GoStmt, *ast.DeclStmt:
		// function literals inside expressions
		ast.Inspect(st, func(n ast.Node) bool {
			if fl, ok := n.(*ast.FuncLit); ok {
				normBlock(info, fl.Body)
				return false
			}
			return true
		})
	}
	return []ast.Stmt{st}
}

// normGuards returns the N2 view of a list (the tree is not changed).
func normGuards(info *types.Info, list []ast.Stmt) []ast.Stmt {
	if len(list) < 3 {
		return list
	}
	as, ok := list[0].(*ast.AssignStmt)
	if !ok || as.Tok != token.DEFINE || len(as.Lhs) != 2 || len(as.Rhs) != 1 {
		return list
	}
	okObj := identObj(info, as.Lhs[1])
	if okObj == nil {
		return list
	}
	ifs, isIf := list[1].(*ast.IfStmt)
	if !isIf || ifs.Init != nil || ifs.Else != nil || len(ifs.Body.List) == 0 {
		return list
	}
	ue, isNot := ast.Unparen(ifs.Cond).(*ast.UnaryExpr)
	if !isNot || ue.Op != token.NOT || identObj(info, ue.X) != okObj {
		return list
	}
	if _, isRet := ifs.Body.List[len(ifs.Body.List)-1].(*ast.ReturnStmt); !isRet {
		return list
	}
	rest := list[2:]
	thenB := &ast.BlockStmt{Lbrace: rest[0].Pos(), List: append([]ast.Stmt{}, rest...), Rbrace: rest[len(rest)-1].End()}
	n := &ast.IfStmt{If: ifs.If, Cond: ue.X, Body: thenB, Else: ifs.Body}
	return []ast.Stmt{as, n}
}

// mergeCommaOk: view of a list in which `v, ok := X` directly followed by
// `if ok {…} [else {…}]` appears as the single statement `if v, ok := X; ok {…}`.
func mergeCommaOk(info *types.Info, list []ast.Stmt) []ast.Stmt {
	var out []ast.Stmt
	for i := 0; i < len(list); i++ {
		if as, ok := list[i].(*ast.AssignStmt); ok && as.Tok == token.DEFINE && len(as.Lhs) == 2 && len(as.Rhs) == 1 && i+1 < len(list) {
			if ifs, ok := list[i+1].(*ast.IfStmt); ok && ifs.Init == nil {
				if o := identObj(info, as.Lhs[1]); o != nil && identObj(info, ifs.Cond) == o {
					out = append(out, &ast.IfStmt{If: ifs.If, Init: as, Cond: ifs.Cond, Body: ifs.Body, Else: ifs.Else})
					i++
					continue
				}
			}
		}
		out = append(out, list[i])
	}
	return out
}

func pkgOfFiles(info *types.Info, files []*ast.File) *types.Package {
	for _, f := range files {
		for _, d := range f.Decls {
			if fd, ok := d.(*ast.FuncDecl); ok {
				if o := info.Defs[fd.Name]; o != nil {
					return o.Pkg()
				}
			}
		}
	}
	return nil
}

// indexLoopAsRange (N8).
func indexLoopAsRange(info *types.Info, f *ast.ForStmt) *ast.RangeStmt {
	init, ok := f.Init.(*ast.AssignStmt)
	if !ok || init.Tok != token.DEFINE || len(init.Lhs) != 1 || len(init.Rhs) != 1 {
		return nil
	}
	iID, ok := init.Lhs[0].(*ast.Ident)
	if !ok {
		return nil
	}
	i := info.Defs[iID]
	if tv := info.Types[init.Rhs[0]]; i == nil || tv.Value == nil || tv.Value.String() != "0" {
		return nil
	}
	cond, ok := f.Cond.(*ast.BinaryExpr)
	if !ok || cond.Op != token.LSS || identObj(info, cond.X) != i {
		return nil
	}
	lc, ok := cond.Y.(*ast.CallExpr)
	if !ok || len(lc.Args) != 1 {
		return nil
	}
	if id, ok := lc.Fun.(*ast.Ident); !ok || id.Name != "len" {
		return nil
	}
	if _, isBuiltin := info.Uses[lc.Fun.(*ast.Ident)].(*types.Builtin); !isBuiltin {
		return nil
	}
	x := lc.Args[0]
	xo := identObj(info, x)
	if xo == nil {
		return nil // only plain variables: a field or call could change between iterations
	}
	if t := info.TypeOf(x); t == nil {
		return nil
	} else if _, isSlice := t.Underlying().(*types.Slice); !isSlice {
		return nil
	}
	post, ok := f.Post.(*ast.IncDecStmt)
	if !ok || post.Tok != token.INC || identObj(info, post.X) != i {
		return nil
	}
	bad := false
	ast.Inspect(f.Body, func(n ast.Node) bool {
		switch s := n.(type) {
		case *ast.AssignStmt:
			for _, l := range s.Lhs {
				if o := identObj(info, l); o != nil && (o == i || o == xo) {
					bad = true
				}
			}
		case *ast.IncDecStmt:
			if o := identObj(info, s.X); o != nil && (o == i || o == xo) {
				bad = true
			}
		case *ast.UnaryExpr:
			if s.Op == token.AND {
				if o := identObj(info, s.X); o != nil && (o == i || o == xo) {
					bad = true
				}
			}
		}
		return true
	})
	if bad {
		return nil
	}
	return &ast.RangeStmt{For: f.For, Key: iID, TokPos: init.TokPos, Tok: token.DEFINE, X: x, Body: f.Body}
}

// taglessSwitchAsIf (N9).
func taglessSwitchAsIf(sw *ast.SwitchStmt) ast.Stmt {
	if sw.Tag != nil || sw.Init != nil || len(sw.Body.List) == 0 {
		return nil
	}
	leaves := false
	for _, cc := range sw.Body.List {
		for _, st := range cc.(*ast.CaseClause).Body {
			ast.Inspect(st, func(n ast.Node) bool {
				switch x := n.(type) {
				case *ast.ForStmt, *ast.RangeStmt, *ast.SwitchStmt, *ast.TypeSwitchStmt, *ast.SelectStmt, *ast.FuncLit:
					return false // a break in there leaves that construct, not this switch
				case *ast.BranchStmt:
					if x.Tok == token.FALLTHROUGH || (x.Tok == token.BREAK && x.Label == nil) {
						leaves = true
					}
				}
				return true
			})
		}
	}
	if leaves {
		return nil
	}
	var clauses []*ast.CaseClause
	var deflt *ast.CaseClause
	for _, cc := range sw.Body.List {
		cl := cc.(*ast.CaseClause)
		if cl.List == nil {
			deflt = cl
			continue
		}
		if len(cl.List) != 1 {
			return nil
		}
		clauses = append(clauses, cl)
	}
	if len(clauses) == 0 {
		return nil
	}
	var tail ast.Stmt
	if deflt != nil {
		tail = &ast.BlockStmt{Lbrace: deflt.Colon, List: deflt.Body, Rbrace: deflt.End()}
	}
	for k := len(clauses) - 1; k >= 0; k-- {
		cl := clauses[k]
		tail = &ast.IfStmt{If: cl.Case, Cond: cl.List[0], Body: &ast.BlockStmt{Lbrace: cl.Colon, List: cl.Body, Rbrace: cl.End()}, Else: tail}
	}
	return tail
}
