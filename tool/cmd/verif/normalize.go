package main

// normalize.go — idiom normalisation of the generated packages' syntax trees.
//
// The decompilers recognise statement shapes. Two spellings of the same code
// must not be told apart, so before any recogniser runs every function body
// of an instantiated package is brought into one canonical form:
//
//   N1  `if init; cond { … }`        →  `init` ; `if cond { … }`
//       (also `else if init; cond`   →  `else { init; if cond … }`)
//
// A second equivalence is offered as a VIEW to the consumers that need it
// (normGuards, used by the JSON reader model):
//
//   N2  `v, ok := X` ; `if !ok { …return }` ; rest
//         →  `v, ok := X` ; `if ok { rest } else { …return }`
//
// go/types information stays valid: nodes are moved, never re-created, and
// the recognisers identify variables by object, not by scope. SSA is built
// before normalisation. Consumers that want the comma-ok guard as one
// statement use mergeCommaOk, which presents `v, ok := X ; if ok {…}` as
// `if v, ok := X; ok {…}` again (a view; the tree is not changed).

import (
	"go/ast"
	"go/token"
	"go/types"
)

func normalizePackage(info *types.Info, files []*ast.File) {
	for _, f := range files {
		for _, d := range f.Decls {
			if fd, ok := d.(*ast.FuncDecl); ok && fd.Body != nil {
				normBlock(info, fd.Body)
			}
		}
	}
}

func normBlock(info *types.Info, b *ast.BlockStmt) {
	if b == nil {
		return
	}
	b.List = normList(info, b.List)
}

func normList(info *types.Info, list []ast.Stmt) []ast.Stmt {
	var out []ast.Stmt
	for _, st := range list {
		out = append(out, normStmt(info, st)...)
	}
	return out
}

// normStmt returns the statement(s) that replace st in its list.
func normStmt(info *types.Info, st ast.Stmt) []ast.Stmt {
	switch s := st.(type) {
	case *ast.IfStmt:
		normBlock(info, s.Body)
		switch e := s.Else.(type) {
		case *ast.BlockStmt:
			normBlock(info, e)
		case *ast.IfStmt:
			repl := normStmt(info, e)
			if len(repl) == 1 {
				s.Else = repl[0]
			} else {
				s.Else = &ast.BlockStmt{Lbrace: e.Pos(), List: repl, Rbrace: e.End()}
			}
		}
		if s.Init != nil {
			init := s.Init
			s.Init = nil
			return []ast.Stmt{init, s}
		}
		return []ast.Stmt{s}
	case *ast.BlockStmt:
		normBlock(info, s)
	case *ast.ForStmt:
		normBlock(info, s.Body)
	case *ast.RangeStmt:
		normBlock(info, s.Body)
	case *ast.SwitchStmt:
		normBlock(info, s.Body)
	case *ast.TypeSwitchStmt:
		normBlock(info, s.Body)
	case *ast.SelectStmt:
		normBlock(info, s.Body)
	case *ast.CaseClause:
		s.Body = normList(info, s.Body)
	case *ast.CommClause:
		s.Body = normList(info, s.Body)
	case *ast.LabeledStmt:
		repl := normStmt(info, s.Stmt)
		if len(repl) == 1 {
			s.Stmt = repl[0]
		}
	case *ast.ExprStmt, *ast.AssignStmt, *ast.ReturnStmt, *ast.DeferStmt, *ast.GoStmt, *ast.DeclStmt:
		// function literals inside expressions
		ast.Inspect(st, func(n ast.Node) bool {
			if fl, ok := n.(*ast.FuncLit); ok {
				normBlock(info, fl.Body)
				return false
			}
			return true
		})
	}
	return []ast.Stmt{st}
}

// normGuards returns the N2 view of a list (the tree is not changed).
func normGuards(info *types.Info, list []ast.Stmt) []ast.Stmt {
	if len(list) < 3 {
		return list
	}
	as, ok := list[0].(*ast.AssignStmt)
	if !ok || as.Tok != token.DEFINE || len(as.Lhs) != 2 || len(as.Rhs) != 1 {
		return list
	}
	okObj := identObj(info, as.Lhs[1])
	if okObj == nil {
		return list
	}
	ifs, isIf := list[1].(*ast.IfStmt)
	if !isIf || ifs.Init != nil || ifs.Else != nil || len(ifs.Body.List) == 0 {
		return list
	}
	ue, isNot := ast.Unparen(ifs.Cond).(*ast.UnaryExpr)
	if !isNot || ue.Op != token.NOT || identObj(info, ue.X) != okObj {
		return list
	}
	if _, isRet := ifs.Body.List[len(ifs.Body.List)-1].(*ast.ReturnStmt); !isRet {
		return list
	}
	rest := list[2:]
	thenB := &ast.BlockStmt{Lbrace: rest[0].Pos(), List: append([]ast.Stmt{}, rest...), Rbrace: rest[len(rest)-1].End()}
	n := &ast.IfStmt{If: ifs.If, Cond: ue.X, Body: thenB, Else: ifs.Body}
	return []ast.Stmt{as, n}
}

// mergeCommaOk: view of a list in which `v, ok := X` directly followed by
// `if ok {…} [else {…}]` appears as the single statement `if v, ok := X; ok {…}`.
func mergeCommaOk(info *types.Info, list []ast.Stmt) []ast.Stmt {
	var out []ast.Stmt
	for i := 0; i < len(list); i++ {
		if as, ok := list[i].(*ast.AssignStmt); ok && as.Tok == token.DEFINE && len(as.Lhs) == 2 && len(as.Rhs) == 1 && i+1 < len(list) {
			if ifs, ok := list[i+1].(*ast.IfStmt); ok && ifs.Init == nil {
				if o := identObj(info, as.Lhs[1]); o != nil && identObj(info, ifs.Cond) == o {
					out = append(out, &ast.IfStmt{If: ifs.If, Init: as, Cond: ifs.Cond, Body: ifs.Body, Else: ifs.Else})
					i++
					continue
				}
			}
		}
		out = append(out, list[i])
	}
	return out
}
