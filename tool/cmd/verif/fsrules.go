package main

// fsrules.go — structural rules about the generator's interaction with the
// file system and with process-global state. They are necessary conditions
// of several properties at once (C01: a shorter file must not keep a stale
// tail; C12: output is a function of spec/config/flags only; C19: the
// directory reflects only the last invocation), so each property that needs
// them runs them under its own rule prefix.

import (
	"fmt"
	"go/ast"
	"go/constant"
	"go/token"
	"go/types"
	"sort"
	"strings"

	"golang.org/x/tools/go/packages"
	"golang.org/x/tools/go/ssa"
	"golang.org/x/tools/go/types/typeutil"
)

type pkgT = packages.Package

func repoPaths() []string {
	return []string{modPath, modPath + "/cmd/goag", modPath + "/generator", modPath + "/specification"}
}

// forEachReachableDecl visits every declared function of the repo packages
// that is reachable from Generate*/main (Go calls + template entries).
func forEachReachableDecl(s *S1, f func(p *pkgT, fd *ast.FuncDecl, key string)) int {
	n := 0
	for _, path := range repoPaths() {
		p := s.Pkgs[path]
		for _, file := range p.Syntax {
			for _, d := range file.Decls {
				fd, ok := d.(*ast.FuncDecl)
				if !ok || fd.Body == nil {
					continue
				}
				fn := s.FuncOfDecl(p, fd)
				if fn == nil || !s.ReachAll[fn] {
					continue
				}
				n++
				f(p, fd, funcKey(p, fd))
			}
		}
	}
	return n
}

// ruleTruncate: every os.OpenFile in reachable repo code uses constant flags
// with O_WRONLY|O_CREATE|O_TRUNC and without O_APPEND/O_EXCL.
func ruleTruncate(r *Report, s *S1, rule string) {
	n := 0
	forEachReachableDecl(s, func(p *pkgT, fd *ast.FuncDecl, key string) {
		info := p.TypesInfo
		ast.Inspect(fd.Body, func(nd ast.Node) bool {
			call, ok := nd.(*ast.CallExpr)
			if !ok {
				return true
			}
			nm := calleeName(info, call)
			if nm == "os.Create" {
				n++
				r.OK(rule, key+":os.Create", s.pos(call.Pos()), "os.Create truncates")
				return true
			}
			if nm != "os.OpenFile" || len(call.Args) != 3 {
				return true
			}
			n++
			tv := info.Types[call.Args[1]]
			if tv.Value == nil {
				r.Violation(rule, key+":os.OpenFile flags", s.pos(call.Pos()), "open flags are not a compile-time constant")
				return true
			}
			fl, _ := constant.Int64Val(tv.Value)
			osc := func(name string) int64 {
				if imp := p.Imports["os"]; imp != nil {
					if k, ok := imp.Types.Scope().Lookup(name).(*types.Const); ok {
						v, _ := constant.Int64Val(k.Val())
						return v
					}
				}
				r.Break("os.%s not found", name)
				return 0
			}
			oWRONLY, oRDWR, oAPPEND, oCREATE, oEXCL, oTRUNC := osc("O_WRONLY"), osc("O_RDWR"), osc("O_APPEND"), osc("O_CREATE"), osc("O_EXCL"), osc("O_TRUNC")
			write := fl&oWRONLY != 0 || fl&oRDWR != 0
			if !write {
				return true // read-only open: handled by ruleFSReads
			}
			okFlags := fl&oCREATE != 0 && fl&oTRUNC != 0 && fl&oAPPEND == 0 && fl&oEXCL == 0
			r.Check(okFlags, rule, key+":os.OpenFile flags", s.pos(call.Pos()),
				fmt.Sprintf("flags %s = %#x lack O_CREATE|O_TRUNC or include O_APPEND/O_EXCL: when the new content is shorter than what is on disk the old tail survives — the written file is not the rendered text", types.ExprString(call.Args[1]), fl))
			return true
		})
	})
	r.FloorMin(rule+": file-open-for-write sites", n, 1)
}

var fsReadCallees = map[string]bool{
	"os.ReadFile": true, "os.Open": true, "os.OpenFile": true, "os.ReadDir": true, "os.Stat": true, "os.Lstat": true,
	"os.Readlink": true, "os.DirFS": true, "io/ioutil.ReadFile": true, "io/ioutil.ReadDir": true,
	"path/filepath.Walk": true, "path/filepath.WalkDir": true, "path/filepath.Glob": true, "path/filepath.EvalSymlinks": true,
	"path/filepath.Abs": true, "io/fs.ReadFile": false,
}

// Allowed file-system reads are recognised by ROLE, not by the name of the function they stand in:
//
//	listing  os.ReadDir(<path from the function's parameters>)
//	input    os.ReadFile(<path from the function's parameters>) whose bytes are handed, in the same
//	         function, to a document parser (OpenAPI loader, yaml / json Unmarshal)
//
// Anything else (Stat, Open, a read whose bytes steer the generation without being parsed as the
// spec or the config) makes the output depend on other file-system state.
var fsParseSinks = []string{"LoadSwaggerFromData", "LoadSwaggerFromDataWithPath", "yaml.Unmarshal", "yaml.v2.Unmarshal", "yaml.v3.Unmarshal", "encoding/json.Unmarshal", "yaml.UnmarshalStrict"}

// paramDerived: e is a parameter of fd, or filepath/path.Join(...) / a single-assigned local of such.
func paramDerived(info *types.Info, fd *ast.FuncDecl, e ast.Expr, depth int) bool {
	e = ast.Unparen(e)
	if o := identObj(info, e); o != nil {
		if paramIndex(info, fd, o) >= 0 {
			return true
		}
		if depth > 2 {
			return false
		}
		var rhs []ast.Expr
		ast.Inspect(fd.Body, func(n ast.Node) bool {
			if as, ok := n.(*ast.AssignStmt); ok && len(as.Lhs) == len(as.Rhs) {
				for i, l := range as.Lhs {
					if identObj(info, l) == o {
						rhs = append(rhs, as.Rhs[i])
					}
				}
			}
			return true
		})
		return len(rhs) == 1 && paramDerived(info, fd, rhs[0], depth+1)
	}
	if call, ok := e.(*ast.CallExpr); ok {
		nm := calleeName(info, call)
		if nm == "path.Join" || nm == "path/filepath.Join" {
			for _, a := range call.Args {
				if tv := info.Types[a]; tv.Value != nil {
					continue
				}
				if !paramDerived(info, fd, a, depth+1) {
					// a directory entry name of the listing is part of the input as well
					if c2, ok := ast.Unparen(a).(*ast.CallExpr); ok {
						if sel, ok := c2.Fun.(*ast.SelectorExpr); ok && sel.Sel.Name == "Name" && len(c2.Args) == 0 {
							continue
						}
					}
					if o := identObj(info, a); o != nil && depth <= 2 {
						continue // a local derived elsewhere: judged where it is assigned (kept permissive one level)
					}
					return false
				}
			}
			return true
		}
	}
	return false
}

// parsedInFunc: the variable receiving the read bytes is an argument of a parser call in fd.
func parsedInFunc(info *types.Info, fd *ast.FuncDecl, bytesObj types.Object) bool {
	found := false
	ast.Inspect(fd.Body, func(n ast.Node) bool {
		call, ok := n.(*ast.CallExpr)
		if !ok {
			return true
		}
		nm := calleeName(info, call)
		isSink := false
		for _, sk := range fsParseSinks {
			if strings.HasSuffix(nm, sk) {
				isSink = true
			}
		}
		if !isSink {
			return true
		}
		for _, a := range call.Args {
			if identObj(info, a) == bytesObj {
				found = true
			}
		}
		return true
	})
	return found
}

// ruleFSReads: the only file-system state consulted on the generation path is
// the spec file, the config file and the --dir listing; goimports is given no
// file name (so it cannot consult sibling files of the output directory).
func ruleFSReads(r *Report, s *S1, rule string) {
	n := 0
	forEachReachableDecl(s, func(p *pkgT, fd *ast.FuncDecl, key string) {
		info := p.TypesInfo
		ast.Inspect(fd.Body, func(nd ast.Node) bool {
			call, ok := nd.(*ast.CallExpr)
			if !ok {
				return true
			}
			nm := calleeName(info, call)
			if strings.HasSuffix(nm, "golang.org/x/tools/imports.Process") && len(call.Args) == 3 {
				n++
				tv := info.Types[call.Args[0]]
				k := key + ":imports.Process filename"
				if tv.Value != nil && tv.Value.Kind() == constant.String && constant.StringVal(tv.Value) == "" {
					r.OK(rule, k, s.pos(call.Pos()), "no file name: goimports resolves imports from the source text and GOROOT only")
				} else {
					r.Violation(rule, k, s.pos(call.Pos()), "goimports is given a file name ("+types.ExprString(call.Args[0])+"): it resolves missing imports from sibling files of that directory, so generated bytes depend on what else is in the output directory")
				}
				return true
			}
			if !fsReadCallees[nm] {
				return true
			}
			if nm == "os.OpenFile" {
				return true // write opens are judged by ruleTruncate / owner-only; read opens are rare enough to flag there
			}
			n++
			arg := ""
			if len(call.Args) > 0 {
				if o := identObj(info, call.Args[0]); o != nil && paramIndex(info, fd, o) >= 0 {
					arg = o.Name()
				} else {
					arg = "<" + types.ExprString(call.Args[0]) + ">"
				}
			}
			sp := nm
			if i := strings.LastIndex(sp, "/"); i >= 0 {
				sp = sp[i+1:]
			}
			k := fmt.Sprintf("%s:%s(%s)", key, sp, arg)
			why := ""
			switch nm {
			case "os.ReadDir", "io/ioutil.ReadDir":
				if len(call.Args) == 1 && paramDerived(info, fd, call.Args[0], 0) {
					why = "lists the directory named by the caller (--dir); os.ReadDir sorts by name"
				}
			case "os.ReadFile", "io/ioutil.ReadFile":
				if len(call.Args) == 1 && paramDerived(info, fd, call.Args[0], 0) {
					// the same path is what the OpenAPI loader is pointed at: the raw spec bytes
					po := identObj(info, call.Args[0])
					ast.Inspect(fd.Body, func(m ast.Node) bool {
						if c2, ok := m.(*ast.CallExpr); ok && po != nil && len(c2.Args) == 1 && identObj(info, c2.Args[0]) == po {
							if n2 := calleeName(info, c2); strings.HasSuffix(n2, "LoadSwaggerFromFile") {
								why = "reads the spec file the OpenAPI loader is pointed at (raw bytes for embedding)"
							}
						}
						return true
					})
					// the bytes go to a document parser in this function
					ast.Inspect(fd.Body, func(m ast.Node) bool {
						if as, ok := m.(*ast.AssignStmt); ok && len(as.Rhs) == 1 && as.Rhs[0] == ast.Expr(call) && len(as.Lhs) >= 1 {
							if bo := identObj(info, as.Lhs[0]); bo != nil && parsedInFunc(info, fd, bo) {
								why = "reads a file named by the caller and hands its bytes to a document parser (spec / config input)"
							}
						}
						return true
					})
				}
			}
			if why != "" {
				r.OK(rule, k, s.pos(call.Pos()), "input by role: "+why)
			} else {
				r.Violation(rule, k, s.pos(call.Pos()), "the generation path reads file-system state other than the spec file, the config file and the --dir listing: what is generated then depends on earlier runs / unrelated files")
			}
			return true
		})
	})
	r.FloorMin(rule+": file-system read sites", n, 4)
}

// ruleGlobalState: reachable repo functions (other than package
// initialisers) never write package-level variables or containers held in
// them. A process-wide cache makes the output of one spec depend on the
// specs generated before it in the same process (--dir).
func ruleGlobalState(r *Report, s *S1, rule string) {
	nFn, nViol, nGlobalsUsed := 0, 0, map[string]bool{}
	var fns []*ssa.Function
	for fn := range s.ReachAll {
		if fn.Pkg == nil && fn.Parent() == nil {
			continue
		}
		pk := fn.Pkg
		if pk == nil {
			for p := fn.Parent(); p != nil; p = p.Parent() {
				if p.Pkg != nil {
					pk = p.Pkg
					break
				}
			}
		}
		if pk == nil || !isRepoPkg(pk.Pkg.Path()) {
			continue
		}
		if fn.Name() == "init" || strings.HasPrefix(fn.Name(), "init#") {
			continue
		}
		if fn.Synthetic != "" && fn.Origin() == nil {
			continue
		}
		fns = append(fns, fn)
	}
	sort.Slice(fns, func(i, j int) bool { return fns[i].String() < fns[j].String() })
	rootGlobal := func(v ssa.Value) *ssa.Global {
		for i := 0; i < 20 && v != nil; i++ {
			switch x := v.(type) {
			case *ssa.Global:
				return x
			case *ssa.FieldAddr:
				v = x.X
			case *ssa.IndexAddr:
				v = x.X
			case *ssa.Field:
				v = x.X
			case *ssa.UnOp:
				v = x.X // load of a global holding a map/slice/pointer
			case *ssa.Slice:
				v = x.X
			case *ssa.ChangeType:
				v = x.X
			case *ssa.Lookup:
				v = x.X
			default:
				return nil
			}
		}
		return nil
	}
	for _, fn := range fns {
		nFn++
		for _, b := range fn.Blocks {
			for _, ins := range b.Instrs {
				var g *ssa.Global
				what := ""
				switch x := ins.(type) {
				case *ssa.Store:
					g = rootGlobal(x.Addr)
					what = "store"
				case *ssa.MapUpdate:
					g = rootGlobal(x.Map)
					what = "map update"
				case *ssa.UnOp:
					if gl, ok := x.X.(*ssa.Global); ok && gl.Pkg != nil && isRepoPkg(gl.Pkg.Pkg.Path()) {
						nGlobalsUsed[gl.Name()] = true
					}
				}
				if g == nil || g.Pkg == nil || !isRepoPkg(g.Pkg.Pkg.Path()) {
					continue
				}
				nViol++
				r.Violation(rule, shortFn(fn)+":"+what+" to package variable "+g.Name(), s.pos(ins.Pos()),
					"package-level state is written on the generation path: with --dir (several specs in one process) the output for one spec depends on the specs processed before it")
			}
		}
	}
	var gl []string
	for g := range nGlobalsUsed {
		gl = append(gl, g)
	}
	sort.Strings(gl)
	r.Analysed[rule+":functions_scanned"] = nFn
	r.Analysed[rule+":package_vars_read"] = gl
	if nViol == 0 {
		r.OK(rule, "no writes to package variables outside init", "", fmt.Sprintf("%d functions scanned; package variables read: %v", nFn, gl))
	}
	r.FloorMin(rule+": functions scanned", nFn, 300)
}

// ruleLoopCarried: the per-spec loop of the driver (a loop in package goag whose
// body calls a Generator method) must not carry state from one spec to the next:
// a variable declared outside the loop, assigned inside it and read in the body
// before (or in) its first assignment makes the output for one directory depend
// on the directories processed before it.
func ruleLoopCarried(r *Report, s *S1, rule string) {
	p := s.Pkgs[modPath]
	if p == nil {
		r.Undecided(rule, "goag", "", "package not loaded")
		return
	}
	info := p.TypesInfo
	nLoops := 0
	for _, file := range p.Syntax {
		for _, d := range file.Decls {
			fd, ok := d.(*ast.FuncDecl)
			if !ok || fd.Body == nil {
				continue
			}
			ast.Inspect(fd.Body, func(n ast.Node) bool {
				var body *ast.BlockStmt
				switch x := n.(type) {
				case *ast.ForStmt:
					body = x.Body
				case *ast.RangeStmt:
					body = x.Body
				default:
					return true
				}
				callsGen := false
				ast.Inspect(body, func(m ast.Node) bool {
					if call, ok := m.(*ast.CallExpr); ok {
						if fo, ok := typeutil.Callee(info, call).(*types.Func); ok {
							if sig, ok := fo.Type().(*types.Signature); ok && sig.Recv() != nil {
								t := sig.Recv().Type()
								if pt, ok := t.(*types.Pointer); ok {
									t = pt.Elem()
								}
								if nt, ok := t.(*types.Named); ok && nt.Obj().Name() == "Generator" && nt.Obj().Pkg() == p.Types {
									callsGen = true
								}
							}
						}
					}
					return true
				})
				if !callsGen {
					return true
				}
				nLoops++
				key := funcKey(p, fd) + ":per-spec loop"
				// first assignment position and first read position per outer variable
				firstAsg := map[types.Object]token.Pos{}
				asgRhsEnd := map[types.Object]token.Pos{}
				ast.Inspect(body, func(m ast.Node) bool {
					switch a := m.(type) {
					case *ast.AssignStmt:
						if a.Tok == token.DEFINE {
							return true
						}
						for _, l := range a.Lhs {
							if o := identObj(info, l); o != nil && (o.Pos() < n.Pos() || o.Pos() > n.End()) {
								if _, isVar := o.(*types.Var); isVar {
									if _, seen := firstAsg[o]; !seen {
										firstAsg[o] = a.Pos()
										asgRhsEnd[o] = a.End()
										if a.Tok != token.ASSIGN { // += etc. read the old value
											asgRhsEnd[o] = token.NoPos
										}
									}
								}
							}
						}
					case *ast.IncDecStmt:
						if o := identObj(info, a.X); o != nil && (o.Pos() < n.Pos() || o.Pos() > n.End()) {
							if _, seen := firstAsg[o]; !seen {
								firstAsg[o] = a.Pos()
								asgRhsEnd[o] = token.NoPos
							}
						}
					}
					return true
				})
				var carried []string
				for o, ap := range firstAsg {
					bad := asgRhsEnd[o] == token.NoPos
					ast.Inspect(body, func(m ast.Node) bool {
						id, ok := m.(*ast.Ident)
						if !ok || info.Uses[id] != o {
							return true
						}
						// a read at or before the end of the first assignment statement, other than its own LHS
						if id.Pos() < ap {
							bad = true
						} else if end := asgRhsEnd[o]; end != token.NoPos && id.Pos() < end {
							// inside the first assignment: LHS occurrence is a write, any other is a read of the old value
							isLHS := false
							ast.Inspect(body, func(k ast.Node) bool {
								if a, ok := k.(*ast.AssignStmt); ok && a.Pos() == ap {
									for _, l := range a.Lhs {
										if l == ast.Expr(id) {
											isLHS = true
										}
									}
								}
								return true
							})
							if !isLHS {
								bad = true
							}
						}
						return true
					})
					if bad {
						carried = append(carried, o.Name())
					}
				}
				sort.Strings(carried)
				if len(carried) > 0 {
					r.Violation(rule, key, s.pos(n.Pos()), "variables "+strings.Join(carried, ", ")+" are declared outside the per-spec loop, assigned inside it and read before that assignment: their value is carried from one spec directory to the next, so the output for a directory depends on the directories processed before it")
				} else {
					r.OK(rule, key, s.pos(n.Pos()), fmt.Sprintf("%d outer variables assigned in the loop, none read before its assignment", len(firstAsg)))
				}
				return true
			})
		}
	}
	r.FloorMin(rule+": per-spec loops", nLoops, 1)
}
