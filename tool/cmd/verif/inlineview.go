package main

// inlineview.go — demand-driven expansion of small helpers of a generated
// package. A refactoring that extracts an expression, a tail or a statement
// into a new emitted helper must not change what a recogniser sees; the
// recognisers therefore ask for an expanded VIEW where the shape they expect
// is hidden behind a call:
//
//	expandExprCall   f(a…) where f's body is `return E` (optionally preceded by guard
//	                 clauses `if G { return <const bool> }` for bool results)  →  E[a/p]
//	expandTailCall   `return f(a…)` as the last statement of a block           →  body of f [a/p]
//	expandVoidCall   `f(a…)` as a statement, f has no result and no return     →  body of f [a/p]
//
// f is a function, method or local closure of the generated package itself,
// unexported, not recursive. The tree of the package is never changed: the
// expansion is a deep copy with the parameters substituted by the argument
// expressions, and every copied node receives the go/types entries of its
// original. Arguments must be free of side effects (identifiers, selectors,
// constants, composite literals of those, conversions) so that substituting
// them for several uses of a parameter is exact.

import (
	"go/ast"
	"go/token"
	"go/types"
	"reflect"
)

type inlineCtx struct {
	info *types.Info
	pkg  *types.Package
	// declarations of the package by function object
	decls map[*types.Func]*ast.FuncDecl
	// local closures: variable object -> literal (single assignment)
	lits map[types.Object]*ast.FuncLit
}

func newInlineCtx(info *types.Info, pkg *types.Package, files []*ast.File) *inlineCtx {
	ic := &inlineCtx{info: info, pkg: pkg, decls: map[*types.Func]*ast.FuncDecl{}, lits: map[types.Object]*ast.FuncLit{}}
	assigned := map[types.Object]int{}
	for _, f := range files {
		for _, d := range f.Decls {
			if fd, ok := d.(*ast.FuncDecl); ok && fd.Body != nil {
				if fo, ok := info.Defs[fd.Name].(*types.Func); ok {
					ic.decls[fo] = fd
				}
			}
		}
		ast.Inspect(f, func(n ast.Node) bool {
			as, ok := n.(*ast.AssignStmt)
			if !ok {
				return true
			}
			for i, l := range as.Lhs {
				o := identObj(info, l)
				if o == nil {
					continue
				}
				assigned[o]++
				if len(as.Lhs) == len(as.Rhs) {
					if fl, ok := ast.Unparen(as.Rhs[i]).(*ast.FuncLit); ok {
						ic.lits[o] = fl
					}
				}
			}
			return true
		})
	}
	for o := range ic.lits {
		if assigned[o] != 1 {
			delete(ic.lits, o)
		}
	}
	return ic
}

// callee resolves the helper behind a call: its type, body and receiver (for methods).
func (ic *inlineCtx) callee(call *ast.CallExpr) (ftype *ast.FuncType, body *ast.BlockStmt, recvName *ast.Ident, recvArg ast.Expr, ok bool) {
	switch f := ast.Unparen(call.Fun).(type) {
	case *ast.Ident:
		o := ic.info.Uses[f]
		if fo, isFn := o.(*types.Func); isFn {
			fd := ic.decls[fo]
			if fd == nil || fo.Exported() || fo.Pkg() != ic.pkg {
				return
			}
			return fd.Type, fd.Body, nil, nil, true
		}
		if fl := ic.lits[o]; fl != nil {
			return fl.Type, fl.Body, nil, nil, true
		}
	case *ast.SelectorExpr:
		sel := ic.info.Selections[f]
		if sel == nil || sel.Kind() != types.MethodVal {
			return
		}
		fo, _ := sel.Obj().(*types.Func)
		fd := ic.decls[fo]
		if fd == nil || fo.Exported() || fo.Pkg() != ic.pkg || fd.Recv == nil || len(fd.Recv.List) != 1 {
			return
		}
		if len(fd.Recv.List[0].Names) == 1 {
			recvName = fd.Recv.List[0].Names[0]
		}
		return fd.Type, fd.Body, recvName, f.X, true
	}
	return
}

// pureArg: substituting the expression for several uses of a parameter is exact.
func (ic *inlineCtx) pureArg(e ast.Expr) bool {
	switch x := ast.Unparen(e).(type) {
	case *ast.Ident, *ast.BasicLit:
		return true
	case *ast.SelectorExpr:
		return ic.pureArg(x.X)
	case *ast.CompositeLit:
		for _, el := range x.Elts {
			if kv, ok := el.(*ast.KeyValueExpr); ok {
				el = kv.Value
			}
			if !ic.pureArg(el) {
				return false
			}
		}
		return true
	case *ast.CallExpr:
		if tv, ok := ic.info.Types[x.Fun]; ok && tv.IsType() && len(x.Args) == 1 {
			return ic.pureArg(x.Args[0])
		}
	case *ast.UnaryExpr:
		if x.Op == token.AND || x.Op == token.NOT || x.Op == token.SUB {
			return ic.pureArg(x.X)
		}
	case *ast.StarExpr:
		return ic.pureArg(x.X)
	}
	if tv, ok := ic.info.Types[e]; ok && tv.Value != nil {
		return true
	}
	return false
}

// bind builds the substitution parameter object -> argument expression.
func (ic *inlineCtx) bind(ftype *ast.FuncType, recvName *ast.Ident, recvArg ast.Expr, call *ast.CallExpr, body ast.Node) (map[types.Object]ast.Expr, bool) {
	sub := map[types.Object]ast.Expr{}
	// an argument with possible side effects may replace a parameter that the body reads exactly once,
	// outside any loop or closure (it is then evaluated once, as at the call)
	usedOnce := func(o types.Object) bool {
		n, nested := 0, false
		var walk func(x ast.Node, inLoop bool)
		walk = func(x ast.Node, inLoop bool) {
			ast.Inspect(x, func(y ast.Node) bool {
				switch z := y.(type) {
				case *ast.ForStmt:
					if z != x {
						walk(z.Body, true)
						return false
					}
				case *ast.RangeStmt:
					if z != x {
						walk(z.Body, true)
						return false
					}
				case *ast.FuncLit:
					walk(z.Body, true)
					return false
				case *ast.Ident:
					if ic.info.Uses[z] == o {
						n++
						if inLoop {
							nested = true
						}
					}
				}
				return true
			})
		}
		if body != nil {
			walk(body, false)
		}
		return n <= 1 && !nested
	}
	okArg := func(a ast.Expr, o types.Object) bool {
		return ic.pureArg(a) || (o != nil && body != nil && usedOnce(o))
	}
	if recvName != nil && recvArg != nil {
		if !ic.pureArg(recvArg) {
			return nil, false
		}
		if o := ic.info.Defs[recvName]; o != nil {
			sub[o] = recvArg
		}
	}
	i := 0
	for _, f := range ftype.Params.List {
		if ell, variadic := f.Type.(*ast.Ellipsis); variadic {
			if len(f.Names) != 1 {
				return nil, false
			}
			if !call.Ellipsis.IsValid() {
				// f(a, b, c) binds the variadic parameter to the fresh slice []T{a, b, c}
				var elts []ast.Expr
				o := ic.info.Defs[f.Names[0]]
				if o == nil {
					return nil, false
				}
				for _, a := range call.Args[i:] {
					if !okArg(a, o) {
						return nil, false
					}
					elts = append(elts, a)
				}
				at := &ast.ArrayType{Elt: ell.Elt}
				ic.info.Types[at] = types.TypeAndValue{Type: o.Type()}
				cl := &ast.CompositeLit{Type: at, Lbrace: call.Lparen, Elts: elts, Rbrace: call.Rparen}
				ic.info.Types[cl] = types.TypeAndValue{Type: o.Type()}
				sub[o] = cl
				return sub, true
			}
			if i != len(call.Args)-1 {
				return nil, false
			}
		}
		if len(f.Names) == 0 {
			i++
			continue
		}
		for _, nm := range f.Names {
			if i >= len(call.Args) || !okArg(call.Args[i], ic.info.Defs[nm]) {
				return nil, false
			}
			if o := ic.info.Defs[nm]; o != nil {
				sub[o] = call.Args[i]
			}
			i++
		}
	}
	if i != len(call.Args) {
		return nil, false
	}
	return sub, true
}

// assignsParam: the body assigns to (or takes the address of) one of the substituted parameters.
func (ic *inlineCtx) assignsParam(body ast.Node, sub map[types.Object]ast.Expr) bool {
	bad := false
	ast.Inspect(body, func(n ast.Node) bool {
		switch x := n.(type) {
		case *ast.AssignStmt:
			for _, l := range x.Lhs {
				if o := identObj(ic.info, l); o != nil {
					if _, ok := sub[o]; ok {
						bad = true
					}
				}
			}
		case *ast.IncDecStmt:
			if o := identObj(ic.info, x.X); o != nil {
				if _, ok := sub[o]; ok {
					bad = true
				}
			}
		case *ast.UnaryExpr:
			if x.Op == token.AND {
				if o := identObj(ic.info, x.X); o != nil {
					if _, ok := sub[o]; ok {
						bad = true
					}
				}
			}
		}
		return true
	})
	return bad
}

func (ic *inlineCtx) callsItself(body ast.Node, ftype *ast.FuncType) bool {
	rec := false
	ast.Inspect(body, func(n ast.Node) bool {
		if call, ok := n.(*ast.CallExpr); ok {
			if ft, b, _, _, ok := ic.callee(call); ok && ft == ftype && b != nil {
				rec = true
			}
		}
		return true
	})
	return rec
}

// subst deep-copies n, replacing uses of substituted parameters, and copies go/types entries.
func (ic *inlineCtx) subst(n ast.Node, sub map[types.Object]ast.Expr) ast.Node {
	v := ic.copyValue(reflect.ValueOf(n), sub)
	out, _ := v.Interface().(ast.Node)
	return out
}

var (
	astObjectPtr = reflect.TypeOf((*ast.Object)(nil))
	astScopePtr  = reflect.TypeOf((*ast.Scope)(nil))
)

func (ic *inlineCtx) copyValue(v reflect.Value, sub map[types.Object]ast.Expr) reflect.Value {
	switch v.Kind() {
	case reflect.Interface:
		if v.IsNil() {
			return v
		}
		c := ic.copyValue(v.Elem(), sub)
		out := reflect.New(v.Type()).Elem()
		out.Set(c)
		return out
	case reflect.Ptr:
		if v.IsNil() || v.Type() == astObjectPtr || v.Type() == astScopePtr {
			return reflect.Zero(v.Type())
		}
		if id, ok := v.Interface().(*ast.Ident); ok {
			if o := ic.info.Uses[id]; o != nil {
				if e, ok := sub[o]; ok {
					return reflect.ValueOf(e)
				}
			}
		}
		n := reflect.New(v.Type().Elem())
		src := v.Elem()
		for i := 0; i < src.NumField(); i++ {
			f := src.Field(i)
			if !n.Elem().Field(i).CanSet() {
				continue
			}
			n.Elem().Field(i).Set(ic.copyValue(f, sub))
		}
		ic.copyInfo(v.Interface(), n.Interface())
		// `T{f: x}.f` (a receiver replaced by the literal it was called on) is x
		if sel, ok := n.Interface().(*ast.SelectorExpr); ok {
			if cl, ok := ast.Unparen(sel.X).(*ast.CompositeLit); ok {
				for _, el := range cl.Elts {
					if kv, ok := el.(*ast.KeyValueExpr); ok {
						if k, ok := kv.Key.(*ast.Ident); ok && k.Name == sel.Sel.Name {
							return reflect.ValueOf(kv.Value)
						}
					}
				}
			}
		}
		return n
	case reflect.Slice:
		if v.IsNil() {
			return v
		}
		out := reflect.MakeSlice(v.Type(), v.Len(), v.Len())
		for i := 0; i < v.Len(); i++ {
			out.Index(i).Set(ic.copyValue(v.Index(i), sub))
		}
		return out
	}
	return v
}

func (ic *inlineCtx) copyInfo(orig, cp any) {
	if oe, ok := orig.(ast.Expr); ok {
		if ce, ok := cp.(ast.Expr); ok {
			if tv, has := ic.info.Types[oe]; has {
				ic.info.Types[ce] = tv
			}
		}
	}
	if oid, ok := orig.(*ast.Ident); ok {
		cid := cp.(*ast.Ident)
		if o := ic.info.Uses[oid]; o != nil {
			ic.info.Uses[cid] = o
		}
		if o := ic.info.Defs[oid]; o != nil {
			ic.info.Defs[cid] = o
		}
	}
	if os, ok := orig.(*ast.SelectorExpr); ok {
		if s := ic.info.Selections[os]; s != nil {
			ic.info.Selections[cp.(*ast.SelectorExpr)] = s
		}
	}
}

// a substituted identifier that was the X of a selector keeps its selection entry through copyInfo;
// a parameter replaced inside a call's Fun position changes nothing for go/types lookups by object.

// singleExpr: the body is `return E`, or guard clauses returning constant booleans followed by
// `return E` (bool result): returns the equivalent expression over the body's own nodes.
func (ic *inlineCtx) singleExpr(ftype *ast.FuncType, body *ast.BlockStmt) (ast.Expr, bool) {
	if ftype.Results == nil || ftype.Results.NumFields() != 1 || len(body.List) == 0 {
		return nil, false
	}
	last, ok := body.List[len(body.List)-1].(*ast.ReturnStmt)
	if !ok || len(last.Results) != 1 {
		return nil, false
	}
	if len(body.List) == 1 {
		return last.Results[0], true
	}
	if !types.Identical(ic.info.TypeOf(last.Results[0]), types.Typ[types.Bool]) && !isUntypedBool(ic.info.TypeOf(last.Results[0])) {
		return nil, false
	}
	// if G1 { return c1 } … ; return E   ≡   ite(G1, c1, ite(G2, c2, … E))
	expr := last.Results[0]
	for i := len(body.List) - 2; i >= 0; i-- {
		ifs, ok := body.List[i].(*ast.IfStmt)
		if !ok || ifs.Init != nil || ifs.Else != nil || len(ifs.Body.List) != 1 {
			return nil, false
		}
		ret, ok := ifs.Body.List[0].(*ast.ReturnStmt)
		if !ok || len(ret.Results) != 1 {
			return nil, false
		}
		tv := ic.info.Types[ret.Results[0]]
		if tv.Value == nil {
			return nil, false
		}
		var e ast.Expr
		if tv.Value.String() == "true" {
			// G || rest
			e = &ast.BinaryExpr{X: ifs.Cond, OpPos: ifs.Pos(), Op: token.LOR, Y: expr}
		} else {
			// !G && rest — with De Morgan applied to the two guard shapes that occur (x == nil → x != nil)
			e = &ast.BinaryExpr{X: ic.negate(ifs.Cond), OpPos: ifs.Pos(), Op: token.LAND, Y: expr}
		}
		ic.info.Types[e] = types.TypeAndValue{Type: types.Typ[types.Bool]}
		expr = e
	}
	return expr, true
}

func isUntypedBool(t types.Type) bool {
	b, ok := t.(*types.Basic)
	return ok && b.Kind() == types.UntypedBool
}

func (ic *inlineCtx) negate(e ast.Expr) ast.Expr {
	e = ast.Unparen(e)
	if be, ok := e.(*ast.BinaryExpr); ok {
		flip := map[token.Token]token.Token{token.EQL: token.NEQ, token.NEQ: token.EQL, token.LSS: token.GEQ, token.GEQ: token.LSS, token.GTR: token.LEQ, token.LEQ: token.GTR}
		if op, ok := flip[be.Op]; ok {
			n := &ast.BinaryExpr{X: be.X, OpPos: be.OpPos, Op: op, Y: be.Y}
			ic.info.Types[n] = types.TypeAndValue{Type: types.Typ[types.Bool]}
			return n
		}
	}
	if u, ok := e.(*ast.UnaryExpr); ok && u.Op == token.NOT {
		return u.X
	}
	n := &ast.UnaryExpr{OpPos: e.Pos(), Op: token.NOT, X: e}
	ic.info.Types[n] = types.TypeAndValue{Type: types.Typ[types.Bool]}
	return n
}

// expandExprCall: see the file comment.
func (ic *inlineCtx) expandExprCall(call *ast.CallExpr) (ast.Expr, bool) {
	ftype, body, recvName, recvArg, ok := ic.callee(call)
	if !ok || ic.callsItself(body, ftype) {
		return nil, false
	}
	e, ok := ic.singleExpr(ftype, body)
	if !ok {
		return nil, false
	}
	sub, ok := ic.bind(ftype, recvName, recvArg, call, body)
	if !ok || ic.assignsParam(body, sub) {
		return nil, false
	}
	out, _ := ic.subst(e, sub).(ast.Expr)
	return out, out != nil
}

// expandTailCall: list ends in `return f(a…)`; returns the list with that statement replaced by f's body.
func (ic *inlineCtx) expandTailCall(list []ast.Stmt) ([]ast.Stmt, bool) {
	if len(list) == 0 {
		return nil, false
	}
	ret, ok := list[len(list)-1].(*ast.ReturnStmt)
	if !ok || len(ret.Results) != 1 {
		return nil, false
	}
	call, ok := ast.Unparen(ret.Results[0]).(*ast.CallExpr)
	if !ok {
		return nil, false
	}
	ftype, body, recvName, recvArg, ok := ic.callee(call)
	if !ok || ic.callsItself(body, ftype) || hasDefer(body) {
		return nil, false
	}
	sub, ok := ic.bind(ftype, recvName, recvArg, call, body)
	if !ok || ic.assignsParam(body, sub) {
		return nil, false
	}
	cp, _ := ic.subst(body, sub).(*ast.BlockStmt)
	if cp == nil {
		return nil, false
	}
	return append(append([]ast.Stmt{}, list[:len(list)-1]...), cp.List...), true
}

// expandVoidCall: `f(a…)` as a statement where f has no results and no return statement.
func (ic *inlineCtx) expandVoidCall(st ast.Stmt) ([]ast.Stmt, bool) {
	es, ok := st.(*ast.ExprStmt)
	if !ok {
		return nil, false
	}
	call, ok := ast.Unparen(es.X).(*ast.CallExpr)
	if !ok {
		return nil, false
	}
	ftype, body, recvName, recvArg, ok := ic.callee(call)
	if !ok || ic.callsItself(body, ftype) || hasDefer(body) || (ftype.Results != nil && ftype.Results.NumFields() > 0) {
		return nil, false
	}
	hasRet := false
	ast.Inspect(body, func(n ast.Node) bool {
		if _, ok := n.(*ast.FuncLit); ok {
			return false
		}
		if _, ok := n.(*ast.ReturnStmt); ok {
			hasRet = true
		}
		return true
	})
	if hasRet {
		return nil, false
	}
	sub, ok := ic.bind(ftype, recvName, recvArg, call, body)
	if !ok || ic.assignsParam(body, sub) {
		return nil, false
	}
	cp, _ := ic.subst(body, sub).(*ast.BlockStmt)
	if cp == nil {
		return nil, false
	}
	return cp.List, true
}

func hasDefer(body ast.Node) bool {
	d := false
	ast.Inspect(body, func(n ast.Node) bool {
		if _, ok := n.(*ast.FuncLit); ok {
			return false
		}
		if _, ok := n.(*ast.DeferStmt); ok {
			d = true
		}
		return true
	})
	return d
}

// methodValueAsFuncLit: `T{f: x, …}.m` (a method value on a keyed composite literal of a struct of the
// package, value receiver) presented as the function literal `func(params) results { body[T{…}/recv] }`.
func (ic *inlineCtx) methodValueAsFuncLit(e ast.Expr) (*ast.FuncLit, bool) {
	sel, ok := ast.Unparen(e).(*ast.SelectorExpr)
	if !ok {
		return nil, false
	}
	s := ic.info.Selections[sel]
	if s == nil || s.Kind() != types.MethodVal {
		return nil, false
	}
	cl, ok := ast.Unparen(sel.X).(*ast.CompositeLit)
	if !ok || !ic.pureArg(cl) {
		return nil, false
	}
	for _, el := range cl.Elts {
		if _, keyed := el.(*ast.KeyValueExpr); !keyed {
			return nil, false
		}
	}
	fo, _ := s.Obj().(*types.Func)
	fd := ic.decls[fo]
	if fd == nil || fo.Pkg() != ic.pkg || fd.Recv == nil || len(fd.Recv.List) != 1 || len(fd.Recv.List[0].Names) != 1 {
		return nil, false
	}
	if _, isPtr := fd.Recv.List[0].Type.(*ast.StarExpr); isPtr {
		return nil, false
	}
	recv := ic.info.Defs[fd.Recv.List[0].Names[0]]
	if recv == nil || hasDefer(fd.Body) {
		return nil, false
	}
	sub := map[types.Object]ast.Expr{recv: cl}
	if ic.assignsParam(fd.Body, sub) {
		return nil, false
	}
	// every use of the receiver must be a field selection that the literal sets
	okUses := true
	ast.Inspect(fd.Body, func(n ast.Node) bool {
		if se, ok := n.(*ast.SelectorExpr); ok {
			if identObj(ic.info, se.X) == recv {
				set := false
				for _, el := range cl.Elts {
					if k, ok := el.(*ast.KeyValueExpr).Key.(*ast.Ident); ok && k.Name == se.Sel.Name {
						set = true
					}
				}
				if !set {
					okUses = false
				}
				return false
			}
		}
		if id, ok := n.(*ast.Ident); ok && ic.info.Uses[id] == recv {
			okUses = false
		}
		return true
	})
	if !okUses {
		return nil, false
	}
	body, _ := ic.subst(fd.Body, sub).(*ast.BlockStmt)
	if body == nil {
		return nil, false
	}
	fl := &ast.FuncLit{Type: fd.Type, Body: body}
	ic.info.Types[fl] = types.TypeAndValue{Type: fo.Type()}
	return fl, true
}
