package main

// C20 — concurrent requests are isolated and race-free.
// Schedules cannot be enumerated statically; what is shown is the absence of
// shared mutable state in generated code (sufficient for the property's last
// sentence and for isolation): globals are read-only after init, API/Client
// receivers are never written, no goroutines / sync, pointer-receiver
// writers are only applied to request-local storage.

import (
	"fmt"
	"go/token"
	"go/types"
	"sort"
	"strings"

	"golang.org/x/tools/go/packages"
	"golang.org/x/tools/go/ssa"
	"golang.org/x/tools/go/ssa/ssautil"
)

// callees that may receive a loaded slice/map global without writing through it
var c20ReadOnlyCallees = map[string]bool{
	"bytes.Equal": true,
}

type c20ctx struct {
	r                                  *Report
	prefix                             string // program name
	pkg                                *ssa.Package
	posOf                              func(token.Pos) string
	shared                             map[string]bool // type names whose pointer receivers are shared between requests
	nFuncs                             int
	nGlobal                            int
	nStores                            int
	nRoots, nSharedStores, nSharedArgs int
}

func pkgFunctions(pkg *ssa.Package) []*ssa.Function {
	var out []*ssa.Function
	seen := map[*ssa.Function]bool{}
	var add func(f *ssa.Function)
	add = func(f *ssa.Function) {
		if f == nil || seen[f] {
			return
		}
		seen[f] = true
		out = append(out, f)
		for _, a := range f.AnonFuncs {
			add(a)
		}
	}
	for _, m := range pkg.Members {
		switch m := m.(type) {
		case *ssa.Function:
			add(m)
		case *ssa.Type:
			for _, T := range []types.Type{m.Type(), types.NewPointer(m.Type())} {
				ms := pkg.Prog.MethodSets.MethodSet(T)
				for i := 0; i < ms.Len(); i++ {
					f := pkg.Prog.MethodValue(ms.At(i))
					if f != nil && f.Pkg == pkg {
						add(f)
					}
				}
			}
		}
	}
	// generic instantiations created for this package
	for f := range ssautil.AllFunctions(pkg.Prog) {
		if f.Pkg == pkg || (f.Origin() != nil && f.Origin().Pkg == pkg) {
			add(f)
		}
	}
	sort.Slice(out, func(i, j int) bool { return out[i].String() < out[j].String() })
	return out
}

func isInit(f *ssa.Function) bool {
	for p := f; p != nil; p = p.Parent() {
		if p.Name() == "init" || strings.HasPrefix(p.Name(), "init#") {
			if p.Parent() == nil {
				return true
			}
		}
	}
	return false
}

// rootOf follows address arithmetic back to its base value.
func rootOf(v ssa.Value) ssa.Value {
	for i := 0; i < 30; i++ {
		switch x := v.(type) {
		case *ssa.FieldAddr:
			v = x.X
		case *ssa.IndexAddr:
			v = x.X
		case *ssa.Slice:
			v = x.X
		case *ssa.ChangeType:
			v = x.X
		case *ssa.Convert:
			v = x.X
		case *ssa.UnOp:
			if x.Op == token.MUL {
				v = x.X // load of pointer/slice/map held in memory
			} else {
				return v
			}
		default:
			return v
		}
	}
	return v
}

func (c *c20ctx) run() {
	fns := pkgFunctions(c.pkg)
	c.sharedLayer(fns)
	for _, fn := range fns {
		if fn.Blocks == nil {
			continue
		}
		c.nFuncs++
		fkey := c.prefix + ":" + shortFuncName(fn)
		recvShared := false
		var recv *ssa.Parameter
		if fn.Signature.Recv() != nil && len(fn.Params) > 0 {
			recv = fn.Params[0]
			if pt, ok := recv.Type().(*types.Pointer); ok {
				if n, ok := pt.Elem().(*types.Named); ok && c.shared[n.Obj().Name()] {
					recvShared = true
				}
			}
		}
		for _, b := range fn.Blocks {
			for _, ins := range b.Instrs {
				switch x := ins.(type) {
				case *ssa.Go:
					c.r.Violation("C20/no-hidden-sharing", fkey+":go statement", c.posOf(x.Pos()), "generated code starts a goroutine: per-request state may be shared across schedules")
				case *ssa.Store:
					c.nStores++
					root := rootOf(x.Addr)
					if g, ok := root.(*ssa.Global); ok && !isInit(fn) {
						c.r.Violation("C20/globals-read-only", fkey+":store to package variable "+g.Name(), c.posOf(x.Pos()), "package-level state is written while serving a request: concurrent requests race on it / observe each other's data")
					}
					if recvShared && root == ssa.Value(recv) {
						c.r.Violation("C20/receiver-read-only", fkey+":store through receiver", c.posOf(x.Pos()), "a method of the shared "+recv.Type().String()+" value writes through its receiver while serving a request")
					}
				case *ssa.MapUpdate:
					root := rootOf(x.Map)
					if g, ok := root.(*ssa.Global); ok && !isInit(fn) {
						c.r.Violation("C20/globals-read-only", fkey+":map update of package variable "+g.Name(), c.posOf(x.Pos()), "package-level map is written while serving a request")
					}
					if recvShared && root == ssa.Value(recv) {
						c.r.Violation("C20/receiver-read-only", fkey+":map update through receiver", c.posOf(x.Pos()), "a method of the shared value writes a map reachable from its receiver")
					}
				case *ssa.Call:
					c.call(fn, fkey, x, recvShared, recv)
				}
				// any other use of a *Global as an operand (address taken)
				if _, isStore := ins.(*ssa.Store); !isStore && !isInit(fn) {
					for _, op := range ins.Operands(nil) {
						if op == nil || *op == nil {
							continue
						}
						if g, ok := (*op).(*ssa.Global); ok && g.Pkg == c.pkg {
							c.globalUse(fn, fkey, ins, g)
						}
					}
				}
			}
		}
	}
}

func shortFuncName(fn *ssa.Function) string {
	s := fn.String()
	if i := strings.LastIndex(s, "/"); i >= 0 {
		// strip import path up to the package name, keep receiver parens
		pre := ""
		if strings.HasPrefix(s, "(") {
			pre = "("
			if strings.HasPrefix(s, "(*") {
				pre = "(*"
			}
		}
		s = pre + s[i+1:]
	}
	return s
}

func (c *c20ctx) globalUse(fn *ssa.Function, fkey string, ins ssa.Instruction, g *ssa.Global) {
	c.nGlobal++
	key := fkey + ":use of package variable " + g.Name()
	switch x := ins.(type) {
	case *ssa.UnOp:
		if x.Op != token.MUL {
			c.r.Violation("C20/globals-read-only", key, c.posOf(ins.Pos()), "unexpected operation on a package variable")
			return
		}
		// loaded value: every referrer must be read-only
		for _, ref := range *x.Referrers() {
			switch rr := ref.(type) {
			case *ssa.Call:
				if rr.Call.Value == ssa.Value(x) {
					continue // func-typed variable being called
				}
				name := ""
				if sc := rr.Call.StaticCallee(); sc != nil {
					name = sc.String()
				} else if rr.Call.IsInvoke() {
					name = "invoke " + rr.Call.Method.FullName()
				}
				if c20ReadOnlyCallees[name] || name == "invoke (net/http.ResponseWriter).Write" || name == "invoke (io.Writer).Write" {
					continue
				}
				c.r.Violation("C20/globals-read-only", key, c.posOf(rr.Pos()), "value of package variable "+g.Name()+" is handed to "+name+", which is not known to leave it unmodified")
			case *ssa.DebugRef:
			case *ssa.BinOp, *ssa.Convert:
				// comparison / conversion of a loaded scalar or string: read-only
			case *ssa.MakeInterface, *ssa.ChangeType:
				// boxed for a call such as fmt; value types only
				if isRefType(x.Type()) {
					c.r.Violation("C20/globals-read-only", key, c.posOf(rr.Pos()), "reference-typed package variable "+g.Name()+" escapes")
				}
			default:
				c.r.Violation("C20/globals-read-only", key, c.posOf(ref.Pos()), fmt.Sprintf("value of package variable %s flows into %T: not a recognised read-only use", g.Name(), ref))
			}
		}
		c.r.OK("C20/globals-read-only", key, c.posOf(ins.Pos()), "load")
	default:
		if isInit(fn) {
			return
		}
		c.r.Violation("C20/globals-read-only", key, c.posOf(ins.Pos()), fmt.Sprintf("address of package variable %s is used by %T: it may be written or shared", g.Name(), ins))
	}
}

func isRefType(t types.Type) bool {
	switch t.Underlying().(type) {
	case *types.Slice, *types.Map, *types.Pointer, *types.Chan:
		return true
	}
	return false
}

// call: sync/atomic use, and pointer-receiver writers applied to shared storage.
func (c *c20ctx) call(fn *ssa.Function, fkey string, call *ssa.Call, recvShared bool, recv *ssa.Parameter) {
	sc := call.Call.StaticCallee()
	if sc == nil {
		return
	}
	if sc.Pkg != nil {
		switch sc.Pkg.Pkg.Path() {
		case "sync", "sync/atomic":
			c.r.Violation("C20/no-hidden-sharing", fkey+":"+sc.String(), c.posOf(call.Pos()), "generated code uses "+sc.Pkg.Pkg.Path()+": it signals shared mutable state, which this rule set does not model")
			return
		}
	}
	// method with pointer receiver declared in this package (a potential writer)
	if sc.Signature.Recv() == nil || len(call.Call.Args) == 0 {
		return
	}
	if _, ok := sc.Signature.Recv().Type().(*types.Pointer); !ok {
		return
	}
	inPkg := sc.Pkg == c.pkg || (sc.Origin() != nil && sc.Origin().Pkg == c.pkg)
	if !inPkg {
		return
	}
	root := rootOf(call.Call.Args[0])
	switch rt := root.(type) {
	case *ssa.Global:
		c.r.Violation("C20/no-hidden-sharing", fkey+":"+sc.Name()+" on package variable "+rt.Name(), c.posOf(call.Pos()), "a pointer-receiver method is applied to package-level storage")
	case *ssa.Parameter:
		if recvShared && rt == recv {
			// methods of API/Client calling other methods of API/Client are fine (read-only rule applies to them too);
			// a writer method of another type applied to a field of the shared receiver is not
			if n := recvNamed(sc); n != "" && !c.shared[n] {
				c.r.Violation("C20/no-hidden-sharing", fkey+":"+sc.Name()+" on field of shared receiver", c.posOf(call.Pos()), "a pointer-receiver method of "+n+" is applied to storage inside the shared API/Client value")
			}
		}
	}
}

func recvNamed(f *ssa.Function) string {
	if f.Signature.Recv() == nil {
		return ""
	}
	t := f.Signature.Recv().Type()
	if p, ok := t.(*types.Pointer); ok {
		t = p.Elem()
	}
	if n, ok := t.(*types.Named); ok {
		return n.Obj().Name()
	}
	return ""
}

func runC20(r *Report) {
	r.Explanation = "SSA scan of every function (incl. closures and generic instantiations) of every instantiated package: (1) package-level variables are only stored in the package initialiser; elsewhere they are only loaded, and a loaded value is only called (func-typed hook), compared, or passed to ResponseWriter.Write / bytes.Equal; their address never escapes; (2) methods of the shared API and Client values never store through their receiver; (3) no go statement, no sync / sync/atomic; pointer-receiver writer methods of the package (Maybe.Set, UnmarshalJSON, …) are never applied to package-level storage or to storage inside the shared receiver. By the Go memory model a data race needs two accesses to one location with at least one write; generated code performs no write to any location reachable by two requests, for every schedule."
	r.Rule("C20/globals-read-only", "package variables: stores only in init; other uses are loads whose value is called, compared, or passed to a read-only callee; address never taken")
	r.Rule("C20/receiver-read-only", "methods of *API / *Client never store or map-update through their receiver")
	r.Rule("C20/no-hidden-sharing", "no go statement, no sync/atomic; pointer-receiver methods of the package are not applied to package-level storage or fields of the shared receiver")
	r.Rule("C20/shared-data-read-only", "no store, map update, append, copy or in-place library mutation (slices.Reverse, sort…) through a reference rooted in the shared API/Client receiver or in a value receiver's data, followed through parameters of in-package callees and closure captures")
	r.Rule("C20/witness", "the rules flag the positive witnesses (counter, lazy init, cache on API, goroutine) and stay silent on the clean one")
	r.Assumptions = append(r.Assumptions,
		"races inside user handlers, net/http, the HTTPClient implementation, and user code assigning LogError concurrently are outside generated code",
		"value-tag echo (each caller gets its own response) follows from request-locality and is not observed",
		"programs bounded by the corpus")
	gdir, gclean := thoroughCorpusFor(r, "C20")
	defer gclean()
	s3, err := BuildS3(S3Options{TemplateDebug: true, SSA: true, ExtraCorpus: gdir})
	if err != nil {
		r.Break("S3 build: %v", err)
		return
	}
	defer s3.Close()
	s3.reportUnusable(r, "C20/program-analysable")
	nF, nG, nS, nP, nRoots := 0, 0, 0, 0, 0
	for _, p := range s3.Usable() {
		if p.SSAPkg == nil {
			r.Undecided("C20/program-analysable", p.Name+":ssa", "", "no SSA package")
			continue
		}
		nP++
		c := &c20ctx{r: r, prefix: p.Name, pkg: p.SSAPkg, posOf: s3.pos, shared: map[string]bool{"API": true, "Client": true}}
		before := len(r.Obls)
		c.run()
		bad := map[string]bool{}
		for _, o := range r.Obls[before:] {
			if o.Status != StOK {
				bad[o.Rule] = true
			}
		}
		for _, rule := range []string{"C20/receiver-read-only", "C20/no-hidden-sharing"} {
			if !bad[rule] {
				r.OK(rule, p.Name, "", fmt.Sprintf("%d functions, %d stores scanned", c.nFuncs, c.nStores))
			}
		}
		nF += c.nFuncs
		nG += c.nGlobal
		nS += c.nStores
		nRoots += c.nRoots
	}
	s3.coverageSummary(r)
	r.Analysed["functions_scanned"] = nF
	r.Analysed["global_uses_classified"] = nG
	r.Analysed["store_instructions_checked"] = nS
	r.Analysed["shared_reference_roots"] = nRoots
	r.FloorMin("shared reference roots (API/Client receivers, value receivers, propagated parameters)", nRoots, 1000)
	r.FloorMin("programs scanned", nP, 50)
	r.FloorMin("functions scanned", nF, 3000)
	r.FloorMin("package-variable uses classified", nG, 100)
	c20Witness(r)
}

func c20Witness(r *Report) {
	p, err := loadWitness("c20")
	if err != nil {
		r.Break("load witness c20: %v", err)
		return
	}
	prog, pkgs := ssautil.Packages([]*packages.Package{p}, ssa.InstantiateGenerics)
	prog.Build()
	scratch := NewReport("C20")
	c := &c20ctx{r: scratch, prefix: "witness", pkg: pkgs[0], posOf: func(token.Pos) string { return "" }, shared: map[string]bool{"API": true, "Client": true}}
	c.run()
	// obligation keys are "witness:<func>:..." ; compareWitness wants "<x>.<Func>:..."
	for i := range scratch.Obls {
		k := strings.TrimPrefix(scratch.Obls[i].Key, "witness:")
		// (*c20.API).Count:store... -> Count
		name := k
		if j := strings.Index(name, ":"); j >= 0 {
			name = name[:j]
		}
		if j := strings.LastIndex(name, "."); j >= 0 {
			name = name[j+1:]
		}
		name = strings.TrimSuffix(name, ")")
		if j := strings.Index(name, "$"); j >= 0 {
			name = name[:j]
		}
		scratch.Obls[i].Key = "w." + name + ":x"
	}
	compareWitness(r, "C20", scratch, witnessExpectations(p))
}
