package main

import (
	"fmt"
	"os"
	"sort"
)

var checks = map[string]func(*Report){
	"C01": runC01,
	"C02": runC02,
	"C03": runC03,
	"C04": runC04,
	"C05": runC05,
	"C06": runC06,
	"C07": runC07,
	"C08": runC08,
	"C09": runC09,
	"C10": runC10,
	"C11": runC11,
	"C14": runC14,
	"C15": runC15,
	"C16": runC16,
	"C17": runC17,
	"C12": runC12,
	"C18": runC18,
	"C19": runC19,
	"C20": runC20,
	"C13": runC13,
}

// checkAll runs every check in this process, one after the other, sharing the instantiated corpus
// between checks with the same options (validation runs over many repo variants; the registered
// commands still run one check per process). Output: a `== Cnn exit=N` line after each check.
func checkAll(tier string) int {
	os.Setenv("VERIF_TIER", tier)
	shareS3 = true
	defer closeSharedS3()
	var ids []string
	for id := range checks {
		ids = append(ids, id)
	}
	sort.Strings(ids)
	worst := 0
	for _, id := range ids {
		r := NewReport(id)
		func() {
			defer func() {
				if e := recover(); e != nil {
					r.Break("checker panic: %v", e)
				}
			}()
			checks[id](r)
		}()
		rc := r.Finish()
		fmt.Printf("== %s exit=%d\n", id, rc)
		if rc > worst {
			worst = rc
		}
	}
	return worst
}

func main() {
	if len(os.Args) >= 2 && os.Args[1] == "checkall" {
		tier := "quick"
		if len(os.Args) > 2 {
			tier = os.Args[2]
		}
		os.Exit(checkAll(tier))
	}
	if len(os.Args) < 3 || os.Args[1] != "check" {
		fmt.Fprintln(os.Stderr, "usage: verif check <Cnn> [quick|thorough]")
		os.Exit(2)
	}
	id := os.Args[2]
	if len(os.Args) > 3 {
		os.Setenv("VERIF_TIER", os.Args[3])
	}
	fn, ok := checks[id]
	if !ok {
		fmt.Fprintf(os.Stderr, "no check for %s\n", id)
		os.Exit(2)
	}
	r := NewReport(id)
	func() {
		defer func() {
			if e := recover(); e != nil {
				r.Break("checker panic: %v", e)
				if os.Getenv("VERIF_DEBUG") != "" {
					panic(e)
				}
			}
		}()
		fn(r)
	}()
	os.Exit(r.Finish())
}
