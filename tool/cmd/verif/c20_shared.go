package main

// C20, second layer: values that are reachable by two requests through a
// REFERENCE. Two classes of roots:
//
//	api   the pointer receiver of API / Client methods (the value every request shares)
//	data  the value receiver of any method of the package: the receiver itself is a
//	      private copy, but the backing array / pointee / map behind it is the caller's
//	      (a response value an application may share between requests)
//
// A parameter of an in-package function that receives a reference-typed value rooted in
// such a root becomes a root itself (fixpoint over the static call graph of the package).
// Flagged: a store / map update through a root across a reference boundary, and a rooted
// reference handed to a callee outside the package that is not known to leave it unmodified
// (slices.Reverse, sort.*, append into spare capacity, copy …).

import (
	"fmt"
	"go/token"
	"go/types"

	"golang.org/x/tools/go/ssa"
)

// external callees that only read the reference-typed arguments they are given
var c20ReadOnlyExternal = map[string]string{
	"bytes.Equal":                     "compares",
	"strings.Join":                    "reads the elements",
	"encoding/json.Marshal":           "encodes; MarshalJSON methods of the package are judged by this rule themselves",
	"encoding/json.Unmarshal":         "first argument (input bytes) is only read; the target pointer is judged at its root",
	"bytes.NewReader":                 "reader over the bytes",
	"bytes.NewBuffer":                 "used for reading the request/response bytes in generated code",
	"(net/url.Values).Encode":         "reads the map",
	"(net/url.Values).Get":            "reads the map",
	"(net/http.Header).Get":           "reads the map",
	"(net/http.Header).Values":        "reads the map",
	"strings.NewReader":               "reader",
	"fmt.Errorf":                      "formats",
	"fmt.Sprintf":                     "formats",
	"fmt.Sprint":                      "formats",
	"fmt.Fprintf":                     "formats",
	"errors.Is":                       "compares",
	"errors.As":                       "target pointer is local",
	"context.WithValue":               "stores the reference in a new context; no write through it",
	"(*net/http.Request).Context":     "reads",
	"(*net/http.Request).WithContext": "shallow copy of the request",
}

type c20root struct {
	class string // api | data
	why   string
}

type c20shared struct {
	c     *c20ctx
	roots map[*ssa.Function]map[ssa.Value]c20root
}

// refPath walks an address/value chain back to its origins. crossed reports whether the
// chain passes a reference boundary (element of a slice, pointee of a loaded pointer).
func refPath(v ssa.Value, crossed bool, depth int, out *[]refOrigin) {
	if depth > 40 {
		return
	}
	switch x := v.(type) {
	case *ssa.FieldAddr:
		refPath(x.X, crossed, depth+1, out)
	case *ssa.IndexAddr:
		if _, isSlice := x.X.Type().Underlying().(*types.Slice); isSlice {
			crossed = true
		}
		refPath(x.X, crossed, depth+1, out)
	case *ssa.Slice:
		refPath(x.X, crossed, depth+1, out)
	case *ssa.Field:
		refPath(x.X, crossed, depth+1, out)
	case *ssa.ChangeType:
		refPath(x.X, crossed, depth+1, out)
	case *ssa.Convert:
		refPath(x.X, crossed, depth+1, out)
	case *ssa.MakeInterface:
		refPath(x.X, crossed, depth+1, out)
	case *ssa.Extract:
		refPath(x.Tuple, crossed, depth+1, out)
	case *ssa.Lookup:
		refPath(x.X, true, depth+1, out)
	case *ssa.Phi:
		for _, e := range x.Edges {
			refPath(e, crossed, depth+1, out)
		}
	case *ssa.UnOp:
		if x.Op == token.MUL {
			// a pointer/slice/map loaded from memory and then used as a base: the access goes
			// through that reference
			if isRefType(x.Type()) {
				crossed = true
			}
			// a local that only spills a parameter (value receivers whose address is taken)
			if a, ok := x.X.(*ssa.Alloc); ok {
				if p := spilledParam(a); p != nil {
					*out = append(*out, refOrigin{p, crossed})
					return
				}
			}
			refPath(x.X, crossed, depth+1, out)
			return
		}
		*out = append(*out, refOrigin{v, crossed})
	case *ssa.Alloc:
		if p := spilledParam(x); p != nil {
			// the address of the private copy: fields of the copy are private
			*out = append(*out, refOrigin{p, crossed})
			return
		}
		*out = append(*out, refOrigin{v, crossed})
	default:
		*out = append(*out, refOrigin{v, crossed})
	}
}

type refOrigin struct {
	v       ssa.Value
	crossed bool
}

// spilledParam: a is a local whose only stores write one parameter into it (the compiler's
// spill of an address-taken parameter).
func spilledParam(a *ssa.Alloc) *ssa.Parameter {
	var p *ssa.Parameter
	for _, ref := range *a.Referrers() {
		st, ok := ref.(*ssa.Store)
		if !ok || st.Addr != ssa.Value(a) {
			continue
		}
		q, isParam := st.Val.(*ssa.Parameter)
		if !isParam || (p != nil && p != q) {
			return nil
		}
		p = q
	}
	return p
}

func (s *c20shared) rootOfValue(fn *ssa.Function, v ssa.Value) (c20root, bool, bool) {
	var os []refOrigin
	refPath(v, false, 0, &os)
	for _, o := range os {
		if r, ok := s.roots[fn][o.v]; ok {
			crossed := o.crossed
			if _, isPtr := o.v.Type().Underlying().(*types.Pointer); isPtr {
				crossed = true // any access below a shared pointer is shared memory
			}
			if _, isMap := o.v.Type().Underlying().(*types.Map); isMap {
				crossed = true
			}
			return r, crossed, true
		}
		// free variable of a closure: the binding in the parent
		if fv, ok := o.v.(*ssa.FreeVar); ok && fn.Parent() != nil {
			if b := closureBinding(fn, fv); b != nil {
				if r, crossed, ok := s.rootOfValue(fn.Parent(), b); ok {
					return r, crossed || o.crossed || isRefType(fv.Type()), true
				}
			}
		}
	}
	return c20root{}, false, false
}

func closureBinding(fn *ssa.Function, fv *ssa.FreeVar) ssa.Value {
	idx := -1
	for i, f := range fn.FreeVars {
		if f == fv {
			idx = i
		}
	}
	if idx < 0 {
		return nil
	}
	for _, b := range fn.Parent().Blocks {
		for _, ins := range b.Instrs {
			if mc, ok := ins.(*ssa.MakeClosure); ok && mc.Fn == ssa.Value(fn) && idx < len(mc.Bindings) {
				return mc.Bindings[idx]
			}
		}
	}
	return nil
}

func (c *c20ctx) sharedLayer(fns []*ssa.Function) {
	s := &c20shared{c: c, roots: map[*ssa.Function]map[ssa.Value]c20root{}}
	add := func(fn *ssa.Function, v ssa.Value, r c20root) bool {
		if s.roots[fn] == nil {
			s.roots[fn] = map[ssa.Value]c20root{}
		}
		if _, ok := s.roots[fn][v]; ok {
			return false
		}
		s.roots[fn][v] = r
		return true
	}
	for _, fn := range fns {
		if fn.Blocks == nil || fn.Signature.Recv() == nil || len(fn.Params) == 0 {
			continue
		}
		recv := fn.Params[0]
		if pt, ok := recv.Type().(*types.Pointer); ok {
			if n, ok := pt.Elem().(*types.Named); ok && c.shared[n.Obj().Name()] {
				add(fn, recv, c20root{"api", "receiver of the shared " + n.Obj().Name() + " value"})
			}
			continue
		}
		if n, ok := recv.Type().(*types.Named); ok && n.Obj().Pkg() == c.pkg.Pkg {
			add(fn, recv, c20root{"data", "value receiver " + n.Obj().Name() + " (the caller's data behind it may be shared between requests)"})
		}
	}
	inPkg := func(f *ssa.Function) bool {
		return f != nil && f.Blocks != nil && (f.Pkg == c.pkg || (f.Origin() != nil && f.Origin().Pkg == c.pkg))
	}
	// propagate to parameters of in-package static callees
	for changed := true; changed; {
		changed = false
		for _, fn := range fns {
			if fn.Blocks == nil {
				continue
			}
			for _, b := range fn.Blocks {
				for _, ins := range b.Instrs {
					var cc *ssa.CallCommon
					switch x := ins.(type) {
					case *ssa.Call:
						cc = &x.Call
					case *ssa.Defer:
						cc = &x.Call
					case *ssa.Go:
						cc = &x.Call
					}
					if cc == nil {
						continue
					}
					callee := cc.StaticCallee()
					if !inPkg(callee) {
						continue
					}
					for i, a := range cc.Args {
						if i >= len(callee.Params) || !isRefType(a.Type()) {
							continue
						}
						// a pointer-receiver callee of a shared type already has its own root
						if r, _, ok := s.rootOfValue(fn, a); ok {
							if add(callee, callee.Params[i], c20root{r.class, r.why + ", passed by " + shortFuncName(fn)}) {
								changed = true
							}
						}
					}
				}
			}
		}
	}
	nRoots := 0
	for _, m := range s.roots {
		nRoots += len(m)
	}
	c.nRoots += nRoots
	// scan
	for _, fn := range fns {
		if fn.Blocks == nil || isInit(fn) {
			continue
		}
		fkey := c.prefix + ":" + shortFuncName(fn)
		flag := func(rule, what string, pos token.Pos, r c20root, detail string) {
			c.r.Violation(rule, fkey+":"+what, c.posOf(pos), detail+" ["+r.why+"]")
		}
		for _, b := range fn.Blocks {
			for _, ins := range b.Instrs {
				switch x := ins.(type) {
				case *ssa.Store:
					// a map or slice of the shared API/Client value stored into other memory is an alias: whoever
					// writes through the copy writes the shared storage (req.Header = c.Header ; req.Header.Set(…))
					if _, isLocal := x.Addr.(*ssa.Alloc); !isLocal {
						switch x.Val.Type().Underlying().(type) {
						case *types.Map, *types.Slice:
							if r, _, ok := s.rootOfValue(fn, x.Val); ok && r.class == "api" {
								if _, isParam := x.Val.(*ssa.Parameter); !isParam {
									flag("C20/shared-data-read-only", "shared reference stored into other memory", x.Pos(), r, "a map/slice of the shared value is aliased by another object: writes through that object reach storage every request uses")
								}
							}
						}
					}
					if r, crossed, ok := s.rootOfValue(fn, x.Addr); ok && crossed {
						if r.class == "api" {
							// direct stores through the API receiver are receiver-read-only's; here: through a propagated parameter
							if recv := fn.Params; len(recv) > 0 && fn.Signature.Recv() != nil {
								var os []refOrigin
								refPath(x.Addr, false, 0, &os)
								direct := false
								for _, o := range os {
									if o.v == ssa.Value(fn.Params[0]) {
										direct = true
									}
								}
								if direct {
									continue
								}
							}
						}
						c.nSharedStores++
						flag("C20/shared-data-read-only", "store through shared reference", x.Pos(), r, "memory reachable by other requests is written without synchronisation")
					}
				case *ssa.MapUpdate:
					if r, _, ok := s.rootOfValue(fn, x.Map); ok {
						if r.class == "api" && fn.Signature.Recv() != nil && len(fn.Params) > 0 {
							if _, isAPI := s.roots[fn][fn.Params[0]]; isAPI && rootOf(x.Map) == ssa.Value(fn.Params[0]) {
								continue // receiver-read-only reports it
							}
						}
						flag("C20/shared-data-read-only", "map update through shared reference", x.Pos(), r, "a map reachable by other requests is written without synchronisation")
					}
				case *ssa.Call:
					c.sharedArgs(s, fn, &x.Call, x.Pos(), flag)
				case *ssa.Defer:
					c.sharedArgs(s, fn, &x.Call, x.Pos(), flag)
				}
			}
		}
	}
}

func (c *c20ctx) sharedArgs(s *c20shared, fn *ssa.Function, cc *ssa.CallCommon, pos token.Pos, flag func(rule, what string, pos token.Pos, r c20root, detail string)) {
	if b, ok := cc.Value.(*ssa.Builtin); ok {
		switch b.Name() {
		case "append":
			if len(cc.Args) > 0 {
				if r, _, ok := s.rootOfValue(fn, cc.Args[0]); ok {
					if sl, isSlice := cc.Args[0].(*ssa.Slice); isSlice && sl.Max != nil {
						return // s[:n:n] forces a copy
					}
					flag("C20/shared-data-read-only", "append to shared slice", pos, r, "append may write into the spare capacity of a backing array other requests use")
				}
			}
		case "copy", "clear":
			if len(cc.Args) > 0 {
				if r, _, ok := s.rootOfValue(fn, cc.Args[0]); ok {
					flag("C20/shared-data-read-only", b.Name()+" into shared reference", pos, r, "memory reachable by other requests is overwritten")
				}
			}
		case "delete":
			if len(cc.Args) > 0 {
				if r, _, ok := s.rootOfValue(fn, cc.Args[0]); ok {
					flag("C20/shared-data-read-only", "delete from shared map", pos, r, "a map reachable by other requests is modified")
				}
			}
		}
		return
	}
	callee := cc.StaticCallee()
	if callee == nil {
		return // interface / func-value calls: user code or library; judged by the assumptions
	}
	if callee.Blocks != nil && (callee.Pkg == c.pkg || (callee.Origin() != nil && callee.Origin().Pkg == c.pkg)) {
		return // propagated
	}
	name := callee.String()
	if o := callee.Origin(); o != nil {
		name = o.String()
	}
	if _, ok := c20ReadOnlyExternal[name]; ok {
		return
	}
	for i, a := range cc.Args {
		if !isRefType(a.Type()) {
			continue
		}
		if _, isPtr := a.Type().Underlying().(*types.Pointer); isPtr && i == 0 && callee.Signature.Recv() != nil {
			// method call on a pointer inside shared storage: library readers (e.g. (*url.URL).String);
			// in-package writers are covered by no-hidden-sharing
			continue
		}
		if r, _, ok := s.rootOfValue(fn, a); ok {
			c.nSharedArgs++
			if r.class == "api" {
				if _, isPtr := a.Type().Underlying().(*types.Pointer); isPtr {
					continue // the API/Client pointer itself or a field pointer handed to a library: not a slice/map mutation
				}
			}
			flag("C20/shared-data-read-only", fmt.Sprintf("%s(arg %d)", name, i), pos, r, "a reference reachable by other requests is handed to "+name+", which is not known to leave it unmodified (e.g. slices.Reverse / sort reorder in place)")
		}
	}
}
