package main

// router_model.go — decompiles the generated router (router.go of one
// program) into a finite model (DESIGN §2.5, §4 C03): one node per route*
// method of API, plus a model of API.ServeHTTP. Everything is identified by
// resolved objects and constant values; every statement must be consumed by
// the recogniser (totality) or the function is UNDECIDED.

import (
	"fmt"
	"go/ast"
	"go/constant"
	"go/token"
	"go/types"
	"strings"

	"golang.org/x/tools/go/types/typeutil"
)

type Leaf struct {
	Kind         string // "op" | "cors"
	Method       string
	Field        string // API handler field
	FieldObj     *types.Var
	Auth         []string // API fields passed to authMiddlewareOr, in order
	AuthObjs     []*types.Var
	Wrapped      int // number of middlewares(...) wraps
	Template     string
	HasPath      bool
	CorsMethods  []string
	CorsHeaders  []string
	CorsNilGuard bool
	Pos          token.Pos
	wrapFn       types.Object
	authOrFn     types.Object
	directOr     bool
}

type MethodSwitch struct {
	Arms  map[string]*Leaf
	Order []string
}

type ChildArm struct {
	Prefix    string
	Fn        string
	Backtrack bool
}

type RouteNode struct {
	Name       string
	Decl       *ast.FuncDecl
	BaseStrip  string // constant stripped at the top ("" if none)
	SlashGuard bool   // `if !HasPrefix(path,"/") return miss` before splitPath
	UsesPrefix bool
	HasLeaf    bool
	LitLeaves  map[string]*MethodSwitch
	LitOrder   []string
	VarLeaf    *MethodSwitch
	Children   []ChildArm
	Tail       string // "" = miss
	Undecided  []string
	SplitFn    types.Object
	WrapFns    []types.Object
	AuthOrFns  []types.Object
	DirectOr   bool
}

type ServeModel struct {
	Decl              *ast.FuncDecl
	PathFromURL       bool
	SpecConst         string
	SpecNilGuard      bool
	SpecBeforeRoute   bool
	SpecReturns       bool
	RouteArgsOK       bool
	NotFoundOK        bool
	HasPathFalse      bool
	CtxStoreOK        bool
	LoopReverse       bool
	LoopInsideHasPath bool
	FinalServe        bool
	Undecided         []string
}

type RouterModel struct {
	SplitFn  types.Object // the segment splitter every route function calls
	WrapFn   types.Object // middlewares(h, …)
	AuthOrFn types.Object // authMiddlewareOr(…)
	DirectOr bool         // the wrap helper is itself the OR-combinator: withAuth(h, []AuthMiddleware{…})
	P        *Program
	Nodes    map[string]*RouteNode
	Order    []string
	Serve    *ServeModel
	SplitOK  bool
	SplitWhy string
	APIType  *types.Named
}

type rmCtx struct {
	node         *RouteNode
	p            *Program
	info         *types.Info
	path, method types.Object // params of the current route function
	recv         types.Object
}

func (c *rmCtx) constStr(e ast.Expr) (string, bool) {
	tv, ok := c.info.Types[e]
	if !ok || tv.Value == nil || tv.Value.Kind() != constant.String {
		return "", false
	}
	return constant.StringVal(tv.Value), true
}

func (c *rmCtx) constInt(e ast.Expr) (int64, bool) {
	tv, ok := c.info.Types[e]
	if !ok || tv.Value == nil || tv.Value.Kind() != constant.Int {
		return 0, false
	}
	return constant.Int64Val(tv.Value)
}

func (c *rmCtx) isObj(e ast.Expr, o types.Object) bool {
	return o != nil && identObj(c.info, e) == o
}

func (c *rmCtx) stdCall(e ast.Expr, full string) (*ast.CallExpr, bool) {
	call, ok := ast.Unparen(e).(*ast.CallExpr)
	if !ok {
		return nil, false
	}
	return call, calleeName(c.info, call) == full
}

// rtField: expression `rt.X` where rt is the receiver; returns the field.
func (c *rmCtx) rtField(e ast.Expr) *types.Var {
	sel, ok := ast.Unparen(e).(*ast.SelectorExpr)
	if !ok || !c.isObj(sel.X, c.recv) {
		return nil
	}
	s := c.info.Selections[sel]
	if s == nil || s.Kind() != types.FieldVal {
		return nil
	}
	v, _ := s.Obj().(*types.Var)
	return v
}

// isMissReturn: `return nil, "", false`
func (c *rmCtx) isMissReturn(st ast.Stmt) bool {
	ret, ok := st.(*ast.ReturnStmt)
	if !ok || len(ret.Results) != 3 {
		return false
	}
	s, ok1 := c.constStr(ret.Results[1])
	tv := c.info.Types[ret.Results[2]]
	return isNilIdent(ret.Results[0]) && ok1 && s == "" && tv.Value != nil && tv.Value.Kind() == constant.Bool && !constant.BoolVal(tv.Value)
}

// notHasPrefix: `!strings.HasPrefix(<x>, "<const>")`
func (c *rmCtx) notHasPrefix(e ast.Expr, x types.Object) (string, bool) {
	u, ok := ast.Unparen(e).(*ast.UnaryExpr)
	if !ok || u.Op != token.NOT {
		return "", false
	}
	call, ok := c.stdCall(u.X, "strings.HasPrefix")
	if !ok || len(call.Args) != 2 || !c.isObj(call.Args[0], x) {
		return "", false
	}
	return c.constStr(call.Args[1])
}

func BuildRouterModel(p *Program) (*RouterModel, error) {
	info := p.Pkg.TypesInfo
	m := &RouterModel{P: p, Nodes: map[string]*RouteNode{}}
	apiObj, _ := p.Pkg.Types.Scope().Lookup("API").(*types.TypeName)
	if apiObj == nil {
		return nil, fmt.Errorf("no type API")
	}
	m.APIType, _ = apiObj.Type().(*types.Named)
	for _, f := range p.Pkg.Syntax {
		for _, d := range f.Decls {
			fd, ok := d.(*ast.FuncDecl)
			if !ok || fd.Body == nil {
				continue
			}
			if fd.Recv != nil && recvTypeName(fd) == "API" {
				if fd.Name.Name == "ServeHTTP" {
					m.Serve = buildServeModel(p, fd)
					continue
				}
				// a route function: (path, method string) (http.Handler, string, bool)
				sig, _ := info.Defs[fd.Name].Type().(*types.Signature)
				isTriple := sig != nil && sig.Results().Len() == 3
				if sig != nil && sig.Results().Len() == 1 {
					// a result struct that normalisation N4 presents as its fields
					if nt, ok := sig.Results().At(0).Type().(*types.Named); ok && n4Structs[nt] {
						isTriple = true
					}
				}
				if sig != nil && sig.Params().Len() == 2 && isTriple && strings.HasPrefix(fd.Name.Name, "route") {
					n := buildRouteNode(p, fd)
					m.Nodes[n.Name] = n
					m.Order = append(m.Order, n.Name)
				}
			}
		}
	}
	// helper functions are identified by use, not by name
	m.SplitWhy = "no route function calls a segment splitter"
	for _, name := range m.Order {
		n := m.Nodes[name]
		if n.SplitFn != nil {
			if m.SplitFn == nil {
				m.SplitFn = n.SplitFn
			} else if m.SplitFn != n.SplitFn {
				n.Undecided = append(n.Undecided, "route functions use different segment splitters")
			}
		}
		for _, f := range n.WrapFns {
			if m.WrapFn == nil {
				m.WrapFn = f
			} else if m.WrapFn != f {
				n.Undecided = append(n.Undecided, "leaves use different wrap helpers")
			}
		}
		if n.DirectOr {
			m.DirectOr = true
		}
		for _, f := range n.AuthOrFns {
			if m.AuthOrFn == nil {
				m.AuthOrFn = f
			} else if m.AuthOrFn != f {
				n.Undecided = append(n.Undecided, "leaves use different auth combinators")
			}
		}
	}
	if m.SplitFn != nil {
		if fd := declOfObj(p, m.SplitFn); fd != nil {
			// the contract the model interpreter relies on (splitPathContract), whatever the spelling
			res := checkSplitPathContract(p, fd)
			m.SplitOK, m.SplitWhy = res.Why == "", res.Why
			if p.ProvenSafe == nil {
				p.ProvenSafe = map[ast.Node]bool{}
			}
			if m.SplitOK {
				for n := range res.Proven {
					p.ProvenSafe[n] = true
				}
			}
		}
	}
	if m.Serve == nil {
		return nil, fmt.Errorf("API.ServeHTTP not found")
	}
	if m.Nodes["route"] == nil {
		return nil, fmt.Errorf("API.route not found")
	}
	return m, nil
}

func recvObj(info *types.Info, fd *ast.FuncDecl) types.Object {
	if fd.Recv == nil || len(fd.Recv.List) == 0 || len(fd.Recv.List[0].Names) == 0 {
		return nil
	}
	return info.Defs[fd.Recv.List[0].Names[0]]
}

func paramObjs(info *types.Info, fd *ast.FuncDecl) []types.Object {
	var out []types.Object
	for _, f := range fd.Type.Params.List {
		for _, n := range f.Names {
			out = append(out, info.Defs[n])
		}
	}
	return out
}

func buildRouteNode(p *Program, fd *ast.FuncDecl) *RouteNode {
	info := p.Pkg.TypesInfo
	n := &RouteNode{Name: fd.Name.Name, Decl: fd, LitLeaves: map[string]*MethodSwitch{}}
	ps := paramObjs(info, fd)
	c := &rmCtx{p: p, info: info, recv: recvObj(info, fd), node: n}
	if len(ps) != 2 {
		n.Undecided = append(n.Undecided, "route function does not have two named parameters")
		return n
	}
	c.path, c.method = ps[0], ps[1]
	list := fd.Body.List
	i := 0
	und := func(format string, a ...any) { n.Undecided = append(n.Undecided, fmt.Sprintf(format, a...)) }

	// prelude: zero or more of [guard(B) ; path = path[len B:]] and guard("/")
	for i < len(list) {
		ifs, ok := list[i].(*ast.IfStmt)
		if !ok || ifs.Init != nil || ifs.Else != nil {
			break
		}
		pre, ok := c.notHasPrefix(ifs.Cond, c.path)
		if !ok || len(ifs.Body.List) != 1 || !c.isMissReturn(ifs.Body.List[0]) {
			break
		}
		// followed by a strip?
		if i+1 < len(list) {
			if as, ok := list[i+1].(*ast.AssignStmt); ok && as.Tok == token.ASSIGN && len(as.Lhs) == 1 && len(as.Rhs) == 1 && c.isObj(as.Lhs[0], c.path) {
				if sl, ok := as.Rhs[0].(*ast.SliceExpr); ok && c.isObj(sl.X, c.path) && sl.High == nil && sl.Low != nil {
					k, ok := c.constInt(sl.Low)
					if !ok || int(k) != len(pre) {
						und("strip constant %s does not equal len(%q)", types.ExprString(sl.Low), pre)
					}
					if n.BaseStrip != "" || n.SlashGuard {
						und("more than one base-path strip")
					}
					n.BaseStrip = pre
					i += 2
					continue
				}
			}
		}
		if pre == "/" {
			n.SlashGuard = true
			i++
			continue
		}
		und("prefix guard %q without strip", pre)
		i++
	}
	// splitPath
	if i >= len(list) {
		und("missing splitPath statement")
		return n
	}
	as, ok := list[i].(*ast.AssignStmt)
	if !ok || len(as.Lhs) != 2 || len(as.Rhs) != 1 {
		und("expected `prefix, path := splitPath(path)`, found %T", list[i])
		return n
	}
	call, ok := as.Rhs[0].(*ast.CallExpr)
	var prefixObj types.Object
	if !ok || len(call.Args) != 1 || !c.isObj(call.Args[0], c.path) || !c.isObj(as.Lhs[1], c.path) {
		und("splitPath statement has an unexpected shape")
		return n
	}
	if fn := typeutil.Callee(info, call); fn == nil || fn.Pkg() != p.Pkg.Types || fn.Parent() != p.Pkg.Types.Scope() {
		und("segment splitter is not a package-level function of the generated package")
		return n
	} else {
		n.SplitFn = fn
	}
	if id, ok := as.Lhs[0].(*ast.Ident); ok && id.Name != "_" {
		prefixObj = info.Defs[id]
		if prefixObj == nil {
			prefixObj = info.Uses[id]
		}
		n.UsesPrefix = true
	}
	i++
	// leaf block
	if i < len(list) {
		if ifs, ok := list[i].(*ast.IfStmt); ok && ifs.Init == nil && ifs.Else == nil {
			if be, ok := ifs.Cond.(*ast.BinaryExpr); ok && be.Op == token.EQL && c.isObj(be.X, c.path) {
				if s, ok := c.constStr(be.Y); ok && s == "" {
					n.HasLeaf = true
					c.leafBlock(n, ifs.Body.List, prefixObj, und)
					i++
				}
			}
		}
	}
	// child switch
	if i < len(list) {
		if sw, ok := list[i].(*ast.SwitchStmt); ok && sw.Init == nil && sw.Tag != nil && c.isObj(sw.Tag, prefixObj) {
			for _, cc := range sw.Body.List {
				cl := cc.(*ast.CaseClause)
				if len(cl.List) != 1 {
					und("child switch clause with %d expressions", len(cl.List))
					continue
				}
				pre, ok := c.constStr(cl.List[0])
				if !ok {
					und("non-constant child prefix")
					continue
				}
				arm := ChildArm{Prefix: pre}
				switch len(cl.Body) {
				case 1:
					ret, ok := cl.Body[0].(*ast.ReturnStmt)
					if !ok || len(ret.Results) != 1 {
						und("child arm %q is not `return rt.routeX(path, method)`", pre)
						continue
					}
					fn, ok := c.routeCall(ret.Results[0])
					if !ok {
						und("child arm %q does not call a route method with (path, method)", pre)
						continue
					}
					arm.Fn = fn
				case 2:
					as, ok := cl.Body[0].(*ast.AssignStmt)
					ifs, ok2 := cl.Body[1].(*ast.IfStmt)
					if !ok || !ok2 || as.Tok != token.DEFINE || len(as.Lhs) != 3 || len(as.Rhs) != 1 {
						und("child arm %q has an unexpected back-tracking shape", pre)
						continue
					}
					fn, okc := c.routeCall(as.Rhs[0])
					h := identObj(info, as.Lhs[0])
					be, okb := ifs.Cond.(*ast.BinaryExpr)
					if !okc || !okb || be.Op != token.NEQ || !c.isObj(be.X, h) || !isNilIdent(be.Y) || ifs.Else != nil || len(ifs.Body.List) != 1 {
						und("child arm %q: back-tracking test is not `if h != nil`", pre)
						continue
					}
					ret, ok := ifs.Body.List[0].(*ast.ReturnStmt)
					if !ok || len(ret.Results) != 3 || !c.isObj(ret.Results[0], h) || identObj(info, ret.Results[1]) != identObj(info, as.Lhs[1]) || identObj(info, ret.Results[2]) != identObj(info, as.Lhs[2]) {
						und("child arm %q: back-tracking return does not pass the callee's results through", pre)
						continue
					}
					arm.Fn, arm.Backtrack = fn, true
				default:
					und("child arm %q has %d statements", pre, len(cl.Body))
					continue
				}
				n.Children = append(n.Children, arm)
			}
			i++
		}
	}
	// tail
	if i >= len(list) {
		und("missing final return")
		return n
	}
	if c.isMissReturn(list[i]) {
		n.Tail = ""
	} else if ret, ok := list[i].(*ast.ReturnStmt); ok && len(ret.Results) == 1 {
		fn, ok := c.routeCall(ret.Results[0])
		if !ok {
			und("tail return is neither a miss nor a route call")
		}
		n.Tail = fn
	} else {
		und("unexpected statement %T where the final return was expected", list[i])
	}
	i++
	for ; i < len(list); i++ {
		und("unconsumed statement %T at end of route function", list[i])
	}
	return n
}

// routeCall: rt.routeX(path, method)
func (c *rmCtx) routeCall(e ast.Expr) (string, bool) {
	call, ok := ast.Unparen(e).(*ast.CallExpr)
	if !ok || len(call.Args) != 2 || !c.isObj(call.Args[0], c.path) || !c.isObj(call.Args[1], c.method) {
		return "", false
	}
	sel, ok := call.Fun.(*ast.SelectorExpr)
	if !ok || !c.isObj(sel.X, c.recv) {
		return "", false
	}
	fn, _ := c.info.Uses[sel.Sel].(*types.Func)
	if fn == nil || !strings.HasPrefix(fn.Name(), "route") {
		return "", false
	}
	return fn.Name(), true
}

func (c *rmCtx) leafBlock(n *RouteNode, list []ast.Stmt, prefixObj types.Object, und func(string, ...any)) {
	i := 0
	if i < len(list) {
		if sw, ok := list[i].(*ast.SwitchStmt); ok && sw.Tag != nil && prefixObj != nil && c.isObj(sw.Tag, prefixObj) {
			for _, cc := range sw.Body.List {
				cl := cc.(*ast.CaseClause)
				if len(cl.List) != 1 {
					und("leaf prefix clause with %d expressions", len(cl.List))
					continue
				}
				pre, ok := c.constStr(cl.List[0])
				if !ok {
					und("non-constant leaf prefix")
					continue
				}
				clBody := cl.Body
				if sw2, n := c.ifRunAsSwitch(clBody); n == len(clBody) && n > 0 {
					clBody = []ast.Stmt{sw2}
				}
				if len(clBody) != 1 {
					und("leaf prefix %q: body is not a single method switch", pre)
					continue
				}
				ms, ok := c.methodSwitch(clBody[0], und)
				if !ok {
					und("leaf prefix %q: body is not a method switch", pre)
					continue
				}
				if _, dup := n.LitLeaves[pre]; dup {
					und("duplicate leaf prefix %q", pre)
				}
				n.LitLeaves[pre] = ms
				n.LitOrder = append(n.LitOrder, pre)
			}
			i++
		}
	}
	if i < len(list) {
		if sw2, k := c.ifRunAsSwitch(list[i:]); k > 0 {
			if ms, ok := c.methodSwitch(sw2, und); ok {
				n.VarLeaf = ms
				i += k
			}
		} else if ms, ok := c.methodSwitch(list[i], und); ok {
			n.VarLeaf = ms
			i++
		}
	}
	if i < len(list) && c.isMissReturn(list[i]) {
		i++
	} else {
		und("leaf block does not end in a miss return")
	}
	for ; i < len(list); i++ {
		und("unconsumed statement %T in leaf block", list[i])
	}
}

// ifRunAsSwitch: a run of `if method == C { … }` statements (no else, no init) at the head of list is the
// same dispatch as `switch method { case C: … }` when every body ends in a return; returns the
// synthesised switch and the number of statements it replaces.
func (c *rmCtx) ifRunAsSwitch(list []ast.Stmt) (*ast.SwitchStmt, int) {
	var clauses []ast.Stmt
	n := 0
	var tag ast.Expr
	for _, st := range list {
		ifs, ok := st.(*ast.IfStmt)
		if !ok || ifs.Init != nil || ifs.Else != nil || len(ifs.Body.List) == 0 {
			break
		}
		be, ok := ast.Unparen(ifs.Cond).(*ast.BinaryExpr)
		if !ok || be.Op != token.EQL || !c.isObj(be.X, c.method) {
			break
		}
		if _, isConst := c.constStr(be.Y); !isConst {
			break
		}
		if _, isRet := ifs.Body.List[len(ifs.Body.List)-1].(*ast.ReturnStmt); !isRet {
			break
		}
		tag = be.X
		clauses = append(clauses, &ast.CaseClause{Case: ifs.Pos(), List: []ast.Expr{be.Y}, Colon: ifs.Body.Lbrace, Body: ifs.Body.List})
		n++
	}
	if n == 0 {
		return nil, 0
	}
	return &ast.SwitchStmt{Switch: list[0].Pos(), Tag: tag, Body: &ast.BlockStmt{Lbrace: list[0].Pos(), List: clauses, Rbrace: list[n-1].End()}}, n
}

func (c *rmCtx) methodSwitch(st ast.Stmt, und func(string, ...any)) (*MethodSwitch, bool) {
	sw, ok := st.(*ast.SwitchStmt)
	if !ok || sw.Init != nil || sw.Tag == nil || !c.isObj(sw.Tag, c.method) {
		return nil, false
	}
	ms := &MethodSwitch{Arms: map[string]*Leaf{}}
	for _, cc := range sw.Body.List {
		cl := cc.(*ast.CaseClause)
		if len(cl.List) != 1 {
			und("method clause with %d expressions", len(cl.List))
			continue
		}
		meth, ok := c.constStr(cl.List[0])
		if !ok {
			und("non-constant method case")
			continue
		}
		lf := c.leaf(cl.Body, und)
		if lf == nil {
			continue
		}
		lf.Method = meth
		lf.Pos = cl.Pos()
		if lf.wrapFn != nil {
			c.node.WrapFns = append(c.node.WrapFns, lf.wrapFn)
		}
		if lf.authOrFn != nil {
			c.node.AuthOrFns = append(c.node.AuthOrFns, lf.authOrFn)
		}
		if lf.directOr {
			c.node.DirectOr = true
		}
		if _, dup := ms.Arms[meth]; dup {
			und("duplicate method case %s", meth)
		}
		ms.Arms[meth] = lf
		ms.Order = append(ms.Order, meth)
	}
	return ms, true
}

func (c *rmCtx) strSliceLit(e ast.Expr) ([]string, bool) {
	cl, ok := ast.Unparen(e).(*ast.CompositeLit)
	if !ok {
		return nil, false
	}
	t := c.info.TypeOf(cl)
	sl, ok := t.Underlying().(*types.Slice)
	if !ok || !types.Identical(sl.Elem(), types.Typ[types.String]) {
		return nil, false
	}
	out := []string{}
	for _, el := range cl.Elts {
		s, ok := c.constStr(el)
		if !ok {
			return nil, false
		}
		out = append(out, s)
	}
	return out, true
}

func (c *rmCtx) leaf(body []ast.Stmt, und func(string, ...any)) *Leaf {
	if len(body) == 0 {
		und("empty method arm")
		return nil
	}
	// the arm's tail extracted into a helper: `return rt.corsRoute(methods, headers)`
	if len(body) == 1 {
		if ret, ok := body[0].(*ast.ReturnStmt); ok && len(ret.Results) == 1 {
			if _, isRoute := c.routeCall(ret.Results[0]); !isRoute {
				if exp, ok := c.p.inliner().expandTailCall(body); ok {
					body = exp
				}
			}
		}
	}
	// CORS form
	if ifs, ok := body[0].(*ast.IfStmt); ok {
		lf := &Leaf{Kind: "cors"}
		be, okb := ifs.Cond.(*ast.BinaryExpr)
		var corsField *types.Var
		if okb && be.Op == token.EQL && isNilIdent(be.Y) {
			corsField = c.rtField(be.X)
		}
		// two spellings: `if F == nil { return miss }; [h := F(M,H);] return h|F(M,H), T, B`
		//            or  `if F != nil { [h := F(M,H);] return h|F(M,H), T, B }; return miss`
		var build []ast.Stmt
		switch {
		case corsField != nil && ifs.Else == nil && len(ifs.Body.List) == 1 && c.isMissReturn(ifs.Body.List[0]):
			build = body[1:]
		default:
			if okb && be.Op == token.NEQ && isNilIdent(be.Y) && ifs.Else == nil && len(body) == 2 && c.isMissReturn(body[1]) {
				corsField = c.rtField(be.X)
				build = ifs.Body.List
			}
		}
		if corsField == nil || build == nil {
			und("CORS arm: first statement is not `if rt.CORSHandler == nil { return miss }` (or its inverted form)")
			return nil
		}
		lf.CorsNilGuard = true
		if len(build) < 1 || len(build) > 2 {
			und("CORS arm has %d statements", len(body))
			return nil
		}
		ret, ok := build[len(build)-1].(*ast.ReturnStmt)
		if !ok || len(ret.Results) != 3 {
			und("CORS arm: does not return the handler it built")
			return nil
		}
		var callE ast.Expr = ret.Results[0]
		if len(build) == 2 {
			as, ok := build[0].(*ast.AssignStmt)
			if !ok || as.Tok != token.DEFINE || len(as.Lhs) != 1 || len(as.Rhs) != 1 || !c.isObj(ret.Results[0], identObj(c.info, as.Lhs[0])) {
				und("CORS arm: expected `h := rt.CORSHandler(methods, headers)` and `return h, …`")
				return nil
			}
			callE = as.Rhs[0]
		}
		call, ok := ast.Unparen(callE).(*ast.CallExpr)
		if !ok || len(call.Args) != 2 || c.rtField(call.Fun) != corsField {
			und("CORS arm: handler is not built by the guarded rt.CORSHandler field")
			return nil
		}
		var ok1, ok2 bool
		lf.CorsMethods, ok1 = c.strSliceLit(call.Args[0])
		lf.CorsHeaders, ok2 = c.strSliceLit(call.Args[1])
		if !ok1 || !ok2 {
			und("CORS arm: arguments are not constant []string literals")
			return nil
		}
		lf.Template, _ = c.constStr(ret.Results[1])
		tv := c.info.Types[ret.Results[2]]
		if tv.Value == nil {
			und("CORS arm: hasPath is not constant")
			return nil
		}
		lf.HasPath = constant.BoolVal(tv.Value)
		return lf
	}
	// operation form
	lf := &Leaf{Kind: "op"}
	as, ok := body[0].(*ast.AssignStmt)
	if !ok || as.Tok != token.DEFINE || len(as.Lhs) != 1 || len(as.Rhs) != 1 {
		und("operation arm: expected `h := http.Handler(rt.<Op>Handler)`")
		return nil
	}
	h := identObj(c.info, as.Lhs[0])
	conv, ok := as.Rhs[0].(*ast.CallExpr)
	if !ok || len(conv.Args) != 1 {
		und("operation arm: handler is not a conversion of an API field")
		return nil
	}
	if tv, ok := c.info.Types[conv.Fun]; !ok || !tv.IsType() || tv.Type.String() != "net/http.Handler" {
		und("operation arm: handler is not converted to http.Handler")
		return nil
	}
	fld := c.rtField(conv.Args[0])
	if fld == nil {
		und("operation arm: handler is not a field of the receiver")
		return nil
	}
	lf.Field, lf.FieldObj = fld.Name(), fld
	i := 1
	for i < len(body)-1 {
		as, ok := body[i].(*ast.AssignStmt)
		if !ok || as.Tok != token.ASSIGN || len(as.Lhs) != 1 || len(as.Rhs) != 1 || !c.isObj(as.Lhs[0], h) {
			und("operation arm: unexpected statement %T before return", body[i])
			return nil
		}
		call, ok := as.Rhs[0].(*ast.CallExpr)
		if ok {
			// the wrap behind a one-expression helper: `h = withAuth(h, []AuthMiddleware{…})`
			if inner, isCall := firstCallArg(call); !isCall || inner == nil {
				if e, ok2 := c.p.inliner().expandExprCall(call); ok2 {
					if ec, ok3 := ast.Unparen(e).(*ast.CallExpr); ok3 {
						if in2, isCall2 := firstCallArg(ec); isCall2 && in2 != nil {
							call = ec
						}
					}
				}
			}
		}
		if !ok || len(call.Args) != 2 || !c.isObj(call.Args[0], h) {
			und("operation arm: wrap is not middlewares(h, authMiddlewareOr(...))")
			return nil
		}
		wrapFn := typeutil.Callee(c.info, call)
		if wrapFn == nil || wrapFn.Pkg() != c.p.Pkg.Types || wrapFn.Parent() != c.p.Pkg.Types.Scope() {
			und("operation arm: wrap is not a package-level helper of the generated package")
			return nil
		}
		lf.wrapFn = wrapFn
		if cl, isLit := ast.Unparen(call.Args[1]).(*ast.CompositeLit); isLit {
			// h = withAuth(h, []AuthMiddleware{a, b}): one helper that is the OR-combinator applied to h
			okAll := true
			for _, a := range cl.Elts {
				f := c.rtField(a)
				if f == nil {
					okAll = false
					break
				}
				lf.Auth = append(lf.Auth, f.Name())
				lf.AuthObjs = append(lf.AuthObjs, f)
			}
			if !okAll {
				und("operation arm: authenticator is not a field of the receiver")
				return nil
			}
			lf.directOr = true
			lf.Wrapped++
			i++
			continue
		}
		inner, ok := call.Args[1].(*ast.CallExpr)
		if !ok {
			und("operation arm: second argument of middlewares is not a call")
			return nil
		}
		orFn := typeutil.Callee(c.info, inner)
		if orFn == nil || orFn.Pkg() != c.p.Pkg.Types || orFn.Parent() != c.p.Pkg.Types.Scope() {
			und("operation arm: middleware is not built by a package-level auth combinator")
			return nil
		}
		lf.authOrFn = orFn
		authArgs := inner.Args
		if inner.Ellipsis.IsValid() && len(inner.Args) == 1 {
			// authMiddlewareOr([]AuthMiddleware{a, b}...)
			if cl, ok := ast.Unparen(inner.Args[0]).(*ast.CompositeLit); ok {
				authArgs = cl.Elts
			}
		}
		for _, a := range authArgs {
			f := c.rtField(a)
			if f == nil {
				und("operation arm: authenticator is not a field of the receiver")
				return nil
			}
			lf.Auth = append(lf.Auth, f.Name())
			lf.AuthObjs = append(lf.AuthObjs, f)
		}
		lf.Wrapped++
		i++
	}
	ret, ok := body[len(body)-1].(*ast.ReturnStmt)
	if !ok || len(ret.Results) != 3 || !c.isObj(ret.Results[0], h) {
		und("operation arm: does not end in `return h, <template>, <hasPath>`")
		return nil
	}
	var okT bool
	lf.Template, okT = c.constStr(ret.Results[1])
	tv := c.info.Types[ret.Results[2]]
	if !okT || tv.Value == nil || tv.Value.Kind() != constant.Bool {
		und("operation arm: template / hasPath are not constants")
		return nil
	}
	lf.HasPath = constant.BoolVal(tv.Value)
	return lf
}

// recogniseSplitPath checks the body of splitPath against its summarised
// contract: "" -> ("",""), "/a" -> ("/a",""), "/a/b…" -> ("/a","/b…"),
// no-leading-slash s -> (s,"").
func recogniseSplitPath(p *Program, fd *ast.FuncDecl) (bool, string) {
	info := p.Pkg.TypesInfo
	ps := paramObjs(info, fd)
	if len(ps) != 1 || len(fd.Body.List) != 4 {
		return false, "splitPath does not have 1 parameter / 4 statements"
	}
	s := ps[0]
	c := &rmCtx{p: p, info: info}
	retS := func(st ast.Stmt) bool {
		ret, ok := st.(*ast.ReturnStmt)
		if !ok || len(ret.Results) != 2 || !c.isObj(ret.Results[0], s) {
			return false
		}
		v, ok := c.constStr(ret.Results[1])
		return ok && v == ""
	}
	if1, ok := fd.Body.List[0].(*ast.IfStmt)
	if !ok || if1.Else != nil || len(if1.Body.List) != 1 || !retS(if1.Body.List[0]) {
		return false, "first statement is not `if !HasPrefix(s, \"/\") { return s, \"\" }`"
	}
	if pre, ok := c.notHasPrefix(if1.Cond, s); !ok || pre != "/" {
		return false, "first guard is not !strings.HasPrefix(s, \"/\")"
	}
	as, ok := fd.Body.List[1].(*ast.AssignStmt)
	if !ok || as.Tok != token.DEFINE || len(as.Lhs) != 1 || len(as.Rhs) != 1 {
		return false, "second statement is not `idx := strings.Index(s[1:], \"/\")`"
	}
	idx := info.Defs[as.Lhs[0].(*ast.Ident)]
	call, ok := c.stdCall(as.Rhs[0], "strings.Index")
	if !ok || len(call.Args) != 2 {
		return false, "idx is not strings.Index(...)"
	}
	sl, ok := call.Args[0].(*ast.SliceExpr)
	if !ok || !c.isObj(sl.X, s) || sl.High != nil || sl.Low == nil {
		return false, "Index argument is not s[1:]"
	}
	if k, ok := c.constInt(sl.Low); !ok || k != 1 {
		return false, "Index argument is not s[1:]"
	}
	if sep, ok := c.constStr(call.Args[1]); !ok || sep != "/" {
		return false, "Index separator is not \"/\""
	}
	if2, ok := fd.Body.List[2].(*ast.IfStmt)
	if !ok || if2.Else != nil || len(if2.Body.List) != 1 || !retS(if2.Body.List[0]) {
		return false, "third statement is not `if idx == -1 { return s, \"\" }`"
	}
	be, ok := if2.Cond.(*ast.BinaryExpr)
	if !ok || be.Op != token.EQL || !c.isObj(be.X, idx) {
		return false, "third guard is not idx == -1"
	}
	if k, ok := c.constInt(be.Y); !ok || k != -1 {
		return false, "third guard is not idx == -1"
	}
	ret, ok := fd.Body.List[3].(*ast.ReturnStmt)
	if !ok || len(ret.Results) != 2 {
		return false, "last statement is not a two-value return"
	}
	isIdxPlus1 := func(e ast.Expr) bool {
		b, ok := e.(*ast.BinaryExpr)
		if !ok || b.Op != token.ADD || !c.isObj(b.X, idx) {
			return false
		}
		k, ok := c.constInt(b.Y)
		return ok && k == 1
	}
	a, ok1 := ret.Results[0].(*ast.SliceExpr)
	b, ok2 := ret.Results[1].(*ast.SliceExpr)
	if !ok1 || !ok2 || !c.isObj(a.X, s) || !c.isObj(b.X, s) || a.Low != nil || a.High == nil || !isIdxPlus1(a.High) || b.High != nil || b.Low == nil || !isIdxPlus1(b.Low) {
		return false, "last statement is not `return s[:idx+1], s[idx+1:]`"
	}
	return true, ""
}

// splitPathContract is the summary used by the model interpreter.
func splitPathContract(s string) (string, string) {
	if !strings.HasPrefix(s, "/") {
		return s, ""
	}
	idx := strings.Index(s[1:], "/")
	if idx == -1 {
		return s, ""
	}
	return s[:idx+1], s[idx+1:]
}

// Eval interprets the model on one (path, method): which leaf is returned.
func (m *RouterModel) Eval(path, method string) *Leaf {
	return m.evalNode(m.Nodes["route"], path, method, 0)
}

func (m *RouterModel) evalNode(n *RouteNode, path, method string, depth int) *Leaf {
	if n == nil || depth > 64 {
		return nil
	}
	if n.BaseStrip != "" {
		if !strings.HasPrefix(path, n.BaseStrip) {
			return nil
		}
		path = path[len(n.BaseStrip):]
	}
	if n.SlashGuard && !strings.HasPrefix(path, "/") {
		return nil
	}
	prefix, path := splitPathContract(path)
	if n.HasLeaf && path == "" {
		if ms := n.LitLeaves[prefix]; ms != nil && n.UsesPrefix {
			if lf := ms.Arms[method]; lf != nil {
				return lf
			}
		}
		if n.VarLeaf != nil {
			if lf := n.VarLeaf.Arms[method]; lf != nil {
				return lf
			}
		}
		return nil
	}
	for _, ch := range n.Children {
		if ch.Prefix == prefix {
			lf := m.evalNode(m.Nodes[ch.Fn], path, method, depth+1)
			if !ch.Backtrack {
				return lf
			}
			if lf != nil {
				return lf
			}
			break
		}
	}
	if n.Tail != "" {
		return m.evalNode(m.Nodes[n.Tail], path, method, depth+1)
	}
	return nil
}

func (m *RouterModel) AllLeaves() []*Leaf {
	var out []*Leaf
	for _, name := range m.Order {
		n := m.Nodes[name]
		for _, pre := range n.LitOrder {
			ms := n.LitLeaves[pre]
			for _, meth := range ms.Order {
				out = append(out, ms.Arms[meth])
			}
		}
		if n.VarLeaf != nil {
			for _, meth := range n.VarLeaf.Order {
				out = append(out, n.VarLeaf.Arms[meth])
			}
		}
	}
	return out
}

// ---------------------------------------------------------------------------
// ServeHTTP

func buildServeModel(p *Program, fd *ast.FuncDecl) *ServeModel {
	info := p.Pkg.TypesInfo
	sm := &ServeModel{Decl: fd}
	und := func(format string, a ...any) { sm.Undecided = append(sm.Undecided, fmt.Sprintf(format, a...)) }
	c := &rmCtx{p: p, info: info, recv: recvObj(info, fd)}
	ps := paramObjs(info, fd)
	if len(ps) != 2 {
		und("ServeHTTP parameters")
		return sm
	}
	rw, req := ps[0], ps[1]
	list := fd.Body.List
	// equivalent spelling of statements 4 and 5: `if h == nil { fallback } else if hasPath { wrap }` —
	// the wrap is then unreachable for the fallback by construction (no `hasPath = false` needed)
	elseForm := false
	if len(list) == 5 {
		if ifs, ok := list[3].(*ast.IfStmt); ok && ifs.Init == nil {
			if e, ok := ifs.Else.(*ast.IfStmt); ok && e.Else == nil && e.Init == nil {
				first := &ast.IfStmt{If: ifs.If, Cond: ifs.Cond, Body: ifs.Body}
				list = []ast.Stmt{list[0], list[1], list[2], first, e, list[4]}
				elseForm = true
			}
		}
	}
	if len(list) != 6 {
		und("ServeHTTP has %d top-level statements, the recognised shape has 6", len(list))
		return sm
	}
	// 1. path := r.URL.Path
	var pathObj types.Object
	if as, ok := list[0].(*ast.AssignStmt); ok && as.Tok == token.DEFINE && len(as.Lhs) == 1 && len(as.Rhs) == 1 {
		pathObj = info.Defs[as.Lhs[0].(*ast.Ident)]
		if types.ExprString(as.Rhs[0]) == req.Name()+".URL.Path" {
			if sel, ok := as.Rhs[0].(*ast.SelectorExpr); ok {
				if s2, ok := sel.X.(*ast.SelectorExpr); ok && c.isObj(s2.X, req) {
					sm.PathFromURL = true
				}
			}
		}
	}
	if !sm.PathFromURL {
		und("first statement is not `path := r.URL.Path`")
		return sm
	}
	// 2. spec branch
	if ifs, ok := list[1].(*ast.IfStmt); ok && ifs.Else == nil && ifs.Init == nil {
		cond := ifs.Cond
		if call, isCall := ast.Unparen(cond).(*ast.CallExpr); isCall {
			// the test extracted into a read-only helper: `if rt.isSpecFileRequest(path)`
			if e, ok := p.inliner().expandExprCall(call); ok {
				cond = e
			}
		}
		if be, ok := ast.Unparen(cond).(*ast.BinaryExpr); ok && be.Op == token.LAND {
			l, okl := ast.Unparen(be.X).(*ast.BinaryExpr)
			r2, okr := ast.Unparen(be.Y).(*ast.BinaryExpr)
			if okl && okr && l.Op == token.NEQ && isNilIdent(l.Y) && r2.Op == token.EQL && c.isObj(r2.X, pathObj) {
				specField := c.rtField(l.X)
				if k, ok := c.constStr(r2.Y); ok && specField != nil {
					sm.SpecConst = k
					sm.SpecNilGuard = true
					if len(ifs.Body.List) == 2 {
						if es, ok := ifs.Body.List[0].(*ast.ExprStmt); ok {
							if call, ok := es.X.(*ast.CallExpr); ok && len(call.Args) == 2 && c.isObj(call.Args[0], rw) && c.isObj(call.Args[1], req) {
								if sel, ok := call.Fun.(*ast.SelectorExpr); ok && sel.Sel.Name == "ServeHTTP" && c.rtField(sel.X) == specField {
									if ret, ok := ifs.Body.List[1].(*ast.ReturnStmt); ok && len(ret.Results) == 0 {
										sm.SpecReturns = true
									}
								}
							}
						}
					}
				}
			}
		}
	}
	if !sm.SpecReturns {
		und("second statement is not the spec-file branch `if rt.SpecFileHandler != nil && path == <const> { rt.SpecFileHandler.ServeHTTP(rw, r); return }`")
		return sm
	}
	sm.SpecBeforeRoute = true
	// 3. h, path, hasPath := rt.route(path, r.Method)
	var h, tmpl, hasPath types.Object
	if as, ok := list[2].(*ast.AssignStmt); ok && as.Tok == token.DEFINE && len(as.Lhs) == 3 && len(as.Rhs) == 1 {
		if call, ok := as.Rhs[0].(*ast.CallExpr); ok && len(call.Args) == 2 && c.isObj(call.Args[0], pathObj) {
			if sel, ok := call.Fun.(*ast.SelectorExpr); ok && c.isObj(sel.X, c.recv) && sel.Sel.Name == "route" {
				if m, ok := call.Args[1].(*ast.SelectorExpr); ok && c.isObj(m.X, req) && m.Sel.Name == "Method" {
					sm.RouteArgsOK = true
					h = identObj(info, as.Lhs[0])
					tmpl = identObj(info, as.Lhs[1])
					hasPath = identObj(info, as.Lhs[2])
				}
			}
		}
	}
	if !sm.RouteArgsOK {
		und("third statement is not `h, path, hasPath := rt.route(path, r.Method)`")
		return sm
	}
	// 4. if h == nil { h = rt.NotFoundHandler; if h == nil { h = http.NotFoundHandler() }; hasPath = false }
	if ifs, ok := list[3].(*ast.IfStmt); ok && ifs.Else == nil {
		be, okb := ifs.Cond.(*ast.BinaryExpr)
		if okb && be.Op == token.EQL && c.isObj(be.X, h) && isNilIdent(be.Y) {
			body := ifs.Body.List
			if elseForm {
				sm.HasPathFalse = true
			}
			// optional trailing `hasPath = false`
			if n := len(body); n > 0 {
				if a3, ok := body[n-1].(*ast.AssignStmt); ok && len(a3.Lhs) == 1 && c.isObj(a3.Lhs[0], hasPath) && a3.Tok == token.ASSIGN {
					if tv := info.Types[a3.Rhs[0]]; tv.Value != nil && tv.Value.Kind() == constant.Bool && !constant.BoolVal(tv.Value) {
						sm.HasPathFalse = true
						body = body[:n-1]
					}
				}
			}
			// the fallback leaves h non-nil: `h = rt.F; if h == nil { h = http.NotFoundHandler() }`
			// or `h = rt.<method>()` whose every return is non-nil
			switch len(body) {
			case 2:
				a1, ok1 := body[0].(*ast.AssignStmt)
				i2, ok2 := body[1].(*ast.IfStmt)
				if ok1 && ok2 && len(a1.Lhs) == 1 && c.isObj(a1.Lhs[0], h) && c.rtField(a1.Rhs[0]) != nil && a1.Tok == token.ASSIGN {
					be2, okb2 := i2.Cond.(*ast.BinaryExpr)
					if okb2 && be2.Op == token.EQL && c.isObj(be2.X, h) && isNilIdent(be2.Y) && len(i2.Body.List) == 1 && i2.Else == nil {
						if a, ok := i2.Body.List[0].(*ast.AssignStmt); ok && len(a.Lhs) == 1 && c.isObj(a.Lhs[0], h) {
							if _, ok := c.stdCall(a.Rhs[0], "net/http.NotFoundHandler"); ok {
								sm.NotFoundOK = true
							}
						}
					}
				}
			case 1:
				if a1, ok := body[0].(*ast.AssignStmt); ok && len(a1.Lhs) == 1 && len(a1.Rhs) == 1 && c.isObj(a1.Lhs[0], h) && a1.Tok == token.ASSIGN {
					if call, ok := ast.Unparen(a1.Rhs[0]).(*ast.CallExpr); ok && len(call.Args) == 0 {
						if sel, ok := call.Fun.(*ast.SelectorExpr); ok && c.isObj(sel.X, c.recv) {
							if fo, ok := typeutil.Callee(info, call).(*types.Func); ok && nonNilHandlerFunc(p, declOfObj(p, fo)) {
								sm.NotFoundOK = true
							}
						}
					}
				}
			}
		}
	}
	if !sm.NotFoundOK || !sm.HasPathFalse {
		und("fourth statement is not the not-found fallback that also forces hasPath = false")
		return sm
	}
	// 5. if hasPath { r = r.WithContext(context.WithValue(r.Context(), pathKey{}, path)); for i := len(rt.Middlewares)-1; i >= 0; i-- { h = rt.Middlewares[i](h) } }
	if ifs, ok := list[4].(*ast.IfStmt); ok && ifs.Else == nil && ifs.Init == nil && c.isObj(ifs.Cond, hasPath) && len(ifs.Body.List) >= 2 {
		if as, ok := ifs.Body.List[0].(*ast.AssignStmt); ok && as.Tok == token.ASSIGN && len(as.Lhs) == 1 && c.isObj(as.Lhs[0], req) {
			wcE := as.Rhs[0]
			if hc, isCall := ast.Unparen(wcE).(*ast.CallExpr); isCall {
				if _, isSel := hc.Fun.(*ast.SelectorExpr); !isSel {
					// the store behind a one-expression helper: r = withSchemaPath(r, path)
					if e, ok2 := p.inliner().expandExprCall(hc); ok2 {
						wcE = e
					}
				}
			}
			if wc, ok := ast.Unparen(wcE).(*ast.CallExpr); ok && len(wc.Args) == 1 {
				if sel, ok := wc.Fun.(*ast.SelectorExpr); ok && sel.Sel.Name == "WithContext" && c.isObj(sel.X, req) {
					if wv, ok := c.stdCall(wc.Args[0], "context.WithValue"); ok && len(wv.Args) == 3 {
						keyT := info.TypeOf(wv.Args[1])
						_, isLit := wv.Args[1].(*ast.CompositeLit)
						ctxCall, okc := wv.Args[0].(*ast.CallExpr)
						okCtx := false
						if okc {
							if s3, ok := ctxCall.Fun.(*ast.SelectorExpr); ok && s3.Sel.Name == "Context" && c.isObj(s3.X, req) {
								okCtx = true
							}
						}
						if okCtx && isLit && keyT != nil && c.isObj(wv.Args[2], tmpl) && schemaPathReadsKey(p, keyT) {
							sm.CtxStoreOK = true
						}
					}
				}
			}
		}
		if len(ifs.Body.List) == 2 {
			switch ifs.Body.List[1].(type) {
			case *ast.ForStmt, *ast.RangeStmt:
				sm.LoopInsideHasPath = true
				sm.LoopReverse = c.reverseWrapLoop(ifs.Body.List[1], h)
			}
		} else if c.reversedCopyThenForward(ifs.Body.List[1:], h) {
			// a private reversed copy of rt.Middlewares walked forward
			sm.LoopInsideHasPath = true
			sm.LoopReverse = true
		}
	}
	if !sm.CtxStoreOK {
		und("context store of the matched template (pathKey{} -> route's second result, readable by SchemaPath) not recognised inside `if hasPath`")
	}
	if !sm.LoopReverse {
		und("middleware loop is not `for i := len(rt.Middlewares)-1; i >= 0; i-- { h = rt.Middlewares[i](h) }` inside `if hasPath`")
	}
	// 6. h.ServeHTTP(rw, r)
	if es, ok := list[5].(*ast.ExprStmt); ok {
		if call, ok := es.X.(*ast.CallExpr); ok && len(call.Args) == 2 && c.isObj(call.Args[0], rw) && c.isObj(call.Args[1], req) {
			if sel, ok := call.Fun.(*ast.SelectorExpr); ok && sel.Sel.Name == "ServeHTTP" && c.isObj(sel.X, h) {
				sm.FinalServe = true
			}
		}
	}
	if !sm.FinalServe {
		und("last statement is not `h.ServeHTTP(rw, r)`")
	}
	return sm
}

// reverseWrapLoop: for i := len(rt.F)-1; i >= 0; i-- { h = rt.F[i](h) }
func (c *rmCtx) reverseWrapLoop(loop ast.Stmt, h types.Object) bool {
	return c.reverseWrapLoopAfter(loop, nil, h)
}

// reverseWrapLoopAfter: the loop applies rt.F[idx](h) to h once per element, idx visiting
// len(rt.F)-1 … 0 (any loop spelling, see revloop.go); before = the statements preceding it.
func (c *rmCtx) reverseWrapLoopAfter(loop ast.Stmt, before []ast.Stmt, h types.Object) bool {
	var fld *types.Var
	isSlice := func(e ast.Expr) bool {
		f := c.rtField(e)
		if f == nil {
			return false
		}
		if fld == nil {
			fld = f
		}
		return f == fld
	}
	// the slice is fixed by the body's index expression
	var body *ast.BlockStmt
	switch l := loop.(type) {
	case *ast.ForStmt:
		body = l.Body
	case *ast.RangeStmt:
		body = l.Body
	default:
		return false
	}
	if len(body.List) != 1 {
		return false
	}
	as, ok := body.List[0].(*ast.AssignStmt)
	if !ok || as.Tok != token.ASSIGN || len(as.Lhs) != 1 || !c.isObj(as.Lhs[0], h) {
		return false
	}
	call, ok := as.Rhs[0].(*ast.CallExpr)
	if !ok || len(call.Args) != 1 || !c.isObj(call.Args[0], h) {
		return false
	}
	ix, ok := call.Fun.(*ast.IndexExpr)
	if !ok || !isSlice(ix.X) {
		return false
	}
	return newRevLoop(c.info, loop, before, isSlice).visitsDescending(ix.Index)
}

// reversedCopyThenForward: stmts = `W := <copy of rt.F>` ; <in-place reversal of W> ; `for _, w := range W { h = w(h) }`
// — the elements of rt.F are applied to h in descending index order through a private copy.
func (c *rmCtx) reversedCopyThenForward(stmts []ast.Stmt, h types.Object) bool {
	if len(stmts) != 3 {
		return false
	}
	// 1. the copy
	as, ok := stmts[0].(*ast.AssignStmt)
	if !ok || as.Tok != token.DEFINE || len(as.Lhs) != 1 || len(as.Rhs) != 1 {
		return false
	}
	w := identObj(c.info, as.Lhs[0])
	call, ok := ast.Unparen(as.Rhs[0]).(*ast.CallExpr)
	if w == nil || !ok {
		return false
	}
	var src *types.Var
	switch {
	case calleeName(c.info, call) == "slices.Clone" && len(call.Args) == 1:
		src = c.rtField(call.Args[0])
	default:
		if id, isId := call.Fun.(*ast.Ident); isId && id.Name == "append" && len(call.Args) == 2 && call.Ellipsis.IsValid() {
			// append([]T(nil), rt.F...) / append([]T{}, rt.F...)
			fresh := false
			switch b := ast.Unparen(call.Args[0]).(type) {
			case *ast.CallExpr:
				if tv, ok := c.info.Types[b.Fun]; ok && tv.IsType() && len(b.Args) == 1 && isNilIdent(b.Args[0]) {
					fresh = true
				}
			case *ast.CompositeLit:
				fresh = len(b.Elts) == 0
			case *ast.SliceExpr:
				// S[:0:0] has no capacity: append must allocate (S[:0] would alias S)
				if b.Slice3 && b.Low == nil && b.High != nil && b.Max != nil {
					hv, ok1 := c.constInt(b.High)
					mv, ok2 := c.constInt(b.Max)
					fresh = ok1 && ok2 && hv == 0 && mv == 0
				}
			}
			if fresh {
				src = c.rtField(call.Args[1])
			}
		}
	}
	if src == nil {
		return false
	}
	// 2. the reversal of W in place
	reversed := false
	switch r := stmts[1].(type) {
	case *ast.ExprStmt:
		if rc, ok := r.X.(*ast.CallExpr); ok && calleeName(c.info, rc) == "slices.Reverse" && len(rc.Args) == 1 && c.isObj(rc.Args[0], w) {
			reversed = true
		}
	case *ast.ForStmt:
		reversed = c.isSwapReversal(r, w)
	}
	if !reversed {
		return false
	}
	// 3. forward walk applying each element to h
	rs, ok := stmts[2].(*ast.RangeStmt)
	if !ok || !c.isObj(rs.X, w) || rs.Value == nil || len(rs.Body.List) != 1 {
		return false
	}
	if k, isId := rs.Key.(*ast.Ident); rs.Key != nil && (!isId || k.Name != "_") {
		return false
	}
	el := identObj(c.info, rs.Value)
	a2, ok := rs.Body.List[0].(*ast.AssignStmt)
	if !ok || a2.Tok != token.ASSIGN || len(a2.Lhs) != 1 || !c.isObj(a2.Lhs[0], h) {
		return false
	}
	ac, ok := a2.Rhs[0].(*ast.CallExpr)
	return ok && len(ac.Args) == 1 && c.isObj(ac.Args[0], h) && el != nil && c.isObj(ac.Fun, el)
}

// isSwapReversal: for i, j := 0, len(W)-1; i < j; i, j = i+1, j-1 { W[i], W[j] = W[j], W[i] }
func (c *rmCtx) isSwapReversal(f *ast.ForStmt, w types.Object) bool {
	i, j, ok := twoIndexLoop(c, f, w)
	if !ok {
		return false
	}
	if len(f.Body.List) != 1 {
		return false
	}
	sw, ok := f.Body.List[0].(*ast.AssignStmt)
	if !ok || len(sw.Lhs) != 2 || len(sw.Rhs) != 2 {
		return false
	}
	isAt := func(e ast.Expr, idx types.Object) bool {
		ix, ok := e.(*ast.IndexExpr)
		return ok && c.isObj(ix.X, w) && c.isObj(ix.Index, idx)
	}
	return isAt(sw.Lhs[0], i) && isAt(sw.Lhs[1], j) && isAt(sw.Rhs[0], j) && isAt(sw.Rhs[1], i)
}

// firstCallArg: the second argument of a two-argument call when it is itself a call.
func firstCallArg(call *ast.CallExpr) (*ast.CallExpr, bool) {
	if len(call.Args) != 2 {
		return nil, false
	}
	in, ok := ast.Unparen(call.Args[1]).(*ast.CallExpr)
	return in, ok
}

// schemaPathReadsKey: SchemaPath reads r.Context().Value(<keyT>{}) asserted to string.
func schemaPathReadsKey(p *Program, keyT types.Type) bool {
	fd := p.funcDecl("", "SchemaPath")
	if fd == nil {
		return false
	}
	found := false
	ast.Inspect(fd.Body, func(n ast.Node) bool {
		call, ok := n.(*ast.CallExpr)
		if !ok || len(call.Args) != 1 {
			return true
		}
		if sel, ok := call.Fun.(*ast.SelectorExpr); ok && sel.Sel.Name == "Value" {
			if t := p.Pkg.TypesInfo.TypeOf(call.Args[0]); t != nil && types.Identical(t, keyT) {
				found = true
			}
		}
		return true
	})
	return found
}

// declOfObj: the FuncDecl that declares a function or method object.
func declOfObj(p *Program, o types.Object) *ast.FuncDecl {
	if o == nil {
		return nil
	}
	for _, f := range p.Pkg.Syntax {
		for _, d := range f.Decls {
			if fd, ok := d.(*ast.FuncDecl); ok && p.Pkg.TypesInfo.Defs[fd.Name] == o {
				return fd
			}
		}
	}
	return nil
}

// nonNilHandlerFunc: a method without parameters whose every return yields a non-nil
// http.Handler: either http.NotFoundHandler() or an expression returned under `if <it> != nil`.
func nonNilHandlerFunc(p *Program, fd *ast.FuncDecl) bool {
	if fd == nil || fd.Body == nil || fd.Type.Params.NumFields() != 0 {
		return false
	}
	info := p.Pkg.TypesInfo
	c := &rmCtx{p: p, info: info, recv: recvObj(info, fd)}
	ok := true
	nRet := 0
	var walk func(list []ast.Stmt, nonNil []string)
	walk = func(list []ast.Stmt, nonNil []string) {
		for _, st := range list {
			switch x := st.(type) {
			case *ast.ReturnStmt:
				nRet++
				if len(x.Results) != 1 {
					ok = false
					continue
				}
				if _, isNF := c.stdCall(x.Results[0], "net/http.NotFoundHandler"); isNF {
					continue
				}
				good := false
				for _, e := range nonNil {
					if e == types.ExprString(x.Results[0]) {
						good = true
					}
				}
				if !good {
					ok = false
				}
			case *ast.IfStmt:
				if x.Init != nil {
					ok = false
					continue
				}
				nn := nonNil
				if be, isB := ast.Unparen(x.Cond).(*ast.BinaryExpr); isB && be.Op == token.NEQ && isNilIdent(be.Y) && c.rtField(be.X) != nil {
					nn = append(append([]string{}, nonNil...), types.ExprString(be.X))
				}
				walk(x.Body.List, nn)
				switch e := x.Else.(type) {
				case *ast.BlockStmt:
					walk(e.List, nonNil)
				case nil:
				default:
					ok = false
				}
			case *ast.BlockStmt:
				walk(x.List, nonNil)
			default:
				ok = false
			}
		}
	}
	walk(fd.Body.List, nil)
	// the body must end in a return
	if n := len(fd.Body.List); n == 0 {
		return false
	} else if _, isRet := fd.Body.List[n-1].(*ast.ReturnStmt); !isRet {
		return false
	}
	return ok && nRet > 0
}
