package main

// C15 — the generator fails cleanly instead of crashing (S1 only).

import (
	"fmt"
	"go/ast"
	"go/token"
	"go/types"
	"golang.org/x/tools/go/types/typeutil"
	"path/filepath"
	"sort"
	"strconv"
	"strings"

	"golang.org/x/tools/go/ssa"
)

const kinPkg = "github.com/getkin/kin-openapi/openapi3"

type c15 struct {
	// ownOptional: nillable fields of package specification's structs that are only ever assigned below a
	// nil test (so they stay nil when the source member is absent): "Type.Field" -> true
	ownOptional map[string]bool
	r           *Report
	s           *S1
	// mustNonNil[f][i]: parameter i of repo function f is dereferenced without a dominating nil test
	mustNonNil map[*ssa.Function]map[int]string
	fns        []*ssa.Function
}

func runC15(r *Report) {
	r.Explanation = "S1 analysis of the generator for every document the loader accepts (no corpus). optional-deref: kin-openapi models absent optional members as nil pointers/interfaces; the table of optional sources is derived mechanically from the openapi3 type declarations (struct fields, map and slice elements of pointer or interface type) minus the loader-guaranteed *Ref.Value; on SSA every dereference of a value loaded from an optional source (field access, load, method call, passing it to a repo function that dereferences the parameter unconditionally — interprocedural fixed point) must be dominated by a nil test of that value. assert-ok: no single-result type assertion. panic-confined: explicit panic sites are reachable from the entry points only through text/template method invocation (whose safeCall turns panics into errors). bounds: every index/slice site the compiler's prove pass could not discharge matches a checked idiom. exit-code: main turns a non-nil error into log.Fatal*/os.Exit(!=0)."
	r.Rule("C15/optional-deref", "a value loaded from an optional kin-openapi member is nil-tested before it is dereferenced (directly or by a callee that dereferences its parameter unconditionally)")
	r.Rule("C15/schema-ref-phase", "in functions reachable from generator.NewSchema (component schemas still being filled in name order) a Schema method that follows Ref and calls a method on the target's Type (Kind) is guarded by <x>.Ref == nil")
	r.Rule("C15/template-nil-chain", "typed templates (dot types from the ExecuteTemplate call sites and {{template}} actions, steps resolved with go/types): a field chain that walks through an optional pointer (one that Go code or a template tests for nil, or a method with `return nil`) stands under an if/with/and guard of exactly that prefix")
	r.Rule("C15/assert-ok", "no single-result type assertion on the generation path")
	r.Rule("C15/panic-confined", "explicit panic() sites are reachable only through template method invocation, never by a plain Go call path from Generate/main")
	r.Rule("C15/bounds", "every index/slice expression of the generator is proven by the compiler's prove pass or matches a checked idiom")
	r.Rule("C15/error-reaches-exit", "every error returned on the path from a constructor to main is tested and propagated (packages goag, cmd/goag), so a failure cannot end in exit status 0")
	r.Rule("C15/ref-value-phase", "while a self-referential component map is being filled (callbacks of NewMapRefSelf*), Ref[T].Value() of the same kind T is never called: entries that sort later are still empty and the call would dereference nil")
	r.Rule("C15/ref-recursion", "where a constructor tests `<SchemaRef>.Ref != \"\"`, the branch taken for a reference never re-enters the recursive schema constructors: referenced schemas are looked up, only inline schemas (finite trees) are expanded recursively — a structural part of termination")
	r.Rule("C15/exit-code", "cmd/goag main: a non-nil error from Generate* ends in log.Fatal*/os.Exit(!=0)")
	r.Assumptions = append(r.Assumptions,
		"after a successful load, a non-nil *Ref wrapper has a non-nil Value (kin-openapi resolves references)",
		"text/template recovers panics raised inside methods it calls (safeCall) and reports them as errors",
		"termination (cyclic alias chains) and the wording of error messages are NOT decided",
		"the Go compiler's prove pass is sound")
	s, err := LoadS1(true)
	if err != nil {
		r.Break("load S1: %v", err)
		return
	}
	c := &c15{r: r, s: s, mustNonNil: map[*ssa.Function]map[int]string{}}
	for fn := range s.ReachAll {
		pk := fnPkg(fn)
		if pk != nil && isRepoPkg(pk.Pkg.Path()) && fn.Blocks != nil {
			c.fns = append(c.fns, fn)
		}
	}
	sort.Slice(c.fns, func(i, j int) bool { return c.fns[i].String() < c.fns[j].String() })
	c.summaries()
	c.findOwnOptional()
	{
		var ks []string
		for k := range c.ownOptional {
			ks = append(ks, k)
		}
		sort.Strings(ks)
		r.Analysed["own_optional_fields"] = ks
	}
	c.optionalDeref()
	c.assertOK()
	c.panicConfined()
	c.bounds()
	c.exitCode()
	errPropagation(r, s, "C15/error-reaches-exit")
	c.refValuePhase()
	c.refRecursion()
	c.schemaRefPhase()
	c.templateNilChains()
}

func fnPkg(fn *ssa.Function) *ssa.Package {
	for f := fn; f != nil; f = f.Parent() {
		if f.Pkg != nil {
			return f.Pkg
		}
		if o := f.Origin(); o != nil && o.Pkg != nil {
			return o.Pkg
		}
	}
	return nil
}

// nilGuardSuccs returns, for value v, the blocks entered only when v != nil.
func nilGuardSuccs(v ssa.Value) []*ssa.BasicBlock {
	var out []*ssa.BasicBlock
	refs := v.Referrers()
	if refs == nil {
		return nil
	}
	for _, ref := range *refs {
		bo, ok := ref.(*ssa.BinOp)
		if !ok || (bo.Op != token.NEQ && bo.Op != token.EQL) {
			continue
		}
		if !(isNilConst(bo.X) || isNilConst(bo.Y)) {
			continue
		}
		for _, r2 := range *bo.Referrers() {
			iff, ok := r2.(*ssa.If)
			if !ok {
				continue
			}
			if bo.Op == token.NEQ {
				out = append(out, iff.Block().Succs[0])
			} else {
				out = append(out, iff.Block().Succs[1])
			}
		}
	}
	return out
}

// addrKey canonicalises an access path so that two loads of the same
// location (go/ssa performs no CSE) are recognised as the same value.
func addrKey(v ssa.Value) string {
	switch x := v.(type) {
	case *ssa.UnOp:
		if x.Op == token.MUL {
			return "*(" + addrKey(x.X) + ")"
		}
	case *ssa.FieldAddr:
		return addrKey(x.X) + "." + strconv.Itoa(x.Field)
	case *ssa.Field:
		return addrKey(x.X) + ".f" + strconv.Itoa(x.Field)
	case *ssa.Parameter:
		return "param:" + x.Name()
	case *ssa.FreeVar:
		return "free:" + x.Name()
	case *ssa.Lookup:
		if k, ok := x.Index.(*ssa.Const); ok {
			return addrKey(x.X) + "[" + k.String() + "]"
		}
		return addrKey(x.X) + "[" + addrKey(x.Index) + "]"
	}
	return fmt.Sprintf("%s@%p", v.Name(), v)
}

func storedIn(fn *ssa.Function, key string) bool {
	for _, b := range fn.Blocks {
		for _, ins := range b.Instrs {
			if st, ok := ins.(*ssa.Store); ok && "*("+addrKey(st.Addr)+")" == key {
				return true
			}
		}
	}
	return false
}

func guarded(v ssa.Value, at *ssa.BasicBlock) bool {
	cands := []ssa.Value{v}
	if ins, ok := v.(ssa.Instruction); ok {
		fn := ins.Parent()
		key := addrKey(v)
		if !storedIn(fn, key) {
			for _, b := range fn.Blocks {
				for _, i2 := range b.Instrs {
					if u, ok := i2.(ssa.Value); ok && u != v && addrKey(u) == key {
						cands = append(cands, u)
					}
				}
			}
		}
	}
	for _, u := range cands {
		for _, g := range nilGuardSuccs(u) {
			// the guard successor must have the If block as its only predecessor to really encode the condition
			if len(g.Preds) == 1 && g.Dominates(at) {
				return true
			}
		}
	}
	return false
}

// derefsOf lists instructions that dereference v (v is a pointer or interface value).
type derefSite struct {
	ins  ssa.Instruction
	what string
	// for calls into repo functions: callee and parameter index (judged through summaries)
	callee *ssa.Function
	param  int
}

func derefsOf(v ssa.Value) []derefSite {
	var out []derefSite
	refs := v.Referrers()
	if refs == nil {
		return nil
	}
	for _, ref := range *refs {
		switch x := ref.(type) {
		case *ssa.FieldAddr:
			if x.X == v {
				out = append(out, derefSite{ins: x, what: "field access ." + fieldName(x)})
			}
		case *ssa.UnOp:
			if x.Op == token.MUL && x.X == v {
				out = append(out, derefSite{ins: x, what: "load through the pointer"})
			}
		case *ssa.IndexAddr:
			if x.X == v {
				if _, ok := v.Type().Underlying().(*types.Pointer); ok {
					out = append(out, derefSite{ins: x, what: "index through the pointer"})
				}
			}
		case *ssa.Call:
			cc := x.Call
			if cc.IsInvoke() {
				if cc.Value == v {
					out = append(out, derefSite{ins: x, what: "method call " + cc.Method.Name() + " on a possibly nil interface"})
				}
				continue
			}
			sc := cc.StaticCallee()
			for i, a := range cc.Args {
				if a != v {
					continue
				}
				if sc == nil {
					continue
				}
				if sc.Signature.Recv() != nil && i == 0 {
					pk := fnPkg(sc)
					if pk != nil && isRepoPkg(pk.Pkg.Path()) {
						out = append(out, derefSite{ins: x, what: "method " + sc.Name(), callee: sc, param: 0})
					} else if _, isPtr := sc.Signature.Recv().Type().(*types.Pointer); isPtr {
						out = append(out, derefSite{ins: x, what: "method call " + sc.String() + " on a possibly nil pointer"})
					}
					continue
				}
				pk := fnPkg(sc)
				if pk != nil && isRepoPkg(pk.Pkg.Path()) {
					out = append(out, derefSite{ins: x, what: "argument of " + shortFn(sc), callee: sc, param: i})
				}
			}
		}
	}
	return out
}

func fieldName(fa *ssa.FieldAddr) string {
	t := fa.X.Type()
	if p, ok := t.Underlying().(*types.Pointer); ok {
		if st, ok := p.Elem().Underlying().(*types.Struct); ok && fa.Field < st.NumFields() {
			return st.Field(fa.Field).Name()
		}
	}
	return strconv.Itoa(fa.Field)
}

// summaries: fixed point of "parameter is dereferenced without a dominating nil test".
func (c *c15) summaries() {
	for changed := true; changed; {
		changed = false
		for _, fn := range c.fns {
			for i, p := range fn.Params {
				switch p.Type().Underlying().(type) {
				case *types.Pointer, *types.Interface:
				default:
					continue
				}
				if _, done := c.mustNonNil[fn][i]; done {
					continue
				}
				for _, d := range derefsOf(p) {
					if guarded(p, d.ins.Block()) {
						continue
					}
					why := ""
					if d.callee != nil {
						w, ok := c.mustNonNil[originOf(d.callee)][d.param]
						if !ok {
							w, ok = c.mustNonNil[d.callee][d.param]
						}
						if !ok {
							continue
						}
						why = d.what + " -> " + w
					} else {
						why = d.what + " at " + c.s.pos(d.ins.Pos())
					}
					if c.mustNonNil[fn] == nil {
						c.mustNonNil[fn] = map[int]string{}
					}
					c.mustNonNil[fn][i] = why
					changed = true
					break
				}
			}
		}
	}
}

// isOptionalSource: the instruction yields a value that the loader may leave nil.
func isKinType(t types.Type) bool {
	for {
		switch x := t.(type) {
		case *types.Pointer:
			t = x.Elem()
			continue
		case *types.Named:
			return x.Obj().Pkg() != nil && x.Obj().Pkg().Path() == kinPkg
		}
		return false
	}
}

// loaderNonNilElem: the loader rejects a null where a *XRef component is
// expected ("value MUST be a JSON object"), so map/slice elements of *…Ref
// type are non-nil after a successful load.
func loaderNonNilElem(t types.Type) bool {
	if p, ok := t.(*types.Pointer); ok {
		if n, ok := p.Elem().(*types.Named); ok && n.Obj().Pkg() != nil && n.Obj().Pkg().Path() == kinPkg && strings.HasSuffix(n.Obj().Name(), "Ref") {
			return true
		}
	}
	return false
}

func nillable(t types.Type) bool {
	switch t.Underlying().(type) {
	case *types.Pointer, *types.Interface:
		return true
	}
	return false
}

func (c *c15) optionalSource(ins ssa.Instruction) (ssa.Value, string) {
	// goag's own model: a field of a specification struct that is filled only when the source member
	// is present (contradiction rule: the constructor tests for absence, so a reader must too)
	if x, ok := ins.(*ssa.UnOp); ok && x.Op == token.MUL {
		if fa, ok := x.X.(*ssa.FieldAddr); ok {
			if k := ownFieldKey(fa); k != "" && c.ownOptional[k] {
				if fn := ins.Parent(); fn != nil && fnPkg(fn) != nil && fnPkg(fn).Pkg.Path() != modPath+"/specification" {
					return x, "specification." + k
				}
			}
		}
	}
	switch x := ins.(type) {
	case *ssa.UnOp:
		if x.Op != token.MUL || !nillable(x.Type()) {
			return nil, ""
		}
		fa, ok := x.X.(*ssa.FieldAddr)
		if !ok || !isKinType(fa.X.Type()) {
			return nil, ""
		}
		name := fieldName(fa)
		owner := strings.TrimPrefix(strings.TrimPrefix(fa.X.Type().String(), "*"), kinPkg+".")
		if name == "Value" && strings.HasSuffix(owner, "Ref") {
			return nil, "" // loader guarantee
		}
		return x, owner + "." + name
	case *ssa.Field:
		if !nillable(x.Type()) || !isKinType(x.X.Type()) {
			return nil, ""
		}
		st := x.X.Type().Underlying().(*types.Struct)
		return x, strings.TrimPrefix(x.X.Type().String(), kinPkg+".") + "." + st.Field(x.Field).Name()
	case *ssa.Lookup:
		if x.CommaOk {
			return nil, "" // judged at the Extract
		}
		mt, ok := x.X.Type().Underlying().(*types.Map)
		if !ok || !nillable(mt.Elem()) || loaderNonNilElem(mt.Elem()) || !(isKinType(x.X.Type()) || isKinType(mt.Elem())) {
			return nil, ""
		}
		return x, "element of " + strings.TrimPrefix(x.X.Type().String(), kinPkg+".")
	case *ssa.Extract:
		switch t := x.Tuple.(type) {
		case *ssa.Lookup:
			if x.Index != 0 {
				return nil, ""
			}
			mt, ok := t.X.Type().Underlying().(*types.Map)
			if !ok || !nillable(mt.Elem()) || loaderNonNilElem(mt.Elem()) || !(isKinType(t.X.Type()) || isKinType(mt.Elem())) {
				return nil, ""
			}
			return x, "element of " + strings.TrimPrefix(t.X.Type().String(), kinPkg+".")
		case *ssa.Next:
			if t.IsString || x.Index != 2 || !nillable(x.Type()) || !isKinType(x.Type()) || loaderNonNilElem(x.Type()) {
				return nil, ""
			}
			return x, "element while ranging over a map of " + strings.TrimPrefix(x.Type().String(), kinPkg+".")
		}
	}
	return nil, ""
}

// ownFieldKey: "Type.Field" when fa addresses a field of a struct type declared in package specification.
func ownFieldKey(fa *ssa.FieldAddr) string {
	t := fa.X.Type()
	if p, ok := t.Underlying().(*types.Pointer); ok {
		t = p.Elem()
	}
	n, ok := types.Unalias(t).(*types.Named)
	if !ok || n.Obj().Pkg() == nil || n.Obj().Pkg().Path() != modPath+"/specification" {
		return ""
	}
	st, ok := n.Underlying().(*types.Struct)
	if !ok || fa.Field >= st.NumFields() {
		return ""
	}
	return n.Obj().Name() + "." + st.Field(fa.Field).Name()
}

// findOwnOptional: interface- or pointer-typed fields of specification structs all of whose stores (in
// package specification) are control-dependent on a nil test, i.e. stand in a block dominated by the
// non-nil successor of an `x != nil` / `x == nil` branch. Such a field stays nil for a document that omits
// the member the test is about.
func (c *c15) findOwnOptional() {
	c.ownOptional = map[string]bool{}
	cond, uncond := map[string]int{}, map[string]int{}
	for _, fn := range c.fns {
		if pk := fnPkg(fn); pk == nil || pk.Pkg.Path() != modPath+"/specification" {
			continue
		}
		// blocks dominated by the non-nil branch of some nil test in this function
		var guards []*ssa.BasicBlock
		for _, b := range fn.Blocks {
			if len(b.Instrs) == 0 {
				continue
			}
			iff, ok := b.Instrs[len(b.Instrs)-1].(*ssa.If)
			if !ok {
				continue
			}
			bo, ok := iff.Cond.(*ssa.BinOp)
			if !ok || (bo.Op != token.NEQ && bo.Op != token.EQL) || !(isNilConst(bo.X) || isNilConst(bo.Y)) {
				continue
			}
			nonNil, isNil := b.Succs[0], b.Succs[1]
			if bo.Op == token.EQL {
				nonNil, isNil = isNil, nonNil
			}
			// a guard clause (`if x == nil { return … }`) does not make what follows optional: when x is nil
			// the function produces no value at all
			if n := len(isNil.Instrs); n > 0 {
				if _, isRet := isNil.Instrs[n-1].(*ssa.Return); isRet {
					continue
				}
				if _, isPanic := isNil.Instrs[n-1].(*ssa.Panic); isPanic {
					continue
				}
			}
			guards = append(guards, nonNil)
		}
		for _, b := range fn.Blocks {
			for _, ins := range b.Instrs {
				st, ok := ins.(*ssa.Store)
				if !ok {
					continue
				}
				fa, ok := st.Addr.(*ssa.FieldAddr)
				if !ok {
					continue
				}
				k := ownFieldKey(fa)
				if k == "" {
					continue
				}
				switch fa.Type().(*types.Pointer).Elem().Underlying().(type) {
				case *types.Interface, *types.Pointer:
				default:
					continue
				}
				if isNilConst(st.Val) {
					continue // an explicit nil store changes nothing
				}
				under := false
				for _, g := range guards {
					if g.Dominates(b) && len(g.Preds) == 1 {
						under = true
					}
				}
				if under {
					cond[k]++
				} else {
					uncond[k]++
				}
			}
		}
	}
	for k, n := range cond {
		if n > 0 && uncond[k] == 0 {
			c.ownOptional[k] = true
		}
	}
}

// closureParamLoaderValue: every call of the function literal (call graph) passes, for parameter
// idx, a value loaded from the Value field of a *…Ref of kin-openapi (non-nil after a successful load).
func (c *c15) closureParamLoaderValue(fn *ssa.Function, idx int) bool {
	node := c.s.CG.Nodes[fn]
	if node == nil || len(node.In) == 0 {
		return false
	}
	for _, e := range node.In {
		if e.Site == nil {
			return false
		}
		cc := e.Site.Common()
		ai := idx
		if cc.IsInvoke() {
			ai = idx - 1
		}
		if ai < 0 || ai >= len(cc.Args) {
			return false
		}
		ld, ok := cc.Args[ai].(*ssa.UnOp)
		if !ok || ld.Op != token.MUL {
			return false
		}
		fa, ok := ld.X.(*ssa.FieldAddr)
		if !ok || !isKinType(fa.X.Type()) {
			return false
		}
		owner := strings.TrimPrefix(strings.TrimPrefix(fa.X.Type().String(), "*"), kinPkg+".")
		if fieldName(fa) != "Value" || !strings.HasSuffix(owner, "Ref") {
			return false
		}
	}
	return true
}

func (c *c15) optionalDeref() {
	nSrc, nDeref := 0, 0
	seq := map[string]int{}
	// parameters of function literals that receive map elements from the
	// generic NewMap* helpers (fn(m[k])): a non-Ref kin pointer may be nil
	for _, fn := range c.fns {
		if fn.Parent() == nil {
			continue
		}
		for pi, p := range fn.Params {
			if !nillable(p.Type()) || !isKinType(p.Type()) || loaderNonNilElem(p.Type()) {
				continue
			}
			if c.closureParamLoaderValue(fn, pi) {
				continue // every call passes <XRef>.Value, which the loader guarantees non-nil
			}
			nSrc++
			src := "callback parameter " + strings.TrimPrefix(p.Type().String(), "*"+kinPkg+".")
			for _, d := range derefsOf(p) {
				nDeref++
				key := shortFn(fn) + ":" + src + " -> " + d.what
				if guarded(p, d.ins.Block()) {
					c.r.OK("C15/optional-deref", key, c.s.pos(d.ins.Pos()), "nil-tested")
					continue
				}
				if d.callee != nil {
					w, ok := c.mustNonNil[originOf(d.callee)][d.param]
					if !ok {
						w, ok = c.mustNonNil[d.callee][d.param]
					}
					if !ok {
						c.r.OK("C15/optional-deref", key, c.s.pos(d.ins.Pos()), "callee tests its parameter")
						continue
					}
					c.r.Violation("C15/optional-deref", key, c.s.pos(d.ins.Pos()), "a map element that the loader may leave nil is passed to "+shortFn(d.callee)+" which dereferences it without a nil test ("+w+")")
					continue
				}
				c.r.Violation("C15/optional-deref", key, c.s.pos(d.ins.Pos()), "a map element that the loader may leave nil is dereferenced without a nil test")
			}
		}
	}
	for _, fn := range c.fns {
		for _, b := range fn.Blocks {
			for _, ins := range b.Instrs {
				v, src := c.optionalSource(ins)
				if v == nil {
					continue
				}
				nSrc++
				// follow the value through φ-free copies only (direct referrers)
				for _, d := range derefsOf(v) {
					nDeref++
					base := shortFn(fn) + ":" + src + " -> " + d.what
					if d.callee != nil {
						w, ok := c.mustNonNil[originOf(d.callee)][d.param]
						if !ok {
							w, ok = c.mustNonNil[d.callee][d.param]
						}
						if !ok {
							c.r.OK("C15/optional-deref", base, c.s.pos(d.ins.Pos()), "callee tests its parameter")
							continue
						}
						base = shortFn(fn) + ":" + src + " -> " + d.what
						if guarded(v, d.ins.Block()) {
							c.r.OK("C15/optional-deref", base, c.s.pos(d.ins.Pos()), "nil-tested before the call")
							continue
						}
						seq[base]++
						key := base
						if seq[base] > 1 {
							key += "#" + strconv.Itoa(seq[base])
						}
						c.r.Violation("C15/optional-deref", key, c.s.pos(d.ins.Pos()), "optional member "+src+" may be nil for a document the loader accepts, and is passed to "+shortFn(d.callee)+" which dereferences it without a nil test ("+w+"): the generator panics instead of reporting an error")
						continue
					}
					if guarded(v, d.ins.Block()) {
						c.r.OK("C15/optional-deref", base, c.s.pos(d.ins.Pos()), "nil-tested")
						continue
					}
					seq[base]++
					key := base
					if seq[base] > 1 {
						key += "#" + strconv.Itoa(seq[base])
					}
					c.r.Violation("C15/optional-deref", key, c.s.pos(d.ins.Pos()), "optional member "+src+" may be nil for a document the loader accepts and is dereferenced without a nil test: the generator panics instead of reporting an error")
				}
			}
		}
	}
	c.r.Analysed["optional_sources_loaded"] = nSrc
	c.r.Analysed["dereference_sites_of_optional_values"] = nDeref
	var sm []string
	for fn, m := range c.mustNonNil {
		for i := range m {
			sm = append(sm, fmt.Sprintf("%s#%d", shortFn(fn), i))
		}
	}
	sort.Strings(sm)
	c.r.Analysed["functions_dereferencing_a_parameter_unconditionally"] = len(sm)
	c.r.FloorMin("optional kin-openapi members loaded", nSrc, 40)
	c.r.FloorMin("dereference sites judged", nDeref, 15)
}

func (c *c15) assertOK() {
	n := 0
	for _, fn := range c.fns {
		seq := 0
		for _, b := range fn.Blocks {
			for _, ins := range b.Instrs {
				ta, ok := ins.(*ssa.TypeAssert)
				if !ok {
					continue
				}
				n++
				if ta.CommaOk {
					continue
				}
				if types.AssignableTo(ta.X.Type(), ta.AssertedType) {
					continue // go/ssa's nil check for an interface method value: cannot fail on the dynamic type
				}
				seq++
				key := shortFn(fn) + ":" + ta.X.Type().String() + ".(" + ta.AssertedType.String() + ")"
				if seq > 1 {
					key += "#" + strconv.Itoa(seq)
				}
				c.r.Violation("C15/assert-ok", key, c.s.pos(ta.Pos()), "single-result type assertion: a document where this value has another dynamic type (e.g. a non-string server variable default) makes the generator panic")
			}
		}
	}
	c.r.Analysed["type_assertions"] = n
	c.r.OK("C15/assert-ok", "scan", "", fmt.Sprintf("%d type assertions scanned", n))
	c.r.FloorMin("type assertions scanned", n, 3)
}

func (c *c15) panicConfined() {
	n := 0
	for _, fn := range c.fns {
		for _, b := range fn.Blocks {
			for _, ins := range b.Instrs {
				if _, ok := ins.(*ssa.Panic); !ok {
					continue
				}
				n++
				key := shortFn(fn) + ":panic"
				if c.s.ReachGo[fn] || c.s.ReachGo[originOf(fn)] {
					c.r.Violation("C15/panic-confined", key, c.s.pos(ins.Pos()), "explicit panic reachable from Generate/main by a plain Go call path (not through text/template, which would recover it)")
				} else {
					c.r.OK("C15/panic-confined", key, c.s.pos(ins.Pos()), "reachable only through template method invocation")
				}
			}
		}
	}
	c.r.FloorMin("explicit panic sites", n, 4)
}

func (c *c15) exitCode() {
	// Every error of a Generator.Generate* call made by the command must end in log.Fatal*/os.Exit(!=0):
	// either tested and fatal in the calling function, or returned by it — then the same holds for
	// every call of that function (worklist up to main), whatever helpers the command is split into.
	p := c.s.Pkgs[modPath+"/cmd/goag"]
	info := p.TypesInfo
	decls := map[*types.Func]*ast.FuncDecl{}
	for _, f := range p.Syntax {
		for _, d := range f.Decls {
			if fd, ok := d.(*ast.FuncDecl); ok && fd.Body != nil {
				if fo, ok := info.Defs[fd.Name].(*types.Func); ok {
					decls[fo] = fd
				}
			}
		}
	}
	isSource := func(call *ast.CallExpr, sources map[*types.Func]bool) (string, bool) {
		nm := calleeName(info, call)
		if strings.Contains(nm, "Generator.Generate") {
			return nm[strings.LastIndex(nm, ".")+1:], true
		}
		if fo, ok := typeutil.Callee(info, call).(*types.Func); ok && sources[fo] {
			return fo.Name(), true
		}
		return "", false
	}
	n := 0
	sources := map[*types.Func]bool{}
	judged := map[*ast.CallExpr]bool{}
	for changed := true; changed; {
		changed = false
		for fo, fd := range decls {
			// calls in return position make fd a source itself
			returned := map[types.Object]bool{}
			ast.Inspect(fd.Body, func(nd ast.Node) bool {
				if _, isLit := nd.(*ast.FuncLit); isLit {
					return false
				}
				ret, ok := nd.(*ast.ReturnStmt)
				if !ok || len(ret.Results) == 0 {
					return true
				}
				last := ret.Results[len(ret.Results)-1]
				if o := identObj(info, last); o != nil {
					returned[o] = true
				}
				if call, ok := ast.Unparen(last).(*ast.CallExpr); ok {
					if short, ok := isSource(call, sources); ok {
						if !judged[call] {
							judged[call] = true
							if strings.HasPrefix(short, "Generate") {
								n++
							}
							if fd.Name.Name == "main" {
								c.r.Violation("C15/exit-code", "cmd/goag."+fd.Name.Name+":"+short, c.s.pos(call.Pos()), "main returns without turning the error of "+short+" into a non-zero exit")
							} else {
								c.r.OK("C15/exit-code", "cmd/goag."+fd.Name.Name+":"+short, c.s.pos(call.Pos()), "error returned to the caller (judged there)")
							}
						}
						if !sources[fo] && fd.Name.Name != "main" {
							sources[fo], changed = true, true
						}
					}
				}
				return true
			})
			ast.Inspect(fd.Body, func(nd ast.Node) bool {
				switch x := nd.(type) {
				case *ast.AssignStmt:
					if len(x.Rhs) != 1 {
						return true
					}
					call, ok := x.Rhs[0].(*ast.CallExpr)
					if !ok {
						return true
					}
					short, ok := isSource(call, sources)
					if !ok {
						return true
					}
					eo := identObj(info, x.Lhs[len(x.Lhs)-1])
					good := false
					ast.Inspect(fd.Body, func(m ast.Node) bool {
						ifs, ok := m.(*ast.IfStmt)
						if ok && condTestsErrG(info, ifs.Cond, eo) && terminatesWithError(info, ifs.Body.List) {
							good = true
						}
						return true
					})
					if !good && eo != nil && returned[eo] && fd.Name.Name != "main" {
						good = true
						if !sources[fo] {
							sources[fo], changed = true, true
						}
					}
					if !judged[call] || !good {
						if !judged[call] && strings.HasPrefix(short, "Generate") {
							n++
						}
						judged[call] = true
						c.r.Check(good, "C15/exit-code", "cmd/goag."+fd.Name.Name+":"+short, c.s.pos(call.Pos()), "the error of "+short+" does not lead to log.Fatal*/os.Exit(!=0): the command exits 0 on failure")
					}
				case *ast.ExprStmt:
					if call, ok := x.X.(*ast.CallExpr); ok {
						if short, ok := isSource(call, sources); ok && !judged[call] {
							judged[call] = true
							if strings.HasPrefix(short, "Generate") {
								n++
							}
							c.r.Violation("C15/exit-code", "cmd/goag."+fd.Name.Name+":"+short, c.s.pos(call.Pos()), "the error of "+short+" is discarded: the command exits 0 on failure")
						}
					}
				}
				return true
			})
		}
	}
	c.r.FloorMin("Generate* call sites in the command", n, 2)
}

// ---------------------------------------------------------------------------
// bounds

var c15BoundsExceptions = map[string]string{
	"generator.PublicFieldName:runes[li:ri + 1]":   "li and ri are only ever assigned the range index i of `for i, r := range runes`, and every `li = i` is followed on all paths of the same iteration by `ri = i`, so 0 <= li <= ri < len(runes) (confirmed by reading naming.go)",
	"generator.PublicFieldName:runes[li:ri + 1]#2": "same invariant, final flush after the loop",
}

func (c *c15) bounds() {
	out, code, err := run(repoDir(), goEnv(), "go", "build", "-gcflags=-d=ssa/check_bce/debug=1", ".", "./cmd/goag", "./generator", "./specification")
	if err != nil || code != 0 {
		c.r.Break("go build with check_bce failed: %v %s", err, firstLines(out, 3))
		return
	}
	residue := map[string]bool{}
	for _, l := range strings.Split(out, "\n") {
		if m := bceLine.FindStringSubmatch(strings.TrimSpace(l)); m != nil {
			residue[filepath.Clean(m[1])+":"+m[2]+":"+m[3]] = true
		}
	}
	c15Decls = map[*types.Func]*ast.FuncDecl{}
	for _, path := range repoPaths() {
		if p := c.s.Pkgs[path]; p != nil {
			for _, f := range p.Syntax {
				for _, d := range f.Decls {
					if fd, ok := d.(*ast.FuncDecl); ok {
						if fo, ok := p.TypesInfo.Defs[fd.Name].(*types.Func); ok {
							c15Decls[fo] = fd
						}
					}
				}
			}
		}
	}
	nIdx, nProved, nIdiom := 0, 0, 0
	forEachReachableDecl(c.s, func(p *pkgT, fd *ast.FuncDecl, fkey string) {
		info := p.TypesInfo
		seq := map[string]int{}
		ast.Inspect(fd.Body, func(n ast.Node) bool {
			var x ast.Expr
			var lb token.Pos
			switch e := n.(type) {
			case *ast.IndexExpr:
				x, lb = e.X, e.Lbrack
			case *ast.SliceExpr:
				x, lb = e.X, e.Lbrack
			default:
				return true
			}
			t := info.TypeOf(x)
			if t == nil {
				return true
			}
			switch u := t.Underlying().(type) {
			case *types.Slice, *types.Array:
			case *types.Basic:
				if u.Info()&types.IsString == 0 {
					return true
				}
			default:
				return true
			}
			nIdx++
			ps := c.s.Fset.Position(lb)
			rel, _ := filepath.Rel(repoDir(), ps.Filename)
			txt := types.ExprString(n.(ast.Expr))
			base := fkey + ":" + txt
			seq[base]++
			key := base
			if seq[base] > 1 {
				key += "#" + strconv.Itoa(seq[base])
			}
			if !residue[fmt.Sprintf("%s:%d:%d", rel, ps.Line, ps.Column)] {
				nProved++
				return true
			}
			if why, ok := c15BoundsExceptions[key]; ok {
				nIdiom++
				c.r.OK("C15/bounds", key, c.s.pos(lb), "confirmed exception: "+why)
				return true
			}
			if why := s1BoundsIdiom(info, fd, n.(ast.Expr)); why != "" {
				nIdiom++
				c.r.OK("C15/bounds", key, c.s.pos(lb), "idiom: "+why)
				return true
			}
			c.r.Violation("C15/bounds", key, c.s.pos(lb), "bounds check neither eliminated by the compiler nor covered by an idiom: a spec value can make this index/slice panic")
			return true
		})
	})
	c.r.Analysed["index_slice_sites"] = nIdx
	c.r.Analysed["discharged_by_compiler"] = nProved
	c.r.Analysed["discharged_by_idiom"] = nIdiom
	c.r.FloorMin("generator index/slice sites", nIdx, 25)
	c.r.FloorMin("generator sites needing an idiom", nIdiom, 10)
}

func exprEq(a, b ast.Expr) bool { return types.ExprString(a) == types.ExprString(b) }

func isLenMinus1(info *types.Info, e ast.Expr, of ast.Expr) bool {
	be, ok := ast.Unparen(e).(*ast.BinaryExpr)
	if !ok || be.Op != token.SUB {
		return false
	}
	if tv := info.Types[be.Y]; tv.Value == nil || tv.Value.String() != "1" {
		return false
	}
	call, ok := be.X.(*ast.CallExpr)
	if !ok || len(call.Args) != 1 || !exprEq(call.Args[0], of) {
		return false
	}
	id, ok := call.Fun.(*ast.Ident)
	return ok && id.Name == "len"
}

// searchIndexVar: obj is assigned exactly once, from strings.Index/LastIndex(x, <non-empty const>)
func searchIndexVar(info *types.Info, fd *ast.FuncDecl, e ast.Expr, x ast.Expr) bool {
	obj := identObj(info, e)
	if obj == nil {
		return false
	}
	n, ok := 0, false
	ast.Inspect(fd.Body, func(nd ast.Node) bool {
		as, isAs := nd.(*ast.AssignStmt)
		if !isAs {
			return true
		}
		for i, l := range as.Lhs {
			if identObj(info, l) == obj {
				n++
				if len(as.Lhs) == len(as.Rhs) {
					if call, isCall := as.Rhs[i].(*ast.CallExpr); isCall && len(call.Args) == 2 {
						nm := calleeName(info, call)
						if (nm == "strings.Index" || nm == "strings.LastIndex") && exprEq(call.Args[0], x) {
							ok = true
						}
					}
				}
			}
		}
		return true
	})
	return n == 1 && ok
}

// condImplies: one of the enclosing if-conditions (then-branch) contains `a >= 0`, `a != -1`, `a > b` …
func enclosingThenConds(fd *ast.FuncDecl, e ast.Node) []ast.Expr {
	var out []ast.Expr
	ast.Inspect(fd.Body, func(n ast.Node) bool {
		if ifs, ok := n.(*ast.IfStmt); ok && ifs.Body.Pos() <= e.Pos() && e.End() <= ifs.Body.End() {
			var split func(c ast.Expr)
			split = func(c ast.Expr) {
				if be, ok := ast.Unparen(c).(*ast.BinaryExpr); ok && be.Op == token.LAND {
					split(be.X)
					split(be.Y)
					return
				}
				out = append(out, c)
			}
			split(ifs.Cond)
		}
		return true
	})
	return out
}

// c15Decls: declarations of the repo's functions (for predicate helpers), set by runC15.
var c15Decls map[*types.Func]*ast.FuncDecl

// expandConds replaces, in a list of conditions known to hold, (a) a boolean variable that is
// assigned exactly once in the function by the expression it was assigned, and (b) a call of a
// repo function whose body is a single `return <boolean expression over its parameters>` by that
// expression with the arguments substituted; conjunctions are split again.
func expandConds(info *types.Info, fd *ast.FuncDecl, conds []ast.Expr) []ast.Expr {
	var out []ast.Expr
	var add func(c ast.Expr, depth int)
	add = func(c ast.Expr, depth int) {
		c = ast.Unparen(c)
		if be, ok := c.(*ast.BinaryExpr); ok && be.Op == token.LAND {
			add(be.X, depth)
			add(be.Y, depth)
			return
		}
		out = append(out, c)
		if depth > 3 {
			return
		}
		switch x := c.(type) {
		case *ast.Ident:
			o := identObj(info, x)
			if o == nil {
				return
			}
			var rhs []ast.Expr
			ast.Inspect(fd.Body, func(n ast.Node) bool {
				if as, ok := n.(*ast.AssignStmt); ok && len(as.Lhs) == len(as.Rhs) {
					for i, l := range as.Lhs {
						if identObj(info, l) == o {
							rhs = append(rhs, as.Rhs[i])
						}
					}
				}
				return true
			})
			if len(rhs) == 1 {
				// the variables the expression reads must not change between its evaluation and the
				// use: each is assigned at most once in the function
				stable := true
				ast.Inspect(rhs[0], func(n ast.Node) bool {
					id, ok := n.(*ast.Ident)
					if !ok {
						return true
					}
					v, isVar := identObj(info, id).(*types.Var)
					if !isVar {
						return true
					}
					cnt := 0
					ast.Inspect(fd.Body, func(m ast.Node) bool {
						switch a := m.(type) {
						case *ast.AssignStmt:
							for _, l := range a.Lhs {
								if identObj(info, l) == v {
									cnt++
								}
							}
						case *ast.IncDecStmt:
							if identObj(info, a.X) == v {
								cnt += 2
							}
						case *ast.UnaryExpr:
							if a.Op == token.AND && identObj(info, a.X) == v {
								cnt += 2
							}
						}
						return true
					})
					if cnt > 1 {
						stable = false
					}
					return true
				})
				if stable {
					add(rhs[0], depth+1)
				}
			}
		case *ast.CallExpr:
			fo, _ := typeutil.Callee(info, x).(*types.Func)
			d := c15Decls[fo]
			if d == nil || d.Body == nil || len(d.Body.List) != 1 || d.Recv != nil {
				return
			}
			ret, ok := d.Body.List[0].(*ast.ReturnStmt)
			if !ok || len(ret.Results) != 1 {
				return
			}
			sub := map[string]ast.Expr{}
			i := 0
			for _, f := range d.Type.Params.List {
				for _, n := range f.Names {
					if i < len(x.Args) {
						sub[n.Name] = x.Args[i]
					}
					i++
				}
			}
			add(substIdents(ret.Results[0], sub), depth+1)
		}
	}
	for _, c := range conds {
		add(c, 0)
	}
	return out
}

// substIdents copies the operator/call spine of e, replacing identifiers by name.
func substIdents(e ast.Expr, sub map[string]ast.Expr) ast.Expr {
	switch x := e.(type) {
	case *ast.Ident:
		if r, ok := sub[x.Name]; ok {
			return r
		}
		return x
	case *ast.ParenExpr:
		return &ast.ParenExpr{Lparen: x.Lparen, X: substIdents(x.X, sub), Rparen: x.Rparen}
	case *ast.UnaryExpr:
		return &ast.UnaryExpr{OpPos: x.OpPos, Op: x.Op, X: substIdents(x.X, sub)}
	case *ast.BinaryExpr:
		return &ast.BinaryExpr{X: substIdents(x.X, sub), OpPos: x.OpPos, Op: x.Op, Y: substIdents(x.Y, sub)}
	case *ast.CallExpr:
		args := make([]ast.Expr, len(x.Args))
		for i, a := range x.Args {
			args[i] = substIdents(a, sub)
		}
		return &ast.CallExpr{Fun: x.Fun, Lparen: x.Lparen, Args: args, Ellipsis: x.Ellipsis, Rparen: x.Rparen}
	}
	return e
}

func s1BoundsIdiom(info *types.Info, fd *ast.FuncDecl, e ast.Expr) string {
	conds := expandConds(info, fd, enclosingThenConds(fd, e))
	hasPrefixSuffix := func(x ast.Expr) bool {
		pre, suf := "", ""
		for _, c := range conds {
			call, ok := ast.Unparen(c).(*ast.CallExpr)
			if !ok || len(call.Args) != 2 || !exprEq(call.Args[0], x) {
				continue
			}
			tv := info.Types[call.Args[1]]
			if tv.Value == nil {
				continue
			}
			v := strings.Trim(tv.Value.ExactString(), "\"")
			switch calleeName(info, call) {
			case "strings.HasPrefix":
				pre = v
			case "strings.HasSuffix":
				suf = v
			}
		}
		return len(pre) == 1 && len(suf) == 1 && pre != suf
	}
	switch x := e.(type) {
	case *ast.IndexExpr:
		// B1: x[len(x)-1] directly after x = append(x, …)
		if isLenMinus1(info, x.Index, x.X) {
			if blk, i := enclosingBlockStmt(fd.Body, e); blk != nil && i >= 1 {
				for j := i; j >= 0 && j >= i-1; j-- {
					if as, ok := blk.List[j].(*ast.AssignStmt); ok && len(as.Lhs) == 1 && len(as.Rhs) == 1 && exprEq(as.Lhs[0], x.X) {
						if call, ok := as.Rhs[0].(*ast.CallExpr); ok && len(call.Args) >= 2 && exprEq(call.Args[0], x.X) {
							if id, ok := call.Fun.(*ast.Ident); ok && id.Name == "append" && j < i {
								return "B1 last element right after append to the same slice"
							}
						}
					}
				}
			}
		}
		// B2: x[i] with i the key of an enclosing range over x, or over y with x = make(_, len(y)) directly before
		if i := identObj(info, x.Index); i != nil {
			var loop *ast.RangeStmt
			ast.Inspect(fd.Body, func(n ast.Node) bool {
				if rs, ok := n.(*ast.RangeStmt); ok && rs.Key != nil && identObj(info, rs.Key) == i && rs.Body.Pos() <= e.Pos() && e.End() <= rs.Body.End() {
					loop = rs
				}
				return true
			})
			if loop != nil {
				reassigned := false
				ast.Inspect(loop.Body, func(n ast.Node) bool {
					if as, ok := n.(*ast.AssignStmt); ok {
						for _, l := range as.Lhs {
							if exprEq(l, x.X) || exprEq(l, loop.X) {
								reassigned = true
							}
						}
					}
					return true
				})
				if !reassigned {
					if exprEq(loop.X, x.X) {
						return "B2 index is the range key over the same slice"
					}
					if blk, li := enclosingBlockStmt(fd.Body, loop); blk != nil {
						for j := li - 1; j >= 0 && j >= li-2; j-- {
							as, ok := blk.List[j].(*ast.AssignStmt)
							if !ok || len(as.Lhs) != 1 || !exprEq(as.Lhs[0], x.X) {
								continue
							}
							mk, ok := as.Rhs[0].(*ast.CallExpr)
							if !ok || len(mk.Args) != 2 {
								continue
							}
							if id, ok := mk.Fun.(*ast.Ident); !ok || id.Name != "make" {
								continue
							}
							if lc, ok := mk.Args[1].(*ast.CallExpr); ok && len(lc.Args) == 1 && exprEq(lc.Args[0], loop.X) {
								return "B2 slice made with len of the ranged slice"
							}
						}
					}
				}
			}
		}
		// B3: strings.Split(s, <non-empty const>)[0]
		if tv := info.Types[x.Index]; tv.Value != nil && tv.Value.String() == "0" && isSplitResult(info, fd, x.X) {
			return "B3 element 0 of strings.Split with a non-empty separator (always at least one element)"
		}
	case *ast.SliceExpr:
		// B3: strings.Split(...)[1:]
		if x.High == nil && x.Low != nil {
			if tv := info.Types[x.Low]; tv.Value != nil && tv.Value.String() == "1" && isSplitResult(info, fd, x.X) {
				return "B3 strings.Split(...)[1:] (always at least one element)"
			}
		}
		// B4: d[1:len(d)-1] under HasPrefix(d,"{") && HasSuffix(d,"}")
		if x.Low != nil && x.High != nil {
			if tv := info.Types[x.Low]; tv.Value != nil && tv.Value.String() == "1" && isLenMinus1(info, x.High, x.X) && hasPrefixSuffix(x.X) {
				return "B4 inner part of a string tested to start and end with two different one-byte delimiters (len >= 2)"
			}
		}
		// B6: cuts at positions found by strings.Index/LastIndex in the same string
		isPlus1 := func(e ast.Expr) (ast.Expr, bool) {
			be, ok := ast.Unparen(e).(*ast.BinaryExpr)
			if !ok || be.Op != token.ADD {
				return nil, false
			}
			if tv := info.Types[be.Y]; tv.Value == nil || tv.Value.String() != "1" {
				return nil, false
			}
			return be.X, true
		}
		nonNeg := func(v ast.Expr) bool {
			for _, c := range conds {
				be, ok := ast.Unparen(c).(*ast.BinaryExpr)
				if !ok || !exprEq(be.X, v) {
					continue
				}
				tv := info.Types[be.Y]
				if tv.Value != nil {
					k := tv.Value.String()
					if (be.Op == token.GEQ && k == "0") || (be.Op == token.NEQ && k == "-1") || (be.Op == token.GTR && (k == "-1" || k == "0")) {
						return true
					}
				}
				// v > w where w is another search index (>= -1)
				if be.Op == token.GTR && searchIndexVar(info, fd, be.Y, x.X) {
					return true
				}
			}
			return false
		}
		greater := func(hi, lo ast.Expr) bool { // hi > lo established
			for _, c := range conds {
				if be, ok := ast.Unparen(c).(*ast.BinaryExpr); ok && be.Op == token.GTR && exprEq(be.X, hi) && exprEq(be.Y, lo) {
					return true
				}
			}
			return false
		}
		switch {
		case x.High == nil && x.Low != nil:
			if v, ok := isPlus1(x.Low); ok && searchIndexVar(info, fd, v, x.X) {
				return "B6 x[i+1:] with i = strings.(Last)Index(x, sep) >= -1"
			}
		case x.Low == nil && x.High != nil:
			if searchIndexVar(info, fd, x.High, x.X) && nonNeg(x.High) {
				return "B6 x[:i] with i = strings.(Last)Index(x, sep) tested non-negative"
			}
		case x.Low != nil && x.High != nil:
			if v, ok := isPlus1(x.Low); ok && searchIndexVar(info, fd, v, x.X) && searchIndexVar(info, fd, x.High, x.X) && greater(x.High, v) {
				return "B6 x[i+1:j] with i, j search positions in x and j > i tested"
			}
		}
	}
	return ""
}

func isSplitResult(info *types.Info, fd *ast.FuncDecl, e ast.Expr) bool {
	okSplit := func(c ast.Expr) bool {
		call, ok := ast.Unparen(c).(*ast.CallExpr)
		if !ok || calleeName(info, call) != "strings.Split" || len(call.Args) != 2 {
			return false
		}
		tv := info.Types[call.Args[1]]
		return tv.Value != nil && tv.Value.ExactString() != `""`
	}
	if okSplit(e) {
		return true
	}
	obj := identObj(info, e)
	if obj == nil {
		return false
	}
	// the variable's most recent definition textually before e must be the Split (and at most a [1:] re-slice of itself after)
	good, n := false, 0
	ast.Inspect(fd.Body, func(nd ast.Node) bool {
		as, ok := nd.(*ast.AssignStmt)
		if !ok || as.Pos() > e.Pos() {
			return true
		}
		for i, l := range as.Lhs {
			if identObj(info, l) == obj && len(as.Lhs) == len(as.Rhs) {
				n++
				good = okSplit(as.Rhs[i])
			}
		}
		return true
	})
	return good && n == 1
}

// refValuePhase: typestate rule for the self-referential component maps.
func (c *c15) refValuePhase() {
	nSites := 0
	for _, fn := range c.fns {
		for _, b := range fn.Blocks {
			for _, ins := range b.Instrs {
				call, ok := ins.(*ssa.Call)
				if !ok {
					continue
				}
				sc := call.Call.StaticCallee()
				if sc == nil || sc.Origin() == nil {
					continue
				}
				on := sc.Origin().Name()
				if on != "NewMapRefSelfSource" && on != "NewMapRefSelf" {
					continue
				}
				targs := sc.TypeArgs()
				if len(targs) == 0 {
					continue
				}
				T := targs[0]
				// the callback argument
				var cb *ssa.Function
				for _, a := range call.Call.Args {
					switch x := a.(type) {
					case *ssa.MakeClosure:
						cb, _ = x.Fn.(*ssa.Function)
					case *ssa.Function:
						cb = x
					}
				}
				if cb == nil {
					continue
				}
				nSites++
				key := shortFn(fn) + ":" + on + "[" + strings.TrimPrefix(T.String(), modPath+"/") + "]"
				reach := c.s.closure([]*ssa.Function{cb})
				bad := ""
				for f := range reach {
					pk := fnPkg(f)
					if pk == nil || !isRepoPkg(pk.Pkg.Path()) || f.Blocks == nil {
						continue
					}
					for _, bb := range f.Blocks {
						for _, i2 := range bb.Instrs {
							c2, ok := i2.(*ssa.Call)
							if !ok {
								continue
							}
							cc := c2.Call
							if cc.IsInvoke() {
								if cc.Method.Name() == "Value" && refOfKind(cc.Value.Type(), T) {
									bad = shortFn(f) + " at " + c.s.pos(c2.Pos())
								}
							} else if s2 := cc.StaticCallee(); s2 != nil && s2.Name() == "Value" && s2.Signature.Recv() != nil && refOfKind(s2.Signature.Recv().Type(), T) {
								bad = shortFn(f) + " at " + c.s.pos(c2.Pos())
							}
						}
					}
				}
				if bad == "" {
					c.r.OK("C15/ref-value-phase", key, c.s.pos(call.Pos()), fmt.Sprintf("%d functions reachable from the callback", len(reach)))
				} else {
					c.r.Violation("C15/ref-value-phase", key, c.s.pos(call.Pos()), "Value() of a reference of the kind under construction is called while the component map is being filled ("+bad+"): for a component that refers to one sorting after it the target is still nil and the generator panics")
				}
			}
		}
	}
	c.r.FloorMin("self-referential component map constructions", nSites, 5)
}

// refOfKind: t is Ref[T] / *refObject[T] for the given T.
func refOfKind(t types.Type, T types.Type) bool {
	if p, ok := t.(*types.Pointer); ok {
		t = p.Elem()
	}
	n, ok := t.(*types.Named)
	if !ok || n.Obj().Pkg() == nil || n.Obj().Pkg().Path() != modPath+"/specification" {
		return false
	}
	if n.Obj().Name() != "Ref" && n.Obj().Name() != "refObject" {
		return false
	}
	ta := n.TypeArgs()
	return ta != nil && ta.Len() == 1 && types.Identical(ta.At(0), T)
}

// refRecursion: on the `Ref != ""` branch no call may lead back into the function itself.
func (c *c15) refRecursion() {
	n := 0
	for _, fn := range c.fns {
		for _, b := range fn.Blocks {
			iff, ok := b.Instrs[len(b.Instrs)-1].(*ssa.If)
			if !ok {
				continue
			}
			bo, ok := iff.Cond.(*ssa.BinOp)
			if !ok || (bo.Op != token.NEQ && bo.Op != token.EQL) {
				continue
			}
			k, isK := bo.Y.(*ssa.Const)
			if !isK || k.Value == nil || k.Value.ExactString() != `""` {
				continue
			}
			ld, ok := bo.X.(*ssa.UnOp)
			if !ok || ld.Op != token.MUL {
				continue
			}
			fa, ok := ld.X.(*ssa.FieldAddr)
			if !ok || fieldName(fa) != "Ref" || !strings.HasSuffix(fa.X.Type().String(), kinPkg+".SchemaRef") {
				continue
			}
			if _, isParam := fa.X.(*ssa.Parameter); !isParam {
				continue // only the constructor's own argument guards its recursion
			}
			refSucc := b.Succs[0]
			if bo.Op == token.EQL {
				refSucc = b.Succs[1]
			}
			n++
			key := shortFn(fn) + ":SchemaRef.Ref != \"\" branch"
			// blocks reachable from the reference branch
			seen := map[*ssa.BasicBlock]bool{}
			stack := []*ssa.BasicBlock{refSucc}
			bad := ""
			for len(stack) > 0 {
				x := stack[len(stack)-1]
				stack = stack[:len(stack)-1]
				if seen[x] {
					continue
				}
				seen[x] = true
				for _, ins := range x.Instrs {
					call, ok := ins.(*ssa.Call)
					if !ok {
						continue
					}
					sc := call.Call.StaticCallee()
					if sc == nil {
						continue
					}
					pk := fnPkg(sc)
					if pk == nil || !isRepoPkg(pk.Pkg.Path()) {
						continue
					}
					if reach := c.s.closure([]*ssa.Function{sc}); reach[fn] || reach[originOf(fn)] {
						bad = shortFn(sc) + " at " + c.s.pos(call.Pos())
					}
				}
				stack = append(stack, x.Succs...)
			}
			if bad == "" {
				c.r.OK("C15/ref-recursion", key, c.s.pos(iff.Pos()), "no recursive constructor call on the reference branch")
			} else {
				c.r.Violation("C15/ref-recursion", key, c.s.pos(iff.Pos()), "on the branch taken for a $ref the constructor calls "+bad+", which can re-enter "+shortFn(fn)+": a reference cycle (e.g. a schema pointing into itself) recurses until the stack overflows instead of being reported")
			}
		}
	}
	c.r.FloorMin("SchemaRef.Ref branch sites", n, 1)
}

// schemaRefPhase: generator.NewComponents first creates every SchemaComponent
// empty and then fills them in name order through NewSchema. While that is
// going on a Schema whose Ref is set may point at a component that is not
// filled yet (Type is a nil interface). Schema methods that follow the
// reference and invoke a method on the target's Type (Kind, found
// structurally) therefore panic for a forward reference unless the call is
// guarded by `<x>.Ref == nil` on the same expression.
func (c *c15) schemaRefPhase() {
	gp := c.s.Pkgs[modPath+"/generator"]
	gs := c.s.SSA[modPath+"/generator"]
	if gp == nil || gs == nil {
		c.r.Undecided("C15/schema-ref-phase", "generator", "", "package not loaded")
		return
	}
	info := gp.TypesInfo
	schemaT, _ := gp.Types.Scope().Lookup("Schema").(*types.TypeName)
	if schemaT == nil {
		c.r.Undecided("C15/schema-ref-phase", "generator.Schema", "", "type not found")
		return
	}
	isSchemaRecv := func(f *types.Func) bool {
		sig, ok := f.Type().(*types.Signature)
		if !ok || sig.Recv() == nil {
			return false
		}
		t := sig.Recv().Type()
		if p, ok := t.(*types.Pointer); ok {
			t = p.Elem()
		}
		return types.Identical(t, schemaT.Type())
	}
	// M: Schema methods that call a method on <…>.Base().Type / .Ref.Schema.Type, closed under
	// calls of an M method on the receiver
	decls := map[*types.Func]*ast.FuncDecl{}
	for _, f := range gp.Syntax {
		for _, d := range f.Decls {
			if fd, ok := d.(*ast.FuncDecl); ok && fd.Body != nil {
				if fo, ok := info.Defs[fd.Name].(*types.Func); ok {
					decls[fo] = fd
				}
			}
		}
	}
	M := map[*types.Func]bool{}
	followsRef := func(e ast.Expr) bool { // …Base() or ….Ref.Schema somewhere inside e
		found := false
		ast.Inspect(e, func(n ast.Node) bool {
			switch x := n.(type) {
			case *ast.CallExpr:
				if fo, ok := typeutil.Callee(info, x).(*types.Func); ok && fo.Name() == "Base" && isSchemaRecv(fo) {
					found = true
				}
			case *ast.SelectorExpr:
				if x.Sel.Name == "Schema" {
					if in, ok := x.X.(*ast.SelectorExpr); ok && in.Sel.Name == "Ref" {
						found = true
					}
				}
			}
			return !found
		})
		return found
	}
	for fo, fd := range decls {
		if !isSchemaRecv(fo) {
			continue
		}
		ast.Inspect(fd.Body, func(n ast.Node) bool {
			call, ok := n.(*ast.CallExpr)
			if !ok {
				return true
			}
			sel, ok := call.Fun.(*ast.SelectorExpr)
			if !ok {
				return true
			}
			if in, ok := sel.X.(*ast.SelectorExpr); ok && in.Sel.Name == "Type" && followsRef(in.X) {
				if s := info.Selections[sel]; s != nil && s.Kind() == types.MethodVal {
					M[fo] = true
				}
			}
			return true
		})
	}
	for changed := true; changed; {
		changed = false
		for fo, fd := range decls {
			if M[fo] || !isSchemaRecv(fo) || fd.Recv == nil || len(fd.Recv.List) == 0 || len(fd.Recv.List[0].Names) == 0 {
				continue
			}
			recv := info.Defs[fd.Recv.List[0].Names[0]]
			ast.Inspect(fd.Body, func(n ast.Node) bool {
				if call, ok := n.(*ast.CallExpr); ok {
					if sel, ok := call.Fun.(*ast.SelectorExpr); ok && identObj(info, sel.X) == recv {
						if co, ok := typeutil.Callee(info, call).(*types.Func); ok && M[co] {
							M[fo] = true
							changed = true
						}
					}
				}
				return true
			})
		}
	}
	var mnames []string
	for fo := range M {
		mnames = append(mnames, fo.Name())
	}
	sort.Strings(mnames)
	c.r.Analysed["schema_ref_phase:type_following_methods"] = mnames
	// construct phase: functions reachable from NewSchema
	var roots []*ssa.Function
	for _, nm := range []string{"NewSchema", "NewSchemaComponent"} {
		if f := gs.Func(nm); f != nil {
			roots = append(roots, f)
		}
	}
	if len(roots) == 0 || len(M) == 0 {
		c.r.Undecided("C15/schema-ref-phase", "generator.NewSchema", "", "constructor or reference-following methods not found")
		return
	}
	reach := c.s.closure(roots)
	nSites := 0
	for fo, fd := range decls {
		sf := c.s.Prog.FuncValue(fo)
		if sf == nil || !reach[sf] || M[fo] {
			continue
		}
		// walk with the conditions known true/false on the path
		type fact struct {
			e   ast.Expr
			val bool
		}
		var walk func(n ast.Node, facts []fact)
		var with func(facts []fact, e ast.Expr, val bool) []fact
		with = func(facts []fact, e ast.Expr, val bool) []fact {
			out := append(append([]fact{}, facts...), fact{e, val})
			if be, ok := ast.Unparen(e).(*ast.BinaryExpr); ok {
				if (be.Op == token.LAND && val) || (be.Op == token.LOR && !val) {
					out = with(out, be.X, val)
					out = with(out, be.Y, val)
				}
			}
			if ue, ok := ast.Unparen(e).(*ast.UnaryExpr); ok && ue.Op == token.NOT {
				out = with(out, ue.X, !val)
			}
			return out
		}
		check := func(call *ast.CallExpr, facts []fact) {
			co, ok := typeutil.Callee(info, call).(*types.Func)
			if !ok || !M[co] {
				return
			}
			sel, ok := call.Fun.(*ast.SelectorExpr)
			if !ok {
				return
			}
			nSites++
			R := types.ExprString(sel.X)
			guarded := false
			for _, f := range facts {
				be, ok := ast.Unparen(f.e).(*ast.BinaryExpr)
				if !ok || !isNilIdent(be.Y) || types.ExprString(be.X) != R+".Ref" {
					continue
				}
				if (be.Op == token.EQL && f.val) || (be.Op == token.NEQ && !f.val) {
					guarded = true
				}
			}
			key := funcKey(gp, fd) + ":" + R + "." + co.Name() + "()"
			if guarded {
				c.r.OK("C15/schema-ref-phase", key, c.s.pos(call.Pos()), "guarded by "+R+".Ref == nil")
			} else {
				c.r.Violation("C15/schema-ref-phase", key, c.s.pos(call.Pos()), "while component schemas are still being filled (this function is reachable from NewSchema) "+co.Name()+"() follows "+R+".Ref into a component that may not be built yet and calls a method on its nil Type: a component that refers to one sorting after it makes the generator panic; the call must be guarded by "+R+".Ref == nil")
			}
		}
		walk = func(n ast.Node, facts []fact) {
			switch x := n.(type) {
			case nil:
				return
			case *ast.IfStmt:
				if x.Init != nil {
					walk(x.Init, facts)
				}
				walk(x.Cond, facts)
				walk(x.Body, with(facts, x.Cond, true))
				if x.Else != nil {
					walk(x.Else, with(facts, x.Cond, false))
				}
				return
			case *ast.BinaryExpr:
				if x.Op == token.LAND || x.Op == token.LOR {
					walk(x.X, facts)
					walk(x.Y, with(facts, x.X, x.Op == token.LAND))
					return
				}
			case *ast.FuncLit:
				return
			case *ast.CallExpr:
				check(x, facts)
			}
			var kids []ast.Node
			ast.Inspect(n, func(m ast.Node) bool {
				if m == n {
					return true
				}
				if m != nil {
					kids = append(kids, m)
				}
				return false
			})
			for _, k := range kids {
				walk(k, facts)
			}
		}
		walk(fd.Body, nil)
	}
	c.r.Analysed["schema_ref_phase:sites"] = nSites
	c.r.FloorMin("reference-following Schema method calls in the construction phase", nSites, 3)
}
