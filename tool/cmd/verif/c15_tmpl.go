package main

// c15_tmpl.go — S2: typed nil-chain analysis of the templates.
//
// text/template fails with "nil pointer evaluating *T.F" when a field chain
// walks through a nil pointer. Such an error aborts generation for a valid
// spec with a message that names a template, not a place in the spec (C15).
//
// The analysis types every field chain of every define: the type of dot comes
// from the Go call sites ExecuteTemplate("<define>", <data>) (struct types,
// TData literals key by key) and, transitively, from {{ template "X" pipe }}
// actions; each selection step is resolved with go/types. A step that selects
// a field (or value-receiver method) through an OPTIONAL pointer must stand
// under a guard for exactly that prefix: {{ if P }}, {{ with P }}, an earlier
// operand of `and`, or the else-branch of {{ if not P }}.
// Optional pointers are found by the contradiction rule: a pointer-typed field
// that the Go code of package generator compares with nil, or that some
// template tests in an if/with, or a method that returns a pointer and has a
// `return nil`. Pointers never tested anywhere are taken as set by
// construction (counted, not judged).

import (
	"fmt"
	"go/ast"
	"go/constant"
	"go/token"
	"go/types"
	"sort"
	"strings"
	"text/template/parse"

	"golang.org/x/tools/go/types/typeutil"
)

type tval struct {
	t   types.Type
	rec map[string]types.Type // TData literal: key -> static type
	// chains (relative to this value, "A.B") the Go call site guarantees non-nil: the
	// ExecuteTemplate call stands under `if x.F != nil` and x is the data / a TData value
	nonNil map[string]bool
}

func (v tval) known() bool { return v.t != nil || v.rec != nil }
func (v tval) String() string {
	if v.rec != nil {
		var ks []string
		for k, t := range v.rec {
			ks = append(ks, k+":"+types.TypeString(t, nil))
		}
		sort.Strings(ks)
		return "TData{" + strings.Join(ks, ",") + "}"
	}
	if v.t != nil {
		return types.TypeString(v.t, nil)
	}
	return "?"
}

type tmplNil struct {
	c        *c15
	info     *types.Info
	pkg      *types.Package
	optional map[types.Object]string // optional pointer sources (field Var / method Func) -> why
	dot      map[string]map[string]tval
	nChains  int
	nSteps   int
	nPtr     int
	nAssumed map[string]bool
	reported map[string]bool
	def      *TemplateDefine
	gen      int
	collect  bool // first phase: only propagate dot types / collect tested chains
	tested   map[types.Object]bool
}

func (c *c15) templateNilChains() {
	gp := c.s.Pkgs[modPath+"/generator"]
	if gp == nil || c.s.Tmpl == nil {
		c.r.Undecided("C15/template-nil-chain", "templates", "", "generator package or templates not loaded")
		return
	}
	a := &tmplNil{c: c, info: gp.TypesInfo, pkg: gp.Types, optional: map[types.Object]string{}, dot: map[string]map[string]tval{},
		nAssumed: map[string]bool{}, reported: map[string]bool{}, tested: map[types.Object]bool{}}
	// 1. dot types from Go call sites
	nSites := 0
	for _, f := range gp.Syntax {
		ast.Inspect(f, func(n ast.Node) bool {
			call, ok := n.(*ast.CallExpr)
			if !ok || len(call.Args) < 2 {
				return true
			}
			fo, _ := typeutil.Callee(a.info, call).(*types.Func)
			if fo == nil || fo.Name() != "ExecuteTemplate" {
				return true
			}
			nameArg, dataArg := call.Args[len(call.Args)-2], call.Args[len(call.Args)-1]
			var defNames []string
			var defSites []ast.Node // where each name is chosen (the call, or the assignment of the name)
			if tv := a.info.Types[nameArg]; tv.Value != nil && tv.Value.Kind() == constant.String {
				defNames = []string{constant.StringVal(tv.Value)}
				defSites = []ast.Node{call}
			} else if o := identObj(a.info, nameArg); o != nil {
				// a local that only ever holds constant define names
				allConst := true
				ast.Inspect(f, func(m ast.Node) bool {
					switch x := m.(type) {
					case *ast.AssignStmt:
						if len(x.Lhs) == len(x.Rhs) {
							for i, l := range x.Lhs {
								if identObj(a.info, l) == o {
									if tv := a.info.Types[x.Rhs[i]]; tv.Value != nil && tv.Value.Kind() == constant.String {
										defNames = append(defNames, constant.StringVal(tv.Value))
										defSites = append(defSites, x)
									} else {
										allConst = false
									}
								}
							}
						}
					case *ast.ValueSpec:
						for i, nm := range x.Names {
							if a.info.Defs[nm] == o && i < len(x.Values) {
								if tv := a.info.Types[x.Values[i]]; tv.Value != nil && tv.Value.Kind() == constant.String {
									defNames = append(defNames, constant.StringVal(tv.Value))
									defSites = append(defSites, x)
								} else {
									allConst = false
								}
							}
						}
					}
					return true
				})
				if !allConst {
					defNames = nil
				}
			}
			if len(defNames) == 0 {
				return true
			}
			nSites++
			for k, name := range defNames {
				v := a.staticVal(dataArg)
				// what is known non-nil where THIS name is chosen (a name selected under
				// `if s.Ref != nil` carries that fact to the call)
				v.nonNil = a.siteNonNil(f, defSites[k], dataArg)
				a.addDot(name, v)
			}
			return true
		})
	}
	// 2. optional pointer sources from Go: x.F == nil / != nil ; methods returning pointer with `return nil`
	for _, f := range gp.Syntax {
		ast.Inspect(f, func(n ast.Node) bool {
			switch x := n.(type) {
			case *ast.BinaryExpr:
				if (x.Op == token.EQL || x.Op == token.NEQ) && (isNilIdent(x.Y) || isNilIdent(x.X)) {
					e := x.X
					if isNilIdent(x.X) {
						e = x.Y
					}
					if sel, ok := ast.Unparen(e).(*ast.SelectorExpr); ok {
						if s := a.info.Selections[sel]; s != nil && s.Kind() == types.FieldVal {
							if _, isPtr := s.Obj().Type().Underlying().(*types.Pointer); isPtr {
								a.optional[s.Obj()] = "compared with nil at " + c.s.pos(x.Pos())
							}
						}
					}
				}
			case *ast.FuncDecl:
				if x.Body == nil || x.Recv == nil {
					return true
				}
				fo, _ := a.info.Defs[x.Name].(*types.Func)
				if fo == nil {
					return true
				}
				sig := fo.Type().(*types.Signature)
				if sig.Results().Len() == 0 {
					return true
				}
				if _, isPtr := sig.Results().At(0).Type().Underlying().(*types.Pointer); !isPtr {
					return true
				}
				ast.Inspect(x.Body, func(m ast.Node) bool {
					if _, isLit := m.(*ast.FuncLit); isLit {
						return false
					}
					if ret, ok := m.(*ast.ReturnStmt); ok && len(ret.Results) > 0 && isNilIdent(ret.Results[0]) {
						a.optional[fo] = "method has a `return nil` at " + c.s.pos(ret.Pos())
					}
					return true
				})
			}
			return true
		})
	}
	// 3. propagate dot types through {{ template }} and collect pointers tested in templates
	a.collect = true
	names := make([]string, 0, len(c.s.Tmpl.Defines))
	for n := range c.s.Tmpl.Defines {
		names = append(names, n)
	}
	sort.Strings(names)
	for iter := 0; iter < 8; iter++ {
		before := a.dotCount()
		for _, n := range names {
			a.runDefine(c.s.Tmpl.Defines[n])
		}
		if a.dotCount() == before {
			break
		}
	}
	for o := range a.tested {
		if _, ok := a.optional[o]; !ok {
			a.optional[o] = "tested by an if/with/and in a template"
		}
	}
	// 4. judge
	a.collect = false
	nTyped := 0
	var untyped []string
	for _, n := range names {
		if len(a.dot[n]) == 0 {
			untyped = append(untyped, n)
			continue
		}
		nTyped++
		a.runDefine(c.s.Tmpl.Defines[n])
	}
	var opt []string
	for o, why := range a.optional {
		opt = append(opt, objLabel(o)+" ("+strings.SplitN(why, " at ", 2)[0]+")")
	}
	sort.Strings(opt)
	var assumed []string
	for k := range a.nAssumed {
		assumed = append(assumed, k)
	}
	sort.Strings(assumed)
	c.r.Analysed["template_nil:execute_sites"] = nSites
	c.r.Analysed["template_nil:defines_typed"] = nTyped
	c.r.Analysed["template_nil:defines_untyped"] = untyped
	c.r.Analysed["template_nil:chains_typed"] = a.nChains
	c.r.Analysed["template_nil:selection_steps"] = a.nSteps
	c.r.Analysed["template_nil:steps_through_optional_pointer"] = a.nPtr
	c.r.Analysed["template_nil:optional_pointer_sources"] = opt
	c.r.Analysed["template_nil:pointers_assumed_set_by_construction"] = assumed
	c.r.FloorMin("ExecuteTemplate call sites with a constant define name", nSites, 60)
	c.r.FloorMin("template defines with a typed dot", nTyped, 70)
	c.r.FloorMin("template field chains typed", a.nChains, 400)
	c.r.FloorMin("template steps through an optional pointer", a.nPtr, 10)
}

func objLabel(o types.Object) string {
	switch x := o.(type) {
	case *types.Var:
		return "field " + x.Name() + " " + types.TypeString(x.Type(), func(p *types.Package) string { return p.Name() })
	case *types.Func:
		return "method " + x.FullName()
	}
	return o.Name()
}

func (a *tmplNil) dotCount() int {
	n := 0
	for _, m := range a.dot {
		n += len(m)
	}
	return n
}

func (a *tmplNil) addDot(name string, v tval) {
	if !v.known() {
		return
	}
	if a.dot[name] == nil {
		a.dot[name] = map[string]tval{}
	}
	k := v.String()
	if old, ok := a.dot[name][k]; ok {
		// the same dot type from several sites: only what every site guarantees
		keep := map[string]bool{}
		for g := range old.nonNil {
			if v.nonNil[g] {
				keep[g] = true
			}
		}
		v.nonNil = keep
	}
	a.dot[name][k] = v
}

func (a *tmplNil) staticVal(e ast.Expr) tval {
	if cl, ok := ast.Unparen(e).(*ast.CompositeLit); ok {
		if t := a.info.TypeOf(cl); t != nil {
			if n, ok := t.(*types.Named); ok && n.Obj().Name() == "TData" {
				rec := map[string]types.Type{}
				for _, el := range cl.Elts {
					kv, ok := el.(*ast.KeyValueExpr)
					if !ok {
						continue
					}
					if tv := a.info.Types[kv.Key]; tv.Value != nil && tv.Value.Kind() == constant.String {
						if vt := a.info.TypeOf(kv.Value); vt != nil {
							rec[constant.StringVal(tv.Value)] = vt
						}
					}
				}
				return tval{rec: rec}
			}
		}
	}
	t := a.info.TypeOf(e)
	if t == nil {
		return tval{}
	}
	if _, isIface := t.Underlying().(*types.Interface); isIface {
		return tval{}
	}
	return tval{t: t}
}

// ---------------------------------------------------------------------------

type tenv struct {
	dot    tval
	dotID  string
	vars   map[string]tval
	guards map[string]bool
}

func (e tenv) clone() tenv {
	out := tenv{dot: e.dot, dotID: e.dotID, vars: map[string]tval{}, guards: map[string]bool{}}
	for k, v := range e.vars {
		out.vars[k] = v
	}
	for k := range e.guards {
		out.guards[k] = true
	}
	return out
}

func (a *tmplNil) runDefine(d *TemplateDefine) {
	if d == nil || d.Tree == nil || d.Tree.Root == nil {
		return
	}
	a.def = d
	var keys []string
	for k := range a.dot[d.Name] {
		keys = append(keys, k)
	}
	sort.Strings(keys)
	for _, k := range keys {
		a.gen++
		env := tenv{dot: a.dot[d.Name][k], dotID: fmt.Sprintf("dot#%d", a.gen), vars: map[string]tval{}, guards: map[string]bool{}}
		env.vars["$"] = env.dot
		for g := range env.dot.nonNil {
			env.guards[env.dotID+"|"+g] = true
			env.guards["$root|"+g] = true
		}
		a.list(d.Tree.Root, &env)
	}
}

func (a *tmplNil) list(l *parse.ListNode, env *tenv) {
	if l == nil {
		return
	}
	for _, n := range l.Nodes {
		a.node(n, env)
	}
}

func (a *tmplNil) node(n parse.Node, env *tenv) {
	switch x := n.(type) {
	case *parse.ActionNode:
		a.pipe(x.Pipe, env)
	case *parse.IfNode:
		a.pipe(x.Pipe, env)
		tr, fa := a.truth(x.Pipe, env)
		thenEnv := env.clone()
		for _, k := range tr {
			thenEnv.guards[k] = true
		}
		a.list(x.List, &thenEnv)
		if x.ElseList != nil {
			elseEnv := env.clone()
			for _, k := range fa {
				elseEnv.guards[k] = true
			}
			a.list(x.ElseList, &elseEnv)
		}
	case *parse.WithNode:
		v := a.pipe(x.Pipe, env)
		a.truth(x.Pipe, env)
		in := env.clone()
		a.gen++
		in.dot, in.dotID = v, fmt.Sprintf("dot#%d", a.gen)
		a.list(x.List, &in)
		if x.ElseList != nil {
			e2 := env.clone()
			a.list(x.ElseList, &e2)
		}
	case *parse.RangeNode:
		v := a.pipeNoDecl(x.Pipe, env)
		in := env.clone()
		a.gen++
		elem := elemOf(v)
		in.dot, in.dotID = elem, fmt.Sprintf("dot#%d", a.gen)
		if x.Pipe != nil {
			switch len(x.Pipe.Decl) {
			case 1:
				in.vars[x.Pipe.Decl[0].Ident[0]] = elem
			case 2:
				in.vars[x.Pipe.Decl[0].Ident[0]] = tval{}
				in.vars[x.Pipe.Decl[1].Ident[0]] = elem
			}
		}
		a.list(x.List, &in)
		if x.ElseList != nil {
			e2 := env.clone()
			a.list(x.ElseList, &e2)
		}
	case *parse.TemplateNode:
		v := tval{}
		if x.Pipe != nil {
			v = a.pipe(x.Pipe, env)
		}
		a.addDot(x.Name, v)
	case *parse.ListNode:
		a.list(x, env)
	}
}

func elemOf(v tval) tval {
	if v.t == nil {
		return tval{}
	}
	switch u := v.t.Underlying().(type) {
	case *types.Slice:
		return tval{t: u.Elem()}
	case *types.Array:
		return tval{t: u.Elem()}
	case *types.Map:
		return tval{t: u.Elem()}
	case *types.Pointer:
		if arr, ok := u.Elem().Underlying().(*types.Array); ok {
			return tval{t: arr.Elem()}
		}
	}
	return tval{}
}

func (a *tmplNil) pipe(p *parse.PipeNode, env *tenv) tval {
	v := a.pipeNoDecl(p, env)
	if p != nil {
		for _, d := range p.Decl {
			env.vars[d.Ident[0]] = v
			// a re-assigned variable loses its guards
			for g := range env.guards {
				if strings.HasPrefix(g, d.Ident[0]+"|") {
					delete(env.guards, g)
				}
			}
		}
	}
	return v
}

func (a *tmplNil) pipeNoDecl(p *parse.PipeNode, env *tenv) tval {
	if p == nil {
		return tval{}
	}
	var v tval
	for i, c := range p.Cmds {
		v = a.command(c, env, i > 0)
	}
	return v
}

func (a *tmplNil) command(c *parse.CommandNode, env *tenv, piped bool) tval {
	if len(c.Args) == 0 {
		return tval{}
	}
	if id, ok := c.Args[0].(*parse.IdentifierNode); ok {
		switch id.Ident {
		case "and":
			// short-circuit: later operands are evaluated only when the earlier ones are truthy
			e2 := env.clone()
			var last tval
			for _, arg := range c.Args[1:] {
				last = a.arg(arg, &e2)
				tr, _ := a.truthArg(arg, &e2)
				for _, k := range tr {
					e2.guards[k] = true
				}
			}
			return last
		case "or":
			e2 := env.clone()
			var last tval
			for _, arg := range c.Args[1:] {
				last = a.arg(arg, &e2)
				_, fa := a.truthArg(arg, &e2)
				for _, k := range fa {
					e2.guards[k] = true
				}
			}
			return last
		}
		for _, arg := range c.Args[1:] {
			a.arg(arg, env)
		}
		switch id.Ident {
		case "print", "printf", "println", "html", "js", "urlquery":
			return tval{t: types.Typ[types.String]}
		case "len":
			return tval{t: types.Typ[types.Int]}
		case "not", "eq", "ne", "lt", "le", "gt", "ge":
			return tval{t: types.Typ[types.Bool]}
		}
		return tval{}
	}
	v := a.arg(c.Args[0], env)
	for _, arg := range c.Args[1:] {
		a.arg(arg, env)
	}
	if piped && len(c.Args) == 1 {
		// `x | .Method`: receives the piped value as argument; type is the method's result (already v)
	}
	return v
}

func (a *tmplNil) arg(n parse.Node, env *tenv) tval {
	switch x := n.(type) {
	case *parse.DotNode:
		return env.dot
	case *parse.FieldNode:
		return a.chain(env.dotID, env.dot, x.Ident, env, n)
	case *parse.VariableNode:
		root, ok := env.vars[x.Ident[0]]
		if !ok {
			root = tval{}
		}
		if len(x.Ident) == 1 {
			return root
		}
		id := x.Ident[0]
		if id == "$" {
			id = "$root"
		}
		return a.chain(id, root, x.Ident[1:], env, n)
	case *parse.ChainNode:
		root := a.arg(x.Node, env)
		a.gen++
		return a.chain(fmt.Sprintf("expr#%d", a.gen), root, x.Field, env, n)
	case *parse.PipeNode:
		return a.pipeNoDecl(x, env)
	case *parse.StringNode:
		return tval{t: types.Typ[types.String]}
	case *parse.NumberNode:
		return tval{t: types.Typ[types.Int]}
	case *parse.BoolNode:
		return tval{t: types.Typ[types.Bool]}
	}
	return tval{}
}

func chainKey(root string, idents []string) string { return root + "|" + strings.Join(idents, ".") }

// chain resolves root.ident1.ident2… and checks every step through a pointer.
func (a *tmplNil) chain(rootID string, root tval, idents []string, env *tenv, at parse.Node) tval {
	cur := root
	if !cur.known() {
		return tval{}
	}
	a.nChains++
	var via types.Object // the field/method that produced cur
	for i, name := range idents {
		a.nSteps++
		// stepping through cur: is cur an optional pointer that may be nil?
		if via != nil && cur.t != nil {
			if _, isPtr := cur.t.Underlying().(*types.Pointer); isPtr {
				member, isField, valueRecv := a.member(cur, name)
				if member != nil && (isField || valueRecv) {
					prefix := chainKey(rootID, idents[:i])
					text := a.chainText(rootID, idents[:i+1])
					if why, opt := a.optional[via]; opt {
						a.nPtr++
						if !a.collect {
							key := a.def.Name + ":" + text
							if env.guards[prefix] {
								a.c.r.OK("C15/template-nil-chain", key, a.where(at), "guarded by a test of "+a.chainText(rootID, idents[:i]))
							} else if !a.reported[key] {
								a.reported[key] = true
								a.c.r.Violation("C15/template-nil-chain", key, a.where(at), fmt.Sprintf("%s selects %s through %s, a pointer that can be nil (%s), outside any {{ if }}/{{ with }}/and-guard of %s: for a spec where it is nil the template fails with \"nil pointer evaluating\", an internal error that names no place in the spec", text, name, a.chainText(rootID, idents[:i]), why, a.chainText(rootID, idents[:i])))
							}
						}
					} else if !a.collect {
						a.nAssumed[objLabel(via)] = true
					}
				}
			}
		}
		nt, obj := a.step(cur, name)
		if !nt.known() {
			return tval{}
		}
		cur, via = nt, obj
	}
	return cur
}

func (a *tmplNil) chainText(rootID string, idents []string) string {
	r := "."
	if strings.HasPrefix(rootID, "$") {
		r = strings.TrimSuffix(rootID, "root") + "."
	} else if strings.HasPrefix(rootID, "expr#") {
		r = "(…)."
	}
	return r + strings.Join(idents, ".")
}

func (a *tmplNil) where(n parse.Node) string {
	loc, _ := a.def.Tree.ErrorContext(n)
	return "generator/" + loc
}

// member: what `name` selects on the pointee of pointer-typed cur.
func (a *tmplNil) member(cur tval, name string) (obj types.Object, isField, valueRecv bool) {
	o, _, _ := types.LookupFieldOrMethod(cur.t, true, a.pkg, name)
	switch x := o.(type) {
	case *types.Var:
		return x, true, false
	case *types.Func:
		sig := x.Type().(*types.Signature)
		if sig.Recv() != nil {
			if _, ptr := sig.Recv().Type().(*types.Pointer); !ptr {
				return x, false, true
			}
		}
		return x, false, false
	}
	return nil, false, false
}

func (a *tmplNil) step(cur tval, name string) (tval, types.Object) {
	if cur.rec != nil {
		if t, ok := cur.rec[name]; ok {
			if _, isIface := t.Underlying().(*types.Interface); isIface {
				return tval{}, nil
			}
			return tval{t: t}, nil
		}
		return tval{}, nil
	}
	if cur.t == nil {
		return tval{}, nil
	}
	if m, ok := cur.t.Underlying().(*types.Map); ok {
		return a.clean(m.Elem()), nil
	}
	o, _, _ := types.LookupFieldOrMethod(cur.t, true, a.pkg, name)
	switch x := o.(type) {
	case *types.Var:
		return a.clean(x.Type()), x
	case *types.Func:
		sig := x.Type().(*types.Signature)
		if sig.Results().Len() == 0 {
			return tval{}, nil
		}
		return a.clean(sig.Results().At(0).Type()), x
	}
	return tval{}, nil
}

func (a *tmplNil) clean(t types.Type) tval {
	if t == nil {
		return tval{}
	}
	if it, isIface := t.Underlying().(*types.Interface); isIface && it.NumMethods() == 0 {
		return tval{}
	}
	return tval{t: t}
}

// truth: chains known truthy in the then-branch / in the else-branch.
func (a *tmplNil) truth(p *parse.PipeNode, env *tenv) (tr, fa []string) {
	if p == nil || len(p.Cmds) != 1 {
		return nil, nil
	}
	c := p.Cmds[0]
	if len(c.Args) == 1 {
		return a.truthArg(c.Args[0], env)
	}
	if id, ok := c.Args[0].(*parse.IdentifierNode); ok {
		switch id.Ident {
		case "and":
			for _, arg := range c.Args[1:] {
				t, _ := a.truthArg(arg, env)
				tr = append(tr, t...)
			}
			return tr, nil
		case "or":
			for _, arg := range c.Args[1:] {
				_, f := a.truthArg(arg, env)
				fa = append(fa, f...)
			}
			return nil, fa
		case "not":
			if len(c.Args) == 2 {
				t, f := a.truthArg(c.Args[1], env)
				return f, t
			}
		}
	}
	return nil, nil
}

func (a *tmplNil) truthArg(n parse.Node, env *tenv) (tr, fa []string) {
	switch x := n.(type) {
	case *parse.FieldNode:
		a.markTested(env.dot, x.Ident)
		return []string{chainKey(env.dotID, x.Ident)}, nil
	case *parse.VariableNode:
		id := x.Ident[0]
		if id == "$" {
			id = "$root"
		}
		if root, ok := env.vars[x.Ident[0]]; ok {
			a.markTested(root, x.Ident[1:])
		}
		return []string{chainKey(id, x.Ident[1:])}, nil
	case *parse.PipeNode:
		return a.truth(x, env)
	}
	return nil, nil
}

// markTested: the object a tested chain ends in is an optional pointer source.
func (a *tmplNil) markTested(root tval, idents []string) {
	if !a.collect || !root.known() || len(idents) == 0 {
		return
	}
	cur := root
	var via types.Object
	for _, name := range idents {
		nt, obj := a.step(cur, name)
		if !nt.known() {
			return
		}
		cur, via = nt, obj
	}
	if via != nil && cur.t != nil {
		if _, isPtr := cur.t.Underlying().(*types.Pointer); isPtr {
			a.tested[via] = true
		}
	}
}

// siteNonNil: selector chains of the data argument that are known non-nil at an
// ExecuteTemplate call site: the call stands in the then-branch of `if X.F != nil`
// (or after `if X.F == nil { return … }`) and X is the data argument itself
// (chain "F") or the value of TData key K (chain "K.F").
func (a *tmplNil) siteNonNil(file *ast.File, call ast.Node, data ast.Expr) map[string]bool {
	out := map[string]bool{}
	var fd *ast.FuncDecl
	for _, d := range file.Decls {
		if f, ok := d.(*ast.FuncDecl); ok && f.Body != nil && f.Pos() <= call.Pos() && call.End() <= f.End() {
			fd = f
		}
	}
	if fd == nil {
		return out
	}
	// expressions that are non-nil at the call
	nonNil := map[string]bool{}
	var addFact func(e ast.Expr, val bool)
	addFact = func(e ast.Expr, val bool) {
		switch x := ast.Unparen(e).(type) {
		case *ast.BinaryExpr:
			switch {
			case x.Op == token.LAND && val, x.Op == token.LOR && !val:
				addFact(x.X, val)
				addFact(x.Y, val)
			case (x.Op == token.NEQ && val || x.Op == token.EQL && !val) && isNilIdent(x.Y):
				nonNil[types.ExprString(x.X)] = true
			}
		case *ast.UnaryExpr:
			if x.Op == token.NOT {
				addFact(x.X, !val)
			}
		}
	}
	var walk func(list []ast.Stmt) bool // true when the call was found in this list
	contains := func(n ast.Node) bool { return n != nil && n.Pos() <= call.Pos() && call.End() <= n.End() }
	walk = func(list []ast.Stmt) bool {
		for _, st := range list {
			if !contains(st) {
				// a preceding `if C { …return }` without else makes !C hold afterwards
				if ifs, ok := st.(*ast.IfStmt); ok && ifs.Else == nil && len(ifs.Body.List) > 0 {
					if _, isRet := ifs.Body.List[len(ifs.Body.List)-1].(*ast.ReturnStmt); isRet {
						addFact(ifs.Cond, false)
					}
				}
				continue
			}
			switch x := st.(type) {
			case *ast.IfStmt:
				for cur := x; cur != nil; {
					if contains(cur.Body) {
						addFact(cur.Cond, true)
						return walk(cur.Body.List)
					}
					addFact(cur.Cond, false)
					switch e := cur.Else.(type) {
					case *ast.IfStmt:
						cur = e
					case *ast.BlockStmt:
						if contains(e) {
							return walk(e.List)
						}
						cur = nil
					default:
						cur = nil
					}
				}
			case *ast.BlockStmt:
				return walk(x.List)
			case *ast.SwitchStmt:
				for _, cc := range x.Body.List {
					if cl := cc.(*ast.CaseClause); contains(cl) {
						return walk(cl.Body)
					}
				}
			case *ast.TypeSwitchStmt:
				for _, cc := range x.Body.List {
					if cl := cc.(*ast.CaseClause); contains(cl) {
						return walk(cl.Body)
					}
				}
			case *ast.ForStmt:
				return walk(x.Body.List)
			case *ast.RangeStmt:
				return walk(x.Body.List)
			}
			return true
		}
		return false
	}
	walk(fd.Body.List)
	if len(nonNil) == 0 {
		return out
	}
	rel := func(valueExpr ast.Expr, prefix string) {
		base := types.ExprString(valueExpr)
		for e := range nonNil {
			if strings.HasPrefix(e, base+".") {
				out[prefix+strings.TrimPrefix(e, base+".")] = true
			}
		}
	}
	if cl, ok := ast.Unparen(data).(*ast.CompositeLit); ok {
		for _, el := range cl.Elts {
			if kv, ok := el.(*ast.KeyValueExpr); ok {
				if tv := a.info.Types[kv.Key]; tv.Value != nil && tv.Value.Kind() == constant.String {
					rel(kv.Value, constant.StringVal(tv.Value)+".")
				}
			}
		}
	} else {
		rel(data, "")
	}
	return out
}
