package main

// revloop.go — "visits the indices len(S)-1 … 0, each once" for any loop spelling.
//
// The loop variable v runs over an arithmetic progression that is read off the
// loop (for v := E0; v >= K | v > K; v-- ; for v := E0; v < E | v <= E; v++ ;
// for v := range S) and the index expression of the body is a linear form
// a*v + b*len(S) + c (through single-assigned temporaries such as
// last := len(S)-1). The loop visits len(S)-1 … 0 iff the form evaluates to
// len(S)-1 at the first iteration, to 0 at the last one and decreases by one
// per step.

import (
	"go/ast"
	"go/token"
	"go/types"
)

type rlLin struct{ v, n, c int } // v*loopVar + n*len(S) + c

type revLoop struct {
	info    *types.Info
	isSlice func(ast.Expr) bool // does the expression denote S?
	before  []ast.Stmt          // statements preceding the loop in its block (for temporaries)
	loopVar types.Object
	start   rlLin // value of v at the first iteration (v == 0)
	end     rlLin // value of v at the last iteration
	step    int
	body    *ast.BlockStmt
	ok      bool
}

func (r *revLoop) lin(e ast.Expr, depth int) (rlLin, bool) {
	e = ast.Unparen(e)
	if tv := r.info.Types[e]; tv.Value != nil {
		if k, ok := constInt64(tv); ok {
			return rlLin{c: int(k)}, true
		}
	}
	switch x := e.(type) {
	case *ast.Ident:
		o := identObj(r.info, x)
		if o != nil && o == r.loopVar {
			return rlLin{v: 1}, true
		}
		if depth > 3 || o == nil {
			return rlLin{}, false
		}
		// a temporary assigned exactly once before the loop
		var rhs []ast.Expr
		for _, st := range r.before {
			if as, ok := st.(*ast.AssignStmt); ok && len(as.Lhs) == len(as.Rhs) {
				for i, l := range as.Lhs {
					if identObj(r.info, l) == o {
						rhs = append(rhs, as.Rhs[i])
					}
				}
			}
		}
		if len(rhs) == 1 && !assignedIn(r.info, r.body, o) {
			return r.lin(rhs[0], depth+1)
		}
	case *ast.CallExpr:
		if id, ok := x.Fun.(*ast.Ident); ok && id.Name == "len" && len(x.Args) == 1 && r.isSlice(x.Args[0]) {
			if _, isB := r.info.Uses[id].(*types.Builtin); isB {
				return rlLin{n: 1}, true
			}
		}
	case *ast.BinaryExpr:
		a, oka := r.lin(x.X, depth)
		b, okb := r.lin(x.Y, depth)
		if oka && okb {
			switch x.Op {
			case token.ADD:
				return rlLin{a.v + b.v, a.n + b.n, a.c + b.c}, true
			case token.SUB:
				return rlLin{a.v - b.v, a.n - b.n, a.c - b.c}, true
			}
		}
	}
	return rlLin{}, false
}

func constInt64(tv types.TypeAndValue) (int64, bool) {
	if tv.Value == nil {
		return 0, false
	}
	if b, ok := tv.Type.Underlying().(*types.Basic); ok && b.Info()&(types.IsInteger|types.IsUntyped) != 0 {
		if s := tv.Value.String(); len(s) > 0 {
			var k int64
			neg := false
			for i, ch := range s {
				if i == 0 && ch == '-' {
					neg = true
					continue
				}
				if ch < '0' || ch > '9' {
					return 0, false
				}
				k = k*10 + int64(ch-'0')
			}
			if neg {
				k = -k
			}
			return k, true
		}
	}
	return 0, false
}

func assignedIn(info *types.Info, n ast.Node, o types.Object) bool {
	found := false
	if n == nil {
		return false
	}
	ast.Inspect(n, func(m ast.Node) bool {
		switch a := m.(type) {
		case *ast.AssignStmt:
			for _, l := range a.Lhs {
				if identObj(info, l) == o {
					found = true
				}
			}
		case *ast.IncDecStmt:
			if identObj(info, a.X) == o {
				found = true
			}
		}
		return true
	})
	return found
}

// newRevLoop reads the progression of a loop over S.
func newRevLoop(info *types.Info, loop ast.Stmt, before []ast.Stmt, isSlice func(ast.Expr) bool) *revLoop {
	r := &revLoop{info: info, isSlice: isSlice, before: before}
	switch fs := loop.(type) {
	case *ast.RangeStmt:
		if fs.Key == nil || fs.Value != nil || !isSlice(fs.X) {
			return r
		}
		r.loopVar = identObj(info, fs.Key)
		r.body = fs.Body
		r.start, r.end, r.step = rlLin{}, rlLin{n: 1, c: -1}, 1
		r.ok = r.loopVar != nil && !assignedIn(info, fs.Body, r.loopVar)
	case *ast.ForStmt:
		init, ok := fs.Init.(*ast.AssignStmt)
		if !ok || init.Tok != token.DEFINE || len(init.Lhs) != 1 || len(init.Rhs) != 1 {
			return r
		}
		r.loopVar = identObj(info, init.Lhs[0])
		r.body = fs.Body
		post, ok := fs.Post.(*ast.IncDecStmt)
		if !ok || identObj(info, post.X) != r.loopVar || r.loopVar == nil || assignedIn(info, fs.Body, r.loopVar) {
			return r
		}
		r.step = 1
		if post.Tok == token.DEC {
			r.step = -1
		}
		lv := r.loopVar
		r.loopVar = nil // the bounds must not mention the loop variable
		start, ok1 := r.lin(init.Rhs[0], 0)
		cond, okc := ast.Unparen(fs.Cond).(*ast.BinaryExpr)
		var bound rlLin
		ok2 := false
		if okc && identObj(info, cond.X) == lv {
			bound, ok2 = r.lin(cond.Y, 0)
		}
		r.loopVar = lv
		if !ok1 || !ok2 {
			return r
		}
		r.start = start
		switch {
		case r.step == -1 && cond.Op == token.GEQ:
			r.end = bound
		case r.step == -1 && cond.Op == token.GTR:
			r.end = rlLin{bound.v, bound.n, bound.c + 1}
		case r.step == 1 && cond.Op == token.LSS:
			r.end = rlLin{bound.v, bound.n, bound.c - 1}
		case r.step == 1 && cond.Op == token.LEQ:
			r.end = bound
		default:
			return r
		}
		r.ok = true
	}
	return r
}

// visitsDescending: idx runs len(S)-1 … 0 over the iterations of the loop.
func (r *revLoop) visitsDescending(idx ast.Expr) bool {
	if !r.ok {
		return false
	}
	f, ok := r.lin(idx, 0)
	if !ok {
		return false
	}
	at := func(v rlLin) rlLin { return rlLin{0, f.n + f.v*v.n, f.c + f.v*v.c} }
	if r.start.v != 0 || r.end.v != 0 {
		return false
	}
	first, last := at(r.start), at(r.end)
	return first == (rlLin{0, 1, -1}) && last == (rlLin{}) && f.v*r.step == -1
}
