package main

// commawriter.go — the separator writer (`commaWriter`) judged by its behaviour instead of its
// spelling. Its Write method is executed abstractly for every combination of
//
//	len(bs) == 0 | > 0      c.written false | true      c.comma == "" | != ""
//
// and every success/failure outcome of the writes it performs on the wrapped writer. Same-receiver
// helper methods are followed. The required behaviour:
//
//	empty payload:      no write, flag unchanged, returns (0, nil)
//	non-empty payload:  if !written && comma != "": the separator is written first; when that write fails
//	                    the error is returned and the payload is not written;
//	                    then the flag is set and the payload is forwarded, its result returned
//
// Anything the evaluator does not understand makes the shape undecided (reported).

import (
	"fmt"
	"go/ast"
	"go/token"
	"go/types"
	"strings"
)

type cwState struct {
	empty, written, hasComma bool
	events                   []string             // "sep", "payload"
	errs                     map[types.Object]int // local error variables: +1 nil, -1 non-nil
	failAt                   int                  // index of the write that fails (-1: none)
	nWrites                  int
	ret                      string // "" | "zero-nil" | "err" | "forward" | "nil"
}

type cwEval struct {
	p          *Program
	info       *types.Info
	recv       types.Object
	bs         types.Object
	wF, cF, bF string
	und        string
	depth      int
}

func commaWriterBehaviour(p *Program, typeName string) string {
	fd := p.funcDecl(typeName, "Write")
	if fd == nil {
		return "separator writer's Write method not found"
	}
	wF, cF, bF := "", "", ""
	if tn, ok := p.Pkg.Types.Scope().Lookup(typeName).(*types.TypeName); ok {
		if st, ok := tn.Type().Underlying().(*types.Struct); ok {
			for i := 0; i < st.NumFields(); i++ {
				switch u := st.Field(i).Type().Underlying().(type) {
				case *types.Interface:
					wF = st.Field(i).Name()
				case *types.Basic:
					if u.Kind() == types.String {
						cF = st.Field(i).Name()
					}
					if u.Kind() == types.Bool {
						bF = st.Field(i).Name()
					}
				}
			}
		}
	}
	if wF == "" || cF == "" || bF == "" {
		return "separator writer does not have (io.Writer, string, bool) fields"
	}
	info := p.Pkg.TypesInfo
	ps := paramObjs(info, fd)
	if len(ps) != 1 {
		return "commaWriter.Write: unexpected signature"
	}
	ev := &cwEval{p: p, info: info, recv: recvObj(info, fd), bs: ps[0], wF: wF, cF: cF, bF: bF}
	for _, empty := range []bool{true, false} {
		for _, written := range []bool{false, true} {
			for _, hasComma := range []bool{false, true} {
				for failAt := -1; failAt < 2; failAt++ {
					st := &cwState{empty: empty, written: written, hasComma: hasComma, errs: map[types.Object]int{}, failAt: failAt}
					ev.und = ""
					done := ev.block(fd.Body.List, st, "write")
					if ev.und != "" {
						return "commaWriter.Write: " + ev.und
					}
					if !done {
						return "commaWriter.Write: a path falls off the end without returning"
					}
					if why := cwJudge(st, empty, written, hasComma); why != "" {
						return fmt.Sprintf("commaWriter.Write (payload empty=%v, written=%v, separator set=%v, failing write #%d): %s", empty, written, hasComma, failAt, why)
					}
				}
			}
		}
	}
	return ""
}

func cwJudge(st *cwState, empty, written, hasComma bool) string {
	evs := strings.Join(st.events, ",")
	if empty {
		if evs != "" || st.written != written || st.ret != "zero-nil" {
			return "an empty write must do nothing and return (0, nil); got events [" + evs + "], result " + st.ret
		}
		return ""
	}
	wantSep := !written && hasComma
	switch {
	case wantSep && st.failAt == 0:
		if evs != "sep" || st.ret != "err" {
			return "a failing separator write must return its error without writing the payload; got events [" + evs + "], result " + st.ret
		}
		return ""
	case wantSep:
		if evs != "sep,payload" || st.ret != "forward" || !st.written {
			return "the separator must precede the first payload, the flag be set and the payload's result returned; got events [" + evs + "], result " + st.ret + fmt.Sprintf(", written=%v", st.written)
		}
	default:
		if evs != "payload" || st.ret != "forward" || !st.written {
			return "the payload must be forwarded alone with the flag set; got events [" + evs + "], result " + st.ret + fmt.Sprintf(", written=%v", st.written)
		}
	}
	return ""
}

// block executes a statement list; returns true when a return was executed. mode "write": results are
// (int, error); mode "helper": the single result is an error (stored in st.ret as "nil"/"err").
func (e *cwEval) block(list []ast.Stmt, st *cwState, mode string) bool {
	for _, s := range list {
		if e.und != "" {
			return true
		}
		switch x := s.(type) {
		case *ast.IfStmt:
			if x.Init != nil {
				if e.block([]ast.Stmt{x.Init}, st, mode) {
					return true
				}
			}
			c, ok := e.cond(x.Cond, st)
			if !ok {
				e.und = "condition not understood: " + types.ExprString(x.Cond)
				return true
			}
			if c {
				if e.block(x.Body.List, st, mode) {
					return true
				}
			} else if x.Else != nil {
				var el []ast.Stmt
				switch b := x.Else.(type) {
				case *ast.BlockStmt:
					el = b.List
				case *ast.IfStmt:
					el = []ast.Stmt{b}
				}
				if e.block(el, st, mode) {
					return true
				}
			}
		case *ast.BlockStmt:
			if e.block(x.List, st, mode) {
				return true
			}
		case *ast.DeclStmt:
			// var err error
		case *ast.AssignStmt:
			if !e.assign(x, st) {
				if e.und == "" {
					e.und = "statement not understood: " + types.ExprString(x.Lhs[0]) + " " + x.Tok.String() + " …"
				}
				return true
			}
		case *ast.ReturnStmt:
			e.ret(x, st, mode)
			return true
		default:
			e.und = fmt.Sprintf("statement %T not understood", s)
			return true
		}
	}
	return false
}

func (e *cwEval) field(x ast.Expr) string {
	sel, ok := ast.Unparen(x).(*ast.SelectorExpr)
	if !ok || identObj(e.info, sel.X) != e.recv {
		return ""
	}
	return sel.Sel.Name
}

func (e *cwEval) cond(x ast.Expr, st *cwState) (bool, bool) {
	x = ast.Unparen(x)
	switch c := x.(type) {
	case *ast.UnaryExpr:
		if c.Op == token.NOT {
			v, ok := e.cond(c.X, st)
			return !v, ok
		}
	case *ast.BinaryExpr:
		switch c.Op {
		case token.LAND:
			l, ok := e.cond(c.X, st)
			if !ok {
				return false, false
			}
			if !l {
				return false, true
			}
			return e.cond(c.Y, st)
		case token.LOR:
			l, ok := e.cond(c.X, st)
			if !ok {
				return false, false
			}
			if l {
				return true, true
			}
			return e.cond(c.Y, st)
		case token.EQL, token.NEQ, token.GTR, token.LSS, token.GEQ, token.LEQ:
			// len(bs) ⋛ k
			if call, ok := ast.Unparen(c.X).(*ast.CallExpr); ok && types.ExprString(call.Fun) == "len" && len(call.Args) == 1 {
				isBs := identObj(e.info, call.Args[0]) == e.bs
				isComma := e.field(call.Args[0]) == e.cF
				if tv := e.info.Types[c.Y]; (isBs || isComma) && tv.Value != nil {
					k := tv.Value.String()
					zero := isBs && st.empty || isComma && !st.hasComma
					switch {
					case c.Op == token.EQL && k == "0", c.Op == token.LEQ && k == "0", c.Op == token.LSS && k == "1":
						return zero, true
					case c.Op == token.NEQ && k == "0", c.Op == token.GTR && k == "0", c.Op == token.GEQ && k == "1":
						return !zero, true
					}
				}
				return false, false
			}
			// c.comma == "" / != ""
			if e.field(c.X) == e.cF {
				if tv := e.info.Types[c.Y]; tv.Value != nil && tv.Value.String() == `""` {
					if c.Op == token.EQL {
						return !st.hasComma, true
					}
					if c.Op == token.NEQ {
						return st.hasComma, true
					}
				}
				return false, false
			}
			// err != nil / == nil
			if o := identObj(e.info, c.X); o != nil && isNilIdent(c.Y) {
				if v, ok := st.errs[o]; ok {
					if c.Op == token.NEQ {
						return v < 0, true
					}
					if c.Op == token.EQL {
						return v > 0, true
					}
				}
			}
			// c.written == true/false
			if e.field(c.X) == e.bF {
				if tv := e.info.Types[c.Y]; tv.Value != nil {
					want := tv.Value.String() == "true"
					if c.Op == token.EQL {
						return st.written == want, true
					}
					if c.Op == token.NEQ {
						return st.written != want, true
					}
				}
			}
		}
	case *ast.SelectorExpr:
		if e.field(c) == e.bF {
			return st.written, true
		}
	}
	return false, false
}

// writeCall: c.w.Write(X) with X = []byte(c.comma) | bs; records the event and returns the error outcome.
func (e *cwEval) writeCall(x ast.Expr, st *cwState) (kind string, failed, ok bool) {
	call, isCall := ast.Unparen(x).(*ast.CallExpr)
	if !isCall || len(call.Args) != 1 {
		return "", false, false
	}
	sel, isSel := call.Fun.(*ast.SelectorExpr)
	if !isSel || e.field(sel.X) != e.wF {
		return "", false, false
	}
	switch sel.Sel.Name {
	case "Write":
		arg := ast.Unparen(call.Args[0])
		if identObj(e.info, arg) == e.bs {
			kind = "payload"
		} else if conv, isConv := arg.(*ast.CallExpr); isConv && len(conv.Args) == 1 && e.field(conv.Args[0]) == e.cF {
			kind = "sep"
		}
	case "WriteString":
		// io.StringWriter is not part of io.Writer: not expected
	}
	if kind == "" {
		return "", false, false
	}
	st.events = append(st.events, kind)
	failed = st.nWrites == st.failAt
	st.nWrites++
	return kind, failed, true
}

func (e *cwEval) assign(as *ast.AssignStmt, st *cwState) bool {
	// c.written = true|false
	if len(as.Lhs) == 1 && len(as.Rhs) == 1 && e.field(as.Lhs[0]) == e.bF {
		if tv := e.info.Types[as.Rhs[0]]; tv.Value != nil {
			st.written = tv.Value.String() == "true"
			return true
		}
		return false
	}
	// _, err := c.w.Write(…)   /   n, err := …
	if len(as.Lhs) == 2 && len(as.Rhs) == 1 {
		if _, failed, ok := e.writeCall(as.Rhs[0], st); ok {
			if o := identObj(e.info, as.Lhs[1]); o != nil {
				st.errs[o] = 1
				if failed {
					st.errs[o] = -1
				}
			}
			return true
		}
		return false
	}
	// err := c.helper()
	if len(as.Lhs) == 1 && len(as.Rhs) == 1 {
		if call, ok := ast.Unparen(as.Rhs[0]).(*ast.CallExpr); ok && len(call.Args) == 0 {
			if sel, ok := call.Fun.(*ast.SelectorExpr); ok && identObj(e.info, sel.X) == e.recv {
				if fo, ok := e.info.Uses[sel.Sel].(*types.Func); ok {
					if fd := declOfObj(e.p, fo); fd != nil && e.depth < 3 && recvObj(e.info, fd) != nil {
						// same receiver object? methods have their own receiver variable: rebind
						saved := e.recv
						e.recv = recvObj(e.info, fd)
						e.depth++
						sub := &cwState{empty: st.empty, written: st.written, hasComma: st.hasComma, events: st.events, errs: map[types.Object]int{}, failAt: st.failAt, nWrites: st.nWrites}
						done := e.block(fd.Body.List, sub, "helper")
						e.depth--
						e.recv = saved
						if e.und != "" {
							return false
						}
						if !done {
							sub.ret = "nil"
						}
						st.written, st.events, st.nWrites = sub.written, sub.events, sub.nWrites
						if o := identObj(e.info, as.Lhs[0]); o != nil {
							st.errs[o] = 1
							if sub.ret == "err" {
								st.errs[o] = -1
							}
						}
						return true
					}
				}
			}
		}
	}
	return false
}

func (e *cwEval) ret(r *ast.ReturnStmt, st *cwState, mode string) {
	errVal := func(x ast.Expr) (string, bool) {
		if isNilIdent(x) {
			return "nil", true
		}
		if o := identObj(e.info, x); o != nil {
			if v, ok := st.errs[o]; ok {
				if v < 0 {
					return "err", true
				}
				return "nil", true
			}
		}
		return "", false
	}
	if mode == "helper" {
		if len(r.Results) == 1 {
			if v, ok := errVal(r.Results[0]); ok {
				st.ret = v
				return
			}
		}
		e.und = "helper return not understood"
		return
	}
	switch len(r.Results) {
	case 1:
		if kind, failed, ok := e.writeCall(r.Results[0], st); ok && kind == "payload" {
			st.ret = "forward"
			_ = failed
			return
		}
	case 2:
		if v, ok := errVal(r.Results[1]); ok {
			if tv := e.info.Types[r.Results[0]]; tv.Value != nil && tv.Value.String() == "0" {
				if v == "nil" {
					st.ret = "zero-nil"
				} else {
					st.ret = "err"
				}
				return
			}
		}
	}
	e.und = "return not understood: " + types.ExprString(r.Results[0])
}
