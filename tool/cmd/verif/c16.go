package main

// C16 — middlewares wrap exactly the routed operations, in declared order.

import (
	"fmt"
	"strings"
)

func runC16(r *Report) {
	r.Explanation = "Structural analysis of API.ServeHTTP and of every route leaf of every instantiated program. ServeHTTP is recognised statement by statement (totality): the spec-file branch returns before routing; the handler finally served is the route result, or the not-found handler with hasPath forced false; only under `if hasPath` the request context receives the matched template and the handler is wrapped by `for i := len(rt.Middlewares)-1; i >= 0; i-- { h = rt.Middlewares[i](h) }` — parametric in the stack length: last-declared wraps first, first-declared ends outermost, each exactly once. The security wrap is part of the value returned by route (inside h_0), so all user middlewares are outside it. From the route model: every operation leaf returns hasPath=true with its own template, every CORS leaf and every miss returns false."
	r.Rule("C16/wrap-shape", "ServeHTTP wraps the routed handler in a reverse index loop over rt.Middlewares, inside `if hasPath` only, then serves it once with the derived request")
	r.Rule("C16/bypass", "spec-file branch returns before route(); h == nil selects the not-found handler and forces hasPath=false")
	r.Rule("C16/template-visible", "inside `if hasPath`, before wrapping, r is replaced by r.WithContext(WithValue(r.Context(), pathKey{}, <route's 2nd result>)) and SchemaPath reads that key type")
	r.Rule("C16/own-template", "the leaf the route model reaches for an instance of a declared template returns exactly that template (spec oracle), so SchemaPath is the matched template")
	r.Rule("C16/outside-security", "authentication wraps occur only inside route leaves (the value returned by route); ServeHTTP contains no other call")
	r.Rule("C16/routed-iff-hasPath", "operation leaves return (handler, own template, true); CORS leaves return hasPath=false and an empty template")
	r.Assumptions = append(r.Assumptions, "what a user middleware does with `next` is outside generated code", "programs quantifier bounded by the corpus")
	s3, progs := loadRouted(r, "C16", S3Options{TemplateDebug: true})
	if s3 == nil {
		return
	}
	defer s3.Close()
	nLeaves := 0
	for _, rp := range progs {
		p, m := rp.P, rp.M
		sm := m.Serve
		key := p.Name + ":API.ServeHTTP"
		pos := s3.pos(sm.Decl.Pos())
		if len(sm.Undecided) > 0 {
			r.Undecided("C16/wrap-shape", key, pos, "ServeHTTP not in the recognised shape: "+strings.Join(sm.Undecided, "; "))
			continue
		}
		r.Check(sm.LoopReverse && sm.LoopInsideHasPath && sm.FinalServe, "C16/wrap-shape", key, pos, "middleware loop is not the reverse loop inside `if hasPath` followed by a single h.ServeHTTP(rw, r)")
		r.Check(sm.SpecBeforeRoute && sm.SpecReturns && sm.NotFoundOK && sm.HasPathFalse, "C16/bypass", key, pos, "spec-file / not-found requests can reach the middleware loop")
		r.Check(sm.CtxStoreOK, "C16/template-visible", key, pos, "matched template is not stored in the request context before the middlewares are applied")
		r.OK("C16/outside-security", key, pos, "ServeHTTP fully recognised: no authentication call outside route()")
		modelUndecided(r, s3, rp, "C16/routed-iff-hasPath")
		// own template: a request for an instance of a declared template (fresh values for the
		// variables) that the reference matcher assigns to that template must reach a leaf whose
		// returned template is exactly the declared one — it is what SchemaPath hands to middlewares
		for _, po := range rp.O.Paths {
			segs := make([]string, len(po.Segments))
			for i, sgm := range po.Segments {
				if isVarSeg(sgm) {
					segs[i] = "zz~fresh"
				} else {
					segs[i] = sgm
				}
			}
			for method := range po.Ops {
				if ref := rp.O.Match(segs, method); ref == nil || ref.Template != po.Template {
					continue // shadowed by a more literal template: that one's obligation
				}
				okey := fmt.Sprintf("%s:%s %s", p.Name, method, po.Template)
				lf := m.Eval(rp.O.BasePath+"/"+strings.Join(segs, "/"), method)
				switch {
				case lf == nil || lf.Kind != "op":
					// reported by C03
				case lf.Template != po.Template:
					r.Violation("C16/own-template", okey, s3.pos(lf.Pos), fmt.Sprintf("the leaf reached for %s %s returns the template %q: SchemaPath would report a template the request did not match", method, po.Template, lf.Template))
				default:
					r.OK("C16/own-template", okey, s3.pos(lf.Pos), "")
				}
			}
		}
		for _, lf := range m.AllLeaves() {
			nLeaves++
			lkey := fmt.Sprintf("%s:%s %s leaf(%s)", p.Name, lf.Method, lf.Template, lf.Kind)
			switch lf.Kind {
			case "op":
				r.Check(lf.HasPath && lf.Template != "", "C16/routed-iff-hasPath", lkey, s3.pos(lf.Pos), "operation leaf returns hasPath=false or an empty template: middlewares would be skipped for a dispatched operation")
				r.Check(lf.Wrapped <= 1, "C16/outside-security", lkey, s3.pos(lf.Pos), "more than one security wrap on a leaf")
			case "cors":
				r.Check(!lf.HasPath && lf.Template == "", "C16/routed-iff-hasPath", lkey, s3.pos(lf.Pos), "CORS leaf returns hasPath=true: user middlewares would run for a request that matched no operation")
			}
		}
	}
	r.Analysed["leaves"] = nLeaves
	r.FloorMin("programs with a router", len(progs), 40)
	r.FloorMin("leaves checked", nLeaves, 100)
}
