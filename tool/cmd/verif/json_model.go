package main

// json_model.go — decompiles the hand-rolled JSON codecs goag emits for
// object schemas (marshalJSONInnerBody / unmarshalJSONInnerBody), array
// components and oneOf components into key tables.

import (
	"fmt"
	"go/ast"
	"go/constant"
	"go/token"
	"go/types"
	"strings"
)

type JSONWriteRow struct {
	Kind              string // prop | embedded | additional | comma
	Key               string
	Field             *types.Var
	Optional          bool // written only under <field>.Get()
	NullCapable       bool // v stays nil on some path (Nullable)
	NilSliceFix       bool // nil slice replaced by empty
	ViaCommaWriter    bool // embedded member written through &commaWriter{w: out, comma: comma}
	AdvancesIfWritten bool // `if cw.written { comma = "," }`
	KeyConst          bool
	Calls             []string
	Layouts           []string // constant layouts handed to time.Time.Format ("?" when not constant)
	Pos               token.Pos
}

type JSONReadRow struct {
	Kind            string // prop | embedded | additional
	Key             string
	Field           *types.Var
	Required        bool // else-branch returns a missing-key error
	MissingNamesKey bool
	SetsIsSet       bool
	Deletes         bool
	NullTest        bool
	DecodeTargets   []types.Type // types of the variables handed to json.Unmarshal(raw, &x)
	Layouts         []string     // constant layouts handed to time.Parse ("?" when not constant)
	Problems        []string
	Pos             token.Pos
}

type JSONObject struct {
	Type            *types.Named
	Writer          []JSONWriteRow
	Reader          []JSONReadRow
	WDecl, RDecl    *ast.FuncDecl
	WUndecided      []string
	RUndecided      []string
	KeyQuoted       bool   // writeProperty passes the key through a JSON quoting function
	WritePropertyOK string // "" or reason
	Emits           string // never | maybe | always (summary of the writer)
}

type JSONOneOf struct {
	Type          *types.Named
	Variants      []string          // field names in order
	Discriminator string            // "" when probing
	Cases         map[string]string // discriminator value -> unmarshalJSON_<X> suffix
	DefaultErr    bool
	ProbeOrder    []string
	Undecided     []string
	Decl          *ast.FuncDecl
}

func methodDecl(p *Program, recv, name string) *ast.FuncDecl { return p.funcDecl(recv, name) }

// jsonObjects: every named struct type with both inner-body methods.
func jsonObjects(p *Program) map[string]*JSONObject {
	out := map[string]*JSONObject{}
	for _, f := range p.Pkg.Syntax {
		for _, d := range f.Decls {
			fd, ok := d.(*ast.FuncDecl)
			if !ok || fd.Recv == nil || fd.Body == nil {
				continue
			}
			if fd.Name.Name != "marshalJSONInnerBody" && fd.Name.Name != "unmarshalJSONInnerBody" {
				continue
			}
			rn := recvTypeName(fd)
			tn, _ := p.Pkg.Types.Scope().Lookup(rn).(*types.TypeName)
			if tn == nil {
				continue
			}
			T, ok := types.Unalias(tn.Type()).(*types.Named)
			if !ok {
				continue
			}
			if _, isStruct := T.Underlying().(*types.Struct); !isStruct {
				continue // array components are handled separately
			}
			o := out[rn]
			if o == nil {
				o = &JSONObject{Type: T}
				out[rn] = o
			}
			if fd.Name.Name == "marshalJSONInnerBody" {
				o.WDecl = fd
			} else {
				o.RDecl = fd
			}
		}
	}
	for _, o := range out {
		if o.WDecl != nil {
			buildJSONWriter(p, o)
		} else {
			o.WUndecided = append(o.WUndecided, "no marshalJSONInnerBody")
		}
		if o.RDecl != nil {
			buildJSONReader(p, o)
		} else {
			o.RUndecided = append(o.RUndecided, "no unmarshalJSONInnerBody")
		}
	}
	// emits summaries (fixed point over embedded members)
	for iter := 0; iter < 6; iter++ {
		for _, o := range out {
			always, any := false, false
			for _, w := range o.Writer {
				switch w.Kind {
				case "prop":
					any = true
					if !w.Optional {
						always = true
					}
				case "additional":
					any = true
				case "embedded":
					any = true
					if w.Field != nil {
						if n, ok := derefNamed(w.Field.Type()); ok {
							if eo := out[n.Obj().Name()]; eo != nil && eo.Emits == "always" {
								always = true
							}
						}
					}
				}
			}
			switch {
			case always:
				o.Emits = "always"
			case any:
				o.Emits = "maybe"
			default:
				o.Emits = "never"
			}
		}
	}
	return out
}

// zeroValued: the reset `tgt = E` at the top of body assigns a zero value: a composite literal without
// elements, a constant zero, or a variable of the function that is declared without value and never
// assigned or address-taken.
func zeroValued(info *types.Info, fd *ast.FuncDecl, body *ast.BlockStmt, tgt types.Object) bool {
	for _, st := range body.List {
		as, ok := st.(*ast.AssignStmt)
		if !ok || as.Tok != token.ASSIGN || len(as.Lhs) != len(as.Rhs) {
			continue
		}
		for i, l := range as.Lhs {
			if identObj(info, l) != tgt {
				continue
			}
			rhs := ast.Unparen(as.Rhs[i])
			if cl, ok := rhs.(*ast.CompositeLit); ok {
				return len(cl.Elts) == 0
			}
			if tv, ok := info.Types[rhs]; ok && tv.Value != nil {
				z := tv.Value.String()
				return z == "0" || z == `""` || z == "false"
			}
			if isNilIdent(rhs) {
				return true
			}
			z := identObj(info, rhs)
			if z == nil {
				return false
			}
			declaredBare, touched := false, false
			ast.Inspect(fd.Body, func(n ast.Node) bool {
				switch x := n.(type) {
				case *ast.ValueSpec:
					for _, nm := range x.Names {
						if info.Defs[nm] == z && len(x.Values) == 0 {
							declaredBare = true
						}
					}
				case *ast.AssignStmt:
					for _, l2 := range x.Lhs {
						if identObj(info, l2) == z {
							touched = true
						}
					}
				case *ast.UnaryExpr:
					if x.Op == token.AND && identObj(info, x.X) == z {
						touched = true
					}
				case *ast.IncDecStmt:
					if identObj(info, x.X) == z {
						touched = true
					}
				}
				return true
			})
			return declaredBare && !touched
		}
	}
	return false
}

// nilFixAssigns: the block assigns a non-nil slice value (composite literal or make).
func nilFixAssigns(info *types.Info, b *ast.BlockStmt) bool {
	ok := false
	ast.Inspect(b, func(n ast.Node) bool {
		as, isAs := n.(*ast.AssignStmt)
		if !isAs {
			return true
		}
		for _, r := range as.Rhs {
			r = ast.Unparen(r)
			if cl, isCl := r.(*ast.CompositeLit); isCl {
				if t := info.TypeOf(cl); t != nil {
					if _, isSlice := t.Underlying().(*types.Slice); isSlice {
						ok = true
					}
				}
			}
			if call, isCall := r.(*ast.CallExpr); isCall {
				if id, isId := call.Fun.(*ast.Ident); isId && id.Name == "make" {
					if t := info.TypeOf(call); t != nil {
						if _, isSlice := t.Underlying().(*types.Slice); isSlice {
							ok = true
						}
					}
				}
			}
		}
		return true
	})
	return ok
}

// timeLayouts: the layout arguments of every time.Time.Format / time.Parse
// call under n, as quoted constant values.
func timeLayouts(info *types.Info, n ast.Node) []string {
	var out []string
	ast.Inspect(n, func(n ast.Node) bool {
		call, ok := n.(*ast.CallExpr)
		if !ok || len(call.Args) == 0 {
			return true
		}
		switch calleeName(info, call) {
		case "time.Time.Format", "time.Time.AppendFormat", "time.Parse", "time.ParseInLocation":
			if tv := info.Types[call.Args[0]]; tv.Value != nil && tv.Value.Kind() == constant.String {
				out = append(out, tv.Value.ExactString())
			} else {
				out = append(out, "?")
			}
		}
		return true
	})
	return out
}

func derefNamed(t types.Type) (*types.Named, bool) {
	if p, ok := t.(*types.Pointer); ok {
		t = p.Elem()
	}
	n, ok := types.Unalias(t).(*types.Named)
	return n, ok
}

func buildJSONWriter(p *Program, o *JSONObject) {
	info := p.Pkg.TypesInfo
	fd := o.WDecl
	und := func(f string, a ...any) { o.WUndecided = append(o.WUndecided, fmt.Sprintf(f, a...)) }
	c := &rmCtx{p: p, info: info, recv: recvObj(info, fd)}
	ps := paramObjs(info, fd)
	if len(ps) != 1 {
		und("unexpected signature")
		return
	}
	out := ps[0]
	list := mergeCommaOk(info, fd.Body.List)
	// prelude: up to `_ = writeProperty`
	var writeProperty, commaObj types.Object
	i := 0
	for ; i < len(list); i++ {
		if as, ok := list[i].(*ast.AssignStmt); ok && len(as.Lhs) == 1 && len(as.Rhs) == 1 {
			if id, ok := as.Lhs[0].(*ast.Ident); ok && id.Name == "_" {
				if wp := identObj(info, as.Rhs[0]); wp != nil && isFuncVar(wp) {
					writeProperty = wp
					i++
					break
				}
			}
		}
	}
	if writeProperty == nil {
		und("prelude does not end in `_ = writeProperty`")
		return
	}
	// closure shape of writeProperty and the comma variable
	var wpLit *ast.FuncLit
	for _, st := range list[:i] {
		switch s := st.(type) {
		case *ast.AssignStmt:
			if len(s.Lhs) == 1 && identObj(info, s.Lhs[0]) == writeProperty {
				wpLit, _ = s.Rhs[0].(*ast.FuncLit)
			}
		}
	}
	// the separator variable is the string variable the member closure sets to ","
	if wpLit != nil {
		ast.Inspect(wpLit.Body, func(n ast.Node) bool {
			if as, ok := n.(*ast.AssignStmt); ok && len(as.Lhs) == 1 && len(as.Rhs) == 1 {
				if tv := info.Types[as.Rhs[0]]; tv.Value != nil && tv.Value.Kind() == constant.String && constant.StringVal(tv.Value) == "," {
					commaObj = identObj(info, as.Lhs[0])
				}
			}
			return true
		})
	}
	o.WritePropertyOK = writePropertyShape(p, wpLit, commaObj, &o.KeyQuoted)
	for ; i < len(list); i++ {
		st := list[i]
		if i == len(list)-1 {
			if ret, ok := st.(*ast.ReturnStmt); ok && len(ret.Results) == 1 {
				continue
			}
			und("writer does not end in `return err`")
			continue
		}
		switch s := st.(type) {
		case *ast.AssignStmt:
			if len(s.Lhs) == 1 && commaObj != nil && identObj(info, s.Lhs[0]) == commaObj {
				if v, ok := c.constStr(s.Rhs[0]); ok && v == "," {
					o.Writer = append(o.Writer, JSONWriteRow{Kind: "comma", Pos: s.Pos()})
					continue
				}
			}
			und("unexpected assignment %s", types.ExprString(s.Lhs[0]))
		case *ast.RangeStmt:
			// for k, v := range c.AdditionalProperties { writeProperty(k, v) }
			path, fld := c.fieldSel(s.X, c.recv)
			row := JSONWriteRow{Kind: "additional", Field: fld, Pos: s.Pos()}
			okBody := false
			if len(path) == 1 && len(s.Body.List) == 1 {
				if es, ok := s.Body.List[0].(*ast.ExprStmt); ok {
					if call, ok := es.X.(*ast.CallExpr); ok && identObj(info, call.Fun) == writeProperty && len(call.Args) == 2 {
						if identObj(info, call.Args[0]) == identObj(info, s.Key) && identObj(info, call.Args[1]) == identObj(info, s.Value) {
							okBody = true
						}
					}
				}
			}
			if !okBody {
				und("range statement is not the additionalProperties writer")
				continue
			}
			o.Writer = append(o.Writer, row)
		case *ast.BlockStmt, *ast.IfStmt:
			row := JSONWriteRow{Pos: st.Pos()}
			var body *ast.BlockStmt
			var alias types.Object
			if ifs, ok := s.(*ast.IfStmt); ok {
				as, okA := ifs.Init.(*ast.AssignStmt)
				if !okA || ifs.Else != nil || len(as.Lhs) != 2 || identObj(info, ifs.Cond) != identObj(info, as.Lhs[1]) {
					und("unexpected if statement in writer")
					continue
				}
				call, okC := as.Rhs[0].(*ast.CallExpr)
				var sel *ast.SelectorExpr
				if okC {
					sel, _ = call.Fun.(*ast.SelectorExpr)
				}
				if sel == nil || sel.Sel.Name != "Get" {
					und("optional guard is not <field>.Get()")
					continue
				}
				path, fld := c.fieldSel(sel.X, c.recv)
				if len(path) != 1 || fld == nil {
					und("optional guard does not read a field of the receiver")
					continue
				}
				row.Optional, row.Field = true, fld
				alias = identObj(info, as.Lhs[0])
				body = ifs.Body
			} else {
				body = s.(*ast.BlockStmt)
			}
			// embedded?
			isEmb := false
			nWP := 0
			ast.Inspect(body, func(n ast.Node) bool {
				call, ok := n.(*ast.CallExpr)
				if !ok {
					return true
				}
				if sel, ok := call.Fun.(*ast.SelectorExpr); ok && sel.Sel.Name == "marshalJSONInnerBody" && len(call.Args) == 1 {
					arg0 := ast.Unparen(call.Args[0])
					if u, isU := arg0.(*ast.UnaryExpr); isU && u.Op == token.AND {
						arg0 = u.X // &cw of a commaWriter value
					}
					if identObj(info, call.Args[0]) == out {
						isEmb = true
					} else if cw := identObj(info, arg0); cw != nil && isCommaWriterOf(p, body, cw, out, commaObj) {
						isEmb = true
						row.ViaCommaWriter = true
						row.AdvancesIfWritten = advancesIfWritten(info, body, cw, commaObj)
					}
				}
				if identObj(info, call.Fun) == writeProperty && len(call.Args) == 2 {
					nWP++
					if k, ok := c.constStr(call.Args[0]); ok {
						row.Key, row.KeyConst = k, true
					} else {
						row.Key = types.ExprString(call.Args[0])
					}
				}
				return true
			})
			// field(s) referenced
			fields := map[*types.Var]bool{}
			ast.Inspect(body, func(n ast.Node) bool {
				if sel, ok := n.(*ast.SelectorExpr); ok {
					if path, fld := c.fieldSel(sel, c.recv); len(path) >= 1 && fld != nil {
						// outermost field of the receiver
						root := sel
						for {
							inner, ok := root.X.(*ast.SelectorExpr)
							if !ok {
								break
							}
							root = inner
						}
						if s := info.Selections[root]; s != nil {
							if v, ok := s.Obj().(*types.Var); ok {
								fields[v] = true
							}
						}
						return false
					}
				}
				return true
			})
			if row.Field != nil {
				fields[row.Field] = true
			}
			_ = alias
			if len(fields) != 1 {
				und("writer block at %s touches %d fields of the receiver", p.Pkg.Fset.Position(st.Pos()), len(fields))
				continue
			}
			for f := range fields {
				row.Field = f
			}
			switch {
			case isEmb && nWP == 0:
				row.Kind = "embedded"
			case !isEmb && nWP == 1:
				row.Kind = "prop"
				// null-capable: `var v any` (nil) only conditionally assigned under a Get()
				row.NullCapable = nullCapableWriter(info, body)
				ast.Inspect(body, func(n ast.Node) bool {
					if ifs, ok := n.(*ast.IfStmt); ok {
						if be, ok := ifs.Cond.(*ast.BinaryExpr); ok && (be.Op == token.EQL || be.Op == token.NEQ) && isNilIdent(be.Y) {
							// the test must see the slice itself: a nil slice stored in an interface
							// variable (`var v any = s; if v == nil`) compares unequal to nil
							if t := info.TypeOf(be.X); t != nil {
								nilArm := ifs.Body
								if be.Op == token.NEQ {
									// `if s != nil { v = s } else { v = []T{} }`
									nilArm, _ = ifs.Else.(*ast.BlockStmt)
								}
								if _, isSlice := t.Underlying().(*types.Slice); isSlice && nilArm != nil && nilFixAssigns(info, nilArm) {
									row.NilSliceFix = true
								}
							}
						}
					}
					return true
				})
			default:
				und("writer block is neither a single writeProperty nor an embedded delegation")
				continue
			}
			ast.Inspect(body, func(n ast.Node) bool {
				if call, ok := n.(*ast.CallExpr); ok {
					if tv, ok := info.Types[call.Fun]; ok && tv.IsType() {
						return true
					}
					nm := calleeName(info, call)
					if nm == "" {
						nm = types.ExprString(call.Fun)
					}
					row.Calls = append(row.Calls, nm)
				}
				return true
			})
			row.Layouts = timeLayouts(info, body)
			o.Writer = append(o.Writer, row)
		default:
			und("unexpected statement %T in writer", st)
		}
	}
}

// nullCapableWriter: the value handed to writeProperty may still be nil:
// `var v any` followed only by assignments under `if x, ok := <…>.Get(); ok`.
func nullCapableWriter(info *types.Info, body *ast.BlockStmt) bool {
	var v types.Object
	for _, st := range body.List {
		if ds, ok := st.(*ast.DeclStmt); ok {
			if gd, ok := ds.Decl.(*ast.GenDecl); ok && gd.Tok == token.VAR {
				vs := gd.Specs[0].(*ast.ValueSpec)
				if len(vs.Names) == 1 && vs.Names[0].Name == "v" {
					v = info.Defs[vs.Names[0]]
				}
			}
		}
	}
	if v == nil {
		return false
	}
	uncond := assignsOnAllPaths(info, body.List, v)
	return !uncond
}

// assignsOnAllPaths: v is assigned by a statement of the list itself, by a nested plain block, or by
// both arms of an if/else (recursively) — whatever the path through the list, v is assigned.
func assignsOnAllPaths(info *types.Info, list []ast.Stmt, v types.Object) bool {
	for _, st := range list {
		switch s := st.(type) {
		case *ast.AssignStmt:
			for _, l := range s.Lhs {
				if identObj(info, l) == v {
					return true
				}
			}
		case *ast.BlockStmt:
			if assignsOnAllPaths(info, s.List, v) {
				return true
			}
		case *ast.IfStmt:
			if s.Else == nil {
				continue
			}
			thenOK := assignsOnAllPaths(info, s.Body.List, v)
			elseOK := false
			switch e := s.Else.(type) {
			case *ast.BlockStmt:
				elseOK = assignsOnAllPaths(info, e.List, v)
			case *ast.IfStmt:
				elseOK = assignsOnAllPaths(info, []ast.Stmt{e}, v)
			}
			if thenOK && elseOK {
				return true
			}
		}
	}
	return false
}

// writePropertyShape checks the closure: writes comma + quote + name + quote-colon, null or Encode(v), then comma = ",".
func writePropertyShape(p *Program, lit *ast.FuncLit, comma types.Object, keyQuoted *bool) string {
	if lit == nil {
		return "writeProperty closure not found"
	}
	info := p.Pkg.TypesInfo
	var names []*ast.Ident
	for _, f := range lit.Type.Params.List {
		names = append(names, f.Names...)
	}
	if len(names) != 2 {
		return "writeProperty does not take (name, v)"
	}
	name := info.Defs[names[0]]
	setsComma, usesComma, encodes := false, false, false
	quoted := false
	ast.Inspect(lit.Body, func(n ast.Node) bool {
		switch x := n.(type) {
		case *ast.AssignStmt:
			if len(x.Lhs) == 1 && identObj(info, x.Lhs[0]) == comma {
				if tv := info.Types[x.Rhs[0]]; tv.Value != nil && constant.StringVal(tv.Value) == "," {
					setsComma = true
				}
			}
		case *ast.CallExpr:
			nm := calleeName(info, x)
			if nm == "encoding/json.Encoder.Encode" {
				encodes = true
			}
			if nm == "encoding/json.Marshal" || nm == "strconv.Quote" || nm == "strconv.AppendQuote" {
				for _, a := range x.Args {
					if identObj(info, a) == name {
						quoted = true
					}
				}
			}
		case *ast.BinaryExpr:
			if x.Op == token.ADD && identObj(info, x.X) == comma {
				usesComma = true
			}
		}
		return true
	})
	*keyQuoted = quoted
	// every call inside the closure must be one of: write(…), json.Marshal(name), encoder.Encode(v), conversions;
	// the value must reach the output through the JSON encoder only
	strayCall, elseIf := "", false
	ast.Inspect(lit.Body, func(n ast.Node) bool {
		switch x := n.(type) {
		case *ast.IfStmt:
			if be, ok := x.Cond.(*ast.BinaryExpr); ok && isNilIdent(be.Y) && identObj(info, be.X) == info.Defs[names[1]] {
				if _, chained := x.Else.(*ast.IfStmt); chained {
					elseIf = true
				}
			}
		case *ast.CallExpr:
			if tv, ok := info.Types[x.Fun]; ok && tv.IsType() {
				return true
			}
			nm := calleeName(info, x)
			switch nm {
			case "encoding/json.Encoder.Encode", "encoding/json.Marshal":
				return true
			}
			if id, ok := x.Fun.(*ast.Ident); ok {
				if _, isVar := identObj(info, id).(*types.Var); isVar {
					return true // the local write closure
				}
			}
			if nm == "" {
				nm = types.ExprString(x.Fun)
			}
			strayCall = nm
		}
		return true
	})
	if strayCall != "" {
		return "writeProperty calls " + strayCall + ": a value can reach the output without going through the JSON encoder"
	}
	if elseIf {
		return "writeProperty has more than the null / encoder alternatives for the value"
	}
	switch {
	case !usesComma:
		return "writeProperty does not prefix the member with the comma variable"
	case !setsComma:
		return "writeProperty does not set comma = \",\" after writing a member"
	case !encodes:
		return "writeProperty does not encode the value with the JSON encoder"
	}
	return ""
}

func buildJSONReader(p *Program, o *JSONObject) {
	info := p.Pkg.TypesInfo
	fd := o.RDecl
	und := func(f string, a ...any) { o.RUndecided = append(o.RUndecided, fmt.Sprintf(f, a...)) }
	c := &rmCtx{p: p, info: info, recv: recvObj(info, fd)}
	ps := paramObjs(info, fd)
	if len(ps) != 1 {
		und("unexpected signature")
		return
	}
	m := ps[0]
	list := mergeCommaOk(info, fd.Body.List)
	// the tail of the decoder moved into a method of its own: `return c.unmarshalJSONAdditionalProperties(m)`
	if n := len(list); n > 0 {
		if ret, ok := list[n-1].(*ast.ReturnStmt); ok && len(ret.Results) == 1 && !isNilIdent(ret.Results[0]) {
			if exp, ok := p.inliner().expandTailCall(list); ok {
				list = mergeCommaOk(info, exp)
			}
		}
	}
	outerField := func(e ast.Expr) *types.Var {
		// outermost field of the receiver in a selector chain
		e = ast.Unparen(e)
		var last *types.Var
		for {
			sel, ok := e.(*ast.SelectorExpr)
			if !ok {
				break
			}
			if c.isObj(sel.X, c.recv) {
				if s := info.Selections[sel]; s != nil {
					last, _ = s.Obj().(*types.Var)
				}
				return last
			}
			e = sel.X
		}
		return nil
	}
	for i := 0; i < len(list); i++ {
		st := list[i]
		// a property written as its own block with a guard clause:
		//   { raw, ok := m[K]; if !ok { return missing }; decode; delete(m, K) }
		// is the same statement as `if raw, ok := m[K]; ok { decode; delete } else { return missing }`
		if blk, isBlk := st.(*ast.BlockStmt); isBlk {
			if v := mergeCommaOk(info, normGuards(info, blk.List)); len(v) == 1 {
				if ifs, isIf := v[0].(*ast.IfStmt); isIf && ifs.Init != nil {
					if as, isAs := ifs.Init.(*ast.AssignStmt); isAs && len(as.Rhs) == 1 {
						if ix, isIx := as.Rhs[0].(*ast.IndexExpr); isIx && c.isObj(ix.X, m) {
							st = ifs
						}
					}
				}
			}
		}
		switch s := st.(type) {
		case *ast.DeclStmt:
			continue // var err error
		case *ast.AssignStmt:
			if len(s.Lhs) == 1 {
				if id, ok := s.Lhs[0].(*ast.Ident); ok && id.Name == "_" {
					continue // _ = err
				}
			}
			und("unexpected assignment in reader")
		case *ast.ReturnStmt:
			if i != len(list)-1 || len(s.Results) != 1 || !isNilIdent(s.Results[0]) {
				und("unexpected return in reader")
			}
		case *ast.BlockStmt:
			// embedded: { var v T; err := v.unmarshalJSONInnerBody(m); if err != nil { return … }; c.X = v }
			row := JSONReadRow{Kind: "embedded", Pos: s.Pos()}
			okCall, okErr := false, false
			for j, s2 := range s.List {
				switch x := s2.(type) {
				case *ast.AssignStmt:
					if len(x.Rhs) == 1 {
						if call, ok := x.Rhs[0].(*ast.CallExpr); ok {
							if sel, ok := call.Fun.(*ast.SelectorExpr); ok && sel.Sel.Name == "unmarshalJSONInnerBody" && len(call.Args) == 1 && c.isObj(call.Args[0], m) {
								okCall = true
								if j+1 < len(s.List) {
									if ifs, ok := s.List[j+1].(*ast.IfStmt); ok && condTestsErrG(info, ifs.Cond, identObj(info, x.Lhs[0])) && terminatesWithError(info, ifs.Body.List) {
										okErr = true
									}
								}
								continue
							}
							// SetFromSchema… for custom types: error must be checked
							if idx, _ := returnsError(info, call); idx >= 0 {
								if j+1 < len(s.List) {
									if ifs, ok := s.List[j+1].(*ast.IfStmt); ok && condTestsErrG(info, ifs.Cond, identObj(info, x.Lhs[len(x.Lhs)-1])) && terminatesWithError(info, ifs.Body.List) {
										if sel, ok := call.Fun.(*ast.SelectorExpr); ok {
											if f := outerField(sel.X); f != nil {
												row.Field = f
											}
										}
										continue
									}
								}
								row.Problems = append(row.Problems, "error of "+types.ExprString(call.Fun)+" is not checked")
							}
						}
					}
					for _, l := range x.Lhs {
						if f := outerField(l); f != nil {
							row.Field = f
						}
					}
				}
			}
			if !okCall || !okErr || row.Field == nil {
				und("block is not an embedded-member decode (delegation with checked error and store)")
				continue
			}
			o.Reader = append(o.Reader, row)
		case *ast.IfStmt:
			// additional: if len(m) > 0 { c.AP = make(...) } followed by for k, bs := range m { … }
			if s.Init == nil {
				if be, ok := s.Cond.(*ast.BinaryExpr); ok && be.Op == token.GTR && types.ExprString(be.X) == "len("+m.Name()+")" {
					// the collector loop follows the make-guard or stands inside it (after the make)
					var rs *ast.RangeStmt
					inside := false
					if len(s.Body.List) == 2 {
						if r2, ok := s.Body.List[1].(*ast.RangeStmt); ok && c.isObj(r2.X, m) {
							rs, inside = r2, true
						}
					}
					skipDecls := 0
					if rs == nil && len(s.Body.List) == 1 {
						// declarations of the decode target may stand between the make-guard and the loop
						j := i + 1
						for j < len(list) {
							if _, isDecl := list[j].(*ast.DeclStmt); !isDecl {
								break
							}
							j++
						}
						if j < len(list) {
							if r2, ok := list[j].(*ast.RangeStmt); ok && c.isObj(r2.X, m) {
								rs = r2
								skipDecls = j - (i + 1)
							}
						}
					}
					if rs != nil {
						row := JSONReadRow{Kind: "additional", Pos: s.Pos()}
						if as, ok := s.Body.List[0].(*ast.AssignStmt); ok {
							row.Field = outerField(as.Lhs[0])
						}
						// error discipline inside the loop
						okErr := true
						for j, s2 := range rs.Body.List {
							if as, ok := s2.(*ast.AssignStmt); ok && len(as.Rhs) == 1 {
								if call, ok := as.Rhs[0].(*ast.CallExpr); ok {
									if idx, _ := returnsError(info, call); idx >= 0 {
										good := false
										if j+1 < len(rs.Body.List) {
											if ifs, ok := rs.Body.List[j+1].(*ast.IfStmt); ok && condTestsErrG(info, ifs.Cond, identObj(info, as.Lhs[len(as.Lhs)-1])) && terminatesWithError(info, ifs.Body.List) {
												good = true
											}
										}
										if !good {
											okErr = false
										}
									}
								}
							}
						}
						if !okErr {
							row.Problems = append(row.Problems, "decode error of an additional property is not returned")
						}
						// fresh variable per entry: the decoded value must be declared inside the loop body
						fresh := false
						for _, s2 := range rs.Body.List {
							if ds, ok := s2.(*ast.DeclStmt); ok {
								if gd, ok := ds.Decl.(*ast.GenDecl); ok && gd.Tok == token.VAR {
									fresh = true
								}
							}
						}
						if !fresh {
							// or: declared outside and reset at the top of every iteration (`v = zero`)
							nT, nReset := 0, 0
							ast.Inspect(rs.Body, func(n ast.Node) bool {
								call, ok := n.(*ast.CallExpr)
								if !ok {
									return true
								}
								for _, a := range call.Args {
									if u, ok := ast.Unparen(a).(*ast.UnaryExpr); ok && u.Op == token.AND {
										if tgt := identObj(info, u.X); tgt != nil {
											nT++
											if resetBefore(info, rs.Body, tgt, call.Pos()) && zeroValued(info, fd, rs.Body, tgt) {
												nReset++
											}
										}
									}
								}
								return true
							})
							fresh = nT > 0 && nT == nReset
						}
						if !fresh {
							row.Problems = append(row.Problems, "additional properties are decoded into a variable that is not re-declared per entry: state of an earlier entry leaks into later ones")
						}
						if row.Field == nil {
							und("additionalProperties map is not made on the receiver")
						}
						o.Reader = append(o.Reader, row)
						if !inside {
							i += 1 + skipDecls
						}
						continue
					}
				}
				und("unexpected if statement in reader")
				continue
			}
			// property: if raw, ok := m[KEY]; ok { … } [else { return missing }]
			as, okA := s.Init.(*ast.AssignStmt)
			if !okA || len(as.Lhs) != 2 || len(as.Rhs) != 1 || identObj(info, s.Cond) != identObj(info, as.Lhs[1]) {
				und("property block does not start with `raw, ok := m[<key>]; ok`")
				continue
			}
			ix, okI := as.Rhs[0].(*ast.IndexExpr)
			if !okI || !c.isObj(ix.X, m) {
				und("property lookup is not on the raw map")
				continue
			}
			key, okK := c.constStr(ix.Index)
			if !okK {
				und("property key is not a constant")
				continue
			}
			raw := identObj(info, as.Lhs[0])
			row := JSONReadRow{Kind: "prop", Key: key, Pos: s.Pos()}
			// else
			switch e := s.Else.(type) {
			case nil:
			case *ast.BlockStmt:
				if terminatesWithError(info, e.List) {
					row.Required = true
					ret := e.List[len(e.List)-1].(*ast.ReturnStmt)
					if call, ok := ret.Results[0].(*ast.CallExpr); ok && len(call.Args) > 0 {
						if sfmt, ok := c.constStr(call.Args[0]); ok && strings.Contains(sfmt, "'"+key+"'") {
							row.MissingNamesKey = true
						}
					}
				} else {
					row.Problems = append(row.Problems, "else branch of a required key does not return an error")
				}
			default:
				row.Problems = append(row.Problems, "unexpected else form")
			}
			// body facts
			fields := map[*types.Var]bool{}
			ast.Inspect(s.Body, func(n ast.Node) bool {
				switch x := n.(type) {
				case *ast.AssignStmt:
					for _, l := range x.Lhs {
						if f := outerField(l); f != nil {
							fields[f] = true
							if strings.HasSuffix(types.ExprString(l), ".IsSet") {
								if tv := info.Types[x.Rhs[0]]; tv.Value != nil && tv.Value.String() == "true" {
									row.SetsIsSet = true
								}
							}
						}
					}
				case *ast.UnaryExpr:
					if x.Op == token.AND {
						if f := outerField(x.X); f != nil {
							fields[f] = true
						}
					}
				case *ast.CallExpr:
					if id, ok := x.Fun.(*ast.Ident); ok && id.Name == "delete" && len(x.Args) == 2 && c.isObj(x.Args[0], m) {
						if k, ok := c.constStr(x.Args[1]); ok && k == key {
							row.Deletes = true
						}
					}
					if sel, ok := x.Fun.(*ast.SelectorExpr); ok {
						if f := outerField(sel.X); f != nil {
							fields[f] = true
							if sel.Sel.Name == "Set" {
								row.SetsIsSet = true
							}
						}
					}
				case *ast.BinaryExpr:
					if x.Op == token.NEQ || x.Op == token.EQL {
						if v, ok := c.constStr(x.Y); ok && v == "null" {
							row.NullTest = true
						}
					}
				case *ast.IfStmt:
					// a condition that mentions "null" must be exactly `string(raw) == "null"` or its
					// negation, whatever its spelling (len(raw) == 4 may be and-ed / or-ed in)
					if mentionsNullConst(c, x.Cond) {
						if why := nullCondExact(c, x.Cond); why != "" {
							row.Problems = append(row.Problems, "key "+key+": "+why)
						}
					}
				}
				return true
			})
			if len(fields) != 1 {
				row.Problems = append(row.Problems, fmt.Sprintf("the block for key %q stores into %d fields of the receiver", key, len(fields)))
			}
			for f := range fields {
				row.Field = f
			}
			// error discipline: every error-returning call is followed by a checked return mentioning the key
			var visit func(l []ast.Stmt)
			visit = func(l []ast.Stmt) {
				for j, s2 := range l {
					switch x := s2.(type) {
					case *ast.AssignStmt:
						if len(x.Rhs) == 1 {
							if call, ok := x.Rhs[0].(*ast.CallExpr); ok {
								if idx, _ := returnsError(info, call); idx >= 0 {
									good := false
									var eo types.Object
									if idx < len(x.Lhs) {
										eo = identObj(info, x.Lhs[idx])
									}
									if eo != nil && j+1 < len(l) {
										if ifs, ok := l[j+1].(*ast.IfStmt); ok && condTestsErrG(info, ifs.Cond, eo) && terminatesWithError(info, ifs.Body.List) {
											ret := ifs.Body.List[len(ifs.Body.List)-1].(*ast.ReturnStmt)
											if call2, ok := ret.Results[0].(*ast.CallExpr); ok && len(call2.Args) > 0 {
												if sfmt, ok := c.constStr(call2.Args[0]); ok && strings.Contains(sfmt, "'"+key+"'") {
													good = true
												}
											}
										}
									}
									if !good {
										row.Problems = append(row.Problems, "the error of "+calleeName(info, call)+" for key "+key+" is not returned with the key named: a wrong-typed value would be accepted or reported without its property")
									}
									if strings.HasSuffix(calleeName(info, call), "json.Unmarshal") && len(call.Args) == 2 {
										if u, ok := call.Args[1].(*ast.UnaryExpr); ok && u.Op == token.AND {
											if t := info.TypeOf(u.X); t != nil {
												row.DecodeTargets = append(row.DecodeTargets, t)
											}
										}
									}
									// the decode source must be the raw value of this key
									usesRaw := false
									for _, a := range call.Args {
										if identObj(info, a) == raw {
											usesRaw = true
										}
									}
									if !usesRaw && (strings.HasSuffix(calleeName(info, call), "json.Unmarshal") || strings.HasSuffix(calleeName(info, call), ".UnmarshalJSON")) {
										row.Problems = append(row.Problems, "decode for key "+key+" does not read this key's raw value")
									}
								}
							}
						}
					case *ast.IfStmt:
						visit(x.Body.List)
						if b, ok := x.Else.(*ast.BlockStmt); ok {
							visit(b.List)
						}
					case *ast.BlockStmt:
						visit(x.List)
					case *ast.ExprStmt:
						if call, ok := x.X.(*ast.CallExpr); ok {
							if idx, _ := returnsError(info, call); idx >= 0 {
								row.Problems = append(row.Problems, "error of "+calleeName(info, call)+" dropped")
							}
						}
					}
				}
			}
			visit(s.Body.List)
			row.Layouts = timeLayouts(info, s.Body)
			o.Reader = append(o.Reader, row)
		case *ast.RangeStmt:
			und("range statement without the preceding make-guard")
		default:
			und("unexpected statement %T in reader", st)
		}
	}
}

// jsonOneOfs: components with unmarshalJSON_<X> methods.
func jsonOneOfs(p *Program) map[string]*JSONOneOf {
	info := p.Pkg.TypesInfo
	out := map[string]*JSONOneOf{}
	for _, f := range p.Pkg.Syntax {
		for _, d := range f.Decls {
			fd, ok := d.(*ast.FuncDecl)
			if !ok || fd.Recv == nil || fd.Body == nil || fd.Name.Name != "UnmarshalJSON" {
				continue
			}
			rn := recvTypeName(fd)
			// oneOf types have methods unmarshalJSON_*
			hasVariant := false
			for _, f2 := range p.Pkg.Syntax {
				for _, d2 := range f2.Decls {
					if fd2, ok := d2.(*ast.FuncDecl); ok && fd2.Recv != nil && recvTypeName(fd2) == rn && strings.HasPrefix(fd2.Name.Name, "unmarshalJSON_") {
						hasVariant = true
					}
				}
			}
			if !hasVariant {
				continue
			}
			tn, _ := p.Pkg.Types.Scope().Lookup(rn).(*types.TypeName)
			if tn == nil {
				continue
			}
			T, _ := types.Unalias(tn.Type()).(*types.Named)
			oo := &JSONOneOf{Type: T, Cases: map[string]string{}, Decl: fd}
			out[rn] = oo
			if st, ok := T.Underlying().(*types.Struct); ok {
				for i := 0; i < st.NumFields(); i++ {
					oo.Variants = append(oo.Variants, st.Field(i).Name())
				}
			}
			c := &rmCtx{p: p, info: info, recv: recvObj(info, fd)}
			// discriminator form: switch v.Key { case "a","b": return c.unmarshalJSON_X(bs) … default: return error }
			var sw *ast.SwitchStmt
			for _, st := range fd.Body.List {
				if s, ok := st.(*ast.SwitchStmt); ok {
					sw = s
				}
				if ds, ok := st.(*ast.DeclStmt); ok {
					// type tp struct{ Key string `json:"<disc>"` }
					if gd, ok := ds.Decl.(*ast.GenDecl); ok && gd.Tok == token.TYPE {
						if ts, ok := gd.Specs[0].(*ast.TypeSpec); ok {
							if stt, ok := ts.Type.(*ast.StructType); ok && len(stt.Fields.List) == 1 && stt.Fields.List[0].Tag != nil {
								tag := strings.Trim(stt.Fields.List[0].Tag.Value, "`")
								tag = strings.TrimPrefix(tag, `json:"`)
								oo.Discriminator = strings.TrimSuffix(tag, `"`)
							}
						}
					}
				}
			}
			if sw != nil {
				for _, cc := range sw.Body.List {
					cl := cc.(*ast.CaseClause)
					if cl.List == nil {
						oo.DefaultErr = terminatesWithError(info, cl.Body)
						continue
					}
					target := ""
					if len(cl.Body) == 1 {
						if ret, ok := cl.Body[0].(*ast.ReturnStmt); ok && len(ret.Results) == 1 {
							if call, ok := ret.Results[0].(*ast.CallExpr); ok {
								if sel, ok := call.Fun.(*ast.SelectorExpr); ok && c.isObj(sel.X, c.recv) && strings.HasPrefix(sel.Sel.Name, "unmarshalJSON_") {
									target = strings.TrimPrefix(sel.Sel.Name, "unmarshalJSON_")
								}
							}
						}
					}
					if target == "" {
						oo.Undecided = append(oo.Undecided, "discriminator case does not `return c.unmarshalJSON_<X>(bs)`")
						continue
					}
					for _, e := range cl.List {
						if v, ok := c.constStr(e); ok {
							if _, dup := oo.Cases[v]; dup {
								oo.Undecided = append(oo.Undecided, "duplicate discriminator value "+v)
							}
							oo.Cases[v] = target
						} else {
							oo.Undecided = append(oo.Undecided, "non-constant discriminator case")
						}
					}
				}
				if oo.Discriminator == "" {
					oo.Undecided = append(oo.Undecided, "discriminator switch without a tagged key struct")
				}
				continue
			}
			// probing form: err = c.unmarshalJSON_X(bs); if err == nil { return nil } …; return error
			for i, st := range fd.Body.List {
				if as, ok := st.(*ast.AssignStmt); ok && len(as.Rhs) == 1 {
					if call, ok := as.Rhs[0].(*ast.CallExpr); ok {
						if sel, ok := call.Fun.(*ast.SelectorExpr); ok && c.isObj(sel.X, c.recv) && strings.HasPrefix(sel.Sel.Name, "unmarshalJSON_") {
							oo.ProbeOrder = append(oo.ProbeOrder, strings.TrimPrefix(sel.Sel.Name, "unmarshalJSON_"))
							okNext := false
							if i+1 < len(fd.Body.List) {
								if ifs, ok := fd.Body.List[i+1].(*ast.IfStmt); ok && types.ExprString(ifs.Cond) == types.ExprString(as.Lhs[0])+" == nil" {
									okNext = true
								}
							}
							if !okNext {
								oo.Undecided = append(oo.Undecided, "probe of "+sel.Sel.Name+" is not followed by `if err == nil { return nil }`")
							}
						}
					}
				}
			}
			// table-driven probing: variants := []func([]byte) error{c.unmarshalJSON_A, …};
			// for _, f := range variants { err = f(bs); if err == nil { return nil } }
			if len(oo.ProbeOrder) == 0 {
				var table types.Object
				var order []string
				for _, st := range fd.Body.List {
					switch x := st.(type) {
					case *ast.AssignStmt:
						if x.Tok != token.DEFINE || len(x.Lhs) != 1 || len(x.Rhs) != 1 {
							continue
						}
						cl, ok := x.Rhs[0].(*ast.CompositeLit)
						if !ok {
							continue
						}
						var names []string
						for _, el := range cl.Elts {
							sel, ok := el.(*ast.SelectorExpr)
							if !ok || !c.isObj(sel.X, c.recv) || !strings.HasPrefix(sel.Sel.Name, "unmarshalJSON_") {
								names = nil
								break
							}
							names = append(names, strings.TrimPrefix(sel.Sel.Name, "unmarshalJSON_"))
						}
						if len(names) > 0 {
							table, order = identObj(info, x.Lhs[0]), names
						}
					case *ast.RangeStmt:
						if table == nil || !c.isObj(x.X, table) || x.Value == nil || len(x.Body.List) != 2 {
							continue
						}
						f := identObj(info, x.Value)
						as, ok1 := x.Body.List[0].(*ast.AssignStmt)
						ifs, ok2 := x.Body.List[1].(*ast.IfStmt)
						if !ok1 || !ok2 || len(as.Rhs) != 1 || len(as.Lhs) != 1 {
							continue
						}
						call, ok := as.Rhs[0].(*ast.CallExpr)
						if !ok || identObj(info, call.Fun) != f || len(call.Args) != 1 {
							continue
						}
						okRet := false
						if types.ExprString(ifs.Cond) == types.ExprString(as.Lhs[0])+" == nil" && ifs.Else == nil && len(ifs.Body.List) == 1 {
							if ret, ok := ifs.Body.List[0].(*ast.ReturnStmt); ok && len(ret.Results) == 1 && isNilIdent(ret.Results[0]) {
								okRet = true
							}
						}
						if okRet {
							oo.ProbeOrder = order
						}
					}
				}
			}
			if last, ok := fd.Body.List[len(fd.Body.List)-1].(*ast.ReturnStmt); ok {
				oo.DefaultErr = len(last.Results) == 1 && !isNilIdent(last.Results[0])
			}
		}
	}
	return out
}

// isCommaWriterOf: body contains `cw := &commaWriter{w: out, comma: comma}` and the package's commaWriter has the recognised Write.
func isCommaWriterOf(p *Program, body *ast.BlockStmt, cw, out, comma types.Object) bool {
	info := p.Pkg.TypesInfo
	ok := false
	cwName := ""
	for _, st := range body.List {
		as, isAs := st.(*ast.AssignStmt)
		if !isAs || as.Tok != token.DEFINE || len(as.Lhs) != 1 || identObj(info, as.Lhs[0]) != cw {
			continue
		}
		u, isU := as.Rhs[0].(*ast.UnaryExpr)
		if !isU || u.Op != token.AND {
			continue
		}
		cl, isCl := u.X.(*ast.CompositeLit)
		if !isCl || len(cl.Elts) != 2 {
			continue
		}
		cwType, _ := info.TypeOf(cl).(*types.Named)
		if cwType == nil || cwType.Obj().Pkg() != p.Pkg.Types {
			continue
		}
		got := map[string]types.Object{}
		for _, el := range cl.Elts {
			if kv, isKV := el.(*ast.KeyValueExpr); isKV {
				got[types.ExprString(kv.Key)] = identObj(info, kv.Value)
			}
		}
		// the writer field holds `out`, the string field the parent's separator
		okW, okC := false, false
		for _, v := range got {
			if v == out {
				okW = true
			}
			if v == comma && comma != nil {
				okC = true
			}
		}
		if okW && okC {
			ok = true
			cwName = cwType.Obj().Name()
		}
	}
	if !ok {
		// `var cw T` followed by `cw.<f> = out` and `cw.<g> = comma` (each field once)
		var cwType *types.Named
		okW, okC, other := false, false, false
		for _, st := range body.List {
			switch x := st.(type) {
			case *ast.DeclStmt:
				if gd, isGd := x.Decl.(*ast.GenDecl); isGd && gd.Tok == token.VAR && len(gd.Specs) == 1 {
					vs := gd.Specs[0].(*ast.ValueSpec)
					if len(vs.Names) == 1 && info.Defs[vs.Names[0]] == cw && len(vs.Values) == 0 {
						cwType, _ = types.Unalias(cw.Type()).(*types.Named)
					}
				}
			case *ast.AssignStmt:
				if len(x.Lhs) != 1 || len(x.Rhs) != 1 {
					continue
				}
				sel, isSel := x.Lhs[0].(*ast.SelectorExpr)
				if !isSel || identObj(info, sel.X) != cw {
					continue
				}
				switch v := identObj(info, x.Rhs[0]); {
				case v == out && !okW:
					okW = true
				case v == comma && comma != nil && !okC:
					okC = true
				default:
					other = true
				}
			}
		}
		if cwType != nil && cwType.Obj().Pkg() == p.Pkg.Types && okW && okC && !other {
			ok, cwName = true, cwType.Obj().Name()
		}
	}
	return ok && cwName != "" && commaWriterBehaviour(p, cwName) == ""
}

func advancesIfWritten(info *types.Info, body *ast.BlockStmt, cw, comma types.Object) bool {
	for _, st := range body.List {
		ifs, ok := st.(*ast.IfStmt)
		if !ok || ifs.Else != nil || len(ifs.Body.List) != 1 {
			continue
		}
		sel, ok := ifs.Cond.(*ast.SelectorExpr)
		if !ok || identObj(info, sel.X) != cw {
			continue
		}
		as, ok := ifs.Body.List[0].(*ast.AssignStmt)
		if ok && len(as.Lhs) == 1 && identObj(info, as.Lhs[0]) == comma {
			if tv := info.Types[as.Rhs[0]]; tv.Value != nil && constant.StringVal(tv.Value) == "," {
				return true
			}
		}
	}
	return false
}

// arrayComponentProblem: for a named slice type with a generated MarshalJSON,
// "" when every path writes `[` … `]` (a nil slice encodes as []), otherwise the reason.
func arrayComponentProblem(p *Program, n *types.Named) string {
	if _, ok := n.Underlying().(*types.Slice); !ok {
		return ""
	}
	fd := p.funcDecl(n.Obj().Name(), "MarshalJSON")
	if fd == nil {
		return ""
	}
	info := p.Pkg.TypesInfo
	opens, closes := 0, 0
	bad := ""
	var walk func(list []ast.Stmt, top bool)
	walk = func(list []ast.Stmt, top bool) {
		for _, st := range list {
			switch s := st.(type) {
			case *ast.ReturnStmt:
				if len(s.Results) != 2 {
					bad = "unexpected return"
					continue
				}
				r0 := types.ExprString(s.Results[0])
				if !(isNilIdent(s.Results[0]) && !isNilIdent(s.Results[1])) && !(strings.HasSuffix(r0, ".Bytes()") && top) {
					bad = "MarshalJSON of array component " + n.Obj().Name() + " returns " + r0 + " on some path instead of the bracketed element list: a nil slice would encode as something other than []"
				}
			case *ast.IfStmt:
				walk(s.Body.List, false)
				if b, ok := s.Else.(*ast.BlockStmt); ok {
					walk(b.List, false)
				}
			case *ast.ExprStmt:
				// write([]byte("[")), out.WriteString("["), out.WriteByte('[') …: a constant bracket
				if call, ok := s.X.(*ast.CallExpr); ok && len(call.Args) == 1 && top {
					arg := ast.Unparen(call.Args[0])
					if conv, ok := arg.(*ast.CallExpr); ok && len(conv.Args) == 1 {
						if ctv, isT := info.Types[conv.Fun]; isT && ctv.IsType() {
							arg = conv.Args[0]
						}
					}
					if tv := info.Types[arg]; tv.Value != nil {
						lit := ""
						switch tv.Value.Kind() {
						case constant.String:
							lit = constant.StringVal(tv.Value)
						case constant.Int:
							if v, ok := constant.Int64Val(tv.Value); ok && v > 0 && v < 128 {
								lit = string(rune(v))
							}
						}
						switch lit {
						case "[":
							opens++
						case "]":
							closes++
						}
					}
				}
			}
		}
	}
	walk(fd.Body.List, true)
	if bad != "" {
		return bad
	}
	if opens != 1 || closes != 1 {
		return "MarshalJSON of array component " + n.Obj().Name() + " does not write exactly one '[' and one ']' unconditionally"
	}
	return ""
}

func isFuncVar(o types.Object) bool {
	v, ok := o.(*types.Var)
	if !ok {
		return false
	}
	_, isSig := v.Type().Underlying().(*types.Signature)
	return isSig
}

func mentionsNullConst(c *rmCtx, e ast.Expr) bool {
	found := false
	ast.Inspect(e, func(n ast.Node) bool {
		if be, ok := n.(*ast.BinaryExpr); ok && (be.Op == token.EQL || be.Op == token.NEQ) {
			if v, ok := c.constStr(be.Y); ok && v == "null" {
				found = true
			}
		}
		return true
	})
	return found
}

// nullCondExact evaluates a null test over its two possible atoms — L: len(X) == 4 and N: string(X) == "null"
// (N implies L) — and demands that it is equivalent to N or to !N on the three feasible valuations.
func nullCondExact(c *rmCtx, e ast.Expr) string {
	unknown := false
	var eval func(e ast.Expr, L, N bool) bool
	eval = func(e ast.Expr, L, N bool) bool {
		switch x := ast.Unparen(e).(type) {
		case *ast.UnaryExpr:
			if x.Op == token.NOT {
				return !eval(x.X, L, N)
			}
		case *ast.BinaryExpr:
			switch x.Op {
			case token.LAND:
				return eval(x.X, L, N) && eval(x.Y, L, N)
			case token.LOR:
				return eval(x.X, L, N) || eval(x.Y, L, N)
			case token.EQL, token.NEQ:
				if v, ok := c.constStr(x.Y); ok && v == "null" {
					if cv, isConv := ast.Unparen(x.X).(*ast.CallExpr); isConv && len(cv.Args) == 1 {
						return N == (x.Op == token.EQL)
					}
				}
				if k, ok := c.constInt(x.Y); ok && k == 4 {
					if call, isCall := ast.Unparen(x.X).(*ast.CallExpr); isCall && len(call.Args) == 1 {
						if id, ok := call.Fun.(*ast.Ident); ok && id.Name == "len" {
							return L == (x.Op == token.EQL)
						}
					}
				}
			}
		}
		unknown = true
		return false
	}
	vals := [][2]bool{{false, false}, {true, false}, {true, true}} // (L, N)
	isN, isNotN := true, true
	for _, v := range vals {
		r := eval(e, v[0], v[1])
		if r != v[1] {
			isN = false
		}
		if r != !v[1] {
			isNotN = false
		}
	}
	if unknown {
		return "the null test contains a term other than len(raw) == 4 / string(raw) == \"null\""
	}
	if !isN && !isNotN {
		return "the null test is not equivalent to string(raw) == \"null\": some non-null value (e.g. any four-byte value such as true or 1000) is taken for null, or null is decoded as a value"
	}
	return ""
}
