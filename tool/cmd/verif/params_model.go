package main

// params_model.go — analysis of the generated request parsers new<Op>Params.
// The top-level structure (query section, header section, path section, body
// decode, final return) is recognised exactly (totality). Inside each
// parameter block a path-sensitive typestate analysis over the block's
// control-flow graph (go/cfg) decides presence, cardinality, error discipline
// and stores, with a finite abstract state:
//   present ∈ {?, yes, no} · card ∈ {?, one, many} · failed (some conversion's
//   error is known non-nil) · stores made so far.
// No generated code is executed and no solver is involved.

import (
	"fmt"
	"go/ast"
	"go/constant"
	"go/token"
	"go/types"
	"sort"
	"strings"

	"golang.org/x/tools/go/cfg"
	"golang.org/x/tools/go/types/typeutil"
)

type ConvCall struct {
	Callee  string   // e.g. strconv.ParseInt
	Consts  []string // constant arguments (exact strings), "_" for non-constant
	FromSrc bool     // its non-constant argument derives from the source element
}

type ParamRow struct {
	In         string // query | header | path
	Key        string // wire name
	Field      *types.Var
	FieldPath  string // e.g. Query.Page
	Required   bool   // as implemented (presence check found)
	Array      bool   // as implemented
	Convs      []ConvCall
	OtherCalls []string
	Pos        token.Pos
	Problems   []string // violations found by the typestate analysis
	Undecided  []string
}

type PathPiece struct {
	Lit string // constant strip, or
	Var string // parameter name
}

type ParserModel struct {
	Decl       *ast.FuncDecl
	Name       string
	CanFail    bool
	Rows       []*ParamRow
	BaseStrip  string
	BaseSlash  bool
	Pieces     []PathPiece
	Body       string // "" | "json" | "reader"
	BodyType   types.Type
	Undecided  []string
	ParamsType types.Type
}

type pmCtx struct {
	foldKey bool // compare parameter names in error texts case-insensitively (canonical header keys)
	p       *Program
	info    *types.Info
	fd      *ast.FuncDecl
	zero    types.Object
	zeroNil bool // client side: the failure value is the literal nil
	params  types.Object
	req     types.Object
	m       *ParserModel
}

// isZero: the expression is the parser's zero result (or nil on the client side).
func (c *pmCtx) isZero(e ast.Expr) bool {
	if c.zeroNil {
		return isNilIdent(e)
	}
	return c.zero != nil && identObj(c.info, e) == c.zero
}

func (c *pmCtx) und(format string, a ...any) {
	c.m.Undecided = append(c.m.Undecided, fmt.Sprintf(format, a...))
}

func (c *pmCtx) constStr(e ast.Expr) (string, bool) {
	tv, ok := c.info.Types[e]
	if !ok || tv.Value == nil || tv.Value.Kind() != constant.String {
		return "", false
	}
	return constant.StringVal(tv.Value), true
}

// BuildParserModel decompiles new<Op>Params.
func BuildParserModel(p *Program, fd *ast.FuncDecl) *ParserModel {
	info := p.Pkg.TypesInfo
	m := &ParserModel{Decl: fd, Name: fd.Name.Name}
	c := &pmCtx{p: p, info: info, fd: fd, m: m}
	ps := paramObjs(info, fd)
	if len(ps) != 1 {
		c.und("parser does not take exactly one *http.Request")
		return m
	}
	c.req = ps[0]
	res := fd.Type.Results
	if res == nil || len(res.List) == 0 || len(res.List[0].Names) == 0 {
		c.und("parser has no named zero result")
		return m
	}
	c.zero = info.Defs[res.List[0].Names[0]]
	m.CanFail = len(res.List) == 2
	m.ParamsType = c.zero.Type()
	list := fd.Body.List
	i := 0
	// var params T
	if ds, ok := list[i].(*ast.DeclStmt); ok {
		if gd, ok := ds.Decl.(*ast.GenDecl); ok && gd.Tok == token.VAR && len(gd.Specs) == 1 {
			vs := gd.Specs[0].(*ast.ValueSpec)
			if len(vs.Names) == 1 && len(vs.Values) == 0 {
				c.params = info.Defs[vs.Names[0]]
			}
		}
	}
	if c.params == nil || !types.Identical(c.params.Type(), c.zero.Type()) {
		c.und("first statement is not `var params <ParamsType>`")
		return m
	}
	i++
	// sections are bare blocks `{ src := r.URL.Query(); {…} {…} }` or, flattened, the source binding
	// followed by its parameter blocks up to the next section: regroup the flattened form
	{
		r := c.req.Name()
		isSrc := func(st ast.Stmt) bool {
			as, ok := st.(*ast.AssignStmt)
			if !ok || as.Tok != token.DEFINE || len(as.Lhs) != 1 || len(as.Rhs) != 1 {
				return false
			}
			switch types.ExprString(as.Rhs[0]) {
			case r + ".URL.Query()", r + ".Header", r + ".URL.Path":
				return true
			}
			return false
		}
		var regrouped []ast.Stmt
		regrouped = append(regrouped, list[:i]...)
		for k := i; k < len(list); k++ {
			if !isSrc(list[k]) || k == len(list)-1 {
				regrouped = append(regrouped, list[k])
				continue
			}
			src := identObj(info, list[k].(*ast.AssignStmt).Lhs[0])
			grp := []ast.Stmt{list[k]}
			j := k + 1
			for ; j < len(list)-1; j++ {
				// the section's statements: parameter blocks, and for the path section everything
				// that works on the cursor (guards and strips mention it)
				if _, isBlk := list[j].(*ast.BlockStmt); isBlk {
					grp = append(grp, list[j])
					continue
				}
				if src != nil && usesObj(info, list[j], src) && !isSrc(list[j]) {
					grp = append(grp, list[j])
					continue
				}
				break
			}
			regrouped = append(regrouped, &ast.BlockStmt{Lbrace: grp[0].Pos(), List: grp, Rbrace: grp[len(grp)-1].End()})
			k = j - 1
		}
		list = regrouped
	}
	for ; i < len(list)-1; i++ {
		switch st := list[i].(type) {
		case *ast.BlockStmt:
			c.section(st)
		case *ast.DeferStmt:
			// defer r.Body.Close()
			if types.ExprString(st.Call) != c.req.Name()+".Body.Close()" {
				c.und("unexpected defer %s", types.ExprString(st.Call))
			}
		case *ast.AssignStmt:
			// err := json.NewDecoder(r.Body).Decode(&params.Body)  |  params.Body = r.Body
			if len(st.Lhs) == 1 && len(st.Rhs) == 1 {
				if types.ExprString(st.Lhs[0]) == c.params.Name()+".Body" && types.ExprString(st.Rhs[0]) == c.req.Name()+".Body" && st.Tok == token.ASSIGN {
					m.Body = "reader"
					continue
				}
				// err := <helper>(r, &params.Body) with a helper that is json.NewDecoder(r.Body).Decode(v)
				if call, ok := st.Rhs[0].(*ast.CallExpr); ok && len(call.Args) == 2 && identObj(info, call.Args[0]) == c.req {
					if u, ok := call.Args[1].(*ast.UnaryExpr); ok && u.Op == token.AND && types.ExprString(u.X) == c.params.Name()+".Body" {
						if fo, ok := typeutil.Callee(info, call).(*types.Func); ok && jsonBodyDecoderHelper(c.p, fo) {
							errObj := identObj(info, st.Lhs[0])
							if i+1 < len(list)-1 {
								if ifs, ok := list[i+1].(*ast.IfStmt); ok && condTestsErrG(info, ifs.Cond, errObj) && c.isReject(ifs.Body.List) {
									m.Body = "json"
									m.BodyType = info.TypeOf(u.X)
									i++
									continue
								}
							}
							c.und("request body decode error is not tested and returned")
							continue
						}
					}
				}
				if call, ok := st.Rhs[0].(*ast.CallExpr); ok && calleeName(info, call) == "encoding/json.Decoder.Decode" && len(call.Args) == 1 {
					okDec := false
					if sel, ok := call.Fun.(*ast.SelectorExpr); ok {
						if nd, ok := sel.X.(*ast.CallExpr); ok && calleeName(info, nd) == "encoding/json.NewDecoder" && len(nd.Args) == 1 && types.ExprString(nd.Args[0]) == c.req.Name()+".Body" {
							okDec = true
						}
					}
					if u, ok := call.Args[0].(*ast.UnaryExpr); ok && u.Op == token.AND && types.ExprString(u.X) == c.params.Name()+".Body" && okDec {
						errObj := identObj(info, st.Lhs[0])
						// next statement must test the error and reject
						if i+1 < len(list)-1 {
							if ifs, ok := list[i+1].(*ast.IfStmt); ok && condTestsErrG(info, ifs.Cond, errObj) && c.isReject(ifs.Body.List) {
								m.Body = "json"
								m.BodyType = info.TypeOf(u.X)
								i++
								continue
							}
						}
						c.und("request body decode error is not tested and returned")
						continue
					}
				}
			}
			c.und("unexpected top-level assignment %s", types.ExprString(st.Lhs[0]))
		default:
			c.und("unexpected top-level statement %T", st)
		}
	}
	// final return params[, nil]
	ret, ok := list[len(list)-1].(*ast.ReturnStmt)
	okRet := ok && len(ret.Results) >= 1 && identObj(info, ret.Results[0]) == c.params
	if okRet && m.CanFail {
		okRet = len(ret.Results) == 2 && isNilIdent(ret.Results[1])
	}
	if !okRet {
		c.und("last statement is not `return params, nil`")
	}
	return m
}

// isReject: statement list ends in `return zero, <non-nil error>`
func (c *pmCtx) isReject(list []ast.Stmt) bool {
	if len(list) == 0 {
		return false
	}
	ret, ok := list[len(list)-1].(*ast.ReturnStmt)
	if !ok || len(ret.Results) != 2 {
		return false
	}
	if !c.isZero(ret.Results[0]) || isNilIdent(ret.Results[1]) {
		return false
	}
	t := c.info.TypeOf(ret.Results[1])
	return t != nil && types.AssignableTo(t, errType)
}

// errNames: the error expression identifies parameter k.
func (c *pmCtx) errNames(e ast.Expr, k string) bool {
	same := func(a, b string) bool { return a == b }
	contains := strings.Contains
	if c.foldKey {
		// a header looked up under its canonical key: the error may name the header in the spelling of the
		// spec (header names are case-insensitive)
		same = strings.EqualFold
		contains = func(s, sub string) bool { return strings.Contains(strings.ToLower(s), strings.ToLower(sub)) }
	}
	switch x := ast.Unparen(e).(type) {
	case *ast.CompositeLit:
		for _, el := range x.Elts {
			if kv, ok := el.(*ast.KeyValueExpr); ok {
				if id, ok := kv.Key.(*ast.Ident); ok && id.Name == "Parameter" {
					if s, ok := c.constStr(kv.Value); ok && same(s, k) {
						return true
					}
				}
			}
		}
	case *ast.CallExpr:
		nm := calleeName(c.info, x)
		if (nm == "fmt.Errorf" || nm == "errors.New") && len(x.Args) > 0 {
			if s, ok := c.constStr(x.Args[0]); ok && contains(s, k) {
				return true
			}
			for _, a := range x.Args[1:] {
				if s, ok := c.constStr(a); ok && same(s, k) {
					return true
				}
			}
		}
	}
	return false
}

func (c *pmCtx) section(blk *ast.BlockStmt) {
	if len(blk.List) == 0 {
		c.und("empty section")
		return
	}
	as, ok := blk.List[0].(*ast.AssignStmt)
	if !ok || as.Tok != token.DEFINE || len(as.Lhs) != 1 || len(as.Rhs) != 1 {
		// a header section without the `header := r.Header` temporary: every parameter block looks the
		// request's header map up directly (`hs := r.Header.Values(K)`)
		direct := len(blk.List) > 0
		for _, st := range blk.List {
			b, isBlk := st.(*ast.BlockStmt)
			if !isBlk || len(b.List) == 0 || !c.directHeaderLookup(b.List[0]) {
				direct = false
			}
		}
		if direct {
			for _, st := range blk.List {
				c.valueBlock("header", nil, st.(*ast.BlockStmt))
			}
			return
		}
		c.und("section does not start with a source binding")
		return
	}
	src := c.info.Defs[as.Lhs[0].(*ast.Ident)]
	rhs := types.ExprString(as.Rhs[0])
	r := c.req.Name()
	switch rhs {
	case r + ".URL.Query()":
		for _, st := range blk.List[1:] {
			b, ok := st.(*ast.BlockStmt)
			if !ok {
				c.und("query section: unexpected statement %T", st)
				continue
			}
			c.valueBlock("query", src, b)
		}
	case r + ".Header":
		for _, st := range blk.List[1:] {
			b, ok := st.(*ast.BlockStmt)
			if !ok {
				c.und("header section: unexpected statement %T", st)
				continue
			}
			c.valueBlock("header", src, b)
		}
	case r + ".URL.Path":
		c.pathSection(src, blk.List[1:])
	default:
		c.und("section source %s is not r.URL.Query() / r.Header / r.URL.Path", rhs)
	}
}

// isReqHeader: e is `<request parameter>.Header`.
func (c *pmCtx) isReqHeader(e ast.Expr) bool {
	sel, ok := ast.Unparen(e).(*ast.SelectorExpr)
	return ok && sel.Sel.Name == "Header" && identObj(c.info, sel.X) == c.req
}

// directHeaderLookup: st is `hs := r.Header.Values(K)`.
func (c *pmCtx) directHeaderLookup(st ast.Stmt) bool {
	as, ok := st.(*ast.AssignStmt)
	if !ok || as.Tok != token.DEFINE || len(as.Lhs) != 1 || len(as.Rhs) != 1 {
		return false
	}
	call, ok := as.Rhs[0].(*ast.CallExpr)
	if !ok || calleeName(c.info, call) != "net/http.Header.Values" {
		return false
	}
	sel, ok := call.Fun.(*ast.SelectorExpr)
	return ok && c.isReqHeader(sel.X)
}

// valueBlock: { q, ok := query[K] … } or { hs := header.Values(K) … }
func (c *pmCtx) valueBlock(in string, container types.Object, blk *ast.BlockStmt) {
	row := &ParamRow{In: in, Pos: blk.Pos()}
	c.m.Rows = append(c.m.Rows, row)
	if len(blk.List) < 2 {
		row.Undecided = append(row.Undecided, "parameter block too short")
		return
	}
	as, ok := blk.List[0].(*ast.AssignStmt)
	if !ok || as.Tok != token.DEFINE || len(as.Rhs) != 1 {
		row.Undecided = append(row.Undecided, "parameter block does not start with the value lookup")
		return
	}
	var vals, okObj types.Object
	switch in {
	case "query":
		ix, isIx := as.Rhs[0].(*ast.IndexExpr)
		// `q, ok := query[K]` or, where presence is judged by len(q) alone, `q := query[K]`
		if !isIx || (len(as.Lhs) != 2 && len(as.Lhs) != 1) || identObj(c.info, ix.X) != container {
			row.Undecided = append(row.Undecided, "query lookup is not `q[, ok] := query[<const>]`")
			return
		}
		k, isK := c.constStr(ix.Index)
		if !isK {
			row.Undecided = append(row.Undecided, "query key is not a constant")
			return
		}
		row.Key = k
		vals = c.info.Defs[as.Lhs[0].(*ast.Ident)]
		if len(as.Lhs) == 2 {
			okObj = c.info.Defs[as.Lhs[1].(*ast.Ident)]
		}
	case "header":
		call, isCall := as.Rhs[0].(*ast.CallExpr)
		if !isCall || len(as.Lhs) != 1 || calleeName(c.info, call) != "net/http.Header.Values" || len(call.Args) != 1 {
			row.Undecided = append(row.Undecided, "header lookup is not `hs := header.Values(<const>)`")
			return
		}
		if sel, ok := call.Fun.(*ast.SelectorExpr); !ok || (container != nil && identObj(c.info, sel.X) != container) || (container == nil && !c.isReqHeader(sel.X)) {
			row.Undecided = append(row.Undecided, "header lookup is not on r.Header")
			return
		}
		k, isK := c.constStr(call.Args[0])
		if !isK {
			row.Undecided = append(row.Undecided, "header key is not a constant")
			return
		}
		row.Key = k
		vals = c.info.Defs[as.Lhs[0].(*ast.Ident)]
	}
	rest := &ast.BlockStmt{Lbrace: blk.Lbrace, List: blk.List[1:], Rbrace: blk.Rbrace}
	c.typestate(row, rest, vals, okObj, false)
}

// pathSection: [base prelude] (const-strip | {var-block})*
func (c *pmCtx) pathSection(p types.Object, list []ast.Stmt) {
	rc := &rmCtx{p: c.p, info: c.info}
	i := 0
	first := true
	for i < len(list) {
		switch st := list[i].(type) {
		case *ast.IfStmt:
			pre, ok := rc.notHasPrefix(st.Cond, p)
			if !ok || st.Else != nil || !c.isReject(st.Body.List) {
				c.und("path section: unexpected if statement")
				i++
				continue
			}
			// strip follows?
			stripped := false
			if i+1 < len(list) {
				if as, ok := list[i+1].(*ast.AssignStmt); ok && as.Tok == token.ASSIGN && len(as.Lhs) == 1 && identObj(c.info, as.Lhs[0]) == p {
					if sl, ok := as.Rhs[0].(*ast.SliceExpr); ok && identObj(c.info, sl.X) == p && sl.High == nil && sl.Low != nil {
						k, ok := rc.constInt(sl.Low)
						if !ok || int(k) != len(pre) {
							c.und("path section: strip constant %s != len(%q)", types.ExprString(sl.Low), pre)
						}
						stripped = true
					}
				}
			}
			if stripped {
				// the first strip followed by a "/"-guard (without strip) is the base path prelude
				isBase := false
				if first && i+2 < len(list) {
					if nx, ok := list[i+2].(*ast.IfStmt); ok {
						if pre2, ok := rc.notHasPrefix(nx.Cond, p); ok && pre2 == "/" && c.isReject(nx.Body.List) {
							// is that guard itself followed by a strip? then it is a "/"-literal piece, not the base guard
							follows := false
							if i+3 < len(list) {
								if as2, ok := list[i+3].(*ast.AssignStmt); ok && len(as2.Lhs) == 1 && identObj(c.info, as2.Lhs[0]) == p {
									follows = true
								}
							}
							if !follows {
								isBase = true
							}
						}
					}
				}
				if isBase {
					c.m.BaseStrip = pre
					c.m.BaseSlash = true
					i += 3
				} else {
					c.m.Pieces = append(c.m.Pieces, PathPiece{Lit: pre})
					i += 2
				}
				first = false
				continue
			}
			c.und("path section: prefix test %q without strip", pre)
			i++
		case *ast.BlockStmt:
			first = false
			c.pathVarBlock(p, st)
			i++
		default:
			c.und("path section: unexpected statement %T", st)
			i++
		}
	}
}

// pathVarBlock: { idx := Index(p,"/"); if idx == -1 { idx = len(p) }; vPath := p[:idx]; p = p[idx:]; if len(vPath)==0 {reject K}; … }
func (c *pmCtx) pathVarBlock(p types.Object, blk *ast.BlockStmt) {
	row := &ParamRow{In: "path", Pos: blk.Pos(), Required: true}
	c.m.Rows = append(c.m.Rows, row)
	rc := &rmCtx{p: c.p, info: c.info}
	l := blk.List
	bad := func(s string) { row.Undecided = append(row.Undecided, s) }
	// extraction: whatever its spelling, up to the empty-segment check the block must have put the
	// text before the next "/" (or the whole rest) into one variable and advanced p past it —
	// decided by case-partitioned evaluation (strcut.go)
	isEmptyCheck := func(st ast.Stmt) bool {
		ifs, ok := st.(*ast.IfStmt)
		if !ok {
			return false
		}
		be, ok := ast.Unparen(ifs.Cond).(*ast.BinaryExpr)
		if !ok || be.Op != token.EQL {
			return false
		}
		call, ok := ast.Unparen(be.X).(*ast.CallExpr)
		if !ok || len(call.Args) != 1 {
			return false
		}
		if id, ok := call.Fun.(*ast.Ident); !ok || id.Name != "len" {
			return false
		}
		k, ok := rc.constInt(be.Y)
		return ok && k == 0 && identObj(c.info, call.Args[0]) != nil
	}
	vPath, at, res := pathVarExtraction(c.p, l, p, isEmptyCheck)
	if res.Why != "" || vPath == nil {
		bad("segment extraction: " + res.Why)
		c.m.Pieces = append(c.m.Pieces, PathPiece{Var: "?"})
		return
	}
	if c.p.ProvenSafe == nil {
		c.p.ProvenSafe = map[ast.Node]bool{}
	}
	for n := range res.Proven {
		c.p.ProvenSafe[n] = true
	}
	l = append(append([]ast.Stmt{}, make([]ast.Stmt, 4)...), l[at:]...) // keep the indices of the code below: l[4] is the empty check
	// empty check
	okEmpty := false
	if ifs, ok := l[4].(*ast.IfStmt); ok && ifs.Else == nil && c.isReject(ifs.Body.List) {
		if be, ok := ifs.Cond.(*ast.BinaryExpr); ok && be.Op == token.EQL && types.ExprString(be.X) == "len("+nameOf(vPath)+")" {
			if k, ok := rc.constInt(be.Y); ok && k == 0 {
				ret := ifs.Body.List[len(ifs.Body.List)-1].(*ast.ReturnStmt)
				// name from the reject
				if cl, ok := ast.Unparen(ret.Results[1]).(*ast.CompositeLit); ok {
					for _, el := range cl.Elts {
						if kv, ok := el.(*ast.KeyValueExpr); ok {
							if id, ok := kv.Key.(*ast.Ident); ok && id.Name == "Parameter" {
								row.Key, _ = c.constStr(kv.Value)
							}
						}
					}
				}
				okEmpty = row.Key != ""
			}
		}
	}
	if !okEmpty {
		bad("missing `if len(vPath) == 0 { return zero, <error naming the parameter> }`")
	}
	c.m.Pieces = append(c.m.Pieces, PathPiece{Var: row.Key})
	if vPath == nil {
		return
	}
	rest := &ast.BlockStmt{Lbrace: blk.Lbrace, List: l[5:], Rbrace: blk.Rbrace}
	c.typestate(row, rest, vPath, nil, true)
}

func nameOf(o types.Object) string {
	if o == nil {
		return "?"
	}
	return o.Name()
}

// ---------------------------------------------------------------------------
// typestate over the CFG of one parameter block

type tsState struct {
	present int // 0 ?, 1 yes, -1 no
	keyOK   int // query: result of the comma-ok lookup
	card    int // 0 ?, 1 one, 2 many
	failed  bool
	stores  int
	bad     string
}

func (s tsState) key() string {
	return fmt.Sprintf("%d/%d/%d/%v/%d", s.present, s.keyOK, s.card, s.failed, min(s.stores, 3))
}

// fieldOfParams: e is params.<Sec>.<Field>[…] → the Field var and its printed path
func (c *pmCtx) fieldOfParams(e ast.Expr) (*types.Var, string) {
	e = ast.Unparen(e)
	for {
		if ix, ok := e.(*ast.IndexExpr); ok {
			e = ix.X
			continue
		}
		break
	}
	sel, ok := e.(*ast.SelectorExpr)
	if !ok {
		return nil, ""
	}
	sec, ok := sel.X.(*ast.SelectorExpr)
	if !ok || identObj(c.info, sec.X) != c.params {
		return nil, ""
	}
	s := c.info.Selections[sel]
	if s == nil {
		return nil, ""
	}
	v, _ := s.Obj().(*types.Var)
	return v, sec.Sel.Name + "." + sel.Sel.Name
}

func rootIsObj(info *types.Info, e ast.Expr, o types.Object) bool {
	for {
		switch x := ast.Unparen(e).(type) {
		case *ast.SelectorExpr:
			e = x.X
		case *ast.IndexExpr:
			e = x.X
		case *ast.Ident:
			return identObj(info, x) == o
		default:
			return false
		}
	}
}

// storesIn lists stores to params.* in a node: assignments and .Set(...) calls.
func (c *pmCtx) storesIn(n ast.Node) (fields []*types.Var, paths []string, foreign []string) {
	ast.Inspect(n, func(x ast.Node) bool {
		switch s := x.(type) {
		case *ast.FuncLit:
			return false
		case *ast.AssignStmt:
			for _, l := range s.Lhs {
				if rootIsObj(c.info, l, c.params) {
					if f, p := c.fieldOfParams(l); f != nil {
						fields = append(fields, f)
						paths = append(paths, p)
					} else {
						foreign = append(foreign, types.ExprString(l))
					}
				}
				if c.zero != nil && rootIsObj(c.info, l, c.zero) {
					foreign = append(foreign, types.ExprString(l))
				}
			}
		case *ast.IncDecStmt:
			if rootIsObj(c.info, s.X, c.params) {
				foreign = append(foreign, types.ExprString(s.X))
			}
		case *ast.CallExpr:
			if sel, ok := s.Fun.(*ast.SelectorExpr); ok && rootIsObj(c.info, sel.X, c.params) {
				// method call on a params field: only Set is a recognised store; custom Parse* methods store too
				if f, p := c.fieldOfParams(sel.X); f != nil {
					fields = append(fields, f)
					paths = append(paths, p)
				} else {
					foreign = append(foreign, types.ExprString(s.Fun))
				}
			}
			for _, a := range s.Args {
				if u, ok := a.(*ast.UnaryExpr); ok && u.Op == token.AND && rootIsObj(c.info, u.X, c.params) {
					foreign = append(foreign, "&"+types.ExprString(u.X))
				}
			}
		}
		return true
	})
	return
}

func (c *pmCtx) typestate(row *ParamRow, blk *ast.BlockStmt, vals, okObj types.Object, isPath bool) {
	info := c.info
	// stores: which field, nothing else
	fields, paths, foreign := c.storesIn(blk)
	for _, f := range foreign {
		row.Problems = append(row.Problems, "the block writes "+f+", which is not the field of this parameter")
	}
	for i, f := range fields {
		if row.Field == nil {
			row.Field, row.FieldPath = f, paths[i]
		} else if row.Field != f {
			row.Problems = append(row.Problems, "the block for "+row.Key+" also writes "+paths[i])
		}
	}
	if row.Field == nil {
		row.Problems = append(row.Problems, "no field of params is written for this parameter")
	}
	// calls: converters, constructors, error discipline
	c.callsIn(row, blk, vals)
	// array?
	ast.Inspect(blk, func(n ast.Node) bool {
		switch x := n.(type) {
		case *ast.RangeStmt:
			if identObj(info, x.X) == vals {
				row.Array = true
			}
		case *ast.AssignStmt:
			// []string parameters: the whole value list is stored (params.X = q / vOpt := q)
			for _, rhs := range x.Rhs {
				if identObj(info, rhs) == vals {
					row.Array = true
				}
			}
		case *ast.CallExpr:
			for _, a := range x.Args {
				if identObj(info, a) == vals {
					if sel, ok := x.Fun.(*ast.SelectorExpr); ok && sel.Sel.Name == "Set" {
						row.Array = true
					}
				}
			}
		}
		return true
	})
	// CFG walk
	g := cfg.New(blk, func(*ast.CallExpr) bool { return true })
	seen := map[string]bool{}
	var walk func(b *cfg.Block, s tsState, depth int)
	report := func(msg string) {
		for _, p := range row.Problems {
			if p == msg {
				return
			}
		}
		row.Problems = append(row.Problems, msg)
	}
	exit := func(s tsState, ret *ast.ReturnStmt) {
		reject, named := false, false
		if ret != nil {
			if len(ret.Results) == 2 && c.isZero(ret.Results[0]) && !isNilIdent(ret.Results[1]) {
				reject = true
				named = c.errNames(ret.Results[1], row.Key)
			} else {
				report("a return inside the parameter block is not `return zero, <error>`")
				return
			}
		}
		if reject && !named {
			report("an error returned for this parameter does not identify it (" + row.Key + ")")
		}
		switch {
		case s.present == -1:
			if reject {
				row.Required = true
			} else if s.stores > 0 {
				report("a value is stored although the parameter is absent")
			}
		case s.failed:
			if !reject {
				report("a failed conversion does not end in an error return: the field keeps a zero/partial value and parsing succeeds")
			}
		case s.card == 2 && !row.Array:
			if !reject {
				report("several values for a scalar parameter do not end in an error return")
			}
		case s.present == 1 || isPath:
			if reject {
				if s.card == 1 || isPath || row.Array {
					report("a well-formed, present value is rejected")
				}
			} else if s.stores == 0 {
				report("a present value reaches the end of the block without being stored")
			} else if !row.Array && !isPath && s.card != 1 {
				report("the value is stored without establishing that exactly one value was supplied: a repeated scalar parameter is silently accepted (first value wins)")
			}
		case s.present == 0:
			if !reject && s.stores > 0 && !isPath {
				report("the value is stored without establishing that the parameter is present")
			}
		}
	}
	var condFacts func(e ast.Expr, s tsState, truth bool) (tsState, bool)
	condFacts = func(e ast.Expr, s tsState, truth bool) (tsState, bool) {
		e = ast.Unparen(e)
		if u, ok := e.(*ast.UnaryExpr); ok && u.Op == token.NOT {
			return condFacts(u.X, s, !truth)
		}
		// go/cfg (x/tools v0.29) keeps `a && b` / `a || b` as one condition node
		if be, ok := e.(*ast.BinaryExpr); ok && (be.Op == token.LAND || be.Op == token.LOR) {
			conj := (be.Op == token.LAND) == truth // all operands have value `truth`
			if conj {
				s1, ok1 := condFacts(be.X, s, truth)
				if !ok1 {
					return s, false
				}
				return condFacts(be.Y, s1, truth)
			}
			// at least one operand has value `truth`: keep what both alternatives agree on
			s1, ok1 := condFacts(be.X, s, truth)
			s2, ok2 := condFacts(be.Y, s, truth)
			switch {
			case !ok1 && !ok2:
				return s, false
			case !ok1:
				return s2, true
			case !ok2:
				return s1, true
			}
			out := s
			if s1.present == s2.present {
				out.present = s1.present
			}
			if s1.card == s2.card {
				out.card = s1.card
			}
			if s1.failed && s2.failed {
				out.failed = true
			}
			return out, true
		}
		return condFactsNot(c, e, s, !truth, vals, okObj)
	}
	walk = func(b *cfg.Block, s tsState, depth int) {
		k := fmt.Sprintf("%d|%s", b.Index, s.key())
		if seen[k] || depth > 200 {
			return
		}
		seen[k] = true
		for _, n := range b.Nodes {
			fs, _, _ := c.storesIn(n)
			s.stores += len(fs)
			if ret, ok := n.(*ast.ReturnStmt); ok {
				if len(ret.Results) == 0 {
					exit(s, nil) // go/cfg's implicit return at the end of the block: fallthrough
				} else {
					exit(s, ret)
				}
				return
			}
		}
		if len(b.Succs) == 0 {
			exit(s, nil)
			return
		}
		if len(b.Succs) == 2 && len(b.Nodes) > 0 {
			if e, ok := b.Nodes[len(b.Nodes)-1].(ast.Expr); ok {
				st, okT := condFacts(e, s, true)
				sf, okF := condFacts(e, s, false)
				if okT {
					walk(b.Succs[0], st, depth+1)
				}
				if okF {
					walk(b.Succs[1], sf, depth+1)
				}
				return
			}
		}
		for _, nb := range b.Succs {
			walk(nb, s, depth+1)
		}
	}
	init := tsState{}
	if isPath {
		init.present, init.card = 1, 1
	}
	walk(g.Blocks[0], init, 0)
}

// condFactsNot refines the state for condition e being (neg ? false : true).
// Returns ok=false when the branch is infeasible under the current state.
func condFactsNot(c *pmCtx, e ast.Expr, s tsState, neg bool, vals, okObj types.Object) (tsState, bool) {
	info := c.info
	truth := !neg
	e = ast.Unparen(e)
	if id, ok := e.(*ast.Ident); ok && okObj != nil && identObj(info, id) == okObj {
		if truth {
			if s.keyOK == -1 {
				return s, false
			}
			s.keyOK = 1
		} else {
			if s.keyOK == 1 {
				return s, false
			}
			s.keyOK = -1
			s.present = -1
		}
		return s, true
	}
	if be, ok := e.(*ast.BinaryExpr); ok {
		// len(vals) <op> k
		if call, ok := be.X.(*ast.CallExpr); ok && len(call.Args) == 1 && identObj(info, call.Args[0]) == vals {
			if id, ok := call.Fun.(*ast.Ident); ok && id.Name == "len" {
				if tv := info.Types[be.Y]; tv.Value != nil {
					k, _ := constant.Int64Val(tv.Value)
					type rel struct {
						op token.Token
						k  int64
					}
					r := rel{be.Op, k}
					nonEmpty, isOne := 0, 0 // +1 true, -1 false, 0 unknown
					switch r {
					case rel{token.GTR, 0}, rel{token.NEQ, 0}, rel{token.GEQ, 1}:
						nonEmpty = 1
					case rel{token.EQL, 0}, rel{token.LSS, 1}, rel{token.LEQ, 0}:
						nonEmpty = -1
					case rel{token.EQL, 1}:
						isOne = 1
					case rel{token.NEQ, 1}:
						isOne = -1
					case rel{token.GTR, 1}, rel{token.GEQ, 2}:
						isOne = -2 // true => many
					default:
						return s, true
					}
					if !truth {
						nonEmpty, isOne = -nonEmpty, negOne(isOne)
					}
					switch {
					case nonEmpty == 1:
						if s.present == -1 {
							return s, false
						}
						s.present = 1
					case nonEmpty == -1:
						if s.present == 1 {
							return s, false
						}
						s.present = -1
					case isOne == 1:
						if s.card == 2 {
							return s, false
						}
						s.card = 1
						if s.present == 0 {
							s.present = 1
						}
					case isOne == -1: // not one: many (given present) or empty
						if s.card == 1 {
							return s, false
						}
						if s.present == 1 {
							s.card = 2
						} else {
							s.card = 2 // conservatively: treat as many; emptiness must be handled by a separate test
						}
					case isOne == -2:
						if s.card == 1 {
							return s, false
						}
						s.card = 2
					case isOne == 2: // not many
						// one or empty: no refinement
					}
					return s, true
				}
			}
		}
		// err != nil
		if (be.Op == token.NEQ || be.Op == token.EQL) && isNilIdent(be.Y) {
			if t := info.TypeOf(be.X); t != nil && types.Identical(t, errType) {
				isFail := (be.Op == token.NEQ) == truth
				if isFail {
					s.failed = true
				}
				return s, true
			}
		}
	}
	return s, true
}

func negOne(x int) int {
	switch x {
	case 1:
		return -1
	case -1:
		return 1
	case -2:
		return 2
	}
	return 0
}

// callsIn classifies every call of the block.
func (c *pmCtx) callsIn(row *ParamRow, blk *ast.BlockStmt, vals types.Object) {
	info := c.info
	// def-use (flow-insensitive): variable -> expressions assigned to it
	defs := map[types.Object][]ast.Expr{}
	ast.Inspect(blk, func(n ast.Node) bool {
		switch s := n.(type) {
		case *ast.AssignStmt:
			if len(s.Lhs) == len(s.Rhs) {
				for i, l := range s.Lhs {
					if o := identObj(info, l); o != nil {
						defs[o] = append(defs[o], s.Rhs[i])
					} else if ix, ok := l.(*ast.IndexExpr); ok {
						if o := identObj(info, ix.X); o != nil {
							defs[o] = append(defs[o], s.Rhs[i])
						}
					}
				}
			} else if len(s.Rhs) == 1 {
				for _, l := range s.Lhs {
					if o := identObj(info, l); o != nil {
						defs[o] = append(defs[o], s.Rhs[0])
					}
				}
			}
		case *ast.RangeStmt:
			// for i, item := range q: item (and i) derive from q
			for _, kv := range []ast.Expr{s.Key, s.Value} {
				if kv == nil {
					continue
				}
				if o := identObj(info, kv); o != nil {
					defs[o] = append(defs[o], s.X)
				}
			}
		case *ast.CallExpr:
			// v.ParseX(arg): v depends on arg
			if sel, ok := s.Fun.(*ast.SelectorExpr); ok {
				if o := identObj(info, sel.X); o != nil && len(s.Args) > 0 {
					// (also vOpt.Set(v) on a local Maybe/Nullable wrapper)
					if _, isVar := o.(*types.Var); isVar && (strings.HasPrefix(sel.Sel.Name, "Parse") || sel.Sel.Name == "Set") {
						defs[o] = append(defs[o], s.Args...)
					}
				}
			}
		}
		return true
	})
	var dependsOn func(e ast.Expr, target types.Object, depth int) bool
	dependsOn = func(e ast.Expr, target types.Object, depth int) bool {
		if depth > 12 || e == nil {
			return false
		}
		found := false
		ast.Inspect(e, func(n ast.Node) bool {
			if found {
				return false
			}
			if id, ok := n.(*ast.Ident); ok {
				o := identObj(info, id)
				if o == target {
					found = true
					return false
				}
				if o != nil {
					for _, d := range defs[o] {
						if dependsOn(d, target, depth+1) {
							found = true
							return false
						}
					}
				}
			}
			return true
		})
		return found
	}
	ast.Inspect(blk, func(n ast.Node) bool {
		call, ok := n.(*ast.CallExpr)
		if !ok {
			return true
		}
		if tv, ok := info.Types[call.Fun]; ok && tv.IsType() {
			return true // conversion
		}
		nm := calleeName(info, call)
		switch nm {
		case "len", "make", "append":
			return true
		case "strconv.ParseInt", "strconv.ParseFloat", "strconv.ParseBool", "strconv.ParseUint", "strconv.Atoi", "time.Parse":
			cv := ConvCall{Callee: nm}
			for _, a := range call.Args {
				if tv := info.Types[a]; tv.Value != nil {
					cv.Consts = append(cv.Consts, tv.Value.ExactString())
				} else if sel, ok := a.(*ast.SelectorExpr); ok && info.Uses[sel.Sel] != nil {
					if k, ok := info.Uses[sel.Sel].(*types.Const); ok {
						cv.Consts = append(cv.Consts, k.Val().ExactString())
					} else {
						cv.Consts = append(cv.Consts, "_")
					}
				} else {
					cv.Consts = append(cv.Consts, "_")
					if dependsOn(a, vals, 0) {
						cv.FromSrc = true
					}
				}
			}
			row.Convs = append(row.Convs, cv)
			return true
		case "fmt.Errorf", "errors.New":
			return true
		}
		// the Set method of the parameter's own (possibly user-configured) Maybe/Nullable wrapper
		if sel, ok := call.Fun.(*ast.SelectorExpr); ok && sel.Sel.Name == "Set" && rootIsObj(info, sel.X, c.params) {
			return true
		}
		fn := typeutil.Callee(info, call)
		if fn != nil && fn.Pkg() == c.p.Pkg.Types {
			if f, ok := fn.(*types.Func); ok {
				sig := f.Type().(*types.Signature)
				if sig.Recv() == nil && isTransparentCtor(c.p, f) {
					return true
				}
				if sig.Recv() != nil && (f.Name() == "Set") {
					return true
				}
			}
		}
		// custom type parse methods: <var>.ParseXxx(v) returning error
		if sel, ok := call.Fun.(*ast.SelectorExpr); ok && strings.HasPrefix(sel.Sel.Name, "Parse") {
			if t := info.TypeOf(call); t != nil && types.Identical(t, errType) {
				row.OtherCalls = append(row.OtherCalls, "custom:"+sel.Sel.Name)
				return true
			}
		}
		if nm == "" {
			nm = types.ExprString(call.Fun)
		}
		row.Problems = append(row.Problems, "unexpected call "+nm+" on the value path of parameter "+row.Key+": the stored value is no longer the converted text of the supplied value")
		return true
	})
	// error discipline: every call returning error is followed by `if err != nil { reject }`
	var visit func(list []ast.Stmt)
	visit = func(list []ast.Stmt) {
		for i, st := range list {
			switch s := st.(type) {
			case *ast.AssignStmt:
				if len(s.Rhs) == 1 {
					if call, ok := s.Rhs[0].(*ast.CallExpr); ok {
						if idx, _ := returnsError(info, call); idx >= 0 {
							var eo types.Object
							if idx < len(s.Lhs) {
								if id, ok := s.Lhs[idx].(*ast.Ident); ok && id.Name != "_" {
									eo = identObj(info, id)
								}
							}
							okChk := false
							if eo != nil && i+1 < len(list) {
								if ifs, ok := list[i+1].(*ast.IfStmt); ok && condTestsErrG(info, ifs.Cond, eo) && c.isReject(ifs.Body.List) {
									okChk = true
								}
							}
							if !okChk {
								row.Problems = append(row.Problems, "the error of "+calleeName(info, call)+" is not tested immediately with a rejecting `if err != nil`: a malformed value would be accepted")
							}
						}
					}
				}
			case *ast.ExprStmt:
				if call, ok := s.X.(*ast.CallExpr); ok {
					if idx, _ := returnsError(info, call); idx >= 0 {
						row.Problems = append(row.Problems, "the error of "+calleeName(info, call)+" is dropped")
					}
				}
			case *ast.IfStmt:
				if s.Init != nil {
					visit([]ast.Stmt{s.Init})
				}
				visit(s.Body.List)
				switch e := s.Else.(type) {
				case *ast.BlockStmt:
					visit(e.List)
				case *ast.IfStmt:
					visit([]ast.Stmt{e})
				}
			case *ast.BlockStmt:
				visit(s.List)
			case *ast.ForStmt:
				visit(s.Body.List)
			case *ast.RangeStmt:
				visit(s.Body.List)
			}
		}
	}
	visit(blk.List)
	// provenance: some store's value depends on the source
	okProv := false
	ast.Inspect(blk, func(n ast.Node) bool {
		switch s := n.(type) {
		case *ast.AssignStmt:
			for i, l := range s.Lhs {
				if rootIsObj(info, l, c.params) {
					var rhs ast.Expr
					if len(s.Lhs) == len(s.Rhs) {
						rhs = s.Rhs[i]
					} else {
						rhs = s.Rhs[0]
					}
					if dependsOn(rhs, vals, 0) {
						okProv = true
					}
				}
			}
		case *ast.CallExpr:
			if sel, ok := s.Fun.(*ast.SelectorExpr); ok && rootIsObj(info, sel.X, c.params) {
				for _, a := range s.Args {
					if dependsOn(a, vals, 0) {
						okProv = true
					}
				}
			}
		}
		return true
	})
	if !okProv && row.Field != nil {
		row.Problems = append(row.Problems, "the value stored into "+row.FieldPath+" does not derive from the supplied text of "+row.Key)
	}
	sort.Strings(row.OtherCalls)
}

// isTransparentCtor: func NewT(v X) T { return T(v) }
func isTransparentCtor(p *Program, f *types.Func) bool {
	for _, file := range p.Pkg.Syntax {
		for _, d := range file.Decls {
			fd, ok := d.(*ast.FuncDecl)
			if !ok || p.Pkg.TypesInfo.Defs[fd.Name] != f || fd.Body == nil {
				continue
			}
			ps := paramObjs(p.Pkg.TypesInfo, fd)
			if len(ps) != 1 || len(fd.Body.List) != 1 {
				return false
			}
			ret, ok := fd.Body.List[0].(*ast.ReturnStmt)
			if !ok || len(ret.Results) != 1 {
				return false
			}
			e := ast.Unparen(ret.Results[0])
			if call, ok := e.(*ast.CallExpr); ok && len(call.Args) == 1 {
				if tv, ok := p.Pkg.TypesInfo.Types[call.Fun]; ok && tv.IsType() {
					return identObj(p.Pkg.TypesInfo, call.Args[0]) == ps[0]
				}
			}
			return identObj(p.Pkg.TypesInfo, e) == ps[0]
		}
	}
	return false
}

// parserModels: all new<Op>Params of a program keyed by function name.
func parserModels(p *Program) map[string]*ParserModel {
	out := map[string]*ParserModel{}
	for _, f := range p.Pkg.Syntax {
		for _, d := range f.Decls {
			fd, ok := d.(*ast.FuncDecl)
			if !ok || fd.Recv != nil || fd.Body == nil {
				continue
			}
			if strings.HasPrefix(fd.Name.Name, "new") && strings.HasSuffix(fd.Name.Name, "Params") {
				out[fd.Name.Name] = BuildParserModel(p, fd)
			}
		}
	}
	return out
}

// opOfParser links a parser to the operation: the handler func type whose
// ServeHTTP → <Op>HTTPRequest → Parse → new<Op>Params, via the static
// Path()/Method() methods the handler type declares.
type handlerInfo struct {
	TypeName  string
	Path      string
	Method    string
	Parser    string
	RespIface *types.Named
}

func handlerInfos(p *Program) []*handlerInfo {
	info := p.Pkg.TypesInfo
	by := map[string]*handlerInfo{}
	get := func(n string) *handlerInfo {
		if by[n] == nil {
			by[n] = &handlerInfo{TypeName: n}
		}
		return by[n]
	}
	for _, f := range p.Pkg.Syntax {
		for _, d := range f.Decls {
			fd, ok := d.(*ast.FuncDecl)
			if !ok || fd.Recv == nil || fd.Body == nil {
				continue
			}
			rt := recvTypeName(fd)
			if !strings.HasSuffix(rt, "HandlerFunc") {
				continue
			}
			if (fd.Name.Name == "Path" || fd.Name.Name == "Method") && len(fd.Body.List) == 1 {
				if ret, ok := fd.Body.List[0].(*ast.ReturnStmt); ok && len(ret.Results) == 1 {
					if tv := info.Types[ret.Results[0]]; tv.Value != nil && tv.Value.Kind() == constant.String {
						if fd.Name.Name == "Path" {
							get(rt).Path = constant.StringVal(tv.Value)
						} else {
							get(rt).Method = constant.StringVal(tv.Value)
						}
					}
				}
			}
		}
	}
	// parser + response interface from the func type: func(ctx, r XRequest) XResponse
	for n, h := range by {
		tn, _ := p.Pkg.Types.Scope().Lookup(n).(*types.TypeName)
		if tn == nil {
			continue
		}
		sig, ok := tn.Type().Underlying().(*types.Signature)
		if !ok || sig.Params().Len() != 2 || sig.Results().Len() != 1 {
			continue
		}
		if rn, ok := sig.Results().At(0).Type().(*types.Named); ok {
			h.RespIface = rn
		}
		if reqN, ok := sig.Params().At(1).Type().(*types.Named); ok {
			// XRequest interface has Parse() (XParams[, error]); parser is new<XParams>
			if it, ok := reqN.Underlying().(*types.Interface); ok {
				for i := 0; i < it.NumMethods(); i++ {
					if it.Method(i).Name() == "Parse" {
						rs := it.Method(i).Type().(*types.Signature).Results()
						if rs.Len() >= 1 {
							if pn, ok := rs.At(0).Type().(*types.Named); ok {
								h.Parser = "new" + pn.Obj().Name()
							}
						}
					}
				}
			}
		}
	}
	var out []*handlerInfo
	for _, h := range by {
		out = append(out, h)
	}
	sort.Slice(out, func(i, j int) bool { return out[i].TypeName < out[j].TypeName })
	return out
}

// jsonBodyDecoderHelper: func(r *http.Request, v any) error that decodes r.Body into v with
// encoding/json and returns nil exactly when Decode did: apart from `defer r.Body.Close()` its body is
//
//	err := json.NewDecoder(r.Body).Decode(v); if err != nil { return <non-nil error> }; return nil
//
// or the single `return json.NewDecoder(r.Body).Decode(v)`.
func jsonBodyDecoderHelper(p *Program, fo *types.Func) bool {
	fd := declOfObj(p, fo)
	if fd == nil || fd.Recv != nil || fd.Body == nil {
		return false
	}
	info := p.Pkg.TypesInfo
	ps := paramObjs(info, fd)
	sig := fo.Type().(*types.Signature)
	if len(ps) != 2 || sig.Results().Len() != 1 || !types.Identical(sig.Results().At(0).Type(), errType) {
		return false
	}
	r, v := ps[0], ps[1]
	isDecode := func(e ast.Expr) bool {
		call, ok := ast.Unparen(e).(*ast.CallExpr)
		if !ok || calleeName(info, call) != "encoding/json.Decoder.Decode" || len(call.Args) != 1 || identObj(info, call.Args[0]) != v {
			return false
		}
		sel, ok := call.Fun.(*ast.SelectorExpr)
		if !ok {
			return false
		}
		nd, ok := sel.X.(*ast.CallExpr)
		return ok && calleeName(info, nd) == "encoding/json.NewDecoder" && len(nd.Args) == 1 && types.ExprString(nd.Args[0]) == r.Name()+".Body"
	}
	var list []ast.Stmt
	for _, st := range fd.Body.List {
		if df, ok := st.(*ast.DeferStmt); ok && types.ExprString(df.Call) == r.Name()+".Body.Close()" {
			continue
		}
		list = append(list, st)
	}
	switch len(list) {
	case 1:
		ret, ok := list[0].(*ast.ReturnStmt)
		return ok && len(ret.Results) == 1 && isDecode(ret.Results[0])
	case 3:
		as, ok1 := list[0].(*ast.AssignStmt)
		ifs, ok2 := list[1].(*ast.IfStmt)
		ret, ok3 := list[2].(*ast.ReturnStmt)
		if !ok1 || !ok2 || !ok3 || len(as.Lhs) != 1 || len(as.Rhs) != 1 || !isDecode(as.Rhs[0]) {
			return false
		}
		eo := identObj(info, as.Lhs[0])
		if !condTestsErrG(info, ifs.Cond, eo) || ifs.Else != nil || len(ifs.Body.List) != 1 {
			return false
		}
		ir, ok := ifs.Body.List[0].(*ast.ReturnStmt)
		if !ok || len(ir.Results) != 1 || isNilIdent(ir.Results[0]) {
			return false
		}
		return len(ret.Results) == 1 && (isNilIdent(ret.Results[0]) || identObj(info, ret.Results[0]) == eo)
	}
	return false
}
