package main

// C11 — security requirements are enforced per operation, no more, no less.

import (
	"fmt"
	"go/ast"
	"go/token"
	"go/types"
	"golang.org/x/tools/go/types/typeutil"
	"sort"
	"strings"
)

// authCredential decompiles `func (s T) Auth(r *http.Request) (*http.Request, bool)`
// into the wire credential it reads. Totality: the body must be exactly the
// recognised statement sequence.
func authCredential(p *Program, fd *ast.FuncDecl) (cred string, why string) {
	// Value-flow form (tolerant to temporaries and their names): the body consists of
	//   - bindings of local variables (var decl, :=, =) without calls other than the credential
	//     source r.Header.Values(<const>) / r.URL.Query()[<const>] and strings.TrimPrefix(x, "Bearer ")
	//   - one guard `if len(V) == 0 { return nil, false }` on the source values V
	//   - the final `return s(r, T)` where T flows from V[0] through bindings / the TrimPrefix only
	info := p.Pkg.TypesInfo
	c := &rmCtx{p: p, info: info, recv: recvObj(info, fd)}
	ps := paramObjs(info, fd)
	if len(ps) != 1 || c.recv == nil {
		return "", "unexpected signature"
	}
	req := ps[0]
	list := fd.Body.List
	if len(list) < 3 {
		return "", fmt.Sprintf("%d statements: no room for source, guard and call", len(list))
	}
	defs := map[types.Object][]ast.Expr{} // local -> assigned expressions, in order
	var helperTok, helperOK types.Object  // results of a first-value helper, when one is used
	var vals types.Object
	kind, name := "", ""
	guardAt, srcAt := -1, -1
	source := func(e ast.Expr) (string, string) {
		switch e := ast.Unparen(e).(type) {
		case *ast.CallExpr:
			if calleeName(info, e) == "net/http.Header.Values" && len(e.Args) == 1 {
				if sel, ok := e.Fun.(*ast.SelectorExpr); ok {
					if s2, ok := sel.X.(*ast.SelectorExpr); ok && s2.Sel.Name == "Header" && c.isObj(s2.X, req) {
						if k, ok := c.constStr(e.Args[0]); ok {
							return "header", k
						}
					}
				}
			}
		case *ast.IndexExpr:
			if call, ok := e.X.(*ast.CallExpr); ok && calleeName(info, call) == "net/url.URL.Query" {
				if sel, ok := call.Fun.(*ast.SelectorExpr); ok {
					if s2, ok := sel.X.(*ast.SelectorExpr); ok && s2.Sel.Name == "URL" && c.isObj(s2.X, req) {
						if k, ok := c.constStr(e.Index); ok {
							return "query", k
						}
					}
				}
			}
		}
		return "", ""
	}
	for i, st := range list[:len(list)-1] {
		switch x := st.(type) {
		case *ast.DeclStmt:
			gd, ok := x.Decl.(*ast.GenDecl)
			if !ok || gd.Tok != token.VAR {
				return "", "unexpected declaration"
			}
			for _, sp := range gd.Specs {
				vs := sp.(*ast.ValueSpec)
				if len(vs.Values) != 0 && len(vs.Values) != len(vs.Names) {
					return "", "unexpected declaration"
				}
				for k, n := range vs.Names {
					if len(vs.Values) > 0 {
						defs[info.Defs[n]] = append(defs[info.Defs[n]], vs.Values[k])
					}
				}
			}
		case *ast.AssignStmt:
			// tok, ok := firstOf(<source>) with a helper that returns (values[0], true) / ("", false when empty)
			if len(x.Lhs) == 2 && len(x.Rhs) == 1 && vals == nil {
				if hc, isCall := ast.Unparen(x.Rhs[0]).(*ast.CallExpr); isCall && len(hc.Args) == 1 {
					if k, n := source(hc.Args[0]); k != "" {
						fo, _ := typeutil.Callee(info, hc).(*types.Func)
						if fo != nil && firstValueHelper(p, fo) {
							tokObj, okObj := identObj(info, x.Lhs[0]), identObj(info, x.Lhs[1])
							if tokObj == nil || okObj == nil {
								return "", "helper results are not bound to variables"
							}
							kind, name, srcAt = k, n, i
							helperTok, helperOK = tokObj, okObj
							vals = okObj // marks "source seen"
							continue
						}
					}
				}
				return "", "unexpected two-value assignment"
			}
			if len(x.Lhs) != 1 || len(x.Rhs) != 1 || (x.Tok != token.DEFINE && x.Tok != token.ASSIGN) {
				return "", "unexpected assignment form"
			}
			lo := identObj(info, x.Lhs[0])
			if lo == nil {
				return "", "assignment to something that is not a local variable"
			}
			if k, n := source(x.Rhs[0]); k != "" {
				if vals != nil {
					return "", "two credential sources"
				}
				vals, kind, name, srcAt = lo, k, n, i
				continue
			}
			defs[lo] = append(defs[lo], x.Rhs[0])
		case *ast.IfStmt:
			// if len(V) == 0 { return nil, false }
			if guardAt >= 0 || x.Else != nil || x.Init != nil || len(x.Body.List) != 1 || vals == nil {
				return "", "unexpected if statement (one absent-credential guard after the source is expected)"
			}
			be, ok := ast.Unparen(x.Cond).(*ast.BinaryExpr)
			okLen := false
			if helperOK != nil {
				if ue, isNot := ast.Unparen(x.Cond).(*ast.UnaryExpr); isNot && ue.Op == token.NOT && identObj(info, ue.X) == helperOK {
					okLen = true
				}
			}
			if ok && be.Op == token.EQL {
				if call, ok := be.X.(*ast.CallExpr); ok && len(call.Args) == 1 && c.isObj(call.Args[0], vals) {
					if id, ok := call.Fun.(*ast.Ident); ok && id.Name == "len" {
						if k, ok := c.constInt(be.Y); ok && k == 0 {
							okLen = true
						}
					}
				}
			}
			ret, ok := x.Body.List[0].(*ast.ReturnStmt)
			if !okLen || !ok || len(ret.Results) != 2 || !isNilIdent(ret.Results[0]) {
				return "", "absent credential does not `return nil, false`"
			}
			if tv := info.Types[ret.Results[1]]; tv.Value == nil || tv.Value.String() != "false" {
				return "", "absent credential does not `return nil, false`"
			}
			guardAt = i
		default:
			return "", fmt.Sprintf("unexpected statement %T", st)
		}
	}
	if kind == "" {
		return "", "credential source is neither r.Header.Values(<const>) nor r.URL.Query()[<const>]"
	}
	if guardAt < srcAt {
		return "", "the absent-credential guard `if len(values) == 0 { return nil, false }` is missing"
	}
	ret2, ok := list[len(list)-1].(*ast.ReturnStmt)
	if !ok || len(ret2.Results) != 1 {
		return "", "last statement is not `return s(r, token)`"
	}
	call, ok := ret2.Results[0].(*ast.CallExpr)
	if !ok || len(call.Args) != 2 || !c.isObj(call.Fun, c.recv) || !c.isObj(call.Args[0], req) {
		return "", "the user hook is not called as s(r, token) with its result returned unchanged"
	}
	// the token expression: V[0], possibly through local bindings and one TrimPrefix(_, "Bearer ")
	bearer := false
	var flows func(e ast.Expr, depth int) string
	flows = func(e ast.Expr, depth int) string {
		if depth > 8 {
			return "token derivation too deep"
		}
		switch x := ast.Unparen(e).(type) {
		case *ast.IndexExpr:
			if c.isObj(x.X, vals) {
				if k, ok := c.constInt(x.Index); ok && k == 0 {
					return ""
				}
			}
			return "token is not values[0]"
		case *ast.Ident:
			o := identObj(info, x)
			if helperTok != nil && o == helperTok && len(defs[o]) == 0 {
				return "" // the helper's first result: values[0]
			}
			ds := defs[o]
			if len(ds) == 0 {
				return "token variable " + x.Name + " is never bound"
			}
			// every binding must itself flow from the source (the last one is what is passed; the
			// earlier ones may be its inputs: token = hs[0]; token = TrimPrefix(token, …))
			based := helperTok != nil && o == helperTok
			for _, d := range ds {
				self := false
				ast.Inspect(d, func(n ast.Node) bool {
					if id, ok := n.(*ast.Ident); ok && identObj(info, id) == o {
						self = true
					}
					return true
				})
				if self {
					// x = f(x): judge f's other structure, the inner x by the remaining bindings
					call, ok := c.stdCall(d, "strings.TrimPrefix")
					if !ok || len(call.Args) != 2 || identObj(info, call.Args[0]) != o {
						return "token is rebound from itself by something other than strings.TrimPrefix"
					}
					if pre, ok := c.constStr(call.Args[1]); !ok || pre != "Bearer " {
						return "bearer prefix is not \"Bearer \""
					}
					bearer = true
					continue
				}
				if why := flows(d, depth+1); why != "" {
					return why
				}
				based = true
			}
			if !based {
				return "token variable " + x.Name + " is only ever derived from itself"
			}
			return ""
		case *ast.CallExpr:
			call, ok := c.stdCall(x, "strings.TrimPrefix")
			if !ok || len(call.Args) != 2 {
				return "unexpected call on the token path"
			}
			if pre, ok := c.constStr(call.Args[1]); !ok || pre != "Bearer " {
				return "bearer prefix is not \"Bearer \""
			}
			bearer = true
			return flows(call.Args[0], depth+1)
		}
		return "token is not derived from values[0]"
	}
	if why := flows(call.Args[1], 0); why != "" {
		return "", why
	}
	switch {
	case bearer && kind == "header" && name == "Authorization":
		return "bearer:Authorization", ""
	case bearer:
		return "", "Bearer prefix stripped from a credential that is not the Authorization header"
	default:
		return "apikey:" + kind + ":" + name, ""
	}
}

// firstValueHelper: func(values []string) (string, bool) that returns (values[0], true) when the
// list is non-empty and (<anything>, false) otherwise — both orders of the test are accepted.
func firstValueHelper(p *Program, fo *types.Func) bool {
	fd := declOfObj(p, fo)
	if fd == nil || fd.Recv != nil || fd.Body == nil {
		return false
	}
	info := p.Pkg.TypesInfo
	c := &rmCtx{p: p, info: info}
	ps := paramObjs(info, fd)
	sig := fo.Type().(*types.Signature)
	if len(ps) != 1 || sig.Results().Len() != 2 || !types.Identical(sig.Results().At(1).Type(), types.Typ[types.Bool]) || len(fd.Body.List) != 2 {
		return false
	}
	v := ps[0]
	ifs, ok1 := fd.Body.List[0].(*ast.IfStmt)
	last, ok2 := fd.Body.List[1].(*ast.ReturnStmt)
	if !ok1 || !ok2 || ifs.Else != nil || ifs.Init != nil || len(ifs.Body.List) != 1 {
		return false
	}
	inner, ok := ifs.Body.List[0].(*ast.ReturnStmt)
	if !ok || len(inner.Results) != 2 || len(last.Results) != 2 {
		return false
	}
	isFirst := func(ret *ast.ReturnStmt) bool {
		ix, ok := ast.Unparen(ret.Results[0]).(*ast.IndexExpr)
		if !ok || !c.isObj(ix.X, v) {
			return false
		}
		k, ok := c.constInt(ix.Index)
		tv := info.Types[ret.Results[1]]
		return ok && k == 0 && tv.Value != nil && tv.Value.String() == "true"
	}
	isNone := func(ret *ast.ReturnStmt) bool {
		tv := info.Types[ret.Results[1]]
		return tv.Value != nil && tv.Value.String() == "false"
	}
	// condition: len(v) == 0 | len(v) < 1 (empty)  or  len(v) > 0 | len(v) != 0 | len(v) >= 1 (non-empty)
	be, ok := ast.Unparen(ifs.Cond).(*ast.BinaryExpr)
	if !ok {
		return false
	}
	call, ok := ast.Unparen(be.X).(*ast.CallExpr)
	if !ok || len(call.Args) != 1 || !c.isObj(call.Args[0], v) {
		return false
	}
	if id, ok := call.Fun.(*ast.Ident); !ok || id.Name != "len" {
		return false
	}
	k, ok := c.constInt(be.Y)
	if !ok {
		return false
	}
	empty := be.Op == token.EQL && k == 0 || be.Op == token.LSS && k == 1 || be.Op == token.LEQ && k == 0
	nonEmpty := be.Op == token.GTR && k == 0 || be.Op == token.NEQ && k == 0 || be.Op == token.GEQ && k == 1
	switch {
	case empty:
		return isNone(inner) && isFirst(last)
	case nonEmpty:
		return isFirst(inner) && isNone(last)
	}
	return false
}

// recogniseOrCombinator checks authMiddlewareOr and middlewares.
func recogniseOrCombinator(p *Program, m *RouterModel) (ok bool, why string) {
	info := p.Pkg.TypesInfo
	if m.DirectOr {
		// one helper wraps h in the OR-combinator: func withAuth(next http.Handler, fns []AuthMiddleware) http.Handler
		if m.AuthOrFn != nil {
			return false, "leaves mix the direct wrap helper with a separate auth combinator"
		}
		fd := declOfObj(p, m.WrapFn)
		if fd == nil || fd.Recv != nil {
			return false, "wrap helper used by the route leaves not found"
		}
		ps := paramObjs(info, fd)
		if len(ps) != 2 || len(fd.Body.List) != 1 {
			return false, "direct wrap helper: unexpected outer shape"
		}
		next, fns := ps[0], ps[1]
		ret, okr := fd.Body.List[0].(*ast.ReturnStmt)
		if !okr || len(ret.Results) != 1 {
			return false, "direct wrap helper does not return http.HandlerFunc(...)"
		}
		conv, okc := ret.Results[0].(*ast.CallExpr)
		if !okc || len(conv.Args) != 1 {
			return false, "direct wrap helper does not return http.HandlerFunc(...)"
		}
		if tv, ok := info.Types[conv.Fun]; !ok || !tv.IsType() || tv.Type.String() != "net/http.HandlerFunc" {
			return false, "direct wrap helper: handler is not an http.HandlerFunc"
		}
		inner, okf := conv.Args[0].(*ast.FuncLit)
		if !okf {
			inner, okf = p.inliner().methodValueAsFuncLit(conv.Args[0])
		}
		if !okf {
			return false, "direct wrap helper: the handler is not a function literal"
		}
		var names []*ast.Ident
		for _, f := range inner.Type.Params.List {
			names = append(names, f.Names...)
		}
		if len(names) != 2 {
			return false, "direct wrap helper: inner handler params"
		}
		c := &rmCtx{p: p, info: info}
		if why := analyseAuthHandler(p, c, inner.Body, info.Defs[names[0]], info.Defs[names[1]], next, fns); why != "" {
			return false, why
		}
		return true, ""
	}
	fd := declOfObj(p, m.AuthOrFn)
	if fd == nil {
		return false, "auth combinator used by the route leaves not found"
	}
	c := &rmCtx{p: p, info: info}
	ps := paramObjs(info, fd)
	if len(ps) != 1 || len(fd.Body.List) != 1 {
		return false, "authMiddlewareOr: unexpected outer shape"
	}
	fns := ps[0]
	ret, okr := fd.Body.List[0].(*ast.ReturnStmt)
	if !okr || len(ret.Results) != 1 {
		return false, "authMiddlewareOr: does not return a closure"
	}
	outer, okf := ret.Results[0].(*ast.FuncLit)
	if !okf || len(outer.Body.List) != 1 || len(outer.Type.Params.List) != 1 {
		return false, "authMiddlewareOr: outer closure shape"
	}
	next := info.Defs[outer.Type.Params.List[0].Names[0]]
	ret2, okr2 := outer.Body.List[0].(*ast.ReturnStmt)
	if !okr2 || len(ret2.Results) != 1 {
		return false, "authMiddlewareOr: outer closure does not return http.HandlerFunc(...)"
	}
	conv, okc := ret2.Results[0].(*ast.CallExpr)
	if !okc || len(conv.Args) != 1 {
		return false, "authMiddlewareOr: outer closure does not return http.HandlerFunc(...)"
	}
	if tv, ok := info.Types[conv.Fun]; !ok || !tv.IsType() || tv.Type.String() != "net/http.HandlerFunc" {
		return false, "authMiddlewareOr: handler is not an http.HandlerFunc"
	}
	inner, okf2 := conv.Args[0].(*ast.FuncLit)
	if !okf2 {
		// the closure turned into a method of a small struct: http.HandlerFunc(authOrHandler{fns: fns, next: next}.serve)
		inner, okf2 = p.inliner().methodValueAsFuncLit(conv.Args[0])
	}
	if !okf2 {
		return false, "authMiddlewareOr: the handler is not a function literal"
	}
	var names []*ast.Ident
	for _, f := range inner.Type.Params.List {
		names = append(names, f.Names...)
	}
	if len(names) != 2 {
		return false, "authMiddlewareOr: inner handler params"
	}
	w, req := info.Defs[names[0]], info.Defs[names[1]]
	// behaviour of the handler body, whatever its spelling (authcomb.go)
	if why := analyseAuthHandler(p, c, inner.Body, w, req, next, fns); why != "" {
		return false, why
	}
	// middlewares(h, ms...) wraps each once
	md := declOfObj(p, m.WrapFn)
	if md == nil {
		return false, "wrap helper used by the route leaves not found"
	}
	mps := paramObjs(info, md)
	if len(mps) != 2 || len(md.Body.List) < 2 {
		return false, "middlewares(): unexpected shape"
	}
	// [temporaries…] loop ; return h
	nb := len(md.Body.List)
	for _, st := range md.Body.List[:nb-2] {
		if as, ok := st.(*ast.AssignStmt); !ok || as.Tok != token.DEFINE {
			return false, "middlewares(): unexpected statement before the loop"
		}
	}
	fs, okfs := md.Body.List[nb-2], true
	before := md.Body.List[:nb-2]
	// the method the wrap helper calls on each element, and the type the combinator returns
	wrapMethod := ""
	if sig, ok := m.WrapFn.Type().(*types.Signature); ok && sig.Variadic() {
		if sl, ok := sig.Params().At(sig.Params().Len() - 1).Type().(*types.Slice); ok {
			if it, ok := sl.Elem().Underlying().(*types.Interface); ok && it.NumMethods() == 1 {
				wrapMethod = it.Method(0).Name()
			}
		}
	}
	if wrapMethod == "" {
		return false, "wrap helper does not take a variadic list of a one-method interface"
	}
	if !okfs || !reverseLoopOver(c, fs, before, mps[0], mps[1], wrapMethod) {
		return false, "middlewares(): not the reverse loop `for i := len(ms)-1; i >= 0; i-- { h = ms[i].Middleware(h) }`"
	}
	mr, okmr := md.Body.List[nb-1].(*ast.ReturnStmt)
	if !okmr || len(mr.Results) != 1 || !c.isObj(mr.Results[0], mps[0]) {
		return false, "middlewares(): does not return the wrapped handler"
	}
	// MiddlewareFunc.Middleware(next) returns m(next)
	retName := ""
	if sig, ok := m.AuthOrFn.Type().(*types.Signature); ok && sig.Results().Len() == 1 {
		if n, ok := sig.Results().At(0).Type().(*types.Named); ok {
			retName = n.Obj().Name()
		}
	}
	mf := p.funcDecl(retName, wrapMethod)
	if mf == nil || len(mf.Body.List) != 1 {
		return false, "MiddlewareFunc.Middleware not found / unexpected"
	}
	mret, okm := mf.Body.List[0].(*ast.ReturnStmt)
	if !okm || len(mret.Results) != 1 {
		return false, "MiddlewareFunc.Middleware is not `return m(next)`"
	}
	mcall, okmc := mret.Results[0].(*ast.CallExpr)
	mfps := paramObjs(info, mf)
	if !okmc || len(mcall.Args) != 1 || len(mfps) != 1 || !c.isObj(mcall.Args[0], mfps[0]) || !c.isObj(mcall.Fun, recvObj(info, mf)) {
		return false, "MiddlewareFunc.Middleware is not `return m(next)`"
	}
	return true, ""
}

// reverseLoopOver: h = ms[idx].<method>(h) once per element, idx visiting len(ms)-1 … 0 (any loop spelling)
func reverseLoopOver(c *rmCtx, loop ast.Stmt, before []ast.Stmt, h, ms types.Object, method string) bool {
	var body *ast.BlockStmt
	switch l := loop.(type) {
	case *ast.ForStmt:
		body = l.Body
	case *ast.RangeStmt:
		body = l.Body
	default:
		return false
	}
	if len(body.List) != 1 {
		return false
	}
	as, ok := body.List[0].(*ast.AssignStmt)
	if !ok || as.Tok != token.ASSIGN || len(as.Lhs) != 1 || !c.isObj(as.Lhs[0], h) {
		return false
	}
	call, ok := as.Rhs[0].(*ast.CallExpr)
	if !ok || len(call.Args) != 1 || !c.isObj(call.Args[0], h) {
		return false
	}
	sel, ok := call.Fun.(*ast.SelectorExpr)
	if !ok || sel.Sel.Name != method {
		return false
	}
	ix, ok := sel.X.(*ast.IndexExpr)
	if !ok || !c.isObj(ix.X, ms) {
		return false
	}
	isSlice := func(e ast.Expr) bool { return c.isObj(e, ms) }
	return newRevLoop(c.info, loop, before, isSlice).visitsDescending(ix.Index)
}

func runC11(r *Report) {
	r.Explanation = "For every instantiated program: (1) each API field whose type has an Auth method is mapped to the wire credential it reads by decompiling that method (constant header/query key, Bearer prefix, absent credential => reject before the user hook, hook result returned unchanged); (2) the OR-combinator authMiddlewareOr and middlewares() are recognised statement by statement: next is served exactly once, only on the branch where some fn.Auth(r) returned ok, with the request that call returned; otherwise 401; nil authenticators are skipped; (3) for every operation leaf of the route model the set of credentials of its authenticator list equals the set of alternatives of the operation's effective requirement computed by the independent oracle (own list if present, else global; empty = public => bare handler). AND-alternatives and unsupported scheme kinds have no faithful representation and are violations unless the generator refuses the spec. All credential combinations are covered by the path rule, not enumerated."
	r.Rule("C11/scheme-map", "every authenticator type's Auth method reads exactly one constant credential source, rejects when it is absent, and returns the user hook's verdict unchanged")
	r.Rule("C11/or-combinator", "authMiddlewareOr serves next exactly once, only after some authenticator accepted, with that authenticator's request; else 401; middlewares() applies each wrapper once")
	r.Rule("C11/sec-set", "per operation leaf: bare handler iff the effective requirement is empty; otherwise wrapped once and the authenticators' credential set equals the requirement's alternatives")
	r.Assumptions = append(r.Assumptions, "what the user's authenticator hook decides is outside generated code", "API authenticator fields left nil are user configuration", "programs bounded by the corpus (sec_* matrix + fixtures)")
	s3, progs := loadRouted(r, "C11", S3Options{TemplateDebug: true})
	if s3 == nil {
		return
	}
	defer s3.Close()
	nOps, nSecured, nAuthTypes := 0, 0, 0
	for _, rp := range progs {
		p, m, o := rp.P, rp.M, rp.O
		modelUndecided(r, s3, rp, "C11/sec-set")
		info := p.Pkg.TypesInfo
		// scheme map
		cred := map[string]string{} // API field -> credential
		st, _ := m.APIType.Underlying().(*types.Struct)
		anyAuth := false
		for i := 0; st != nil && i < st.NumFields(); i++ {
			f := st.Field(i)
			named, ok := f.Type().(*types.Named)
			if !ok || named.Obj().Pkg() != p.Pkg.Types {
				continue
			}
			var authDecl *ast.FuncDecl
			for _, file := range p.Pkg.Syntax {
				for _, d := range file.Decls {
					if fd, ok := d.(*ast.FuncDecl); ok && fd.Name.Name == "Auth" && fd.Recv != nil && recvTypeName(fd) == named.Obj().Name() {
						authDecl = fd
					}
				}
			}
			if authDecl == nil {
				continue
			}
			anyAuth = true
			nAuthTypes++
			key := p.Name + ":" + named.Obj().Name() + ".Auth"
			cr, why := authCredential(p, authDecl)
			if cr == "" {
				r.Undecided("C11/scheme-map", key, s3.pos(authDecl.Pos()), "Auth method not in the recognised shape: "+why)
				continue
			}
			r.OK("C11/scheme-map", key, s3.pos(authDecl.Pos()), cr)
			cred[f.Name()] = cr
		}
		_ = info
		if anyAuth || m.AuthOrFn != nil || m.DirectOr {
			ok, why := recogniseOrCombinator(p, m)
			if ok {
				r.OK("C11/or-combinator", p.Name+":authMiddlewareOr", "", "")
			} else {
				r.Undecided("C11/or-combinator", p.Name+":authMiddlewareOr", "", why)
			}
		}
		// sec-set
		ops := map[string]*OpOracle{}
		for _, op := range o.AllOps() {
			ops[op.Method+" "+op.Template] = op
		}
		for _, lf := range m.AllLeaves() {
			if lf.Kind != "op" {
				continue
			}
			op := ops[lf.Method+" "+lf.Template]
			if op == nil {
				continue // reported by C03
			}
			nOps++
			key := fmt.Sprintf("%s:%s %s", p.Name, lf.Method, lf.Template)
			pos := s3.pos(lf.Pos)
			// oracle alternatives
			var want, unsupported []string
			bad := ""
			for _, alt := range op.Security {
				if len(alt) != 1 {
					var ns []string
					for _, sc := range alt {
						ns = append(ns, sc.Key)
					}
					bad = "the requirement has an alternative that needs several schemes at once (" + strings.Join(ns, " AND ") + "), which the OR-combinator cannot express"
					continue
				}
				if !alt[0].Supported() {
					unsupported = append(unsupported, "the requirement names scheme "+alt[0].Key+" of unsupported kind "+alt[0].Type+"/"+alt[0].Scheme+alt[0].In+", which goag drops silently")
					continue
				}
				want = append(want, alt[0].Credential())
			}
			// an unsupported alternative next to supported ones only makes the operation stricter
			// (the handler still runs only after a listed alternative was accepted); alone it
			// leaves the operation public
			if len(unsupported) > 0 && len(want) == 0 && bad == "" {
				bad = strings.Join(unsupported, "; ")
			}
			var got []string
			unknown := ""
			for _, a := range lf.Auth {
				if cr, ok := cred[a]; ok {
					got = append(got, cr)
				} else {
					unknown = a
				}
			}
			sort.Strings(got)
			sort.Strings(want)
			got, want = uniq(got), uniq(want)
			switch {
			case unknown != "":
				r.Undecided("C11/sec-set", key, pos, "authenticator field "+unknown+" has no recognised Auth method")
			case bad != "":
				r.Violation("C11/sec-set", key, pos, bad+"; generated authenticators: ["+strings.Join(got, ", ")+"]")
			case op.Public && len(op.Security) == 0:
				if len(lf.Auth) == 0 && lf.Wrapped == 0 {
					r.OK("C11/sec-set", key, pos, "public")
				} else {
					r.Violation("C11/sec-set", key, pos, "the operation is public (effective requirement is empty) but its handler is wrapped with authenticators ["+strings.Join(got, ", ")+"] (template define "+p.Provenance(s3, lf.Pos)+")")
				}
			default:
				nSecured++
				if op.Public {
					// an empty alternative {} next to real ones: anonymous access allowed
					if len(lf.Auth) != 0 {
						r.Violation("C11/sec-set", key, pos, "the requirement contains the empty alternative {} (anonymous allowed) but the handler demands credentials")
						continue
					}
					r.OK("C11/sec-set", key, pos, "anonymous alternative")
					continue
				}
				if lf.Wrapped != 1 {
					r.Violation("C11/sec-set", key, pos, fmt.Sprintf("the operation requires one of [%s] but its handler is wrapped %d times (expected exactly one authMiddlewareOr)", strings.Join(want, ", "), lf.Wrapped))
					continue
				}
				if ok, d := sameSet(got, want); !ok {
					r.Violation("C11/sec-set", key, pos, fmt.Sprintf("authenticators accept [%s] but the operation's effective requirement is [%s]: %s", strings.Join(got, ", "), strings.Join(want, ", "), d))
					continue
				}
				note := ""
				if len(unsupported) > 0 {
					note = " (stricter than declared: " + strings.Join(unsupported, "; ") + ")"
				}
				r.OK("C11/sec-set", key, pos, strings.Join(want, " | ")+note)
			}
		}
	}
	r.Analysed["operation_leaves"] = nOps
	r.Analysed["secured_operations"] = nSecured
	r.Analysed["authenticator_types"] = nAuthTypes
	r.FloorMin("operation leaves", nOps, 100)
	r.FloorMin("secured operations", nSecured, 8)
	r.FloorMin("authenticator types decompiled", nAuthTypes, 8)
}

func uniq(s []string) []string {
	var out []string
	for i, x := range s {
		if i == 0 || x != s[i-1] {
			out = append(out, x)
		}
	}
	return out
}
