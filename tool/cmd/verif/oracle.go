package main

// oracle.go — spec oracle independent of /repo/specification (DESIGN §2.4).
// The document is loaded with kin-openapi's loader (the same loader goag's
// CLI runs before goag's own code starts) and reduced to plain tables by
// code written for this purpose.

import (
	"fmt"
	"net/textproto"
	"net/url"
	"sort"
	"strings"

	"github.com/getkin/kin-openapi/openapi3"
)

var httpMethodOrder = []string{"GET", "POST", "PATCH", "PUT", "DELETE", "CONNECT", "HEAD", "OPTIONS", "TRACE"}

type SecScheme struct {
	Key    string // key in components.securitySchemes
	Type   string // http | apiKey | oauth2 | openIdConnect
	Scheme string // bearer | basic
	In     string // header | query | cookie
	Name   string // header/query name for apiKey
}

func (s SecScheme) Supported() bool {
	return (s.Type == "http" && s.Scheme == "bearer") || (s.Type == "apiKey" && (s.In == "header" || s.In == "query"))
}

// Credential is the wire-level credential source a scheme reads.
func (s SecScheme) Credential() string {
	switch {
	case s.Type == "http" && s.Scheme == "bearer":
		return "bearer:Authorization"
	case s.Type == "apiKey":
		return "apikey:" + s.In + ":" + s.Name
	}
	return "unsupported:" + s.Type + ":" + s.Scheme
}

type ParamOracle struct {
	In        string
	Name      string
	Required  bool
	Schema    *openapi3.Schema
	SchemaRef string
	ViaRef    bool   // parameter object itself was a $ref
	Level     string // path-item | operation
}

type RespOracle struct {
	Status string // "200" | "default"
	Ref    string // component ref or ""
	Resp   *openapi3.Response
}

type OpOracle struct {
	Method   string
	Template string
	ID       string
	Op       *openapi3.Operation
	// Security: effective requirement; nil slice + Public==true means public
	Security  [][]SecScheme // alternatives, each a conjunction
	Public    bool
	Params    []ParamOracle
	Responses []RespOracle
}

type PathOracle struct {
	Template string
	Segments []string // literal text or "{name}"; trailing "" for trailing slash
	Ops      map[string]*OpOracle
	Item     *openapi3.PathItem
}

type Oracle struct {
	Doc      *openapi3.Swagger
	BasePath string
	Paths    []*PathOracle
	Schemes  map[string]SecScheme
}

func splitTemplate(t string) []string {
	return strings.Split(strings.TrimPrefix(t, "/"), "/")
}

func isVarSeg(s string) bool { return strings.HasPrefix(s, "{") && strings.HasSuffix(s, "}") }

func LoadOracle(specPath, basePathFlag string) (*Oracle, error) {
	doc, err := openapi3.NewSwaggerLoader().LoadSwaggerFromFile(specPath)
	if err != nil {
		return nil, fmt.Errorf("load %s: %w", specPath, err)
	}
	o := &Oracle{Doc: doc, Schemes: map[string]SecScheme{}}
	// base path: flag, else path of servers[0].url with variable defaults substituted
	bp := basePathFlag
	if bp == "" && len(doc.Servers) > 0 && doc.Servers[0] != nil {
		raw := doc.Servers[0].URL
		var names []string
		for k := range doc.Servers[0].Variables {
			names = append(names, k)
		}
		sort.Strings(names)
		for _, k := range names {
			v := doc.Servers[0].Variables[k]
			if v == nil {
				continue
			}
			if def, ok := v.Default.(string); ok {
				raw = strings.ReplaceAll(raw, "{"+k+"}", def)
			}
		}
		if u, err := url.Parse(raw); err == nil {
			bp = u.Path
		}
	}
	o.BasePath = strings.TrimRight(bp, "/")
	for k, ref := range doc.Components.SecuritySchemes {
		if ref == nil || ref.Value == nil {
			continue
		}
		v := ref.Value
		o.Schemes[k] = SecScheme{Key: k, Type: v.Type, Scheme: strings.ToLower(v.Scheme), In: v.In, Name: v.Name}
	}
	var keys []string
	for k := range doc.Paths {
		keys = append(keys, k)
	}
	sort.Strings(keys)
	for _, k := range keys {
		item := doc.Paths[k]
		if item == nil {
			continue
		}
		po := &PathOracle{Template: k, Segments: splitTemplate(k), Ops: map[string]*OpOracle{}, Item: item}
		for _, m := range httpMethodOrder {
			op := item.GetOperation(m)
			if op == nil {
				continue
			}
			oo := &OpOracle{Method: m, Template: k, ID: op.OperationID, Op: op}
			// effective security
			var reqs openapi3.SecurityRequirements
			if op.Security != nil {
				reqs = *op.Security
			} else {
				reqs = doc.Security
			}
			if len(reqs) == 0 {
				oo.Public = true
			}
			for _, alt := range reqs {
				var names []string
				for n := range alt {
					names = append(names, n)
				}
				sort.Strings(names)
				var conj []SecScheme
				for _, n := range names {
					sc, ok := o.Schemes[n]
					if !ok {
						sc = SecScheme{Key: n, Type: "unknown"}
					}
					conj = append(conj, sc)
				}
				if len(conj) == 0 {
					// an empty requirement object {} means "no security" as an alternative
					oo.Public = true
					continue
				}
				oo.Security = append(oo.Security, conj)
			}
			// parameters: path-item level merged with operation level (operation wins by in+name)
			seen := map[string]int{}
			addParam := func(pr *openapi3.ParameterRef, level string) {
				if pr == nil || pr.Value == nil {
					return
				}
				p := pr.Value
				po := ParamOracle{In: p.In, Name: p.Name, Required: p.Required, ViaRef: pr.Ref != "", Level: level}
				if p.Schema != nil {
					po.Schema = p.Schema.Value
					po.SchemaRef = p.Schema.Ref
				}
				key := p.In + "\x00" + p.Name
				if i, ok := seen[key]; ok {
					oo.Params[i] = po
					return
				}
				seen[key] = len(oo.Params)
				oo.Params = append(oo.Params, po)
			}
			for _, pr := range item.Parameters {
				addParam(pr, "path-item")
			}
			for _, pr := range op.Parameters {
				addParam(pr, "operation")
			}
			var sts []string
			for st := range op.Responses {
				sts = append(sts, st)
			}
			sort.Strings(sts)
			for _, st := range sts {
				rr := op.Responses[st]
				if rr == nil {
					continue
				}
				oo.Responses = append(oo.Responses, RespOracle{Status: st, Ref: rr.Ref, Resp: rr.Value})
			}
			po.Ops[m] = oo
		}
		o.Paths = append(o.Paths, po)
	}
	return o, nil
}

func (o *Oracle) AllOps() []*OpOracle {
	var out []*OpOracle
	for _, p := range o.Paths {
		for _, m := range httpMethodOrder {
			if op := p.Ops[m]; op != nil {
				out = append(out, op)
			}
		}
	}
	return out
}

// Match is the reference matcher of C03: template matches the request
// segments one for one (a variable matches any segment text; an empty
// variable segment is rejected later by the path parser, C05), the method is
// required, literal segments are preferred over templated ones, leftmost
// segment first.
func (o *Oracle) Match(segs []string, method string) *OpOracle {
	var best *OpOracle
	var bestKey []int
	for _, p := range o.Paths {
		if len(p.Segments) != len(segs) {
			continue
		}
		ok := true
		key := make([]int, len(segs))
		for i, ts := range p.Segments {
			if isVarSeg(ts) {
				key[i] = 1
				continue
			}
			if ts != segs[i] {
				ok = false
				break
			}
		}
		if !ok {
			continue
		}
		op := p.Ops[method]
		if op == nil {
			continue
		}
		if best == nil || lessInts(key, bestKey) {
			best, bestKey = op, key
		}
	}
	return best
}

func lessInts(a, b []int) bool {
	for i := range a {
		if a[i] != b[i] {
			return a[i] < b[i]
		}
	}
	return false
}

// CORS oracle: declared methods of the path item and canonical header set.
func (o *Oracle) CORSSets(p *PathOracle) (methods, headers []string) {
	seen := map[string]bool{}
	for _, m := range httpMethodOrder {
		op := p.Ops[m]
		if op == nil {
			continue
		}
		methods = append(methods, m)
		for _, prm := range op.Params {
			if prm.In == "header" {
				k := textproto.CanonicalMIMEHeaderKey(prm.Name)
				if !seen[k] {
					seen[k] = true
					headers = append(headers, k)
				}
			}
		}
		for _, alt := range op.Security {
			for _, sc := range alt {
				k := ""
				if sc.Type == "http" && sc.Scheme == "bearer" {
					k = "Authorization"
				}
				if sc.Type == "apiKey" && sc.In == "header" {
					k = textproto.CanonicalMIMEHeaderKey(sc.Name)
				}
				if k != "" && !seen[k] {
					seen[k] = true
					headers = append(headers, k)
				}
			}
		}
	}
	return
}
