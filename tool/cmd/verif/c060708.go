package main

// C06 — JSON encode→decode returns the same value, via valid JSON (decided
//        clauses: json-typestate, json-quoting, codec-agreement).
// C07 — encoded JSON conforms to the schema (shape, body-sites).
// C08 — decoding is strict on required/type and keeps additional properties
//        (reader-table, strict-errors, oneof, request-body).

import (
	"fmt"
	"go/ast"
	"go/types"
	"sort"
	"strings"

	"github.com/getkin/kin-openapi/openapi3"
)

type jsonProgram struct {
	*paramProgram
	Objects map[string]*JSONObject
	OneOfs  map[string]*JSONOneOf
	Writes  map[string]*RespWrite
}

func loadJSONPrograms(r *Report, prefix string) (*S3, []*jsonProgram) {
	s3, pps := loadParamPrograms(r, prefix)
	if s3 == nil {
		return nil, nil
	}
	var out []*jsonProgram
	for _, pp := range pps {
		out = append(out, &jsonProgram{paramProgram: pp, Objects: jsonObjects(pp.P), OneOfs: jsonOneOfs(pp.P), Writes: respWrites(pp.P)})
	}
	return s3, out
}

func jsonSafeKey(k string) bool {
	for _, r := range k {
		if r == '"' || r == '\\' || r < 0x20 {
			return false
		}
	}
	return true
}

func sortedObjNames(m map[string]*JSONObject) []string {
	var ns []string
	for n := range m {
		ns = append(ns, n)
	}
	sort.Strings(ns)
	return ns
}

func runC06(r *Report) {
	r.Explanation = "Value equality after a round trip quantifies over runtime values and is NOT decided. Two structural necessary conditions are decided for every generated object codec of every instantiated program, for all values of the type: (json-typestate) an abstract interpretation of each marshalJSONInnerBody over the state emitted ∈ {no, maybe, yes}: a member written through writeProperty carries its own separator logic (checked once on the closure: prefix with the comma variable, then comma = \",\"); an embedded member (allOf $ref) is written by the member type's own marshalJSONInnerBody, which starts with a fresh, empty separator — so it may only stand where nothing has been emitted yet, and the `comma = \",\"` forced after it is only right when the member type always emits something (summary never/maybe/always computed as a fixed point); (json-quoting) keys spliced into the output must be JSON-safe constants or pass through a JSON quoting function; (codec-agreement) the writer's key table and the reader's key table of the same type agree: same keys on the same struct fields (types.Var identity), required on one side ⇔ required on the other, optional reader sets IsSet exactly where the writer guards on Get(), null written ⇔ null accepted, embedded members delegated on both sides in the same order, additionalProperties written ⇔ leftovers collected."
	r.Rule("C06/codec-recognised", "marshalJSONInnerBody / unmarshalJSONInnerBody of every object type are recognised completely")
	r.Rule("C06/json-typestate", "separator discipline: embedded members only where nothing was emitted before; forced comma only after a member type that always emits")
	r.Rule("C06/json-quoting", "constant keys are JSON-safe; non-constant keys (additionalProperties) pass through a JSON quoting function")
	r.Rule("C06/oneof-arms", "every discriminator value the schema maps (explicitly or by schema name) has a decoding arm, so every value the encoder can emit for a variant can be decoded back")
	r.Rule("C06/keys-consumed", "every key a reader looks up is deleted from the shared raw map before any later additionalProperties collector (own or of an allOf member decoded afterwards from the same map) ranges over it")
	r.Rule("C06/time-layout", "date-time properties are formatted and parsed with time.RFC3339Nano (lossless for every time.Time instant) unless x-goag-go-time-format names another layout; writer layout = reader layout")
	r.Rule("C06/marshaler-receiver", "every MarshalJSON of the generated package has a value receiver (the encoders pass values; a pointer-receiver method is skipped for non-addressable ones)")
	r.Rule("C06/codec-agreement", "writer key table = reader key table (key, field, required/optional, IsSet, null, embedded order, additionalProperties)")
	r.Assumptions = append(r.Assumptions,
		"NOT decided: equality of values after a round trip (number formatting, time zones, RawMessage normalisation, nil vs empty collections) and everything delegated to encoding/json",
		"programs bounded by the corpus")
	s3, progs := loadJSONPrograms(r, "C06")
	if s3 == nil {
		return
	}
	defer s3.Close()
	// the decode direction of the round trip needs fresh storage per element (see C08/fresh-element)
	r.Rule("C06/fresh-element", "every decoder loop decodes into a variable declared in the loop body or reset before the decode (json.Unmarshal and the generated UnmarshalJSON merge into their target): otherwise decode(encode(v)) != v for collections whose later elements omit what earlier ones set")
	for _, jp := range progs {
		before := len(r.Obls)
		n := freshElements(r, s3, jp.P, jp.P.Pkg.Types, jp.P.Pkg.TypesInfo, jp.P.Pkg.Syntax, "C06/fresh-element")
		if len(r.Obls) == before {
			r.OK("C06/fresh-element", jp.P.Name, "", fmt.Sprintf("%d decoder loops", n))
		}
	}
	nObj := 0
	for _, jp := range progs {
		p := jp.P
		for _, name := range sortedObjNames(jp.Objects) {
			o := jp.Objects[name]
			nObj++
			key := p.Name + ":" + name
			pos := ""
			if o.WDecl != nil {
				pos = s3.pos(o.WDecl.Pos())
			}
			if len(o.WUndecided)+len(o.RUndecided) > 0 {
				r.Undecided("C06/codec-recognised", key, pos, strings.Join(append(append([]string{}, o.WUndecided...), o.RUndecided...), "; ")+" (template define SchemaComponent)")
				continue
			}
			if o.WritePropertyOK != "" {
				r.Undecided("C06/codec-recognised", key, pos, o.WritePropertyOK)
				continue
			}
			r.OK("C06/codec-recognised", key, pos, "")
			// typestate
			emitted := 0 // 0 no, 1 maybe, 2 yes
			var tsProblems []string
			for i := 0; i < len(o.Writer); i++ {
				w := o.Writer[i]
				switch w.Kind {
				case "prop":
					if w.Optional {
						if emitted < 1 {
							emitted = 1
						}
					} else {
						emitted = 2
					}
				case "additional":
					if emitted < 1 {
						emitted = 1
					}
				case "embedded":
					callee := "maybe"
					if n, ok := derefNamed(w.Field.Type()); ok {
						if eo := jp.Objects[n.Obj().Name()]; eo != nil {
							callee = eo.Emits
						}
					}
					if w.ViaCommaWriter {
						// the pending separator is emitted before the member's first byte; the parent's
						// separator must advance exactly when the member wrote something
						if !w.AdvancesIfWritten {
							tsProblems = append(tsProblems, fmt.Sprintf("embedded member %s is written through commaWriter but the parent's comma is not advanced with `if cw.written { comma = \",\" }`", w.Field.Name()))
						}
						switch callee {
						case "always":
							emitted = 2
						case "maybe":
							if emitted < 1 {
								emitted = 1
							}
						}
						continue
					}
					if emitted != 0 && callee != "never" {
						tsProblems = append(tsProblems, fmt.Sprintf("embedded member %s is written after other members without a separator (its own writer starts with an empty comma): output like {\"a\":1\"b\":2}", w.Field.Name()))
					}
					forced := i+1 < len(o.Writer) && o.Writer[i+1].Kind == "comma"
					switch {
					case forced && callee != "always":
						tsProblems = append(tsProblems, fmt.Sprintf("comma is forced after embedded member %s whose writer may emit nothing (all of its properties optional): output like {,\"x\":1}", w.Field.Name()))
					case !forced && callee != "never" && i+1 < len(o.Writer):
						tsProblems = append(tsProblems, fmt.Sprintf("no separator state is set after embedded member %s although it may have written members", w.Field.Name()))
					}
					if forced {
						i++
					}
					switch callee {
					case "always":
						emitted = 2
					case "maybe":
						if emitted < 1 {
							emitted = 1
						}
					}
				case "comma":
					tsProblems = append(tsProblems, "`comma = \",\"` assigned outside the embedded-member idiom")
				}
			}
			if len(tsProblems) > 0 {
				r.Violation("C06/json-typestate", key, pos, strings.Join(tsProblems, "; "))
			} else {
				r.OK("C06/json-typestate", key, pos, "")
			}
			// quoting
			var qProblems []string
			for _, w := range o.Writer {
				switch {
				case w.Kind == "prop" && w.KeyConst && !jsonSafeKey(w.Key) && !o.KeyQuoted:
					qProblems = append(qProblems, fmt.Sprintf("constant key %q contains characters that need JSON escaping and is written raw", w.Key))
				case w.Kind == "prop" && !w.KeyConst && !o.KeyQuoted:
					qProblems = append(qProblems, "non-constant key "+w.Key+" is written raw")
				case w.Kind == "additional" && !o.KeyQuoted:
					qProblems = append(qProblems, "additionalProperties keys are spliced between quotes without JSON escaping: a key containing \" or \\ or a control character yields invalid JSON")
				}
			}
			if len(qProblems) > 0 {
				r.Violation("C06/json-quoting", key, pos, strings.Join(qProblems, "; "))
			} else {
				r.OK("C06/json-quoting", key, pos, "")
			}
			// agreement
			var ag []string
			type kf struct {
				kind, key string
				fld       *types.Var
			}
			var ws, rs []kf
			wopt, rreq := map[string]JSONWriteRow{}, map[string]JSONReadRow{}
			for _, w := range o.Writer {
				if w.Kind == "comma" {
					continue
				}
				ws = append(ws, kf{w.Kind, w.Key, w.Field})
				wopt[w.Kind+":"+w.Key+":"+nameOfVar(w.Field)] = w
			}
			for _, rd := range o.Reader {
				rs = append(rs, kf{rd.Kind, rd.Key, rd.Field})
				rreq[rd.Kind+":"+rd.Key+":"+nameOfVar(rd.Field)] = rd
				if len(rd.Problems) > 0 {
					// reader problems are C08's; agreement only needs the tables
				}
			}
			if len(ws) != len(rs) {
				ag = append(ag, fmt.Sprintf("writer has %d members, reader %d", len(ws), len(rs)))
			}
			wset, rset := map[kf]bool{}, map[kf]bool{}
			for _, x := range ws {
				if x.kind == "additional" {
					x.key = ""
				}
				wset[x] = true
			}
			for _, x := range rs {
				if x.kind == "additional" {
					x.key = ""
				}
				rset[x] = true
			}
			for x := range wset {
				if !rset[x] {
					ag = append(ag, fmt.Sprintf("writer emits %s %q from field %s but the reader has no such member: the value is lost on decode", x.kind, x.key, nameOfVar(x.fld)))
				}
			}
			for x := range rset {
				if !wset[x] {
					ag = append(ag, fmt.Sprintf("reader decodes %s %q into field %s but the writer never emits it", x.kind, x.key, nameOfVar(x.fld)))
				}
			}
			// embedded order
			var we, re []string
			for _, x := range ws {
				if x.kind == "embedded" {
					we = append(we, nameOfVar(x.fld))
				}
			}
			for _, x := range rs {
				if x.kind == "embedded" {
					re = append(re, nameOfVar(x.fld))
				}
			}
			if strings.Join(we, ",") != strings.Join(re, ",") {
				ag = append(ag, "embedded members are delegated in a different order by writer and reader")
			}
			for k, w := range wopt {
				rd, ok := rreq[k]
				if !ok || w.Kind != "prop" {
					continue
				}
				if w.Optional == rd.Required {
					ag = append(ag, fmt.Sprintf("key %q: writer %s, reader required=%v", w.Key, map[bool]string{true: "omits it when unset", false: "always writes it"}[w.Optional], rd.Required))
				}
				if w.Optional && !rd.SetsIsSet {
					ag = append(ag, fmt.Sprintf("key %q: optional property decoded without marking it set (IsSet): a present value decodes to unset", w.Key))
				}
				if strings.Join(uniq(sortedCopy(w.Layouts)), ",") != strings.Join(uniq(sortedCopy(rd.Layouts)), ",") {
					ag = append(ag, fmt.Sprintf("key %q: written with time layout %v but parsed with %v", w.Key, w.Layouts, rd.Layouts))
				}
				if _, _, nullable := unwrapWrappers(w.Field.Type()); nullable && !w.NilSliceFix {
					if _, isSlice := unwrapInner(w.Field.Type()).(*types.Slice); isSlice {
						ag = append(ag, fmt.Sprintf("key %q: a set nullable array holding a nil slice is written as null (no nil-slice normalisation), which the reader takes as the null state: the value decodes to unset", w.Key))
					}
				}
				if base, _, _ := goBaseOf(w.Field.Type()); strings.HasPrefix(base, "int") || strings.HasPrefix(base, "uint") {
					for _, dt := range rd.DecodeTargets {
						if b, ok := dt.Underlying().(*types.Basic); ok && b.Info()&types.IsFloat != 0 {
							ag = append(ag, fmt.Sprintf("key %q: the integer is decoded through a %s variable: values above 2^53 come back changed", w.Key, dt.String()))
						}
					}
				}
				for _, pr := range rd.Problems {
					if strings.Contains(pr, "null test") {
						ag = append(ag, pr)
					}
				}
				if w.NullCapable != rd.NullTest {
					ag = append(ag, fmt.Sprintf("key %q: writer can emit null=%v but reader accepts null as unset-nullable=%v", w.Key, w.NullCapable, rd.NullTest))
				}
			}
			// keys consumed: the raw map is shared with every embedded member's reader and
			// with the additionalProperties collector
			if leaked := leakedKeys(jp.Objects, o, 0); len(leaked) > 0 {
				r.Violation("C06/keys-consumed", key, pos, "keys "+strings.Join(leaked, ", ")+" are still in the shared raw map when a later additionalProperties collector (of this type or of an allOf member) ranges over it: decode(encode(v)) gains map entries v did not have")
			} else {
				r.OK("C06/keys-consumed", key, pos, "")
			}
			if len(ag) > 0 {
				sort.Strings(ag)
				r.Violation("C06/codec-agreement", key, pos, strings.Join(ag, "; "))
			} else {
				r.OK("C06/codec-agreement", key, pos, fmt.Sprintf("%d members", len(ws)))
			}
		}
	}
	for _, jp := range progs {
		marshalerReceivers(r, s3, jp.P, "C06/marshaler-receiver")
		w := &shapeWalker{r: r, s3: s3, jp: jp, mode: "C06", seen: map[string]bool{}}
		w.roots()
	}
	r.Analysed["object_codecs"] = nObj
	r.FloorMin("object codecs analysed", nObj, 60)
}

// readerEvents flattens the reader of o (through embedded delegation, which
// passes the same raw map) into the order in which keys are looked up and
// leftovers are collected.
type readerEvent struct {
	key     string // "" for a collector
	deletes bool
	owner   string
}

func readerEvents(objs map[string]*JSONObject, o *JSONObject, depth int) []readerEvent {
	var out []readerEvent
	if depth > 8 {
		return out
	}
	for _, rd := range o.Reader {
		switch rd.Kind {
		case "prop":
			out = append(out, readerEvent{key: rd.Key, deletes: rd.Deletes, owner: o.Type.Obj().Name()})
		case "additional":
			out = append(out, readerEvent{owner: o.Type.Obj().Name()})
		case "embedded":
			if rd.Field != nil {
				if n, ok := derefNamed(rd.Field.Type()); ok {
					if eo := objs[n.Obj().Name()]; eo != nil {
						out = append(out, readerEvents(objs, eo, depth+1)...)
					}
				}
			}
		}
	}
	return out
}

func leakedKeys(objs map[string]*JSONObject, o *JSONObject, depth int) []string {
	ev := readerEvents(objs, o, depth)
	var pending, leaked []string
	for _, e := range ev {
		if e.key != "" {
			if !e.deletes {
				pending = append(pending, fmt.Sprintf("%q (%s)", e.key, e.owner))
			}
			continue
		}
		leaked = append(leaked, pending...)
		pending = nil
	}
	return uniq(leaked)
}

func sortedCopy(ss []string) []string {
	out := append([]string{}, ss...)
	sort.Strings(out)
	return out
}

// ---------------------------------------------------------------------------
// schema ↔ Go type walk (shared by C07 and C08)

type shapeWalker struct {
	r    *Report
	s3   *S3
	jp   *jsonProgram
	mode string // "C07" | "C08"
	seen map[string]bool
	nPos int
}

func isCustom(s *openapi3.Schema) bool { return s != nil && extString(s, "x-goag-go-type") != "" }

func unwrapWrappers(t types.Type) (inner types.Type, maybe, nullable bool) {
	for i := 0; i < 4; i++ {
		n, ok := types.Unalias(t).(*types.Named)
		if !ok || n.TypeArgs() == nil || n.TypeArgs().Len() != 1 {
			break
		}
		switch n.Obj().Name() {
		case "Maybe":
			maybe = true
		case "Nullable":
			nullable = true
		default:
			return t, maybe, nullable
		}
		t = n.TypeArgs().At(0)
	}
	return t, maybe, nullable
}

// effectiveObject merges allOf inline members; returns own+inline properties, required set, embedded refs (in order), additional.
type objShape struct {
	props      map[string]*openapi3.SchemaRef
	required   map[string]bool
	embedded   []*openapi3.SchemaRef
	additional bool
	addSchema  *openapi3.SchemaRef
}

func effectiveObject(s *openapi3.Schema) objShape {
	os := objShape{props: map[string]*openapi3.SchemaRef{}, required: map[string]bool{}}
	add := func(m *openapi3.Schema) {
		for k, v := range m.Properties {
			os.props[k] = v
		}
		for _, rq := range m.Required {
			os.required[rq] = true
		}
		if m.AdditionalProperties != nil {
			os.additional, os.addSchema = true, m.AdditionalProperties
		} else if m.AdditionalPropertiesAllowed != nil && *m.AdditionalPropertiesAllowed {
			os.additional = true
		}
	}
	add(s)
	for _, m := range s.AllOf {
		if m == nil || m.Value == nil {
			continue
		}
		if m.Ref != "" {
			os.embedded = append(os.embedded, m)
		} else {
			add(m.Value)
		}
	}
	return os
}

func (w *shapeWalker) rule(name string) string { return w.mode + "/" + name }

func (w *shapeWalker) visit(t types.Type, sr *openapi3.SchemaRef, where string) {
	if sr == nil || sr.Value == nil || t == nil {
		return
	}
	s := sr.Value
	p := w.jp.P
	inner, _, nullableWrap := unwrapWrappers(t)
	memo := where + "|" + inner.String()
	if w.seen[memo] {
		return
	}
	w.seen[memo] = true
	w.nPos++
	key := p.Name + ":" + where
	if isCustom(s) {
		return
	}
	atRoot := strings.HasPrefix(where, "components.schemas.") && !strings.ContainsAny(strings.TrimPrefix(where, "components.schemas."), ".[")
	if nullableWrap && !s.Nullable && w.mode == "C07" && !atRoot {
		// a Nullable wrapper where the schema is not nullable
		w.r.Violation(w.rule("shape"), key+":nullable", "", fmt.Sprintf("schema nullable=false but the Go type %s has a Nullable wrapper: null could be written where the schema forbids it", t.String()))
	}
	if !nullableWrap && s.Nullable && w.mode == "C08" && !atRoot && !isCustom(s) {
		// the reverse: the valid document `null` has nowhere to go
		if _, isObj := w.jp.Objects[namedName(inner)]; isObj || s.Type != "" {
			w.r.Violation(w.rule("reader-table"), key+":nullable", "", fmt.Sprintf("schema nullable=true but the Go type %s has no Nullable wrapper: the valid document null is rejected (objects: required keys reported missing) or silently read as the zero value", t.String()))
		}
	}
	switch {
	case len(s.OneOf) > 0:
		w.oneOf(inner, s, key)
	case s.Type == "object" || len(s.Properties) > 0 || len(s.AllOf) > 0 || s.AdditionalProperties != nil || (s.AdditionalPropertiesAllowed != nil && *s.AdditionalPropertiesAllowed):
		w.object(inner, s, key, where)
	case s.Type == "array":
		var elem types.Type
		switch u := inner.Underlying().(type) {
		case *types.Slice:
			elem = u.Elem()
		}
		if elem == nil {
			w.r.Violation(w.rule("shape"), key, "", "schema is an array but the Go type "+inner.String()+" is not a slice")
			return
		}
		if n, ok := types.Unalias(inner).(*types.Named); ok && w.mode == "C07" && !s.Nullable {
			if tgt := delegateTarget(p, n); tgt != nil {
				n = tgt // `type B A` with both JSON methods delegating to the array component A
			}
			if why := arrayComponentProblem(p, n); why != "" {
				w.r.Violation(w.rule("shape"), key+":array component", "", why)
			}
		}
		w.visit(elem, s.Items, where+"[]")
	case s.Type == "":
		// any
	default:
		exp := expectedFor(s)
		base, _, _ := goBaseOf(inner)
		if exp.goBase != "" && base != exp.goBase && w.mode == "C07" {
			w.r.Violation(w.rule("shape"), key, "", fmt.Sprintf("schema %s/%s needs Go base type %s but the position has %s: values of the wrong JSON type/format would be produced", s.Type, s.Format, exp.goBase, inner.String()))
		} else if w.mode == "C07" {
			w.r.OK(w.rule("shape"), key, "", s.Type+"/"+s.Format+" ↔ "+base)
		}
	}
}

func (w *shapeWalker) object(t types.Type, s *openapi3.Schema, key, where string) {
	p := w.jp.P
	rule0 := w.rule(map[string]string{"C07": "shape", "C08": "reader-table"}[w.mode])
	noCodec := func(what string) {
		if w.mode == "C06" {
			return
		}
		w.r.Violation(rule0, key, "", "an object schema with declared properties stands at "+what+", which has no generated JSON codec: encoding/json's default struct coding is used — Go field names instead of the declared property names on encode, required properties not enforced and optional (Maybe[T]) properties not decodable on decode")
	}
	n, ok := types.Unalias(t).(*types.Named)
	if !ok {
		if _, isMap := t.Underlying().(*types.Map); isMap {
			return // free-form object
		}
		if _, isStruct := t.Underlying().(*types.Struct); isStruct && (len(s.Properties) > 0 || len(s.AllOf) > 0) {
			noCodec("the anonymous struct type " + where)
			return
		}
		w.r.Undecided(rule0, key, "", "object schema stands at a Go type that is not a named struct: "+t.String())
		return
	}
	o := w.jp.Objects[n.Obj().Name()]
	if o == nil {
		// a component that is a $ref to another component: `type B A` with both JSON
		// methods delegating to A's
		if tgt := delegateTarget(p, n); tgt != nil {
			w.object(tgt, s, key, where)
			return
		}
		if len(s.Properties) == 0 && len(s.AllOf) == 0 {
			return
		}
		noCodec("type " + n.Obj().Name())
		return
	}
	if len(o.WUndecided)+len(o.RUndecided) > 0 || o.WritePropertyOK != "" {
		w.r.Undecided(w.rule("shape"), key, "", "codec of "+n.Obj().Name()+" not recognised (see C06/codec-recognised)")
		return
	}
	os := effectiveObject(s)
	pos := w.s3.pos(o.WDecl.Pos())
	var problems []string
	if w.mode == "C06" {
		// only descend: C06 uses the walk to reach oneOf positions
		for _, wr := range o.Writer {
			switch wr.Kind {
			case "prop":
				if ps := os.props[wr.Key]; ps != nil && ps.Value != nil {
					leaf := ps.Value
					for leaf.Type == "array" && leaf.Items != nil && leaf.Items.Value != nil && !isCustom(leaf) {
						leaf = leaf.Items.Value
					}
					if leaf.Type == "string" && leaf.Format == "date-time" && !isCustom(leaf) && !isCustom(ps.Value) {
						want := rfc3339NanoLit
						if f := extString(leaf, "x-goag-go-time-format"); f != "" {
							want = timeLayoutLit(f)
						}
						var rl []string
						for _, rd := range o.Reader {
							if rd.Kind == "prop" && rd.Key == wr.Key {
								rl = rd.Layouts
							}
						}
						bad := len(wr.Layouts) == 0 || len(rl) == 0
						for _, l := range append(append([]string{}, wr.Layouts...), rl...) {
							if l != want {
								bad = true
							}
						}
						k := key + "." + wr.Key + " (" + n.Obj().Name() + ")"
						if _, isNamed := derefNamed(unwrapInner(wr.Field.Type())); (isNamed || ps.Value.Type == "array") && len(wr.Layouts) == 0 && len(rl) == 0 {
							// delegated to a component type's own codec (judged there) or, for []time.Time,
							// to encoding/json's time.Time codec, which is RFC3339Nano
						} else if bad {
							w.r.Violation("C06/time-layout", k, w.s3.pos(wr.Pos), fmt.Sprintf("date-time property %q is formatted with %v and parsed with %v; the schema demands %s — a coarser layout drops the sub-second part, so decode(encode(v)) != v", wr.Key, wr.Layouts, rl, want))
						} else {
							w.r.OK("C06/time-layout", k, w.s3.pos(wr.Pos), want)
						}
					}
				}
				w.visit(wr.Field.Type(), os.props[wr.Key], where+"."+wr.Key)
			}
		}
		ei := 0
		for _, wr := range o.Writer {
			if wr.Kind == "embedded" && ei < len(os.embedded) {
				w.visit(wr.Field.Type(), os.embedded[ei], where+".allOf["+fmt.Sprint(ei)+"]")
				ei++
			}
		}
		return
	}
	if w.mode == "C07" {
		gotKeys := map[string]JSONWriteRow{}
		var gotEmb []JSONWriteRow
		hasAdd := false
		for _, wr := range o.Writer {
			switch wr.Kind {
			case "prop":
				if _, dup := gotKeys[wr.Key]; dup {
					problems = append(problems, "key "+wr.Key+" is written twice")
				}
				gotKeys[wr.Key] = wr
			case "embedded":
				gotEmb = append(gotEmb, wr)
			case "additional":
				hasAdd = true
			}
		}
		for k, ps := range os.props {
			wr, ok := gotKeys[k]
			if !ok {
				problems = append(problems, fmt.Sprintf("declared property %q is never written", k))
				continue
			}
			if wr.Optional == os.required[k] {
				problems = append(problems, fmt.Sprintf("property %q: declared required=%v but %s", k, os.required[k], map[bool]string{true: "written only when set", false: "always written"}[wr.Optional]))
			}
			if ps != nil && ps.Value != nil && !isCustom(ps.Value) {
				if wr.NullCapable != ps.Value.Nullable {
					problems = append(problems, fmt.Sprintf("property %q: schema nullable=%v but the writer can emit null=%v", k, ps.Value.Nullable, wr.NullCapable))
				}
				if ps.Value.Type == "string" && ps.Value.Format == "date-time" {
					// the written text must have the declared format: RFC3339 (nano) unless x-goag-go-time-format
					// names another layout — a Go expression such as time.RFC1123 or http.TimeFormat
					want := rfc3339NanoLit
					if f := extString(ps.Value, "x-goag-go-time-format"); f != "" {
						want = timeLayoutLit(f)
					}
					if _, isNamed := derefNamed(unwrapInner(wr.Field.Type())); !(isNamed && len(wr.Layouts) == 0) {
						badL := len(wr.Layouts) == 0
						for _, l := range wr.Layouts {
							if l != want {
								badL = true
							}
						}
						if badL {
							problems = append(problems, fmt.Sprintf("property %q: date-time is formatted with %v, the schema demands %s", k, wr.Layouts, want))
						}
					}
				}
				if ps.Value.Type == "array" && !ps.Value.Nullable && !wr.NilSliceFix {
					if _, isNamed := derefNamed(unwrapInner(wr.Field.Type())); !isNamed {
						problems = append(problems, fmt.Sprintf("property %q: a nil slice is not normalised to [] although the array is not nullable: null would be written", k))
					}
				}
			}
			w.visit(wr.Field.Type(), ps, where+"."+k)
		}
		for k := range gotKeys {
			if _, ok := os.props[k]; !ok {
				problems = append(problems, fmt.Sprintf("key %q is written but the schema declares no such property", k))
			}
		}
		if len(gotEmb) != len(os.embedded) {
			problems = append(problems, fmt.Sprintf("schema has %d allOf $ref members, the writer delegates to %d embedded members", len(os.embedded), len(gotEmb)))
		} else {
			for i, e := range os.embedded {
				w.visit(gotEmb[i].Field.Type(), e, where+".allOf["+fmt.Sprint(i)+"]")
			}
		}
		if hasAdd != os.additional {
			problems = append(problems, fmt.Sprintf("schema additionalProperties=%v but the writer emits map entries=%v", os.additional, hasAdd))
		}
	} else { // C08
		gotKeys := map[string]JSONReadRow{}
		var gotEmb []JSONReadRow
		hasAdd := false
		for _, rd := range o.Reader {
			switch rd.Kind {
			case "prop":
				if _, dup := gotKeys[rd.Key]; dup {
					problems = append(problems, "key "+rd.Key+" is looked up twice")
				}
				gotKeys[rd.Key] = rd
			case "embedded":
				gotEmb = append(gotEmb, rd)
				problems = append(problems, rd.Problems...)
			case "additional":
				hasAdd = true
				problems = append(problems, rd.Problems...)
			}
		}
		for k, ps := range os.props {
			rd, ok := gotKeys[k]
			if !ok {
				problems = append(problems, fmt.Sprintf("declared property %q is never looked up: its value is dropped (or lands in additionalProperties)", k))
				continue
			}
			if rd.Required != os.required[k] {
				problems = append(problems, fmt.Sprintf("property %q: declared required=%v but a document without it is %s", k, os.required[k], map[bool]string{true: "rejected", false: "accepted"}[rd.Required]))
			}
			if rd.Required && !rd.MissingNamesKey {
				problems = append(problems, fmt.Sprintf("property %q: the missing-key error does not name the property", k))
			}
			if !rd.Deletes && os.additional {
				problems = append(problems, fmt.Sprintf("property %q is not removed from the raw map, so it would be duplicated into additionalProperties", k))
			}
			problems = append(problems, rd.Problems...)
			if ps != nil && ps.Value != nil && !isCustom(ps.Value) {
				if exp := expectedFor(ps.Value); exp.goBase != "" && !exp.array {
					for _, dt := range rd.DecodeTargets {
						base, _, _ := goBaseOf(dt)
						if n, ok := types.Unalias(dt).(*types.Named); ok && n.Obj().Pkg() != nil && n.Obj().Pkg().Path() == "encoding/json" {
							base = "json." + n.Obj().Name()
						}
						okBase := base == exp.goBase || (exp.goBase == "time.Time" && base == "string") || (exp.goBase == "float32" && base == "float64")
						if !okBase {
							problems = append(problems, fmt.Sprintf("property %q (%s/%s) is decoded through a variable of type %s: encoding/json then no longer rejects values of the wrong JSON type (e.g. a numeric string for an integer)", k, ps.Value.Type, ps.Value.Format, dt.String()))
						}
					}
				}
			}
			if ps != nil && ps.Value != nil && !isCustom(ps.Value) && ps.Value.Type == "string" && ps.Value.Format == "date-time" {
				// decode→encode keeps the instant only if both directions use the layout the schema
				// demands (RFC3339Nano unless x-goag-go-time-format): time.Parse accepts a fractional
				// second under any layout with a seconds field, Format drops it under a coarser one
				want := rfc3339NanoLit
				if f := extString(ps.Value, "x-goag-go-time-format"); f != "" {
					want = timeLayoutLit(f)
				}
				var wl []string
				for _, wr := range o.Writer {
					if wr.Kind == "prop" && wr.Key == k {
						wl = wr.Layouts
					}
				}
				isNamed := false
				if rd.Field != nil {
					_, isNamed = derefNamed(unwrapInner(rd.Field.Type()))
				}
				if !(isNamed && len(wl) == 0 && len(rd.Layouts) == 0) {
					badL := len(wl) == 0 || len(rd.Layouts) == 0
					for _, l := range append(append([]string{}, wl...), rd.Layouts...) {
						if l != want {
							badL = true
						}
					}
					if badL {
						problems = append(problems, fmt.Sprintf("property %q: date-time is parsed with %v and re-encoded with %v, the schema demands %s: a valid document with a sub-second part decodes and re-encodes to a different instant", k, rd.Layouts, wl, want))
					}
				}
			}
			if ps != nil && ps.Value != nil && !isCustom(ps.Value) && rd.NullTest != ps.Value.Nullable {
				problems = append(problems, fmt.Sprintf("property %q: schema nullable=%v but the reader special-cases null=%v", k, ps.Value.Nullable, rd.NullTest))
			}
			if rd.Field != nil {
				w.visit(rd.Field.Type(), ps, where+"."+k)
			}
		}
		for k := range gotKeys {
			if _, ok := os.props[k]; !ok {
				problems = append(problems, fmt.Sprintf("key %q is decoded but the schema declares no such property", k))
			}
		}
		if len(gotEmb) != len(os.embedded) {
			problems = append(problems, fmt.Sprintf("schema has %d allOf $ref members, the reader delegates to %d", len(os.embedded), len(gotEmb)))
		} else {
			for i, e := range os.embedded {
				if gotEmb[i].Field != nil {
					w.visit(gotEmb[i].Field.Type(), e, where+".allOf["+fmt.Sprint(i)+"]")
				}
			}
		}
		if hasAdd != os.additional {
			problems = append(problems, fmt.Sprintf("schema additionalProperties=%v but leftovers are collected=%v", os.additional, hasAdd))
		}
	}
	rule := w.rule(map[string]string{"C07": "shape", "C08": "reader-table"}[w.mode])
	if len(problems) > 0 {
		sort.Strings(problems)
		w.r.Violation(rule, key+" ("+n.Obj().Name()+")", pos, strings.Join(uniq(problems), "; ")+" (template define "+p.Provenance(w.s3, o.WDecl.Pos())+")")
	} else {
		w.r.OK(rule, key+" ("+n.Obj().Name()+")", pos, fmt.Sprintf("%d properties", len(os.props)))
	}
}

func namedName(t types.Type) string {
	if n, ok := types.Unalias(t).(*types.Named); ok {
		return n.Obj().Name()
	}
	return ""
}

func unwrapInner(t types.Type) types.Type {
	in, _, _ := unwrapWrappers(t)
	return in
}

func (w *shapeWalker) oneOf(t types.Type, s *openapi3.Schema, key string) {
	if w.mode != "C08" && w.mode != "C06" {
		return
	}
	ruleName := map[string]string{"C08": "C08/oneof", "C06": "C06/oneof-arms"}[w.mode]
	n, ok := types.Unalias(t).(*types.Named)
	if !ok {
		return
	}
	oo := w.jp.OneOfs[n.Obj().Name()]
	if oo == nil {
		// a component that is a $ref to a oneOf component: `type B A`, both JSON methods delegate
		if tgt := delegateTarget(w.jp.P, n); tgt != nil {
			w.oneOf(tgt, s, key)
			return
		}
		w.r.Undecided(ruleName, key, "", "no oneOf decoder found for type "+n.Obj().Name())
		return
	}
	pos := w.s3.pos(oo.Decl.Pos())
	if len(oo.Undecided) > 0 {
		w.r.Undecided(ruleName, key, pos, strings.Join(oo.Undecided, "; "))
		return
	}
	var problems []string
	if !oo.DefaultErr {
		problems = append(problems, "a document matching no variant does not end in an error")
	}
	if s.Discriminator != nil {
		if oo.Discriminator != s.Discriminator.PropertyName {
			problems = append(problems, fmt.Sprintf("discriminator property is %q in the schema, %q in the decoder", s.Discriminator.PropertyName, oo.Discriminator))
		}
		// expected values: explicit mapping keys + implicit schema names of $ref variants
		want := map[string]bool{}
		for k := range s.Discriminator.Mapping {
			want[k] = true
		}
		for _, v := range s.OneOf {
			if v != nil && v.Ref != "" {
				want[v.Ref[strings.LastIndex(v.Ref, "/")+1:]] = true
			}
		}
		for k := range want {
			if _, ok := oo.Cases[k]; !ok {
				problems = append(problems, fmt.Sprintf("discriminator value %q has no case in the decoder: a valid document is rejected", k))
			}
		}
		for k := range oo.Cases {
			if !want[k] {
				problems = append(problems, fmt.Sprintf("decoder has a case for discriminator value %q that the schema does not map", k))
			}
		}
		// explicit mapping targets
		for k, ref := range s.Discriminator.Mapping {
			name := ref[strings.LastIndex(ref, "/")+1:]
			if tgt, ok := oo.Cases[k]; ok && tgt != name {
				problems = append(problems, fmt.Sprintf("discriminator value %q is mapped to %s by the schema but decoded as %s", k, name, tgt))
			}
		}
	} else {
		if len(oo.ProbeOrder) != len(s.OneOf) {
			problems = append(problems, fmt.Sprintf("schema has %d variants, the decoder probes %d", len(s.OneOf), len(oo.ProbeOrder)))
		}
	}
	if len(problems) > 0 {
		sort.Strings(problems)
		w.r.Violation(ruleName, key+" ("+n.Obj().Name()+")", pos, strings.Join(problems, "; "))
	} else {
		w.r.OK(ruleName, key+" ("+n.Obj().Name()+")", pos, "")
	}
}

// roots: response bodies, request bodies, component schemas by name.
func (w *shapeWalker) roots() (nBodies int) {
	jp := w.jp
	p := jp.P
	ops := opByKey(jp.O)
	for _, h := range jp.Handlers {
		op := ops[h.Method+" "+h.Path]
		if op == nil {
			continue
		}
		where := h.Method + " " + h.Path
		// request body
		pm := jp.Parsers[h.Parser]
		if op.Op.RequestBody != nil && op.Op.RequestBody.Value != nil {
			mt := op.Op.RequestBody.Value.Content["application/json"]
			switch {
			case mt != nil && pm != nil && pm.Body == "json":
				nBodies++
				w.bodySite(true, p.Name+":"+where+":request body", w.s3.pos(pm.Decl.Pos()), "decoded with json.NewDecoder(r.Body).Decode(&params.Body), error returned")
				w.visit(pm.BodyType, mt.Schema, where+" request")
			case mt != nil && pm != nil && len(pm.Undecided) == 0:
				w.bodySite(false, p.Name+":"+where+":request body", w.s3.pos(pm.Decl.Pos()), "the operation declares an application/json request body but the parser does not decode it (body kind "+pm.Body+")")
			case mt == nil && pm != nil && pm.Body == "json":
				w.bodySite(false, p.Name+":"+where+":request body", w.s3.pos(pm.Decl.Pos()), "the parser decodes a JSON body the operation does not declare")
			}
		}
		// response bodies
		if h.RespIface != nil {
			for _, im := range respImplementers(p, h.RespIface, jp.Writes) {
				if len(im.Undecided) > 0 || len(im.W.Undecided) > 0 || im.W.Body != "json" {
					continue
				}
				for _, ro := range op.Responses {
					if ro.Status != im.Status || ro.Resp == nil {
						continue
					}
					mt := ro.Resp.Content["application/json"]
					if mt == nil {
						continue
					}
					nBodies++
					w.bodySite(true, p.Name+":"+where+":response "+ro.Status, w.s3.pos(im.W.Decl.Pos()), "written with writeJSON(w, r.Body)")
					w.visit(im.W.BodyType, mt.Schema, where+" response "+ro.Status)
				}
			}
		}
	}
	// components by name
	for name, sr := range jp.O.Doc.Components.Schemas {
		tn, _ := p.Pkg.Types.Scope().Lookup(name).(*types.TypeName)
		if tn == nil {
			continue
		}
		w.visit(tn.Type(), sr, "components.schemas."+name)
	}
	return
}

func runC07(r *Report) {
	r.Explanation = "For every schema position reachable from the operations of every instantiated program (response bodies, request bodies, component schemas, nested properties, array items, allOf members) the Go type standing there is followed from the body site (response Write → writeJSON(w, r.Body); parser → Decode(&params.Body)) and its generated writer key table is compared with the schema of the independent oracle: exact key set (spelling from the spec, not from the Go field), required ⇔ written unconditionally, optional ⇔ written only under the Maybe guard, null-capable ⇔ nullable: true, Go base type admissible for (type, format), nil slice normalised to [] where the array is not nullable, allOf $ref members delegated into the SAME object (no nested braces) and inline members merged, additionalProperties ⇔ map entries written under their own keys. Table-level for all values; scalar value formats are encoding/json's."
	r.Rule("C07/shape", "writer key table and Go types at every schema position equal the schema (keys, required/optional, nullable, base types, allOf merge, additionalProperties)")
	r.Rule("C07/write-json", "the JSON body helper func(io.Writer, any, string) is exactly json.NewEncoder(w).Encode(v) (+ error logging): one document per response, nothing buffered or shared")
	r.Rule("C07/marshaler-receiver", "every MarshalJSON of the generated package has a value receiver")
	r.Rule("C07/body-sites", "every documented JSON response body is written with writeJSON(w, r.Body) and every JSON request body is decoded into params.Body; the types at those sites are the ones judged")
	r.Assumptions = append(r.Assumptions, "formats of scalar VALUES (float/time rendering) and which oneOf variant a value validates against are not decided", "a required non-nullable `any`/ref field can still encode null when its Go value is a nil RawMessage/map — a value-level fact outside the table", "programs bounded by the corpus")
	s3, progs := loadJSONPrograms(r, "C07")
	if s3 == nil {
		return
	}
	defer s3.Close()
	nPos, nBodies := 0, 0
	for _, jp := range progs {
		// a package-level func(io.Writer, any, string) is the JSON body helper: exactly one
		// document, straight from the encoder onto the response writer
		for _, f := range jp.P.Pkg.Syntax {
			for _, d := range f.Decls {
				fd, ok := d.(*ast.FuncDecl)
				if !ok || fd.Recv == nil && fd.Body == nil || fd.Recv != nil {
					continue
				}
				sig, _ := jp.P.Pkg.TypesInfo.Defs[fd.Name].Type().(*types.Signature)
				if sig == nil || sig.Params().Len() != 3 || sig.Results().Len() != 0 {
					continue
				}
				p0, p1, p2 := sig.Params().At(0).Type(), sig.Params().At(1).Type(), sig.Params().At(2).Type()
				it, isAny := p1.Underlying().(*types.Interface)
				if types.TypeString(p0, nil) != "io.Writer" || !isAny || it.NumMethods() != 0 || !types.Identical(p2, types.Typ[types.String]) {
					continue
				}
				if why := writeJSONShapeOf(jp.P, fd); why != "" {
					r.Undecided("C07/write-json", jp.P.Name+":"+fd.Name.Name, s3.pos(fd.Pos()), why+": the body must reach the writer as the single document json.NewEncoder(w).Encode(v) produces (buffers, pools or extra writes can emit more or less than one document)")
				} else {
					r.OK("C07/write-json", jp.P.Name+":"+fd.Name.Name, s3.pos(fd.Pos()), "")
				}
			}
		}
		marshalerReceivers(r, s3, jp.P, "C07/marshaler-receiver")
		w := &shapeWalker{r: r, s3: s3, jp: jp, mode: "C07", seen: map[string]bool{}}
		nBodies += w.roots()
		nPos += w.nPos
	}
	r.Analysed["schema_positions_visited"] = nPos
	r.Analysed["json_body_sites"] = nBodies
	r.FloorMin("schema positions visited", nPos, 300)
	r.FloorMin("JSON body sites", nBodies, 60)
}

func runC08(r *Report) {
	r.Explanation = "Losslessness on all valid documents is a value-level statement and is NOT decided. Decided, for every schema position (same walk as C07) of every instantiated program: (reader-table) every declared key is looked up by its exact name in the raw map; required ⇔ the else-branch returns an error naming the key; declared keys are deleted and the remainder is stored into AdditionalProperties ⇔ the schema allows them, each entry decoded into a fresh variable; embedded (allOf $ref) members are decoded from the same map; (strict-errors) inside each key block every call that returns an error (json.Unmarshal, X.UnmarshalJSON, time.Parse, Set…) reads this key's raw value, is tested immediately, and the non-nil branch returns an error whose format names the key — a type mismatch reported by encoding/json cannot be swallowed; (oneof) discriminator form ⇒ one switch case per mapping value and implicit schema name, error default; probing form ⇒ one probe per variant and an error when none succeeds; (request-body) new<Op>Params decodes a declared JSON body into params.Body and returns the error."
	r.Rule("C08/reader-table", "reader key table at every schema position equals the schema: keys, required ⇔ missing-key error naming it, null handling, leftovers ⇔ additionalProperties, embedded members")
	r.Rule("C08/oneof", "discriminator switch covers exactly the schema's mapping (explicit + implicit), error otherwise; probing covers every variant")
	r.Rule("C08/fresh-element", "every loop that decodes elements (array items, map entries, header/query values) decodes into a variable declared inside the loop body or reset before the decode: json.Unmarshal and the generated UnmarshalJSON merge into their target")
	r.Rule("C08/witness", "fresh-element flags the hoisted-target witnesses and is silent on the fresh/reset/probe ones")
	r.Rule("C08/body-sites", "declared JSON request bodies are decoded into params.Body with the error returned; response bodies decoded by the client are C10's")
	r.Assumptions = append(r.Assumptions, "NOT decided: that every valid document decodes and re-encodes equivalently (value level); key-order independence is inherited from map[string]json.RawMessage", "null for a non-nullable required property is accepted by encoding/json (the property exempts null)", "programs bounded by the corpus")
	s3, progs := loadJSONPrograms(r, "C08")
	if s3 == nil {
		return
	}
	defer s3.Close()
	nPos, nBodies, nLoops := 0, 0, 0
	for _, jp := range progs {
		w := &shapeWalker{r: r, s3: s3, jp: jp, mode: "C08", seen: map[string]bool{}}
		nBodies += w.roots()
		nPos += w.nPos
		before := len(r.Obls)
		n := freshElements(r, s3, jp.P, jp.P.Pkg.Types, jp.P.Pkg.TypesInfo, jp.P.Pkg.Syntax, "C08/fresh-element")
		nLoops += n
		if len(r.Obls) == before {
			r.OK("C08/fresh-element", jp.P.Name, "", fmt.Sprintf("%d decoder loops, every target declared in the loop body or reset", n))
		}
	}
	c08Witness(r)
	r.Analysed["decoder_loops"] = nLoops
	r.FloorMin("decoder loops (loops that decode into a variable)", nLoops, 10)
	r.Analysed["schema_positions_visited"] = nPos
	r.Analysed["json_body_sites"] = nBodies
	r.FloorMin("schema positions visited", nPos, 300)
	r.FloorMin("JSON body sites", nBodies, 60)
}

func (w *shapeWalker) bodySite(ok bool, key, pos, detail string) {
	if w.mode == "C06" {
		return
	}
	if ok {
		w.r.OK(w.rule("body-sites"), key, pos, detail)
	} else {
		w.r.Violation(w.rule("body-sites"), key, pos, detail)
	}
}

// delegateTarget: n is declared `type n T` (T a named type of the package with a generated
// codec) and n's MarshalJSON / UnmarshalJSON are exactly
//
//	func (c n) MarshalJSON() ([]byte, error) { return T(c).MarshalJSON() }
//	func (c *n) UnmarshalJSON(bs []byte) error { return (*T)(c).UnmarshalJSON(bs) }
func delegateTarget(p *Program, n *types.Named) *types.Named {
	info := p.Pkg.TypesInfo
	var target *types.Named
	ok := 0
	for _, name := range []string{"MarshalJSON", "UnmarshalJSON"} {
		fd := p.funcDecl(n.Obj().Name(), name)
		if fd == nil || fd.Body == nil || len(fd.Body.List) != 1 || fd.Recv == nil || len(fd.Recv.List[0].Names) != 1 {
			return nil
		}
		recv := info.Defs[fd.Recv.List[0].Names[0]]
		ret, isRet := fd.Body.List[0].(*ast.ReturnStmt)
		if !isRet || len(ret.Results) != 1 {
			return nil
		}
		call, isCall := ret.Results[0].(*ast.CallExpr)
		if !isCall {
			return nil
		}
		sel, isSel := call.Fun.(*ast.SelectorExpr)
		if !isSel || sel.Sel.Name != name {
			return nil
		}
		conv, isConv := ast.Unparen(sel.X).(*ast.CallExpr)
		if !isConv || len(conv.Args) != 1 || identObj(info, conv.Args[0]) != recv {
			return nil
		}
		tv, isType := info.Types[conv.Fun]
		if !isType || !tv.IsType() {
			return nil
		}
		t := tv.Type
		if pt, isPtr := t.(*types.Pointer); isPtr {
			t = pt.Elem()
		}
		tn, isNamed := types.Unalias(t).(*types.Named)
		if !isNamed || tn == n || !types.Identical(tn.Underlying(), n.Underlying()) {
			return nil
		}
		if name == "UnmarshalJSON" {
			// the argument must be handed on unchanged
			ps := paramObjs(info, fd)
			if len(ps) != 1 || len(call.Args) != 1 || identObj(info, call.Args[0]) != ps[0] {
				return nil
			}
		} else if len(call.Args) != 0 {
			return nil
		}
		if target != nil && target != tn {
			return nil
		}
		target = tn
		ok++
	}
	if ok == 2 {
		return target
	}
	return nil
}

// marshalerReceivers: every MarshalJSON declared in the generated package must have a value receiver —
// the generated encoders hand VALUES to encoding/json (boxed in `any`, as map values, as slice elements),
// and a pointer-receiver method is not in the method set of such a non-addressable value: the wrapper
// would be encoded as a plain struct ({"IsSet":true,"Value":…}) that the decoder cannot read back.
func marshalerReceivers(r *Report, s3 *S3, p *Program, rule string) {
	for _, f := range p.Pkg.Syntax {
		for _, d := range f.Decls {
			fd, ok := d.(*ast.FuncDecl)
			if !ok || fd.Recv == nil || fd.Name.Name != "MarshalJSON" || len(fd.Recv.List) != 1 {
				continue
			}
			key := p.Name + ":" + recvTypeName(fd) + ".MarshalJSON"
			if _, isPtr := fd.Recv.List[0].Type.(*ast.StarExpr); isPtr {
				r.Violation(rule, key, s3.pos(fd.Pos()), "MarshalJSON has a pointer receiver: values of "+recvTypeName(fd)+" that are not addressable (map values, values boxed in `any`) are encoded with encoding/json's default struct coding")
			} else {
				r.OK(rule, key, s3.pos(fd.Pos()), "value receiver")
			}
		}
	}
}
