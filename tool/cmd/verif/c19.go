package main

// C19 — the output directory reflects only the last invocation.
// Pairing/ownership rules over goag.go (S1): every owned file is settled
// (written or removed) on every successful path of the generating function,
// the outcome is controlled by the documented condition, files are opened
// with O_TRUNC, and nothing else on the generation path mutates the file
// system.

import (
	"fmt"
	"go/ast"
	"go/constant"
	"go/token"
	"go/types"
	"sort"
	"strings"

	"golang.org/x/tools/go/cfg"
	"golang.org/x/tools/go/packages"
	"golang.org/x/tools/go/types/typeutil"
)

// polarity table: owned file -> the condition under which the last
// invocation calls for it (DESIGN §4 C19), one reason per row.
var c19Polarity = map[string]struct{ cond, why string }{
	"client.go":     {"field:GenClient", "client is generated iff --client"},
	"handler.go":    {"field:GenAPIHandler", "handler/router/spec are generated iff --api-handler"},
	"router.go":     {"field:GenAPIHandler", "handler/router/spec are generated iff --api-handler"},
	"spec_file.go":  {"field:GenAPIHandler", "handler/router/spec are generated iff --api-handler"},
	"components.go": {"call:LenToRender>0", "components.go exists iff the spec has components to render"},
}

// file-system mutators (package-level functions)
var c19Mutators = map[string]bool{
	"os.Remove": true, "os.RemoveAll": true, "os.Rename": true, "os.WriteFile": true, "os.Create": true,
	"os.OpenFile": true, "os.Mkdir": true, "os.MkdirAll": true, "os.MkdirTemp": true, "os.CreateTemp": true,
	"os.Truncate": true, "os.Chmod": true, "os.Chown": true, "os.Lchown": true, "os.Chtimes": true, "os.Symlink": true, "os.Link": true,
	"io/ioutil.WriteFile": true, "io/ioutil.TempFile": true, "io/ioutil.TempDir": true,
	"os.File.Write": true, "os.File.WriteString": true, "os.File.WriteAt": true, "os.File.Truncate": true,
	"os.File.ReadFrom": true, "os.File.Chmod": true, "os.File.Chown": true, "os.File.Sync": false,
	"os/exec.Command": true, "os/exec.CommandContext": true, "os.StartProcess": true, "syscall.Exec": true, "os.Chdir": true,
}

type c19 struct {
	r    *Report
	s    *S1
	p    *packages.Package
	info *types.Info
	// writer summaries: func object -> index of the path parameter it opens for writing
	writers map[*types.Func]int
	// remover summaries: func object -> indices of its (directory, file name) parameters when its
	// body removes path.Join(<dir param>, <name param>)
	removers map[*types.Func][2]int
	interp   *fsInterp
	results  []fsFuncResult
}

func runC19(r *Report) {
	r.Explanation = "Pairing/ownership analysis of goag.go (S1) on the control-flow graph of the generating function: for every owned file name (constant joined to the output directory) every path to a success return settles the file (write through the single truncating writer, or os.Remove with not-exist tolerated), never removes after writing, and ends written exactly when the documented condition held (path-sensitive in the three controlling conditions). Who-may-call: the file-system mutators reachable from Generate*/main are exactly the enumerated sites. Holds for all invocation histories by induction: each successful run settles every owned file regardless of prior state."
	r.Rule("C19/settle-every-file", "on every path of the generating function to `return nil`, each owned file's last event is write (iff its condition is true) or remove (iff false); no remove after write")
	r.Rule("C19/truncate", "the writer opens its path with constant flags containing O_WRONLY|O_CREATE|O_TRUNC and not O_APPEND/O_EXCL")
	r.Rule("C19/owner-only", "file-system mutators reachable from Generate*/main are exactly the enumerated sites, and every path they touch is path.Join(outDir, <owned const>)")
	r.Rule("C19/reads-enumerated", "the generation path reads no file-system state besides spec file, config file and the --dir listing; goimports gets no file name")
	r.Rule("C19/map-range", "re-run clause: a range over a map reachable from Generate is order-insensitive (collect-then-sort, commutative keyed build, error-only sink)")
	r.Rule("C19/map-iter-call", "re-run clause: results of maps.Keys/Values are sorted before use")
	r.Rule("C19/env", "re-run clause: no time/rand/env/host source reachable from Generate or run by a package initialiser")
	r.Rule("C19/concurrency", "re-run clause: no goroutine, select or channel operation reachable from Generate")
	r.Rule("C19/ptr-format", "re-run clause: no address formatted into generated text")
	r.Rule("C19/global-state", "re-run clause: no package-level state written on the generation path")
	r.Rule("C19/error-not-swallowed", "the error of os.Remove is tested; anything other than not-exist returns a non-nil error")
	r.Rule("C19/outdir-stable", "the output directory parameter and the controlling conditions are never reassigned in the generating function")
	r.Assumptions = append(r.Assumptions,
		"successful runs only (an error midway may leave a mix; the property speaks of completed invocations)",
		"byte-level idempotence of a re-run additionally needs determinism (C12)",
		"os.OpenFile/os.Remove/os.MkdirAll behave per their documentation")
	s, err := LoadS1(true)
	if err != nil {
		r.Break("load S1: %v", err)
		return
	}
	p := s.Pkgs[modPath]
	c := &c19{r: r, s: s, p: p, info: p.TypesInfo, writers: map[*types.Func]int{}}
	c.findWriters()
	c.findRemovers()
	ruleTruncate(r, s, "C19/truncate")
	ruleFSReads(r, s, "C19/reads-enumerated")
	// "re-running the same invocation changes nothing": the written bytes must be a function of
	// the invocation — same source enumeration as C12, reported under this property
	_, _, nRange, _, _ := scanDeterminism(r, s, "C19")
	r.Analysed["map_ranges_reachable"] = nRange
	ruleGlobalState(r, s, "C19/global-state")
	nGen := c.settle()
	c.ownerOnly()
	r.Analysed["writers"] = func() []string {
		var out []string
		for f, i := range c.writers {
			out = append(out, fmt.Sprintf("%s(param %d)", f.Name(), i))
		}
		sort.Strings(out)
		return out
	}()
	r.FloorMin("generating functions (contain write/remove events on owned names)", nGen, 1)
	r.FloorMin("writer functions", len(c.writers), 2)
}

func (c *c19) funcDecls() []*ast.FuncDecl {
	var out []*ast.FuncDecl
	for _, f := range c.p.Syntax {
		for _, d := range f.Decls {
			if fd, ok := d.(*ast.FuncDecl); ok && fd.Body != nil {
				out = append(out, fd)
			}
		}
	}
	return out
}

func paramIndex(info *types.Info, fd *ast.FuncDecl, obj types.Object) int {
	i := 0
	for _, f := range fd.Type.Params.List {
		for _, n := range f.Names {
			if info.Defs[n] == obj {
				return i
			}
			i++
		}
		if len(f.Names) == 0 {
			i++
		}
	}
	return -1
}

// findWriters: F is a writer of param i if it calls os.OpenFile(param_i, flags-with-write, …),
// os.WriteFile(param_i,…), os.Create(param_i) or another writer with param_i.
func (c *c19) findWriters() {
	decls := c.funcDecls()
	for changed := true; changed; {
		changed = false
		for _, fd := range decls {
			fobj, _ := c.info.Defs[fd.Name].(*types.Func)
			if fobj == nil {
				continue
			}
			if _, done := c.writers[fobj]; done {
				continue
			}
			ast.Inspect(fd.Body, func(n ast.Node) bool {
				call, ok := n.(*ast.CallExpr)
				if !ok || len(call.Args) == 0 {
					return true
				}
				name := calleeName(c.info, call)
				argIdx := -1
				switch name {
				case "os.OpenFile", "os.WriteFile", "os.Create", "io/ioutil.WriteFile":
					argIdx = 0
				default:
					if callee, ok := typeutil.Callee(c.info, call).(*types.Func); ok {
						if wi, ok := c.writers[callee]; ok {
							argIdx = wi
						}
					}
				}
				if argIdx < 0 || argIdx >= len(call.Args) {
					return true
				}
				if obj := identObj(c.info, call.Args[argIdx]); obj != nil {
					if pi := paramIndex(c.info, fd, obj); pi >= 0 {
						if _, done := c.writers[fobj]; !done {
							c.writers[fobj] = pi
							changed = true
						}
					}
				}
				return true
			})
		}
	}
}

// findRemovers: wrappers around os.Remove(path.Join(dir, name)) with both parts parameters.
func (c *c19) findRemovers() {
	c.removers = map[*types.Func][2]int{}
	for _, fd := range c.funcDecls() {
		fobj, _ := c.info.Defs[fd.Name].(*types.Func)
		if fobj == nil {
			continue
		}
		// the remove must be unconditional: a top-level statement preceded by plain bindings only
		for _, st := range fd.Body.List {
			var rhs ast.Expr
			switch x := st.(type) {
			case *ast.AssignStmt:
				if len(x.Rhs) == 1 {
					rhs = x.Rhs[0]
				}
			case *ast.ExprStmt:
				rhs = x.X
			case *ast.DeclStmt:
				continue
			}
			if rhs == nil {
				break // control flow before any remove: not a plain wrapper
			}
			if call, ok := ast.Unparen(rhs).(*ast.CallExpr); ok && calleeName(c.info, call) == "os.Remove" && len(call.Args) == 1 {
				if di, ni, ok := c.joinOfParams(fd, call.Args[0], 0); ok {
					c.removers[fobj] = [2]int{di, ni}
				}
				break
			}
		}
	}
}

// joinOfParams: e is path.Join(<param i>, <param j>), possibly through one single-assigned local.
func (c *c19) joinOfParams(fd *ast.FuncDecl, e ast.Expr, depth int) (di, ni int, ok bool) {
	e = ast.Unparen(e)
	if call, isCall := e.(*ast.CallExpr); isCall {
		nm := calleeName(c.info, call)
		if (nm == "path.Join" || nm == "path/filepath.Join") && len(call.Args) == 2 {
			d, n := identObj(c.info, call.Args[0]), identObj(c.info, call.Args[1])
			if d != nil && n != nil {
				di, ni = paramIndex(c.info, fd, d), paramIndex(c.info, fd, n)
				if di >= 0 && ni >= 0 {
					return di, ni, true
				}
			}
		}
		return 0, 0, false
	}
	if id, isId := e.(*ast.Ident); isId && depth < 2 {
		if _, call, ok := c.singleAssignCall(fd, identObj(c.info, id)); ok && call != nil {
			return c.joinOfParams(fd, call, depth+1)
		}
	}
	return 0, 0, false
}

// nameSet: the constant file names an expression can denote: a constant, or the value variable
// of a `for _, v := range []string{<consts>}` loop of the function.
func (c *c19) nameSet(fd *ast.FuncDecl, e ast.Expr) ([]string, bool) {
	if tv := c.info.Types[e]; tv.Value != nil && tv.Value.Kind() == constant.String {
		return []string{constant.StringVal(tv.Value)}, true
	}
	// v, or v.<field> of a struct element
	var fieldName string
	base := ast.Unparen(e)
	if sel, ok := base.(*ast.SelectorExpr); ok {
		if s := c.info.Selections[sel]; s != nil && s.Kind() == types.FieldVal {
			fieldName = sel.Sel.Name
			base = sel.X
		}
	}
	o := identObj(c.info, base)
	if o == nil {
		return nil, false
	}
	var names []string
	found := false
	ast.Inspect(fd.Body, func(n ast.Node) bool {
		rs, ok := n.(*ast.RangeStmt)
		if !ok || rs.Value == nil || identObj(c.info, rs.Value) != o && c.info.Defs[identOf(rs.Value)] != o {
			return true
		}
		cl := c.constSliceLit(fd, rs.X)
		if cl == nil {
			return true
		}
		var ns []string
		for _, el := range cl.Elts {
			ve := el
			if fieldName != "" {
				ecl, ok := ast.Unparen(el).(*ast.CompositeLit)
				if !ok {
					return true
				}
				ve = nil
				st, _ := c.info.TypeOf(ecl).Underlying().(*types.Struct)
				for k, fe := range ecl.Elts {
					if kv, isKV := fe.(*ast.KeyValueExpr); isKV {
						if id, ok := kv.Key.(*ast.Ident); ok && id.Name == fieldName {
							ve = kv.Value
						}
					} else if st != nil && k < st.NumFields() && st.Field(k).Name() == fieldName {
						ve = fe
					}
				}
				if ve == nil {
					return true
				}
			}
			tv := c.info.Types[ve]
			if tv.Value == nil || tv.Value.Kind() != constant.String {
				return true
			}
			ns = append(ns, constant.StringVal(tv.Value))
		}
		// the loop body must not skip elements
		skip := false
		ast.Inspect(rs.Body, func(m ast.Node) bool {
			if b, ok := m.(*ast.BranchStmt); ok && (b.Tok == token.CONTINUE || b.Tok == token.BREAK || b.Tok == token.GOTO) {
				skip = true
			}
			return true
		})
		if !skip && len(ns) > 0 {
			names, found = ns, true
		}
		return true
	})
	return names, found
}

// constSliceLit: e is a composite literal of a slice/array, or a variable assigned exactly once
// from one (and never appended to / indexed for writing).
func (c *c19) constSliceLit(fd *ast.FuncDecl, e ast.Expr) *ast.CompositeLit {
	e = ast.Unparen(e)
	if cl, ok := e.(*ast.CompositeLit); ok {
		return cl
	}
	o := identObj(c.info, e)
	if o == nil {
		return nil
	}
	var rhs []ast.Expr
	mutated := false
	ast.Inspect(fd.Body, func(n ast.Node) bool {
		switch x := n.(type) {
		case *ast.AssignStmt:
			for i, l := range x.Lhs {
				if identObj(c.info, l) == o {
					if len(x.Lhs) == len(x.Rhs) {
						rhs = append(rhs, x.Rhs[i])
					} else {
						mutated = true
					}
				}
				if ix, ok := ast.Unparen(l).(*ast.IndexExpr); ok && identObj(c.info, ix.X) == o {
					mutated = true
				}
			}
		case *ast.UnaryExpr:
			if x.Op == token.AND && identObj(c.info, x.X) == o {
				mutated = true
			}
		}
		return true
	})
	if mutated || len(rhs) != 1 {
		return nil
	}
	cl, _ := ast.Unparen(rhs[0]).(*ast.CompositeLit)
	return cl
}

// ownedNames: e is path.Join(<dir param>, X) with X ranging over constant names (nameSet).
func (c *c19) ownedNames(fd *ast.FuncDecl, e ast.Expr) ([]string, bool) {
	call, ok := ast.Unparen(e).(*ast.CallExpr)
	if !ok {
		return nil, false
	}
	nm := calleeName(c.info, call)
	if (nm != "path.Join" && nm != "path/filepath.Join") || len(call.Args) != 2 {
		return nil, false
	}
	d := identObj(c.info, call.Args[0])
	if d == nil || paramIndex(c.info, fd, d) < 0 {
		return nil, false
	}
	return c.nameSet(fd, call.Args[1])
}

func identOf(e ast.Expr) *ast.Ident {
	id, _ := ast.Unparen(e).(*ast.Ident)
	return id
}

// removerCall: call is F(dir, name) of a remover with dir a parameter of fd; returns the names.
func (c *c19) removerCall(fd *ast.FuncDecl, call *ast.CallExpr) (names []string, isRemover, ok bool) {
	callee, _ := typeutil.Callee(c.info, call).(*types.Func)
	if callee == nil {
		return nil, false, false
	}
	idx, isR := c.removers[callee]
	if !isR || idx[0] >= len(call.Args) || idx[1] >= len(call.Args) {
		return nil, isR, false
	}
	d := identObj(c.info, call.Args[idx[0]])
	if d == nil || paramIndex(c.info, fd, d) < 0 {
		return nil, true, false
	}
	names, ok = c.nameSet(fd, call.Args[idx[1]])
	return names, true, ok
}

func (c *c19) truncate() {
	n := 0
	for _, fd := range c.funcDecls() {
		key := funcKey(c.p, fd)
		ast.Inspect(fd.Body, func(nd ast.Node) bool {
			call, ok := nd.(*ast.CallExpr)
			if !ok {
				return true
			}
			if calleeName(c.info, call) != "os.OpenFile" || len(call.Args) != 3 {
				return true
			}
			n++
			tv := c.info.Types[call.Args[1]]
			if tv.Value == nil {
				c.r.Violation("C19/truncate", key+":os.OpenFile flags", c.s.pos(call.Pos()), "open flags are not a compile-time constant")
				return true
			}
			fl, _ := constant.Int64Val(tv.Value)
			osc := func(name string) int64 {
				if imp := c.p.Imports["os"]; imp != nil {
					if k, ok := imp.Types.Scope().Lookup(name).(*types.Const); ok {
						v, _ := constant.Int64Val(k.Val())
						return v
					}
				}
				c.r.Break("os.%s not found", name)
				return 0
			}
			oWRONLY, oRDWR, oAPPEND, oCREATE, oEXCL, oTRUNC := osc("O_WRONLY"), osc("O_RDWR"), osc("O_APPEND"), osc("O_CREATE"), osc("O_EXCL"), osc("O_TRUNC")
			okFlags := (fl&oWRONLY != 0 || fl&oRDWR != 0) && fl&oCREATE != 0 && fl&oTRUNC != 0 && fl&oAPPEND == 0 && fl&oEXCL == 0
			c.r.Check(okFlags, "C19/truncate", key+":os.OpenFile flags", c.s.pos(call.Pos()),
				fmt.Sprintf("flags %s = %#x lack O_WRONLY|O_CREATE|O_TRUNC or include O_APPEND/O_EXCL: an existing longer file would keep stale bytes (or the rewrite would fail)", types.ExprString(call.Args[1]), fl))
			// the bytes written must be written through the opened file only: covered by owner-only
			return true
		})
	}
	c.r.FloorMin("os.OpenFile sites in package goag", n, 1)
}

// ownedName resolves an expression to the constant c of path.Join(outDir, c).
func (c *c19) ownedName(fd *ast.FuncDecl, e ast.Expr, depth int) (name string, dirParam types.Object, ok bool) {
	e = ast.Unparen(e)
	if call, isCall := e.(*ast.CallExpr); isCall {
		nm := calleeName(c.info, call)
		if (nm == "path.Join" || nm == "path/filepath.Join") && len(call.Args) == 2 {
			tv := c.info.Types[call.Args[1]]
			d := identObj(c.info, call.Args[0])
			if tv.Value != nil && tv.Value.Kind() == constant.String && d != nil && paramIndex(c.info, fd, d) >= 0 {
				return constant.StringVal(tv.Value), d, true
			}
		}
		return "", nil, false
	}
	if id, isId := e.(*ast.Ident); isId && depth < 2 {
		obj := identObj(c.info, id)
		if obj == nil {
			return "", nil, false
		}
		// exactly one assignment/definition in the function
		var rhs []ast.Expr
		ast.Inspect(fd.Body, func(n ast.Node) bool {
			if as, ok := n.(*ast.AssignStmt); ok {
				for i, l := range as.Lhs {
					if identObj(c.info, l) == obj && len(as.Lhs) == len(as.Rhs) {
						rhs = append(rhs, as.Rhs[i])
					} else if identObj(c.info, l) == obj {
						rhs = append(rhs, nil)
					}
				}
			}
			return true
		})
		if len(rhs) == 1 && rhs[0] != nil {
			return c.ownedName(fd, rhs[0], depth+1)
		}
	}
	return "", nil, false
}

type c19event struct {
	kind string // "write" | "remove"
	file string
	pos  token.Pos
}

func (c *c19) eventsOf(fd *ast.FuncDecl, n ast.Node) (evs []c19event, bad []string) {
	ast.Inspect(n, func(m ast.Node) bool {
		if _, ok := m.(*ast.FuncLit); ok {
			return false
		}
		call, ok := m.(*ast.CallExpr)
		if !ok {
			return true
		}
		nm := calleeName(c.info, call)
		if fo, _ := c.info.Defs[fd.Name].(*types.Func); nm == "os.Remove" && c.isRemover(fo) {
			return true // the wrapper itself: its call sites carry the events
		}
		if nm == "os.Remove" && len(call.Args) == 1 {
			if name, _, ok := c.ownedName(fd, call.Args[0], 0); ok {
				evs = append(evs, c19event{"remove", name, call.Pos()})
			} else {
				bad = append(bad, "os.Remove("+types.ExprString(call.Args[0])+") is not path.Join(<outDir param>, <const>)")
			}
			return true
		}
		if names, isR, ok := c.removerCall(fd, call); isR {
			if ok {
				for _, nm := range names {
					evs = append(evs, c19event{"remove", nm, call.Pos()})
				}
			} else {
				bad = append(bad, types.ExprString(call)+" does not remove path.Join(<outDir param>, <const names>)")
			}
			return true
		}
		if callee, ok := typeutil.Callee(c.info, call).(*types.Func); ok {
			if wi, isW := c.writers[callee]; isW && wi < len(call.Args) {
				arg := call.Args[wi]
				if o := identObj(c.info, arg); o != nil && paramIndex(c.info, fd, o) >= 0 {
					return true // pass-through of own parameter (writer chain)
				}
				if name, _, ok := c.ownedName(fd, arg, 0); ok {
					evs = append(evs, c19event{"write", name, call.Pos()})
				} else if names, ok := c.ownedNames(fd, arg); ok {
					for _, nm := range names {
						evs = append(evs, c19event{"write", nm, call.Pos()})
					}
				} else {
					bad = append(bad, callee.Name()+"("+types.ExprString(arg)+") is not path.Join(<outDir param>, <const>)")
				}
			}
		}
		return true
	})
	return
}

// condKind classifies a branch condition into a polarity-table key.
func (c *c19) condKind(e ast.Expr) (kind string, neg bool) {
	e = ast.Unparen(e)
	if u, ok := e.(*ast.UnaryExpr); ok && u.Op == token.NOT {
		k, n := c.condKind(u.X)
		return k, !n
	}
	if sel, ok := e.(*ast.SelectorExpr); ok {
		if s := c.info.Selections[sel]; s != nil && s.Kind() == types.FieldVal {
			if v, ok := s.Obj().(*types.Var); ok && v.Pkg() != nil && v.Pkg().Path() == modPath {
				return "field:" + v.Name(), false
			}
		}
	}
	if b, ok := e.(*ast.BinaryExpr); ok {
		if call, ok := ast.Unparen(b.X).(*ast.CallExpr); ok {
			nm := calleeName(c.info, call)
			if strings.HasSuffix(nm, ".LenToRender") {
				tv := c.info.Types[b.Y]
				if tv.Value != nil {
					if v, ok := constant.Int64Val(tv.Value); ok {
						switch {
						case b.Op == token.GTR && v == 0, b.Op == token.NEQ && v == 0, b.Op == token.GEQ && v == 1:
							return "call:LenToRender>0", false
						case b.Op == token.EQL && v == 0, b.Op == token.LEQ && v == 0, b.Op == token.LSS && v == 1:
							return "call:LenToRender>0", true
						}
					}
				}
			}
		}
	}
	return "", false
}

func isNilIdent(e ast.Expr) bool {
	id, ok := ast.Unparen(e).(*ast.Ident)
	return ok && id.Name == "nil"
}

func (c *c19) settle() (nGen int) {
	in := newFSInterp(c)
	results := in.analyseAll()
	c.interp, c.results = in, results
	c.r.Analysed["helpers_inlined"] = in.inlinedHelpers()
	c.r.Analysed["interpreter_states"] = in.steps
	for _, fr := range results {
		if fr.fd == nil {
			continue
		}
		fd := fr.fd
		relevant := fr.hasEv
		for _, st := range fr.sites {
			if len(st.names) > 0 || len(st.unresolved) > 0 {
				relevant = true
			}
		}
		if !relevant {
			continue // e.g. the writer chain: the path is the caller's
		}
		nGen++
		fkey := fr.key
		if len(fr.und) > 0 {
			c.r.Undecided("C19/settle-every-file", fkey, c.s.pos(fd.Pos()), strings.Join(uniq(fr.und), "; "))
			continue
		}
		for _, st := range fr.sites {
			for _, u := range uniq(st.unresolved) {
				c.r.Violation("C19/owner-only", fkey+":"+st.what+"("+u+") is not path.Join(<outDir param>, <const>)", c.s.pos(st.pos), "a file outside the owned set may be written or removed")
			}
		}
		owned := map[string]bool{}
		for _, st := range fr.sites {
			for nm := range st.names {
				owned[nm] = true
			}
		}
		var files []string
		for f := range owned {
			files = append(files, f)
		}
		sort.Strings(files)
		c.r.Analysed["owned_files:"+fkey] = files
		c.r.FloorMin("owned files settled by "+fkey, len(files), 5)
		for _, f := range files {
			if _, ok := c19Polarity[f]; !ok {
				c.r.Violation("C19/settle-every-file", fkey+":"+f, c.s.pos(fd.Pos()), "owned file has no row in the polarity table: the checker does not know which invocation calls for it")
			}
		}
		for want := range c19Polarity {
			if !owned[want] {
				c.r.Violation("C19/settle-every-file", fkey+":"+want, c.s.pos(fd.Pos()), "documented owned file is neither written nor removed anywhere in the generating function")
			}
		}
		// outdir / condition stability
		stable := true
		ast.Inspect(fd.Body, func(n ast.Node) bool {
			as, ok := n.(*ast.AssignStmt)
			if !ok {
				return true
			}
			for _, l := range as.Lhs {
				if k, _ := c.condKind(l); strings.HasPrefix(k, "field:") {
					stable = false
					c.r.Violation("C19/outdir-stable", fkey+":assign "+types.ExprString(l), c.s.pos(as.Pos()), "controlling condition reassigned inside the generating function")
				}
				if o := identObj(c.info, l); o != nil && as.Tok == token.ASSIGN {
					if pi := paramIndex(c.info, fd, o); pi >= 0 {
						if tv, ok := o.Type().Underlying().(*types.Basic); ok && tv.Kind() == types.String && c.usedAsJoinDir(fd, o) {
							stable = false
							c.r.Violation("C19/outdir-stable", fkey+":assign "+o.Name(), c.s.pos(as.Pos()), "output directory parameter reassigned: later events touch another directory")
						}
					}
				}
			}
			return true
		})
		if stable {
			c.r.OK("C19/outdir-stable", fkey, c.s.pos(fd.Pos()), "")
		}
		// remove errors: a real failure of os.Remove must end in an error exit
		lostRemove := map[string]bool{}
		for d, pos := range fr.lost {
			if strings.HasPrefix(d, "os.Remove(") {
				name := d[:strings.Index(d, "@")]
				lostRemove[name] = true
				c.r.Violation("C19/error-not-swallowed", fkey+":"+name, c.s.pos(pos), "a remove error other than not-exist does not lead to a non-nil error return: on the path where "+d+" fails the function still returns success, so a stale file that cannot be removed goes unnoticed")
			}
		}
		for _, st := range fr.sites {
			if st.what != "os.Remove" {
				continue
			}
			for nm := range st.names {
				if !lostRemove["os.Remove("+nm+")"] {
					c.r.OK("C19/error-not-swallowed", fkey+":os.Remove("+nm+")", c.s.pos(st.pos), "")
				}
			}
		}
		// events at the success exits
		reported := map[string]bool{}
		viol := func(key, pos, detail string) {
			if !reported[key+detail] {
				reported[key+detail] = true
				c.r.Violation("C19/settle-every-file", key, pos, detail)
			}
		}
		for msg, pos := range in.evViol {
			f := msg[:strings.Index(msg, ":")]
			viol(fkey+":"+f, c.s.pos(pos), msg[strings.Index(msg, ":")+2:])
		}
		for _, e := range fr.success {
			for _, f := range files {
				pol, okp := c19Polarity[f]
				if !okp {
					continue
				}
				cv := e.st.cond[pol.cond]
				key := fkey + ":" + f
				switch e.st.ev[f] {
				case "":
					viol(key, c.s.pos(e.pos), "a path reaches `return nil` without writing or removing "+f+": a stale copy from an earlier invocation survives")
				case "write":
					if cv != 1 {
						viol(key, c.s.pos(e.pos), fmt.Sprintf("%s is written on a path where its condition (%s: %s) is not established true", f, pol.cond, pol.why))
					}
				case "remove":
					if cv != -1 {
						viol(key, c.s.pos(e.pos), fmt.Sprintf("%s is removed (and not rewritten) on a path where its condition (%s: %s) is not established false", f, pol.cond, pol.why))
					}
				}
			}
		}
		c.r.Analysed["success_exits_reached:"+fkey] = len(fr.success)
		if len(fr.success) == 0 {
			c.r.Undecided("C19/settle-every-file", fkey, c.s.pos(fd.Pos()), "no success return found in the generating function")
		}
		for _, f := range files {
			key := fkey + ":" + f
			hit := false
			for k := range reported {
				if strings.HasPrefix(k, key) {
					hit = true
				}
			}
			if !hit {
				c.r.OK("C19/settle-every-file", key, c.s.pos(fd.Pos()), "settled on every success path with the documented polarity")
			}
		}
	}
	return
}

func (c *c19) usedAsJoinDir(fd *ast.FuncDecl, o types.Object) bool {
	used := false
	ast.Inspect(fd.Body, func(n ast.Node) bool {
		if call, ok := n.(*ast.CallExpr); ok {
			nm := calleeName(c.info, call)
			if (nm == "path.Join" || nm == "path/filepath.Join") && len(call.Args) > 0 && identObj(c.info, call.Args[0]) == o {
				used = true
			}
		}
		return true
	})
	return used
}

// removeErrors: `err = os.Remove(x)` must be followed by `if err != nil { if !os.IsNotExist(err) { return …err… } }`
// or `if err != nil { return … }` / `if err != nil && !os.IsNotExist(err) { return … }`.
func (c *c19) removeErrors(fd *ast.FuncDecl, fkey string) {
	var visit func(list []ast.Stmt)
	check := func(list []ast.Stmt, i int, call *ast.CallExpr, errObj types.Object) {
		name, _, _ := c.ownedName(fd, call.Args[0], 0)
		key := fkey + ":os.Remove(" + name + ")"
		if c.isRemoverCall(call) {
			key = fkey + ":" + types.ExprString(call.Fun) + "(" + argStr(call) + ")"
		}
		if errObj == nil {
			c.r.Violation("C19/error-not-swallowed", key, c.s.pos(call.Pos()), "error of os.Remove is discarded: a stale file that cannot be removed would go unnoticed")
			return
		}
		if i+1 >= len(list) {
			c.r.Violation("C19/error-not-swallowed", key, c.s.pos(call.Pos()), "error of os.Remove is not tested")
			return
		}
		ifs, ok := list[i+1].(*ast.IfStmt)
		if !ok || !c.condTestsErr(ifs.Cond, errObj) {
			c.r.Violation("C19/error-not-swallowed", key, c.s.pos(call.Pos()), "statement after os.Remove is not `if err != nil`")
			return
		}
		if c.returnsNonNilUnless(ifs, errObj) {
			c.r.OK("C19/error-not-swallowed", key, c.s.pos(call.Pos()), "")
		} else {
			c.r.Violation("C19/error-not-swallowed", key, c.s.pos(call.Pos()), "a remove error other than not-exist does not lead to a non-nil error return")
		}
	}
	visit = func(list []ast.Stmt) {
		for i, st := range list {
			switch st := st.(type) {
			case *ast.AssignStmt:
				if len(st.Rhs) == 1 {
					if call, ok := st.Rhs[0].(*ast.CallExpr); ok && (calleeName(c.info, call) == "os.Remove" && len(call.Args) == 1 || c.isRemoverCall(call)) {
						var eo types.Object
						if len(st.Lhs) == 1 {
							if id, ok := st.Lhs[0].(*ast.Ident); ok && id.Name != "_" {
								eo = identObj(c.info, id)
							}
						}
						check(list, i, call, eo)
					}
				}
			case *ast.ExprStmt:
				if call, ok := st.X.(*ast.CallExpr); ok && (calleeName(c.info, call) == "os.Remove" && len(call.Args) == 1 || c.isRemoverCall(call)) {
					check(list, i, call, nil)
				}
			case *ast.IfStmt:
				if st.Init != nil {
					// if err := os.Remove(x); err != nil {...}
					if as, ok := st.Init.(*ast.AssignStmt); ok && len(as.Rhs) == 1 {
						if call, ok := as.Rhs[0].(*ast.CallExpr); ok && calleeName(c.info, call) == "os.Remove" && len(call.Args) == 1 {
							eo := identObj(c.info, as.Lhs[0])
							name, _, _ := c.ownedName(fd, call.Args[0], 0)
							key := fkey + ":os.Remove(" + name + ")"
							if c.condTestsErr(st.Cond, eo) && c.returnsNonNilUnless(st, eo) {
								c.r.OK("C19/error-not-swallowed", key, c.s.pos(call.Pos()), "")
							} else {
								c.r.Violation("C19/error-not-swallowed", key, c.s.pos(call.Pos()), "a remove error other than not-exist does not lead to a non-nil error return")
							}
						}
					}
				}
				visit(st.Body.List)
				if b, ok := st.Else.(*ast.BlockStmt); ok {
					visit(b.List)
				} else if e, ok := st.Else.(*ast.IfStmt); ok {
					visit([]ast.Stmt{e})
				}
			case *ast.BlockStmt:
				visit(st.List)
			case *ast.ForStmt:
				visit(st.Body.List)
			case *ast.RangeStmt:
				visit(st.Body.List)
			}
		}
	}
	visit(fd.Body.List)
}

func (c *c19) isRemoverCall(call *ast.CallExpr) bool {
	callee, _ := typeutil.Callee(c.info, call).(*types.Func)
	return c.isRemover(callee)
}

// condTestsErr: cond is `err != nil` possibly && !os.IsNotExist(err)
func (c *c19) condTestsErr(e ast.Expr, errObj types.Object) bool {
	e = ast.Unparen(e)
	if b, ok := e.(*ast.BinaryExpr); ok {
		if b.Op == token.NEQ && identObj(c.info, b.X) == errObj && isNilIdent(b.Y) {
			return true
		}
		if b.Op == token.LAND {
			return c.condTestsErr(b.X, errObj)
		}
	}
	return false
}

func (c *c19) isNotExistFilter(e ast.Expr, errObj types.Object) bool {
	u, ok := ast.Unparen(e).(*ast.UnaryExpr)
	if !ok || u.Op != token.NOT {
		return false
	}
	call, ok := ast.Unparen(u.X).(*ast.CallExpr)
	if !ok {
		return false
	}
	nm := calleeName(c.info, call)
	if nm == "os.IsNotExist" && len(call.Args) == 1 && identObj(c.info, call.Args[0]) == errObj {
		return true
	}
	if nm == "errors.Is" && len(call.Args) == 2 && identObj(c.info, call.Args[0]) == errObj {
		if calleeOrVar(c.info, call.Args[1]) == "os.ErrNotExist" || calleeOrVar(c.info, call.Args[1]) == "io/fs.ErrNotExist" {
			return true
		}
	}
	return false
}

func calleeOrVar(info *types.Info, e ast.Expr) string {
	if sel, ok := ast.Unparen(e).(*ast.SelectorExpr); ok {
		if o := info.Uses[sel.Sel]; o != nil && o.Pkg() != nil {
			return o.Pkg().Path() + "." + o.Name()
		}
	}
	return ""
}

// returnsNonNilUnless: the if-body (entered when err != nil [&& !IsNotExist]) returns a non-nil
// error, either directly or under the single filter `if !os.IsNotExist(err)`.
func (c *c19) returnsNonNilUnless(ifs *ast.IfStmt, errObj types.Object) bool {
	retNonNil := func(list []ast.Stmt) bool {
		if len(list) == 0 {
			return false
		}
		ret, ok := list[len(list)-1].(*ast.ReturnStmt)
		if !ok || len(ret.Results) == 0 {
			return false
		}
		last := ret.Results[len(ret.Results)-1]
		if isNilIdent(last) {
			return false
		}
		t := c.info.TypeOf(last)
		return t != nil && types.Implements(t, types.Universe.Lookup("error").Type().Underlying().(*types.Interface))
	}
	if b, ok := ast.Unparen(ifs.Cond).(*ast.BinaryExpr); ok && b.Op == token.LAND {
		if c.isNotExistFilter(b.Y, errObj) {
			return retNonNil(ifs.Body.List)
		}
		return false
	}
	if retNonNil(ifs.Body.List) {
		return true
	}
	if len(ifs.Body.List) == 1 {
		if inner, ok := ifs.Body.List[0].(*ast.IfStmt); ok && inner.Else == nil && c.isNotExistFilter(inner.Cond, errObj) {
			return retNonNil(inner.Body.List)
		}
	}
	return false
}

// pathSensitive explores the CFG with state (per-file last event, per-condition assumption).
func (c *c19) pathSensitive(fd *ast.FuncDecl, fkey string, files []string) {
	g := cfg.New(fd.Body, func(call *ast.CallExpr) bool {
		nm := calleeName(c.info, call)
		return nm != "log.Fatal" && nm != "log.Fatalf" && nm != "os.Exit" && nm != "panic"
	})
	type state struct {
		ev   map[string]string // file -> none|write|remove
		cond map[string]int    // kind -> +1 true, -1 false
	}
	enc := func(s state) string {
		var sb strings.Builder
		for _, f := range files {
			sb.WriteString(f + "=" + s.ev[f] + ";")
		}
		var ks []string
		for k := range s.cond {
			ks = append(ks, k)
		}
		sort.Strings(ks)
		for _, k := range ks {
			fmt.Fprintf(&sb, "%s=%d;", k, s.cond[k])
		}
		return sb.String()
	}
	clone := func(s state) state {
		n := state{ev: map[string]string{}, cond: map[string]int{}}
		for k, v := range s.ev {
			n.ev[k] = v
		}
		for k, v := range s.cond {
			n.cond[k] = v
		}
		return n
	}
	seen := map[string]bool{}
	reported := map[string]bool{}
	nReturns, nPaths := 0, 0
	viol := func(key, pos, detail string) {
		if !reported[key+detail] {
			reported[key+detail] = true
			c.r.Violation("C19/settle-every-file", key, pos, detail)
		}
	}
	var walk func(b *cfg.Block, s state)
	walk = func(b *cfg.Block, s state) {
		k := fmt.Sprintf("%d|%s", b.Index, enc(s))
		if seen[k] {
			return
		}
		seen[k] = true
		s = clone(s)
		for _, n := range b.Nodes {
			evs, _ := c.eventsOf(fd, n)
			for _, e := range evs {
				if e.kind == "remove" && s.ev[e.file] == "write" {
					viol(fkey+":"+e.file, c.s.pos(e.pos), "os.Remove after the file was written on the same path: the freshly generated file is deleted")
				}
				s.ev[e.file] = e.kind
			}
			if ret, ok := n.(*ast.ReturnStmt); ok {
				success := len(ret.Results) > 0 && isNilIdent(ret.Results[len(ret.Results)-1])
				if len(ret.Results) == 0 {
					success = true // named results: treat conservatively as success
				}
				if success {
					nReturns++
					nPaths++
					for _, f := range files {
						pol, okp := c19Polarity[f]
						if !okp {
							continue
						}
						cv := s.cond[pol.cond]
						key := fkey + ":" + f
						switch s.ev[f] {
						case "":
							viol(key, c.s.pos(ret.Pos()), "a path reaches `return nil` without writing or removing "+f+": a stale copy from an earlier invocation survives")
						case "write":
							if cv != 1 {
								viol(key, c.s.pos(ret.Pos()), fmt.Sprintf("%s is written on a path where its condition (%s: %s) is not established true", f, pol.cond, pol.why))
							}
						case "remove":
							if cv != -1 {
								viol(key, c.s.pos(ret.Pos()), fmt.Sprintf("%s is removed (and not rewritten) on a path where its condition (%s: %s) is not established false", f, pol.cond, pol.why))
							}
						}
					}
				}
			}
		}
		if len(b.Succs) == 2 && len(b.Nodes) > 0 {
			if e, ok := b.Nodes[len(b.Nodes)-1].(ast.Expr); ok {
				if kind, neg := c.condKind(e); kind != "" {
					tv, fv := 1, -1
					if neg {
						tv, fv = -1, 1
					}
					if s.cond[kind] != -tv {
						s1 := clone(s)
						s1.cond[kind] = tv
						walk(b.Succs[0], s1)
					}
					if s.cond[kind] != -fv {
						s2 := clone(s)
						s2.cond[kind] = fv
						walk(b.Succs[1], s2)
					}
					return
				}
			}
		}
		// a range over a non-empty constant literal runs its body at least once: the
		// head→done edge is feasible only after the body was entered
		if b.Kind == cfg.KindRangeLoop && len(b.Succs) == 2 {
			if rs, ok := b.Stmt.(*ast.RangeStmt); ok {
				if cl := c.constSliceLit(fd, rs.X); cl != nil && len(cl.Elts) > 0 {
					lk := fmt.Sprintf("loop@%d", rs.Pos())
					body, done := b.Succs[0], b.Succs[1]
					if body.Kind != cfg.KindRangeBody {
						body, done = done, body
					}
					s1 := clone(s)
					s1.cond[lk] = 1
					walk(body, s1)
					if s.cond[lk] == 1 {
						walk(done, s)
					}
					return
				}
			}
		}
		for _, nb := range b.Succs {
			walk(nb, s)
		}
	}
	init := state{ev: map[string]string{}, cond: map[string]int{}}
	walk(g.Blocks[0], init)
	c.r.Analysed["cfg_blocks:"+fkey] = len(g.Blocks)
	c.r.Analysed["abstract_states_explored:"+fkey] = len(seen)
	c.r.Analysed["success_returns_reached:"+fkey] = nReturns
	if nReturns == 0 {
		c.r.Undecided("C19/settle-every-file", fkey, c.s.pos(fd.Pos()), "no success return found in the generating function")
	}
	for _, f := range files {
		key := fkey + ":" + f
		hit := false
		for k := range reported {
			if strings.HasPrefix(k, key) {
				hit = true
			}
		}
		if !hit {
			c.r.OK("C19/settle-every-file", key, c.s.pos(fd.Pos()), "settled on every success path with the documented polarity")
		}
	}
}

// ownerOnly: enumerate file-system mutators in reachable repo functions.
func (c *c19) ownerOnly() {
	allowed := map[string]string{} // key -> reason
	n := 0
	for _, path := range []string{modPath, modPath + "/cmd/goag", modPath + "/generator", modPath + "/specification"} {
		p := c.s.Pkgs[path]
		for _, file := range p.Syntax {
			for _, d := range file.Decls {
				fd, ok := d.(*ast.FuncDecl)
				if !ok || fd.Body == nil {
					continue
				}
				fn := c.s.FuncOfDecl(p, fd)
				if fn == nil || !c.s.ReachAll[fn] {
					continue
				}
				fkey := funcKey(p, fd)
				fobj, _ := p.TypesInfo.Defs[fd.Name].(*types.Func)
				_, isWriter := c.writers[fobj]
				ast.Inspect(fd.Body, func(nd ast.Node) bool {
					call, ok := nd.(*ast.CallExpr)
					if !ok {
						return true
					}
					nm := calleeName(p.TypesInfo, call)
					if !c19Mutators[nm] {
						return true
					}
					n++
					key := fkey + ":" + nm
					pos := c.s.pos(call.Pos())
					switch {
					case path == modPath && nm == "os.Remove":
						site := c.interp.sites[call.Pos()]
						switch {
						case site == nil || (len(site.names) == 0 && len(site.unresolved) == 0):
							c.r.Violation("C19/owner-only", key+"("+types.ExprString(call.Args[0])+")", pos, "os.Remove of a path that the interpretation never resolved to path.Join(outDir, <owned const>): the helper is not called with owned names from a generating function")
						case len(site.unresolved) > 0:
							c.r.Violation("C19/owner-only", key+"("+types.ExprString(call.Args[0])+")", pos, "removes a path that is not path.Join(outDir, <owned const>): "+strings.Join(uniq(site.unresolved), ", "))
						default:
							var names []string
							bad := ""
							for nm := range site.names {
								names = append(names, nm)
								if _, owned := c19Polarity[nm]; !owned {
									bad = nm
								}
							}
							sort.Strings(names)
							if bad != "" {
								c.r.Violation("C19/owner-only", key+"("+strings.Join(names, ",")+")", pos, "removes "+bad+", which is not a file goag owns")
							} else {
								c.r.OK("C19/owner-only", key+"("+strings.Join(names, ",")+")", pos, "remove of owned name(s)")
							}
						}
					case path == modPath && isWriter && (nm == "os.OpenFile" || nm == "os.File.Write" || nm == "os.File.WriteString"):
						c.r.OK("C19/owner-only", key, pos, "inside the single writer")
					case path == modPath && isWriter && nm == "os.MkdirAll":
						// must be path.Dir(<path param>)
						okDir := false
						if dc, ok := ast.Unparen(call.Args[0]).(*ast.CallExpr); ok {
							dn := calleeName(p.TypesInfo, dc)
							if (dn == "path.Dir" || dn == "path/filepath.Dir") && len(dc.Args) == 1 {
								if o := identObj(p.TypesInfo, dc.Args[0]); o != nil && paramIndex(p.TypesInfo, fd, o) == c.writers[fobj] {
									okDir = true
								}
							}
						} else if o := identObj(p.TypesInfo, call.Args[0]); o != nil {
							// dirpath := path.Dir(filepath)
							if nm2, _, _ := c.singleAssignCall(fd, o); nm2 == "path.Dir" || nm2 == "path/filepath.Dir" {
								okDir = true
							}
						}
						c.r.Check(okDir, "C19/owner-only", key, pos, "MkdirAll of something other than the directory of the file being written")
					default:
						_ = allowed
						c.r.Violation("C19/owner-only", key+"("+argStr(call)+")", pos, "file-system mutator reachable from Generate outside the enumerated owner sites: files goag does not own may be touched")
					}
					return true
				})
			}
		}
	}
	c.r.Analysed["fs_mutator_call_sites"] = n
	// the count of call sites depends on how the code is factored; what must not drop is the
	// number of resolved (operation, owned file) pairs: every owned file needs a write and a remove
	pairs := 0
	for _, st := range c.interp.sites {
		pairs += len(st.names)
	}
	c.r.Analysed["resolved_operation_file_pairs"] = pairs
	c.r.FloorMin("file-system mutator call sites reachable from Generate", n, 3)
	c.r.FloorMin("resolved (operation, owned file) pairs", pairs, 10)
}

func (c *c19) isRemover(f *types.Func) bool {
	_, ok := c.removers[f]
	return f != nil && ok
}

func argStr(call *ast.CallExpr) string {
	var as []string
	for _, a := range call.Args {
		as = append(as, types.ExprString(a))
	}
	return strings.Join(as, ", ")
}

func (c *c19) singleAssignCall(fd *ast.FuncDecl, obj types.Object) (callee string, call *ast.CallExpr, ok bool) {
	n := 0
	ast.Inspect(fd.Body, func(nd ast.Node) bool {
		if as, isAs := nd.(*ast.AssignStmt); isAs {
			for i, l := range as.Lhs {
				if identObj(c.info, l) == obj {
					n++
					if len(as.Lhs) == len(as.Rhs) {
						if cl, isCall := as.Rhs[i].(*ast.CallExpr); isCall {
							call = cl
							callee = calleeName(c.info, cl)
						}
					}
				}
			}
		}
		return true
	})
	return callee, call, n == 1 && call != nil
}
