package main

// C19 — the output directory reflects only the last invocation.
// Pairing/ownership rules over goag.go (S1): every owned file is settled
// (written or removed) on every successful path of the generating function,
// the outcome is controlled by the documented condition, files are opened
// with O_TRUNC, and nothing else on the generation path mutates the file
// system.

import (
	"fmt"
	"go/ast"
	"go/constant"
	"go/token"
	"go/types"
	"sort"
	"strings"

	"golang.org/x/tools/go/packages"
	"golang.org/x/tools/go/types/typeutil"
)

// polarity table: owned file -> the condition under which the last
// invocation calls for it (DESIGN §4 C19), one reason per row.
var c19Polarity = map[string]struct{ cond, why string }{
	"client.go":     {"field:GenClient", "client is generated iff --client"},
	"handler.go":    {"field:GenAPIHandler", "handler/router/spec are generated iff --api-handler"},
	"router.go":     {"field:GenAPIHandler", "handler/router/spec are generated iff --api-handler"},
	"spec_file.go":  {"field:GenAPIHandler", "handler/router/spec are generated iff --api-handler"},
	"components.go": {"call:LenToRender>0", "components.go exists iff the spec has components to render"},
}

// file-system mutators (package-level functions)
var c19Mutators = map[string]bool{
	"os.Remove": true, "os.RemoveAll": true, "os.Rename": true, "os.WriteFile": true, "os.Create": true,
	"os.OpenFile": true, "os.Mkdir": true, "os.MkdirAll": true, "os.MkdirTemp": true, "os.CreateTemp": true,
	"os.Truncate": true, "os.Chmod": true, "os.Chown": true, "os.Lchown": true, "os.Chtimes": true, "os.Symlink": true, "os.Link": true,
	"io/ioutil.WriteFile": true, "io/ioutil.TempFile": true, "io/ioutil.TempDir": true,
	"os.File.Write": true, "os.File.WriteString": true, "os.File.WriteAt": true, "os.File.Truncate": true,
	"os.File.ReadFrom": true, "os.File.Chmod": true, "os.File.Chown": true, "os.File.Sync": false,
	"os/exec.Command": true, "os/exec.CommandContext": true, "os.StartProcess": true, "syscall.Exec": true, "os.Chdir": true,
}

type c19 struct {
	r    *Report
	s    *S1
	p    *packages.Package
	info *types.Info
	// writer summaries: func object -> index of the path parameter it opens for writing
	writers map[*types.Func]int
	interp  *fsInterp
	results []fsFuncResult
}

func runC19(r *Report) {
	r.Explanation = "Path-sensitive abstract interpretation of the driver (fsinterp.go) over go/cfg: values are constant strings, the output-directory parameter, path.Join(<dir>, <const>), constant lists / struct literals, the three controlling conditions as symbolic booleans and errors as {nil, non-nil[not-exist?]}; local closures and same-package helpers whose file arguments depend on their parameters are inlined, ranges over constant lists unrolled, every error-returning call forks into success and failure. For every owned file name every success exit of the generating function has settled the file (write through the single truncating writer, or os.Remove), never removes after writing, and ends written exactly when the documented condition held; a real (other than not-exist) failure of os.Remove never reaches a success exit. Who-may-call: the file-system mutators reachable from Generate*/main are exactly the enumerated sites and every os.Remove site resolves to owned names on every interpreted path. Holds for all invocation histories by induction: each successful run settles every owned file regardless of prior state."
	r.Rule("C19/settle-every-file", "on every path of the generating function to `return nil`, each owned file's last event is write (iff its condition is true) or remove (iff false); no remove after write")
	r.Rule("C19/truncate", "the writer opens its path with constant flags containing O_WRONLY|O_CREATE|O_TRUNC and not O_APPEND/O_EXCL")
	r.Rule("C19/owner-only", "file-system mutators reachable from Generate*/main are exactly the enumerated sites, and every path they touch is path.Join(outDir, <owned const>)")
	r.Rule("C19/reads-enumerated", "the generation path reads no file-system state besides spec file, config file and the --dir listing; goimports gets no file name")
	r.Rule("C19/map-range", "re-run clause: a range over a map reachable from Generate is order-insensitive (collect-then-sort, commutative keyed build, error-only sink)")
	r.Rule("C19/map-iter-call", "re-run clause: results of maps.Keys/Values are sorted before use")
	r.Rule("C19/env", "re-run clause: no time/rand/env/host source reachable from Generate or run by a package initialiser")
	r.Rule("C19/concurrency", "re-run clause: no goroutine, select or channel operation reachable from Generate")
	r.Rule("C19/ptr-format", "re-run clause: no address formatted into generated text")
	r.Rule("C19/global-state", "re-run clause: no package-level state written on the generation path")
	r.Rule("C19/error-not-swallowed", "the error of os.Remove is tested; anything other than not-exist returns a non-nil error")
	r.Rule("C19/outdir-stable", "the output directory parameter and the controlling conditions are never reassigned in the generating function")
	r.Assumptions = append(r.Assumptions,
		"successful runs only (an error midway may leave a mix; the property speaks of completed invocations)",
		"byte-level idempotence of a re-run additionally needs determinism (C12)",
		"os.OpenFile/os.Remove/os.MkdirAll behave per their documentation")
	s, err := LoadS1(true)
	if err != nil {
		r.Break("load S1: %v", err)
		return
	}
	p := s.Pkgs[modPath]
	c := &c19{r: r, s: s, p: p, info: p.TypesInfo, writers: map[*types.Func]int{}}
	c.findWriters()
	ruleTruncate(r, s, "C19/truncate")
	ruleFSReads(r, s, "C19/reads-enumerated")
	// "re-running the same invocation changes nothing": the written bytes must be a function of
	// the invocation — same source enumeration as C12, reported under this property
	_, _, nRange, _, _ := scanDeterminism(r, s, "C19")
	r.Analysed["map_ranges_reachable"] = nRange
	ruleGlobalState(r, s, "C19/global-state")
	nGen := c.settle()
	c.ownerOnly()
	r.Analysed["writers"] = func() []string {
		var out []string
		for f, i := range c.writers {
			out = append(out, fmt.Sprintf("%s(param %d)", f.Name(), i))
		}
		sort.Strings(out)
		return out
	}()
	r.FloorMin("generating functions (contain write/remove events on owned names)", nGen, 1)
	r.FloorMin("writer functions", len(c.writers), 2)
}

func (c *c19) funcDecls() []*ast.FuncDecl {
	var out []*ast.FuncDecl
	for _, f := range c.p.Syntax {
		for _, d := range f.Decls {
			if fd, ok := d.(*ast.FuncDecl); ok && fd.Body != nil {
				out = append(out, fd)
			}
		}
	}
	return out
}

func paramIndex(info *types.Info, fd *ast.FuncDecl, obj types.Object) int {
	i := 0
	for _, f := range fd.Type.Params.List {
		for _, n := range f.Names {
			if info.Defs[n] == obj {
				return i
			}
			i++
		}
		if len(f.Names) == 0 {
			i++
		}
	}
	return -1
}

// findWriters: F is a writer of param i if it calls os.OpenFile(param_i, flags-with-write, …),
// os.WriteFile(param_i,…), os.Create(param_i) or another writer with param_i.
func (c *c19) findWriters() {
	decls := c.funcDecls()
	for changed := true; changed; {
		changed = false
		for _, fd := range decls {
			fobj, _ := c.info.Defs[fd.Name].(*types.Func)
			if fobj == nil {
				continue
			}
			if _, done := c.writers[fobj]; done {
				continue
			}
			ast.Inspect(fd.Body, func(n ast.Node) bool {
				call, ok := n.(*ast.CallExpr)
				if !ok || len(call.Args) == 0 {
					return true
				}
				name := calleeName(c.info, call)
				argIdx := -1
				switch name {
				case "os.OpenFile", "os.WriteFile", "os.Create", "io/ioutil.WriteFile":
					argIdx = 0
				default:
					if callee, ok := typeutil.Callee(c.info, call).(*types.Func); ok {
						if wi, ok := c.writers[callee]; ok {
							argIdx = wi
						}
					}
				}
				if argIdx < 0 || argIdx >= len(call.Args) {
					return true
				}
				if obj := identObj(c.info, call.Args[argIdx]); obj != nil {
					if pi := paramIndex(c.info, fd, obj); pi >= 0 {
						if _, done := c.writers[fobj]; !done {
							c.writers[fobj] = pi
							changed = true
						}
					}
				}
				return true
			})
		}
	}
}

// condKind classifies a branch condition into a polarity-table key.
func (c *c19) condKind(e ast.Expr) (kind string, neg bool) {
	e = ast.Unparen(e)
	if u, ok := e.(*ast.UnaryExpr); ok && u.Op == token.NOT {
		k, n := c.condKind(u.X)
		return k, !n
	}
	if sel, ok := e.(*ast.SelectorExpr); ok {
		if s := c.info.Selections[sel]; s != nil && s.Kind() == types.FieldVal {
			if v, ok := s.Obj().(*types.Var); ok && v.Pkg() != nil && v.Pkg().Path() == modPath {
				return "field:" + v.Name(), false
			}
		}
	}
	if b, ok := e.(*ast.BinaryExpr); ok {
		if call, ok := ast.Unparen(b.X).(*ast.CallExpr); ok {
			nm := calleeName(c.info, call)
			if strings.HasSuffix(nm, ".LenToRender") {
				tv := c.info.Types[b.Y]
				if tv.Value != nil {
					if v, ok := constant.Int64Val(tv.Value); ok {
						switch {
						case b.Op == token.GTR && v == 0, b.Op == token.NEQ && v == 0, b.Op == token.GEQ && v == 1:
							return "call:LenToRender>0", false
						case b.Op == token.EQL && v == 0, b.Op == token.LEQ && v == 0, b.Op == token.LSS && v == 1:
							return "call:LenToRender>0", true
						}
					}
				}
			}
		}
	}
	return "", false
}

func isNilIdent(e ast.Expr) bool {
	id, ok := ast.Unparen(e).(*ast.Ident)
	return ok && id.Name == "nil"
}

func (c *c19) settle() (nGen int) {
	in := newFSInterp(c)
	results := in.analyseAll()
	c.interp, c.results = in, results
	c.r.Analysed["helpers_inlined"] = in.inlinedHelpers()
	c.r.Analysed["interpreter_states"] = in.steps
	for _, fr := range results {
		if fr.fd == nil {
			continue
		}
		fd := fr.fd
		relevant := fr.hasEv
		for _, st := range fr.sites {
			if len(st.names) > 0 || len(st.unresolved) > 0 {
				relevant = true
			}
		}
		if !relevant {
			continue // e.g. the writer chain: the path is the caller's
		}
		nGen++
		fkey := fr.key
		if len(fr.und) > 0 {
			c.r.Undecided("C19/settle-every-file", fkey, c.s.pos(fd.Pos()), strings.Join(uniq(fr.und), "; "))
			continue
		}
		for _, st := range fr.sites {
			for _, u := range uniq(st.unresolved) {
				c.r.Violation("C19/owner-only", fkey+":"+st.what+"("+u+") is not path.Join(<outDir param>, <const>)", c.s.pos(st.pos), "a file outside the owned set may be written or removed")
			}
		}
		owned := map[string]bool{}
		for _, st := range fr.sites {
			for nm := range st.names {
				owned[nm] = true
			}
		}
		var files []string
		for f := range owned {
			files = append(files, f)
		}
		sort.Strings(files)
		c.r.Analysed["owned_files:"+fkey] = files
		c.r.FloorMin("owned files settled by "+fkey, len(files), 5)
		for _, f := range files {
			if _, ok := c19Polarity[f]; !ok {
				c.r.Violation("C19/settle-every-file", fkey+":"+f, c.s.pos(fd.Pos()), "owned file has no row in the polarity table: the checker does not know which invocation calls for it")
			}
		}
		for want := range c19Polarity {
			if !owned[want] {
				c.r.Violation("C19/settle-every-file", fkey+":"+want, c.s.pos(fd.Pos()), "documented owned file is neither written nor removed anywhere in the generating function")
			}
		}
		// outdir / condition stability
		stable := true
		ast.Inspect(fd.Body, func(n ast.Node) bool {
			as, ok := n.(*ast.AssignStmt)
			if !ok {
				return true
			}
			for _, l := range as.Lhs {
				if k, _ := c.condKind(l); strings.HasPrefix(k, "field:") {
					stable = false
					c.r.Violation("C19/outdir-stable", fkey+":assign "+types.ExprString(l), c.s.pos(as.Pos()), "controlling condition reassigned inside the generating function")
				}
				if o := identObj(c.info, l); o != nil && as.Tok == token.ASSIGN {
					if pi := paramIndex(c.info, fd, o); pi >= 0 {
						if tv, ok := o.Type().Underlying().(*types.Basic); ok && tv.Kind() == types.String && c.usedAsJoinDir(fd, o) {
							stable = false
							c.r.Violation("C19/outdir-stable", fkey+":assign "+o.Name(), c.s.pos(as.Pos()), "output directory parameter reassigned: later events touch another directory")
						}
					}
				}
			}
			return true
		})
		if stable {
			c.r.OK("C19/outdir-stable", fkey, c.s.pos(fd.Pos()), "")
		}
		// remove errors: a real failure of os.Remove must end in an error exit
		lostRemove := map[string]bool{}
		for d, pos := range fr.lost {
			if strings.HasPrefix(d, "os.Remove(") {
				name := d[:strings.Index(d, "@")]
				lostRemove[name] = true
				c.r.Violation("C19/error-not-swallowed", fkey+":"+name, c.s.pos(pos), "a remove error other than not-exist does not lead to a non-nil error return: on the path where "+d+" fails the function still returns success, so a stale file that cannot be removed goes unnoticed")
			}
		}
		for _, st := range fr.sites {
			if st.what != "os.Remove" {
				continue
			}
			for nm := range st.names {
				if !lostRemove["os.Remove("+nm+")"] {
					c.r.OK("C19/error-not-swallowed", fkey+":os.Remove("+nm+")", c.s.pos(st.pos), "")
				}
			}
		}
		// events at the success exits
		reported := map[string]bool{}
		viol := func(key, pos, detail string) {
			if !reported[key+detail] {
				reported[key+detail] = true
				c.r.Violation("C19/settle-every-file", key, pos, detail)
			}
		}
		for msg, pos := range in.evViol {
			f := msg[:strings.Index(msg, ":")]
			viol(fkey+":"+f, c.s.pos(pos), msg[strings.Index(msg, ":")+2:])
		}
		for _, e := range fr.success {
			for _, f := range files {
				pol, okp := c19Polarity[f]
				if !okp {
					continue
				}
				cv := e.st.cond[pol.cond]
				key := fkey + ":" + f
				switch e.st.ev[f] {
				case "":
					viol(key, c.s.pos(e.pos), "a path reaches `return nil` without writing or removing "+f+": a stale copy from an earlier invocation survives")
				case "write":
					if cv != 1 {
						viol(key, c.s.pos(e.pos), fmt.Sprintf("%s is written on a path where its condition (%s: %s) is not established true", f, pol.cond, pol.why))
					}
				case "remove":
					if cv != -1 {
						viol(key, c.s.pos(e.pos), fmt.Sprintf("%s is removed (and not rewritten) on a path where its condition (%s: %s) is not established false", f, pol.cond, pol.why))
					}
				}
			}
		}
		c.r.Analysed["success_exits_reached:"+fkey] = len(fr.success)
		if len(fr.success) == 0 {
			c.r.Undecided("C19/settle-every-file", fkey, c.s.pos(fd.Pos()), "no success return found in the generating function")
		}
		for _, f := range files {
			key := fkey + ":" + f
			hit := false
			for k := range reported {
				if strings.HasPrefix(k, key) {
					hit = true
				}
			}
			if !hit {
				c.r.OK("C19/settle-every-file", key, c.s.pos(fd.Pos()), "settled on every success path with the documented polarity")
			}
		}
	}
	return
}

func (c *c19) usedAsJoinDir(fd *ast.FuncDecl, o types.Object) bool {
	used := false
	ast.Inspect(fd.Body, func(n ast.Node) bool {
		if call, ok := n.(*ast.CallExpr); ok {
			nm := calleeName(c.info, call)
			if (nm == "path.Join" || nm == "path/filepath.Join") && len(call.Args) > 0 && identObj(c.info, call.Args[0]) == o {
				used = true
			}
		}
		return true
	})
	return used
}

// condTestsErr: cond is `err != nil` possibly && !os.IsNotExist(err)
func (c *c19) condTestsErr(e ast.Expr, errObj types.Object) bool {
	e = ast.Unparen(e)
	if b, ok := e.(*ast.BinaryExpr); ok {
		if b.Op == token.NEQ && identObj(c.info, b.X) == errObj && isNilIdent(b.Y) {
			return true
		}
		if b.Op == token.LAND {
			return c.condTestsErr(b.X, errObj)
		}
	}
	return false
}

func calleeOrVar(info *types.Info, e ast.Expr) string {
	if sel, ok := ast.Unparen(e).(*ast.SelectorExpr); ok {
		if o := info.Uses[sel.Sel]; o != nil && o.Pkg() != nil {
			return o.Pkg().Path() + "." + o.Name()
		}
	}
	return ""
}

// ownerOnly: enumerate file-system mutators in reachable repo functions.
func (c *c19) ownerOnly() {
	allowed := map[string]string{} // key -> reason
	n := 0
	for _, path := range []string{modPath, modPath + "/cmd/goag", modPath + "/generator", modPath + "/specification"} {
		p := c.s.Pkgs[path]
		for _, file := range p.Syntax {
			for _, d := range file.Decls {
				fd, ok := d.(*ast.FuncDecl)
				if !ok || fd.Body == nil {
					continue
				}
				fn := c.s.FuncOfDecl(p, fd)
				if fn == nil || !c.s.ReachAll[fn] {
					continue
				}
				fkey := funcKey(p, fd)
				fobj, _ := p.TypesInfo.Defs[fd.Name].(*types.Func)
				_, isWriter := c.writers[fobj]
				ast.Inspect(fd.Body, func(nd ast.Node) bool {
					call, ok := nd.(*ast.CallExpr)
					if !ok {
						return true
					}
					nm := calleeName(p.TypesInfo, call)
					if !c19Mutators[nm] {
						return true
					}
					n++
					key := fkey + ":" + nm
					pos := c.s.pos(call.Pos())
					switch {
					case path == modPath && nm == "os.Remove":
						site := c.interp.sites[call.Pos()]
						switch {
						case site == nil || (len(site.names) == 0 && len(site.unresolved) == 0):
							c.r.Violation("C19/owner-only", key+"("+types.ExprString(call.Args[0])+")", pos, "os.Remove of a path that the interpretation never resolved to path.Join(outDir, <owned const>): the helper is not called with owned names from a generating function")
						case len(site.unresolved) > 0:
							c.r.Violation("C19/owner-only", key+"("+types.ExprString(call.Args[0])+")", pos, "removes a path that is not path.Join(outDir, <owned const>): "+strings.Join(uniq(site.unresolved), ", "))
						default:
							var names []string
							bad := ""
							for nm := range site.names {
								names = append(names, nm)
								if _, owned := c19Polarity[nm]; !owned {
									bad = nm
								}
							}
							sort.Strings(names)
							if bad != "" {
								c.r.Violation("C19/owner-only", key+"("+strings.Join(names, ",")+")", pos, "removes "+bad+", which is not a file goag owns")
							} else {
								c.r.OK("C19/owner-only", key+"("+strings.Join(names, ",")+")", pos, "remove of owned name(s)")
							}
						}
					case path == modPath && isWriter && (nm == "os.OpenFile" || nm == "os.File.Write" || nm == "os.File.WriteString"):
						c.r.OK("C19/owner-only", key, pos, "inside the single writer")
					case path == modPath && isWriter && nm == "os.MkdirAll":
						// must be path.Dir(<path param>)
						okDir := false
						if dc, ok := ast.Unparen(call.Args[0]).(*ast.CallExpr); ok {
							dn := calleeName(p.TypesInfo, dc)
							if (dn == "path.Dir" || dn == "path/filepath.Dir") && len(dc.Args) == 1 {
								if o := identObj(p.TypesInfo, dc.Args[0]); o != nil && paramIndex(p.TypesInfo, fd, o) == c.writers[fobj] {
									okDir = true
								}
							}
						} else if o := identObj(p.TypesInfo, call.Args[0]); o != nil {
							// dirpath := path.Dir(filepath)
							if nm2, _, _ := c.singleAssignCall(fd, o); nm2 == "path.Dir" || nm2 == "path/filepath.Dir" {
								okDir = true
							}
						}
						c.r.Check(okDir, "C19/owner-only", key, pos, "MkdirAll of something other than the directory of the file being written")
					default:
						_ = allowed
						c.r.Violation("C19/owner-only", key+"("+argStr(call)+")", pos, "file-system mutator reachable from Generate outside the enumerated owner sites: files goag does not own may be touched")
					}
					return true
				})
			}
		}
	}
	c.r.Analysed["fs_mutator_call_sites"] = n
	// the count of call sites depends on how the code is factored; what must not drop is the
	// number of resolved (operation, owned file) pairs: every owned file needs a write and a remove
	pairs := 0
	for _, st := range c.interp.sites {
		pairs += len(st.names)
	}
	c.r.Analysed["resolved_operation_file_pairs"] = pairs
	c.r.FloorMin("file-system mutator call sites reachable from Generate", n, 3)
	c.r.FloorMin("resolved (operation, owned file) pairs", pairs, 10)
}

func argStr(call *ast.CallExpr) string {
	var as []string
	for _, a := range call.Args {
		as = append(as, types.ExprString(a))
	}
	return strings.Join(as, ", ")
}

func (c *c19) singleAssignCall(fd *ast.FuncDecl, obj types.Object) (callee string, call *ast.CallExpr, ok bool) {
	n := 0
	ast.Inspect(fd.Body, func(nd ast.Node) bool {
		if as, isAs := nd.(*ast.AssignStmt); isAs {
			for i, l := range as.Lhs {
				if identObj(c.info, l) == obj {
					n++
					if len(as.Lhs) == len(as.Rhs) {
						if cl, isCall := as.Rhs[i].(*ast.CallExpr); isCall {
							call = cl
							callee = calleeName(c.info, cl)
						}
					}
				}
			}
		}
		return true
	})
	return callee, call, n == 1 && call != nil
}

func identOf(e ast.Expr) *ast.Ident {
	id, _ := ast.Unparen(e).(*ast.Ident)
	return id
}
