package main

// authcomb.go — path-sensitive abstract interpretation of the OR-combinator.
//
// What C11 (and C14/one-response) need from authMiddlewareOr is a behaviour,
// not a statement list:
//   * next.ServeHTTP(w, X) is executed at most once, and only with an X that an
//     authenticator of the list returned together with ok == true for the
//     incoming request;
//   * otherwise exactly one w.WriteHeader(401), and only after every non-nil
//     authenticator of the list was consulted and none accepted;
//   * a nil authenticator is never called.
// The handler body (and any package-level helper it delegates the loop to) is
// interpreted over its structured statements with a small abstract state; every
// path must end in one of the two outcomes. Unknown statements or conditions
// make the result undecided.

import (
	"fmt"
	"go/ast"
	"go/token"
	"go/types"

	"golang.org/x/tools/go/types/typeutil"
)

type acState struct {
	accepted  map[types.Object]bool // request variables returned with ok == true
	pend      map[types.Object]types.Object
	helperOK  map[types.Object]bool // ok variables that come from a summarised helper
	served    int
	wrote     int
	sawAccept bool
	triedAll  bool
	// per loop iteration
	inLoop    bool
	fnNonNil  bool
	fnIsNil   bool
	triedThis bool
}

func (s acState) clone() acState {
	n := s
	n.accepted = map[types.Object]bool{}
	for k, v := range s.accepted {
		n.accepted[k] = v
	}
	n.pend = map[types.Object]types.Object{}
	for k, v := range s.pend {
		n.pend[k] = v
	}
	n.helperOK = map[types.Object]bool{}
	for k, v := range s.helperOK {
		n.helperOK[k] = v
	}
	return n
}

type acFlow int

const (
	acNext acFlow = iota
	acContinue
	acBreak
	acReturn
)

type acOut struct {
	st   acState
	flow acFlow
	ret  []ast.Expr
}

type acInterp struct {
	p         *Program
	info      *types.Info
	c         *rmCtx
	w, req    types.Object // handler writer / request (nil in a helper: req is the helper's request param)
	next      types.Object
	fns       types.Object // the authenticator list
	fn        types.Object // current loop element
	problems  []string
	undecided string
	helpers   map[*types.Func]bool // validated helper summaries
	depth     int
}

func (a *acInterp) und(format string, args ...any) {
	if a.undecided == "" {
		a.undecided = fmt.Sprintf(format, args...)
	}
}

func (a *acInterp) problem(format string, args ...any) {
	a.problems = append(a.problems, fmt.Sprintf(format, args...))
}

func (a *acInterp) exec(list []ast.Stmt, in acState) []acOut {
	cur := []acState{in}
	var outs []acOut
	for _, st := range list {
		var nextStates []acState
		for _, s := range cur {
			for _, o := range a.stmt(st, s) {
				if o.flow == acNext {
					nextStates = append(nextStates, o.st)
				} else {
					outs = append(outs, o)
				}
			}
		}
		cur = nextStates
		if a.undecided != "" || len(cur) == 0 {
			break
		}
		if len(cur) > 64 {
			a.und("too many paths")
			break
		}
	}
	for _, s := range cur {
		outs = append(outs, acOut{st: s, flow: acNext})
	}
	return outs
}

func (a *acInterp) stmt(st ast.Stmt, s acState) []acOut {
	switch x := st.(type) {
	case *ast.EmptyStmt:
		return []acOut{{st: s}}
	case *ast.BlockStmt:
		return a.exec(x.List, s)
	case *ast.DeclStmt:
		return []acOut{{st: s}}
	case *ast.BranchStmt:
		switch x.Tok {
		case token.CONTINUE:
			return []acOut{{st: s, flow: acContinue}}
		case token.BREAK:
			return []acOut{{st: s, flow: acBreak}}
		}
		a.und("unsupported branch statement")
	case *ast.ReturnStmt:
		return []acOut{{st: s, flow: acReturn, ret: x.Results}}
	case *ast.AssignStmt:
		if len(x.Lhs) == 2 && len(x.Rhs) == 1 {
			call, ok := ast.Unparen(x.Rhs[0]).(*ast.CallExpr)
			if !ok {
				a.und("unsupported two-value assignment")
				return nil
			}
			reqV, okV := identObj(a.info, x.Lhs[0]), identObj(a.info, x.Lhs[1])
			if reqV == nil || okV == nil {
				a.und("authenticator results are not bound to variables")
				return nil
			}
			n := s.clone()
			if sel, isSel := call.Fun.(*ast.SelectorExpr); isSel && sel.Sel.Name == "Auth" && len(call.Args) == 1 {
				if a.fn == nil || identObj(a.info, sel.X) != a.fn {
					a.und("Auth is called on something other than the current element of the authenticator list")
					return nil
				}
				if !a.c.isObj(call.Args[0], a.req) {
					a.problem("an authenticator is not called with the incoming request")
				}
				if !s.fnNonNil {
					a.problem("an authenticator is called without having been tested for nil: a nil entry panics")
				}
				n.triedThis = true
				n.pend[okV] = reqV
				delete(n.accepted, reqV)
				return []acOut{{st: n}}
			}
			// a summarised helper
			if fo, _ := typeutil.Callee(a.info, call).(*types.Func); fo != nil && a.helperValid(fo, call) {
				n.pend[okV] = reqV
				n.helperOK[okV] = true
				delete(n.accepted, reqV)
				return []acOut{{st: n}}
			}
			a.und("unsupported call %s in the combinator", types.ExprString(call.Fun))
			return nil
		}
		// plain local bindings are irrelevant unless they touch tracked variables
		for _, l := range x.Lhs {
			if o := identObj(a.info, l); o != nil && (s.accepted[o] || o == a.fn || o == a.req || o == a.w) {
				a.und("a tracked variable is reassigned")
				return nil
			}
		}
		for _, r := range x.Rhs {
			if hasCall(r) {
				a.und("unsupported call in an assignment of the combinator")
				return nil
			}
		}
		return []acOut{{st: s}}
	case *ast.ExprStmt:
		call, ok := x.X.(*ast.CallExpr)
		if !ok {
			a.und("unsupported expression statement")
			return nil
		}
		sel, _ := call.Fun.(*ast.SelectorExpr)
		if sel != nil && sel.Sel.Name == "ServeHTTP" && a.next != nil && a.c.isObj(sel.X, a.next) && len(call.Args) == 2 {
			n := s.clone()
			if !a.c.isObj(call.Args[0], a.w) {
				a.problem("next is served with a writer other than the handler's")
			}
			if o := identObj(a.info, call.Args[1]); o == nil || !s.accepted[o] {
				a.problem("next.ServeHTTP receives %s, which is not (on this path) the request an authenticator returned with ok == true", types.ExprString(call.Args[1]))
			}
			n.served++
			return []acOut{{st: n}}
		}
		if sel != nil && sel.Sel.Name == "WriteHeader" && a.w != nil && a.c.isObj(sel.X, a.w) && len(call.Args) == 1 {
			n := s.clone()
			if k, ok := a.c.constInt(call.Args[0]); !ok || k != 401 {
				a.problem("rejection status is not 401")
			}
			if s.sawAccept {
				a.problem("401 is written on a path where an authenticator accepted the request")
			}
			if !s.triedAll {
				a.problem("401 is written before every authenticator of the list was consulted")
			}
			n.wrote++
			return []acOut{{st: n}}
		}
		a.und("unsupported call %s in the combinator", types.ExprString(call.Fun))
	case *ast.IfStmt:
		if x.Init != nil {
			a.und("if with init statement (expected to be normalised)")
			return nil
		}
		tS, fS, ok := a.cond(x.Cond, s)
		if !ok {
			return nil
		}
		var outs []acOut
		if tS != nil {
			outs = append(outs, a.exec(x.Body.List, *tS)...)
		}
		if fS != nil {
			switch e := x.Else.(type) {
			case nil:
				outs = append(outs, acOut{st: *fS})
			case *ast.BlockStmt:
				outs = append(outs, a.exec(e.List, *fS)...)
			default:
				outs = append(outs, a.stmt(e, *fS)...)
			}
		}
		return outs
	case *ast.RangeStmt:
		if a.fns == nil || !a.c.isObj(x.X, a.fns) || x.Value == nil || a.fn != nil {
			a.und("loop is not a range over the authenticator list")
			return nil
		}
		a.fn = identObj(a.info, x.Value)
		it := s.clone()
		it.inLoop, it.fnNonNil, it.fnIsNil, it.triedThis = true, false, false, false
		outs := a.exec(x.Body.List, it)
		a.fn = nil
		var res []acOut
		completed := true
		var after *acState
		for _, o := range outs {
			switch o.flow {
			case acReturn:
				res = append(res, o)
			case acBreak:
				completed = false
				n := o.st.clone()
				after = &n
			default: // next / continue: the iteration ended without accepting
				if !o.st.triedThis && !o.st.fnIsNil {
					a.problem("an iteration can end without consulting a non-nil authenticator")
				}
				if o.st.sawAccept {
					a.problem("the loop goes on after an authenticator accepted")
				}
			}
		}
		n := s.clone()
		if after != nil {
			n = *after
		}
		n.inLoop, n.fnNonNil, n.fnIsNil, n.triedThis = false, false, false, false
		n.triedAll = completed
		res = append(res, acOut{st: n})
		return res
	default:
		a.und("unsupported statement %T in the combinator", st)
	}
	return nil
}

func hasCall(e ast.Expr) bool {
	found := false
	ast.Inspect(e, func(n ast.Node) bool {
		if c, ok := n.(*ast.CallExpr); ok {
			if id, isId := c.Fun.(*ast.Ident); !isId || (id.Name != "len" && id.Name != "cap") {
				found = true
			}
		}
		return true
	})
	return found
}

// cond splits a state on a condition; nil = branch infeasible.
func (a *acInterp) cond(e ast.Expr, s acState) (t, f *acState, ok bool) {
	e = ast.Unparen(e)
	if u, isU := e.(*ast.UnaryExpr); isU && u.Op == token.NOT {
		t2, f2, ok := a.cond(u.X, s)
		return f2, t2, ok
	}
	if o := identObj(a.info, e); o != nil {
		if reqV, isPend := s.pend[o]; isPend {
			ts, fs := s.clone(), s.clone()
			ts.accepted[reqV] = true
			ts.sawAccept = true
			if s.helperOK[o] {
				fs.triedAll = true
			}
			return &ts, &fs, true
		}
	}
	if be, isB := e.(*ast.BinaryExpr); isB && (be.Op == token.EQL || be.Op == token.NEQ) && isNilIdent(be.Y) {
		if a.fn != nil && identObj(a.info, be.X) == a.fn {
			isNil, notNil := s.clone(), s.clone()
			isNil.fnIsNil = true
			notNil.fnNonNil = true
			if be.Op == token.EQL {
				return &isNil, &notNil, true
			}
			return &notNil, &isNil, true
		}
	}
	a.und("condition %s is not one the combinator analysis understands", types.ExprString(e))
	return nil, nil, false
}

// helperValid: the callee is a package-level func(…*http.Request…, …list…) (*http.Request, bool)
// that returns (x, true) only for an accepted x and (_, false) only after consulting every entry;
// the call passes the incoming request and the authenticator list.
func (a *acInterp) helperValid(fo *types.Func, call *ast.CallExpr) bool {
	if a.depth > 1 {
		return false
	}
	fd := declOfObj(a.p, fo)
	if fd == nil || fd.Recv != nil || fd.Body == nil {
		return false
	}
	sig := fo.Type().(*types.Signature)
	if sig.Results().Len() != 2 || !types.Identical(sig.Results().At(1).Type(), types.Typ[types.Bool]) {
		return false
	}
	ps := paramObjs(a.info, fd)
	var hreq, hfns types.Object
	for i, po := range ps {
		if i >= len(call.Args) {
			return false
		}
		switch {
		case a.c.isObj(call.Args[i], a.req):
			hreq = po
		case a.c.isObj(call.Args[i], a.fns):
			hfns = po
		}
	}
	if hreq == nil || hfns == nil {
		return false
	}
	if v, done := a.helpers[fo]; done {
		return v
	}
	h := &acInterp{p: a.p, info: a.info, c: a.c, req: hreq, fns: hfns, helpers: a.helpers, depth: a.depth + 1}
	outs := h.exec(fd.Body.List, acState{accepted: map[types.Object]bool{}, pend: map[types.Object]types.Object{}, helperOK: map[types.Object]bool{}})
	valid := h.undecided == "" && len(h.problems) == 0
	for _, o := range outs {
		if o.flow != acReturn || len(o.ret) != 2 {
			valid = false
			continue
		}
		tv := a.info.Types[o.ret[1]]
		if tv.Value == nil {
			valid = false
			continue
		}
		if tv.Value.String() == "true" {
			if x := identObj(a.info, o.ret[0]); x == nil || !o.st.accepted[x] {
				valid = false
			}
		} else if !o.st.triedAll || o.st.sawAccept {
			valid = false
		}
	}
	if !valid && h.undecided != "" {
		a.und("helper %s: %s", fo.Name(), h.undecided)
	}
	for _, pr := range h.problems {
		a.problem("helper %s: %s", fo.Name(), pr)
	}
	a.helpers[fo] = valid
	return valid
}

// analyseAuthHandler interprets the inner handler body of the combinator.
func analyseAuthHandler(p *Program, c *rmCtx, body *ast.BlockStmt, w, req, next, fns types.Object) (why string) {
	a := &acInterp{p: p, info: p.Pkg.TypesInfo, c: c, w: w, req: req, next: next, fns: fns, helpers: map[*types.Func]bool{}}
	outs := a.exec(body.List, acState{accepted: map[types.Object]bool{}, pend: map[types.Object]types.Object{}, helperOK: map[types.Object]bool{}})
	if a.undecided != "" {
		return "authMiddlewareOr: " + a.undecided
	}
	for _, o := range outs {
		if o.flow == acBreak || o.flow == acContinue {
			a.problem("break/continue outside the loop")
		}
		if !(o.st.served == 1 && o.st.wrote == 0) && !(o.st.served == 0 && o.st.wrote == 1) {
			a.problem("a path ends with next served %d time(s) and 401 written %d time(s): exactly one of the two is required", o.st.served, o.st.wrote)
		}
	}
	if len(a.problems) > 0 {
		return "authMiddlewareOr: " + a.problems[0]
	}
	return ""
}
