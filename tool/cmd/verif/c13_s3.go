package main

// C13 (S3 part): the generated package serves exactly the embedded constant,
// and the constant's value (go/constant evaluation, no execution) equals the
// input file for every corpus program.

import (
	"go/ast"
	"go/constant"
	"go/token"
	"go/types"
	"os"
	"strings"
)

func runC13S3(r *Report) {
	r.Rule("C13/const-equals-file", "the compile-time value of the generated SpecFile constant (go/constant) equals the bytes of the input spec file, for every corpus program (incl. CR/LF, backtick, backslash, one-line specs)")
	r.Rule("C13/serve", "SpecFileHandler writes the package-level []byte(SpecFile) once after status 200; specFileBs is never reassigned; ServeHTTP's spec branch (SpecFileHandler != nil && path == <base>/<spec name>) precedes routing and middlewares and returns")
	s3, progs := loadRouted(r, "C13", S3Options{TemplateDebug: false})
	if s3 == nil {
		return
	}
	defer s3.Close()
	n := 0
	for _, rp := range progs {
		p, m, o := rp.P, rp.M, rp.O
		info := p.Pkg.TypesInfo
		key := p.Name
		// constant value
		k, _ := p.Pkg.Types.Scope().Lookup("SpecFile").(*types.Const)
		raw, err := os.ReadFile(p.SpecPath)
		if k == nil || err != nil || k.Val().Kind() != constant.String {
			r.Undecided("C13/const-equals-file", key, "", "SpecFile constant or spec file not found")
			continue
		}
		n++
		val := constant.StringVal(k.Val())
		if val == string(raw) {
			r.OK("C13/const-equals-file", key, "", "")
		} else {
			i := 0
			for i < len(val) && i < len(raw) && val[i] == raw[i] {
				i++
			}
			r.Violation("C13/const-equals-file", key, "", "the embedded constant differs from the input file at byte offset "+itoa(i)+" (lengths "+itoa(len(val))+" vs "+itoa(len(raw))+")")
		}
		// serve branch
		sm := m.Serve
		if len(sm.Undecided) > 0 {
			r.Undecided("C13/serve", key+":API.ServeHTTP", s3.pos(sm.Decl.Pos()), strings.Join(sm.Undecided, "; "))
		} else {
			want := o.BasePath + "/" + p.SpecHandlerName
			r.Check(sm.SpecConst == want && sm.SpecNilGuard && sm.SpecBeforeRoute && sm.SpecReturns, "C13/serve", key+":API.ServeHTTP", s3.pos(sm.Decl.Pos()),
				"spec route constant is "+sm.SpecConst+", expected "+want+" (base path + '/' + spec name), guarded by SpecFileHandler != nil, before route() and returning")
		}
		// handler
		fd := p.funcDecl("", "SpecFileHandler")
		if fd == nil {
			r.Undecided("C13/serve", key+":SpecFileHandler", "", "not found")
			continue
		}
		why, bsObj := specHandlerShape(p, fd)
		if why == "" {
			r.OK("C13/serve", key+":SpecFileHandler", s3.pos(fd.Pos()), "")
		} else {
			r.Undecided("C13/serve", key+":SpecFileHandler", s3.pos(fd.Pos()), why)
		}
		// specFileBs: defined as []byte(SpecFile), never assigned
		okInit, assigned := false, false
		for _, f := range p.Pkg.Syntax {
			ast.Inspect(f, func(nd ast.Node) bool {
				switch x := nd.(type) {
				case *ast.ValueSpec:
					for i, nm := range x.Names {
						if info.Defs[nm] == bsObj && bsObj != nil && i < len(x.Values) {
							if call, ok := x.Values[i].(*ast.CallExpr); ok && len(call.Args) == 1 {
								if tv, ok := info.Types[call.Fun]; ok && tv.IsType() && identObj(info, call.Args[0]) == types.Object(k) {
									okInit = true
								}
							}
						}
					}
				case *ast.AssignStmt:
					for _, l := range x.Lhs {
						root := l
						for {
							if ix, ok := root.(*ast.IndexExpr); ok {
								root = ix.X
								continue
							}
							if sl, ok := root.(*ast.SliceExpr); ok {
								root = sl.X
								continue
							}
							break
						}
						if bsObj != nil && identObj(info, root) == types.Object(bsObj) {
							assigned = true
						}
					}
				case *ast.UnaryExpr:
					if x.Op == token.AND && bsObj != nil && identObj(info, x.X) == types.Object(bsObj) {
						assigned = true
					}
				}
				return true
			})
		}
		r.Check(bsObj != nil && okInit && !assigned, "C13/serve", key+":served bytes", "", "the package-level byte slice the handler serves is not initialised as []byte(SpecFile) or is written/aliased somewhere in the package")
	}
	r.FloorMin("programs with SpecFile constant", n, 40)
}

func itoa(i int) string {
	if i == 0 {
		return "0"
	}
	s := ""
	neg := i < 0
	if neg {
		i = -i
	}
	for i > 0 {
		s = string(rune('0'+i%10)) + s
		i /= 10
	}
	if neg {
		s = "-" + s
	}
	return s
}

// specHandlerShape: return http.HandlerFunc(func(rw, r) { rw.Header().Set(..); rw.WriteHeader(200); _, err := rw.Write(specFileBs); if err != nil { LogError(..) } })
func specHandlerShape(p *Program, fd *ast.FuncDecl) (string, *types.Var) {
	info := p.Pkg.TypesInfo
	c := &rmCtx{p: p, info: info}
	if len(fd.Body.List) != 1 {
		return "SpecFileHandler body is not a single return", nil
	}
	ret, ok := fd.Body.List[0].(*ast.ReturnStmt)
	if !ok || len(ret.Results) != 1 {
		return "SpecFileHandler body is not a single return", nil
	}
	conv, ok := ret.Results[0].(*ast.CallExpr)
	if !ok || len(conv.Args) != 1 {
		return "does not return http.HandlerFunc(func…)", nil
	}
	fl, ok := conv.Args[0].(*ast.FuncLit)
	if !ok {
		return "does not return http.HandlerFunc(func…)", nil
	}
	var names []*ast.Ident
	for _, f := range fl.Type.Params.List {
		names = append(names, f.Names...)
	}
	if len(names) != 2 {
		return "handler parameters", nil
	}
	rw := info.Defs[names[0]]
	var served *types.Var
	writes, headers, hdrIdx, wIdx, whIdx := 0, 0, -1, -1, -1
	for i, st := range fl.Body.List {
		ast.Inspect(st, func(nd ast.Node) bool {
			call, ok := nd.(*ast.CallExpr)
			if !ok {
				return true
			}
			sel, ok := call.Fun.(*ast.SelectorExpr)
			if !ok {
				return true
			}
			switch {
			case sel.Sel.Name == "Write" && c.isObj(sel.X, rw):
				writes++
				wIdx = i
				if len(call.Args) != 1 {
					writes += 100
					return true
				}
				o := identObj(info, call.Args[0])
				v, _ := o.(*types.Var)
				if v == nil || v.Parent() != p.Pkg.Types.Scope() {
					writes += 100
				} else {
					served = v
				}
			case sel.Sel.Name == "WriteHeader" && c.isObj(sel.X, rw):
				headers++
				whIdx = i
				if k, ok := c.constInt(call.Args[0]); !ok || k != 200 {
					headers += 100
				}
			case sel.Sel.Name == "Set" || sel.Sel.Name == "Add":
				hdrIdx = i
			}
			return true
		})
	}
	if writes != 1 {
		return "the handler does not write exactly once a package-level byte slice", nil
	}
	if headers != 1 {
		return "the handler does not call WriteHeader(200) exactly once", nil
	}
	if !(hdrIdx < whIdx && whIdx < wIdx) {
		return "order is not header, status, body", nil
	}
	return "", served
}
