package main

// runC13S3 is filled in once the S3 builder exists.
func runC13S3(r *Report) {}
