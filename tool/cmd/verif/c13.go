package main

// C13 — the embedded and served spec is the input spec, byte for byte.
// S1 rules: bytes-flow (the content handed to the literal encoder is the
// unmodified result of os.ReadFile of the spec file) and literal-by-quote
// (the Go literal is produced by strconv.Quote / %q, the functions whose
// contract is "an interpreted string literal denoting exactly these bytes").
// S3 rule (serve) lives in c13_s3.go.

import (
	"fmt"
	"go/ast"
	"go/constant"
	"go/token"
	"go/types"
	"golang.org/x/tools/go/ssa/ssautil"
	"sort"
	"strconv"
	"strings"

	"golang.org/x/tools/go/ssa"
)

type c13 struct {
	r *Report
	s *S1
	// visited guards against cycles in the backward trace
	visiting map[ssa.Value]bool
	origins  map[string]bool
	steps    int
}

func runC13(r *Report) {
	r.Explanation = "S1: SSA value-flow analysis of the generator. The text emitted after `const SpecFile string = ` must be strconv.Quote/AppendQuote/%q of a value that traces back — through parameters (all call-graph callers), closure captures and string/[]byte conversions only — to the first result of os.ReadFile(<spec file parameter>) (or to the exported API parameter). Any other instruction on the way (a call, a slice, a concatenation) is reported. This delegates clause (a) for ALL byte strings to strconv.Quote's contract. S3: in every instantiated package the spec handler serves the package-level []byte(SpecFile) with one Write after status 200, and ServeHTTP's spec branch precedes routing and middlewares (structural, on the generated router of every corpus program)."
	r.Rule("C13/params-used", "every parameter of package goag's functions on the generation path is used: no flag (spec handler name, base path, …) is silently replaced by another value")
	r.Rule("C13/literal-by-quote", "the Go literal for the spec content is produced by strconv.Quote / strconv.AppendQuote / fmt.Sprintf(\"%q\") on every path, concatenated only with quote-free constants")
	r.Rule("C13/bytes-flow", "the quoted value is the unmodified os.ReadFile result of the spec file: only parameter passing, closure capture and string/[]byte conversions on the way")
	r.Rule("C13/same-file", "the file read for embedding is the same path value that is handed to the OpenAPI loader")
	r.Rule("C13/always-rendered", "spec_file.go is rendered from the current spec bytes on every run that renders the router (no caching/skip of the write)")
	r.Assumptions = append(r.Assumptions,
		"strconv.Quote(s) returns a Go interpreted string literal whose value is exactly s (Go spec + strconv docs), and the compiler evaluates it to those bytes",
		"imports.Process (gofmt) does not alter string literal contents")
	s, err := LoadS1(true)
	if err != nil {
		r.Break("load S1: %v", err)
		return
	}
	c := &c13{r: r, s: s, visiting: map[ssa.Value]bool{}, origins: map[string]bool{}}
	c.run()
	runC13S3(r)
}

func constString(v ssa.Value) (string, bool) {
	k, ok := v.(*ssa.Const)
	if !ok || k.Value == nil || k.Value.Kind() != constant.String {
		return "", false
	}
	return constant.StringVal(k.Value), true
}

func (c *c13) run() {
	gen := c.s.SSA[modPath+"/generator"]
	// literal sites: functions of package generator with a string concatenation
	// whose constant operand declares SpecFile.
	nSites := 0
	var fns []*ssa.Function
	for fn := range c.s.ReachAll {
		if fn.Pkg == gen || (fn.Parent() != nil && fn.Parent().Pkg == gen) {
			fns = append(fns, fn)
		}
	}
	for _, fn := range fns {
		for _, b := range fn.Blocks {
			for _, ins := range b.Instrs {
				// fmt.Sprintf("const SpecFile string = %q", content): the same literal producer
				if call, isCall := ins.(*ssa.Call); isCall {
					if sc := call.Call.StaticCallee(); sc != nil && sc.String() == "fmt.Sprintf" && len(call.Call.Args) == 2 {
						if f, ok := constString(call.Call.Args[0]); ok && strings.Contains(f, "SpecFile") && strings.Contains(f, "const") {
							nSites++
							key := shortFn(fn) + ":SpecFile literal"
							rest := strings.Replace(f, "%q", "", 1)
							switch {
							case strings.Count(f, "%q") != 1 || strings.Contains(rest, "%"):
								c.r.Violation("C13/literal-by-quote", key, c.s.pos(call.Pos()), "the declaration is formatted with verbs other than a single %q")
							case strings.ContainsAny(rest, "\"`\\"):
								c.r.Violation("C13/literal-by-quote", key, c.s.pos(call.Pos()), "the format string contains quote/backslash characters around the %q literal")
							default:
								if v := variadicOperand(call.Call.Args[1], 0); v != nil && isStringOrBytes(v.Type()) {
									c.r.OK("C13/literal-by-quote", key, c.s.pos(call.Pos()), "fmt.Sprintf(… %q …) of a string operand = strconv.Quote")
									c.flow(v, key, 0)
								} else {
									c.r.Undecided("C13/literal-by-quote", key, c.s.pos(call.Pos()), "the %q operand is not a plain string/[]byte value")
								}
							}
						}
					}
					continue
				}
				bo, ok := ins.(*ssa.BinOp)
				if !ok || bo.Op != token.ADD {
					continue
				}
				ks, ok := constString(bo.X)
				if !ok || !strings.Contains(ks, "SpecFile") || !strings.Contains(ks, "const") {
					continue
				}
				nSites++
				key := shortFn(fn) + ":SpecFile literal"
				c.literal(bo.Y, key, fn, 0)
			}
		}
	}
	c.r.FloorMin("SpecFile literal sites", nSites, 1)
	var os []string
	for o := range c.origins {
		os = append(os, o)
	}
	c.paramsUsed()
	c.r.Analysed["content_origins"] = os
	c.r.Analysed["trace_steps"] = c.steps
	c.sameFile()
}

func shortFn(fn *ssa.Function) string {
	s := fn.String()
	s = strings.ReplaceAll(s, modPath+"/", "")
	s = strings.ReplaceAll(s, modPath, "goag")
	return s
}

// literal: v must be a quote call (possibly wrapped in a repo function that
// returns one, or concatenated with quote-free constants).
func (c *c13) literal(v ssa.Value, key string, in *ssa.Function, depth int) {
	pos := c.s.pos(v.Pos())
	if depth > 6 {
		c.r.Undecided("C13/literal-by-quote", key, pos, "literal producer nested too deep")
		return
	}
	switch v := v.(type) {
	case *ssa.BinOp:
		if v.Op == token.ADD {
			for _, op := range []ssa.Value{v.X, v.Y} {
				if ks, ok := constString(op); ok {
					if strings.ContainsAny(ks, "\"`\\") {
						c.r.Violation("C13/literal-by-quote", key, pos, fmt.Sprintf("literal is spliced together with the constant %q which contains quote/backslash characters: hand-rolled escaping", ks))
						return
					}
					continue
				}
				c.literal(op, key, in, depth+1)
			}
			return
		}
	case *ssa.Phi:
		for _, e := range v.Edges {
			c.literal(e, key, in, depth+1)
		}
		return
	case *ssa.Call:
		callee := v.Call.StaticCallee()
		if callee == nil {
			c.r.Violation("C13/literal-by-quote", key, pos, "literal produced by a dynamic call")
			return
		}
		name := callee.String()
		switch name {
		case "strconv.Quote":
			c.r.OK("C13/literal-by-quote", key, pos, "strconv.Quote")
			c.flow(v.Call.Args[0], key, 0)
			return
		case "fmt.Sprintf":
			if f, ok := constString(v.Call.Args[0]); ok && f == "%q" {
				c.r.OK("C13/literal-by-quote", key, pos, "fmt.Sprintf(%q)")
				// variadic arg: slice of interface; trace its single element
				c.r.Undecided("C13/bytes-flow", key, pos, "content passed through fmt variadic: tracer does not follow interface boxing; use strconv.Quote")
				return
			}
		}
		if callee.Pkg != nil && isRepoPkg(callee.Pkg.Pkg.Path()) && callee.Blocks != nil {
			// follow into the repo function: every return value must be a literal of a parameter
			n := 0
			for _, b := range callee.Blocks {
				for _, ins := range b.Instrs {
					if ret, ok := ins.(*ssa.Return); ok && len(ret.Results) >= 1 {
						n++
						c.literal(ret.Results[0], key, callee, depth+1)
					}
				}
			}
			if n == 0 {
				c.r.Undecided("C13/literal-by-quote", key, pos, "callee "+name+" has no return")
			}
			return
		}
		c.r.Violation("C13/literal-by-quote", key, pos, "literal is produced by "+name+", not by strconv.Quote: escaping of arbitrary bytes is not guaranteed")
		return
	}
	c.r.Violation("C13/literal-by-quote", key, pos, fmt.Sprintf("literal is computed by %T (%s) in %s: hand-rolled quoting cannot be shown correct for all byte strings (e.g. CR in a raw string, backslash or control bytes in a quoted one)", v, v.String(), shortFn(in)))
}

// flow traces content backwards to its origin.
func (c *c13) flow(v ssa.Value, key string, depth int) {
	c.steps++
	pos := c.s.pos(v.Pos())
	if depth > 40 {
		c.r.Undecided("C13/bytes-flow", key, pos, "trace too deep")
		return
	}
	if c.visiting[v] {
		return
	}
	c.visiting[v] = true
	defer delete(c.visiting, v)
	bad := func(detail string) {
		c.r.Violation("C13/bytes-flow", key, pos, detail)
	}
	switch v := v.(type) {
	case *ssa.Convert:
		// string <-> []byte only
		if isStringOrBytes(v.Type()) && isStringOrBytes(v.X.Type()) {
			c.flow(v.X, key, depth+1)
			return
		}
		bad("conversion " + v.X.Type().String() + " -> " + v.Type().String() + " on the content path")
	case *ssa.ChangeType:
		c.flow(v.X, key, depth+1)
	case *ssa.Phi:
		for _, e := range v.Edges {
			c.flow(e, key, depth+1)
		}
	case *ssa.Extract:
		call, ok := v.Tuple.(*ssa.Call)
		if ok && call.Call.StaticCallee() != nil && call.Call.StaticCallee().String() == "os.ReadFile" && v.Index == 0 {
			c.origins["os.ReadFile("+call.Call.Args[0].Name()+") in "+shortFn(call.Parent())] = true
			c.r.OK("C13/bytes-flow", key+" <- os.ReadFile in "+shortFn(call.Parent()), c.s.pos(call.Pos()), "content is the unmodified file")
			return
		}
		bad("content comes from " + v.Tuple.String() + ", not from os.ReadFile")
	case *ssa.Parameter:
		fn := v.Parent()
		idx := -1
		for i, p := range fn.Params {
			if p == v {
				idx = i
			}
		}
		node := c.s.CG.Nodes[fn]
		nIn := 0
		if node != nil {
			for _, e := range node.In {
				if e.Site == nil {
					continue
				}
				cc := e.Site.Common()
				args := cc.Args
				ai := idx
				if cc.IsInvoke() {
					ai = idx - 1
				}
				if ai < 0 || ai >= len(args) {
					continue
				}
				nIn++
				c.flow(args[ai], key, depth+1)
			}
		}
		if nIn == 0 {
			if fn.Object() != nil && fn.Object().Exported() {
				c.origins["API parameter "+v.Name()+" of "+shortFn(fn)] = true
				c.r.OK("C13/bytes-flow", key+" <- API parameter "+v.Name()+" of "+shortFn(fn), pos, "caller-supplied bytes")
				return
			}
			c.r.Undecided("C13/bytes-flow", key, pos, "parameter "+v.Name()+" of "+shortFn(fn)+" has no callers in the call graph")
		} else if fn.Object() != nil && fn.Object().Exported() && fn.Pkg != nil && fn.Pkg.Pkg.Path() == modPath {
			c.origins["API parameter "+v.Name()+" of "+shortFn(fn)] = true
		}
	case *ssa.UnOp:
		if v.Op == token.MUL {
			// load from a captured variable / local cell
			c.loadFrom(v.X, key, depth)
			return
		}
		bad("unary " + v.Op.String())
	case *ssa.Const:
		bad("content is the constant " + v.String())
	default:
		what := fmt.Sprintf("%T %s", v, v.String())
		if call, ok := v.(*ssa.Call); ok && call.Call.StaticCallee() != nil {
			what = "a call to " + call.Call.StaticCallee().String()
		}
		bad("the spec content passes through " + what + " before it is embedded: the constant no longer equals the input file")
	}
}

func isStringOrBytes(t types.Type) bool {
	switch u := t.Underlying().(type) {
	case *types.Basic:
		return u.Kind() == types.String || u.Kind() == types.UntypedString
	case *types.Slice:
		b, ok := u.Elem().Underlying().(*types.Basic)
		return ok && b.Kind() == types.Byte
	}
	return false
}

func (c *c13) loadFrom(addr ssa.Value, key string, depth int) {
	pos := c.s.pos(addr.Pos())
	switch a := addr.(type) {
	case *ssa.FreeVar:
		fn := a.Parent()
		idx := -1
		for i, fv := range fn.FreeVars {
			if fv == a {
				idx = i
			}
		}
		parent := fn.Parent()
		n := 0
		if parent != nil {
			for _, b := range parent.Blocks {
				for _, ins := range b.Instrs {
					if mc, ok := ins.(*ssa.MakeClosure); ok && mc.Fn == fn && idx < len(mc.Bindings) {
						n++
						c.loadFrom(mc.Bindings[idx], key, depth+1)
					}
				}
			}
		}
		if n == 0 {
			c.r.Undecided("C13/bytes-flow", key, pos, "free variable "+a.Name()+" has no binding site")
		}
	case *ssa.Alloc:
		// every store into the cell is a possible value; any other use of the
		// address (besides loads and closure capture) is an escape
		n := 0
		for _, ref := range *a.Referrers() {
			switch ref := ref.(type) {
			case *ssa.Store:
				if ref.Addr == a {
					n++
					c.flow(ref.Val, key, depth+1)
				} else {
					c.r.Undecided("C13/bytes-flow", key, pos, "address of the content cell is stored elsewhere")
				}
			case *ssa.UnOp, *ssa.MakeClosure, *ssa.DebugRef:
			default:
				c.r.Undecided("C13/bytes-flow", key, c.s.pos(ref.Pos()), fmt.Sprintf("content cell %s escapes through %T", a.Name(), ref))
			}
		}
		// stores through the captured variable inside closures
		for _, b := range a.Parent().Blocks {
			for _, ins := range b.Instrs {
				if mc, ok := ins.(*ssa.MakeClosure); ok {
					for i, bnd := range mc.Bindings {
						if bnd == a {
							fv := mc.Fn.(*ssa.Function).FreeVars[i]
							for _, ref := range *fv.Referrers() {
								if st, ok := ref.(*ssa.Store); ok && st.Addr == fv {
									n++
									c.flow(st.Val, key, depth+1)
								}
							}
						}
					}
				}
			}
		}
		if n == 0 {
			c.r.Undecided("C13/bytes-flow", key, pos, "no store into content cell")
		}
	case *ssa.FieldAddr:
		// field-based (flow-insensitive) step: the loaded content is one of the values stored into
		// this struct field anywhere in the repo's packages
		fld := fieldOfAddr(a)
		if fld == nil {
			c.r.Undecided("C13/bytes-flow", key, pos, "field of the content cell not resolved")
			return
		}
		vals, escapes := c.fieldStores(fld)
		if escapes != "" {
			c.r.Undecided("C13/bytes-flow", key, pos, "address of field "+fld.Name()+" escapes: "+escapes)
			return
		}
		if len(vals) == 0 {
			c.r.Undecided("C13/bytes-flow", key, pos, "no store into field "+fld.Name())
			return
		}
		for _, v := range vals {
			c.flow(v, key, depth+1)
		}
	default:
		c.r.Violation("C13/bytes-flow", key, pos, fmt.Sprintf("content loaded from %T %s", addr, addr.String()))
	}
}

func fieldOfAddr(a *ssa.FieldAddr) *types.Var {
	t := a.X.Type()
	if p, ok := t.Underlying().(*types.Pointer); ok {
		t = p.Elem()
	}
	st, ok := t.Underlying().(*types.Struct)
	if !ok || a.Field >= st.NumFields() {
		return nil
	}
	return st.Field(a.Field)
}

// fieldStores: every value stored into the struct field (by types.Var identity) in the repo's
// functions; escapes != "" when the field's address is used for anything but stores and loads.
func (c *c13) fieldStores(fld *types.Var) (vals []ssa.Value, escapes string) {
	for fn := range ssautil.AllFunctions(c.s.Prog) {
		pk := fnPkg(fn)
		if pk == nil || !isRepoPkg(pk.Pkg.Path()) {
			continue
		}
		for _, b := range fn.Blocks {
			for _, ins := range b.Instrs {
				fa, ok := ins.(*ssa.FieldAddr)
				if !ok || fieldOfAddr(fa) != fld {
					continue
				}
				for _, ref := range *fa.Referrers() {
					switch r := ref.(type) {
					case *ssa.Store:
						if r.Addr == fa {
							vals = append(vals, r.Val)
						} else {
							escapes = "stored as a value in " + shortFn(fn)
						}
					case *ssa.UnOp, *ssa.DebugRef:
					default:
						escapes = fmt.Sprintf("%T in %s", ref, shortFn(fn))
					}
				}
			}
		}
	}
	return vals, escapes
}

// sameFile: in every function that calls os.ReadFile and the OpenAPI loader,
// both receive the same SSA value.
func (c *c13) sameFile() {
	n := 0
	// closures belong to the function that declares them: os.ReadFile and the loader may sit in two
	// step closures of one function and still name the same captured parameter
	outer := func(fn *ssa.Function) *ssa.Function {
		for fn.Parent() != nil {
			fn = fn.Parent()
		}
		return fn
	}
	type site struct {
		readArg, loadArg ssa.Value
		readFn, loadFn   *ssa.Function
		rpos             token.Pos
	}
	groups := map[*ssa.Function]*site{}
	var order []*ssa.Function
	for fn := range c.s.ReachGo {
		if fn.Pkg == nil || fn.Pkg.Pkg.Path() != modPath {
			continue
		}
		for _, b := range fn.Blocks {
			for _, ins := range b.Instrs {
				call, ok := ins.(*ssa.Call)
				if !ok {
					continue
				}
				cc := call.Call
				if sc := cc.StaticCallee(); sc != nil {
					isRead := sc.String() == "os.ReadFile"
					isLoad := strings.HasSuffix(sc.String(), ".LoadSwaggerFromFile")
					if !isRead && !isLoad {
						continue
					}
					o := outer(fn)
					g := groups[o]
					if g == nil {
						g = &site{}
						groups[o] = g
						order = append(order, o)
					}
					if isRead {
						g.readArg, g.readFn, g.rpos = cc.Args[0], fn, call.Pos()
					} else {
						g.loadArg, g.loadFn = cc.Args[len(cc.Args)-1], fn
					}
				}
			}
		}
	}
	sort.Slice(order, func(i, j int) bool { return order[i].String() < order[j].String() })
	for _, o := range order {
		g := groups[o]
		if g.readArg == nil {
			continue
		}
		n++
		key := shortFn(o) + ":os.ReadFile"
		if g.loadArg == nil {
			c.r.Undecided("C13/same-file", key, c.s.pos(g.rpos), "os.ReadFile without a loader call in the same function")
			continue
		}
		ra, rok := canonCell(g.readFn, g.readArg)
		la, lok := canonCell(g.loadFn, g.loadArg)
		if !rok || !lok {
			c.r.Undecided("C13/same-file", key, c.s.pos(g.rpos), "the path handed to os.ReadFile / the loader is a variable that is assigned more than once")
			continue
		}
		c.r.Check(ra == la, "C13/same-file", key, c.s.pos(g.rpos), "the file embedded ("+g.readArg.String()+") is not the file parsed ("+g.loadArg.String()+")")
	}
	c.r.FloorMin("os.ReadFile sites in package goag", n, 1)
}

// canonCell: a value that is a load of a variable cell (a captured or address-taken parameter / local,
// also through closure free variables) is identified by the cell — provided the cell is stored once.
func canonCell(fn *ssa.Function, v ssa.Value) (ssa.Value, bool) {
	ld, ok := v.(*ssa.UnOp)
	if !ok || ld.Op != token.MUL {
		return v, true
	}
	cell := ld.X
	f := fn
	for depth := 0; depth < 6; depth++ {
		fv, isFree := cell.(*ssa.FreeVar)
		if !isFree || f.Parent() == nil {
			break
		}
		b := closureBinding(f, fv)
		if b == nil {
			return v, true
		}
		cell, f = b, f.Parent()
	}
	a, isAlloc := cell.(*ssa.Alloc)
	if !isAlloc {
		return cell, true
	}
	// count stores into the cell anywhere below its function (closures included)
	stores := 0
	var param ssa.Value
	var visit func(g *ssa.Function)
	visit = func(g *ssa.Function) {
		for _, b := range g.Blocks {
			for _, ins := range b.Instrs {
				if st, ok := ins.(*ssa.Store); ok {
					addr := st.Addr
					gg := g
					for {
						fv, isFree := addr.(*ssa.FreeVar)
						if !isFree || gg.Parent() == nil {
							break
						}
						bnd := closureBinding(gg, fv)
						if bnd == nil {
							break
						}
						addr, gg = bnd, gg.Parent()
					}
					if addr == ssa.Value(a) {
						stores++
						param = st.Val
					}
				}
			}
		}
		for _, an := range g.AnonFuncs {
			visit(an)
		}
	}
	visit(a.Parent())
	if stores != 1 {
		return cell, false
	}
	if p, ok := param.(*ssa.Parameter); ok {
		return p, true
	}
	return cell, true
}

// variadicOperand: the i-th element boxed into the variadic slice argument `s` of a call
// (new [n]any; store MakeInterface(x) at index i; slice) — the value x before boxing.
func variadicOperand(s ssa.Value, i int) ssa.Value {
	sl, ok := s.(*ssa.Slice)
	if !ok {
		return nil
	}
	al, ok := sl.X.(*ssa.Alloc)
	if !ok {
		return nil
	}
	for _, ref := range *al.Referrers() {
		ia, ok := ref.(*ssa.IndexAddr)
		if !ok {
			continue
		}
		k, ok := ia.Index.(*ssa.Const)
		if !ok || k.Value == nil || k.Value.String() != strconv.Itoa(i) {
			continue
		}
		for _, r2 := range *ia.Referrers() {
			if st, ok := r2.(*ssa.Store); ok && st.Addr == ia {
				if mi, ok := st.Val.(*ssa.MakeInterface); ok {
					return mi.X
				}
				return st.Val
			}
		}
	}
	return nil
}

// paramsUsed: every named parameter of the functions of package goag on the generation path is
// referenced in its body. The command hands each flag (spec file, base path, spec handler name,
// …) down through these parameters; a parameter that is silently dropped — e.g. another
// same-typed one passed in its place — makes the generated router ignore that flag (the spec
// would be served under the wrong name).
func (c *c13) paramsUsed() {
	p := c.s.Pkgs[modPath]
	if p == nil {
		return
	}
	n := 0
	for _, f := range p.Syntax {
		for _, d := range f.Decls {
			fd, ok := d.(*ast.FuncDecl)
			if !ok || fd.Body == nil {
				continue
			}
			fn := c.s.FuncOfDecl(p, fd)
			if fn == nil || !c.s.ReachAll[fn] {
				continue
			}
			for _, fl := range fd.Type.Params.List {
				for _, nm := range fl.Names {
					if nm.Name == "_" {
						continue
					}
					o := p.TypesInfo.Defs[nm]
					n++
					used := false
					ast.Inspect(fd.Body, func(m ast.Node) bool {
						if id, ok := m.(*ast.Ident); ok && p.TypesInfo.Uses[id] == o {
							used = true
						}
						return !used
					})
					key := funcKey(p, fd) + ":parameter " + nm.Name
					if used {
						c.r.OK("C13/params-used", key, c.s.pos(nm.Pos()), "")
					} else {
						c.r.Violation("C13/params-used", key, c.s.pos(nm.Pos()), "the parameter is never used: the value the caller passes (a flag of the command) does not reach the generator")
					}
				}
			}
		}
	}
	c.r.FloorMin("parameters of the generation entry points", n, 15)
}
