package main

// normalize_struct.go — N4: a function that returns one small struct of the
// package ("result struct") is presented as returning the struct's fields.
//
//   type T struct{ a A; b B; c C }
//   func f(…) T { …; return T{a: x} }            →  return x, <zero B>, <zero C>
//   m := f(…); if m.a != nil { return m }         →  m·a, m·b, m·c := f(…); if m·a != nil { return m·a, m·b, m·c }
//   h, p, ok := m.a, m.b, m.c (right after m := f) →  h, p, ok := f(…)
//
// so that the recognisers written for multi-value returns see one form. The
// rewrite is applied only when every use of T in the package fits these
// shapes; otherwise nothing is touched. Synthesised identifiers and zero
// values get their go/types entries.

import (
	"go/ast"
	"go/constant"
	"go/token"
	"go/types"

	"golang.org/x/tools/go/ast/astutil"
)

// n4Structs: result structs whose functions were rewritten to the multi-value form.
var n4Structs = map[*types.Named]bool{}

type n4ctx struct {
	info  *types.Info
	pkg   *types.Package
	T     *types.Named
	st    *types.Struct
	abort bool
}

func normalizeResultStructs(info *types.Info, pkg *types.Package, files []*ast.File) {
	// candidate result structs: named struct types of the package that are the sole result of a declared function
	cands := map[*types.Named]bool{}
	for _, f := range files {
		for _, d := range f.Decls {
			fd, ok := d.(*ast.FuncDecl)
			if !ok || fd.Body == nil {
				continue
			}
			fo, _ := info.Defs[fd.Name].(*types.Func)
			if fo == nil {
				continue
			}
			sig := fo.Type().(*types.Signature)
			if sig.Results().Len() != 1 {
				continue
			}
			n, ok := sig.Results().At(0).Type().(*types.Named)
			if !ok || n.Obj().Pkg() != pkg || n.Obj().Exported() {
				continue
			}
			st, ok := n.Underlying().(*types.Struct)
			if !ok || st.NumFields() < 2 || st.NumFields() > 4 || n.NumMethods() > 0 {
				continue
			}
			cands[n] = true
		}
	}
	for T := range cands {
		c := &n4ctx{info: info, pkg: pkg, T: T, st: T.Underlying().(*types.Struct)}
		if c.check(files) {
			c.rewrite(files)
			n4Structs[T] = true
		}
	}
}

func (c *n4ctx) isT(t types.Type) bool { return t != nil && types.Identical(t, c.T) }

// check: every occurrence of a T-typed expression is one of the supported shapes.
func (c *n4ctx) check(files []*ast.File) bool {
	ok := true
	for _, f := range files {
		astutil.Apply(f, func(cur *astutil.Cursor) bool {
			e, isExpr := cur.Node().(ast.Expr)
			if !isExpr || !ok {
				return ok
			}
			tv, has := c.info.Types[e]
			if !has || !c.isT(tv.Type) || tv.IsType() {
				return true
			}
			switch x := e.(type) {
			case *ast.CompositeLit:
				if _, isRet := cur.Parent().(*ast.ReturnStmt); !isRet {
					ok = false
				}
				return false
			case *ast.CallExpr:
				switch p := cur.Parent().(type) {
				case *ast.ReturnStmt:
					if len(p.Results) != 1 {
						ok = false
					}
				case *ast.AssignStmt:
					if p.Tok != token.DEFINE || len(p.Lhs) != 1 || len(p.Rhs) != 1 {
						ok = false
					}
				default:
					ok = false
				}
				return true
			case *ast.Ident:
				switch p := cur.Parent().(type) {
				case *ast.SelectorExpr:
					if p.X != ast.Expr(x) {
						ok = false
					}
				case *ast.ReturnStmt:
					if len(p.Results) != 1 {
						ok = false
					}
				case *ast.AssignStmt:
					// only as the defined variable of `m := call`
					if p.Tok != token.DEFINE || len(p.Lhs) != 1 || p.Lhs[0] != ast.Expr(x) {
						ok = false
					}
				default:
					ok = false
				}
			case *ast.ParenExpr:
			default:
				ok = false
			}
			return true
		}, nil)
	}
	return ok
}

func (c *n4ctx) zero(t types.Type, pos token.Pos) ast.Expr {
	switch u := t.Underlying().(type) {
	case *types.Basic:
		switch {
		case u.Info()&types.IsString != 0:
			l := &ast.BasicLit{ValuePos: pos, Kind: token.STRING, Value: `""`}
			c.info.Types[l] = types.TypeAndValue{Type: t, Value: constant.MakeString("")}
			return l
		case u.Info()&types.IsBoolean != 0:
			id := &ast.Ident{NamePos: pos, Name: "false"}
			c.info.Uses[id] = types.Universe.Lookup("false")
			c.info.Types[id] = types.TypeAndValue{Type: t, Value: constant.MakeBool(false)}
			return id
		case u.Info()&types.IsNumeric != 0:
			l := &ast.BasicLit{ValuePos: pos, Kind: token.INT, Value: "0"}
			c.info.Types[l] = types.TypeAndValue{Type: t, Value: constant.MakeInt64(0)}
			return l
		}
	}
	id := &ast.Ident{NamePos: pos, Name: "nil"}
	c.info.Uses[id] = types.Universe.Lookup("nil")
	c.info.Types[id] = types.TypeAndValue{Type: types.Typ[types.UntypedNil]}
	return id
}

func (c *n4ctx) rewrite(files []*ast.File) {
	fieldVars := map[types.Object][]*types.Var{} // m -> its field variables
	varsOf := func(m types.Object, pos token.Pos) []*types.Var {
		if vs, ok := fieldVars[m]; ok {
			return vs
		}
		var vs []*types.Var
		for i := 0; i < c.st.NumFields(); i++ {
			vs = append(vs, types.NewVar(pos, c.pkg, m.Name()+"·"+c.st.Field(i).Name(), c.st.Field(i).Type()))
		}
		fieldVars[m] = vs
		return vs
	}
	use := func(v *types.Var, pos token.Pos) *ast.Ident {
		id := &ast.Ident{NamePos: pos, Name: v.Name()}
		c.info.Uses[id] = v
		c.info.Types[id] = types.TypeAndValue{Type: v.Type()}
		return id
	}
	for _, f := range files {
		astutil.Apply(f, func(cur *astutil.Cursor) bool {
			switch x := cur.Node().(type) {
			case *ast.AssignStmt:
				// m := call()  →  m·a, m·b, … := call()
				if x.Tok == token.DEFINE && len(x.Lhs) == 1 && len(x.Rhs) == 1 {
					if id, ok := x.Lhs[0].(*ast.Ident); ok {
						if m := c.info.Defs[id]; m != nil && c.isT(m.Type()) {
							vs := varsOf(m, id.Pos())
							var lhs []ast.Expr
							for _, v := range vs {
								nid := &ast.Ident{NamePos: id.Pos(), Name: v.Name()}
								c.info.Defs[nid] = v
								lhs = append(lhs, nid)
							}
							x.Lhs = lhs
						}
					}
				}
			case *ast.SelectorExpr:
				if id, ok := x.X.(*ast.Ident); ok {
					if m := c.info.Uses[id]; m != nil && c.isT(m.Type()) {
						if sel := c.info.Selections[x]; sel != nil && sel.Kind() == types.FieldVal && len(sel.Index()) == 1 {
							cur.Replace(use(varsOf(m, id.Pos())[sel.Index()[0]], x.Pos()))
							return false
						}
					}
				}
			case *ast.ReturnStmt:
				if len(x.Results) != 1 {
					return true
				}
				switch r := ast.Unparen(x.Results[0]).(type) {
				case *ast.CompositeLit:
					if tv := c.info.Types[r]; c.isT(tv.Type) {
						res := make([]ast.Expr, c.st.NumFields())
						for i, el := range r.Elts {
							if kv, ok := el.(*ast.KeyValueExpr); ok {
								if kid, ok := kv.Key.(*ast.Ident); ok {
									for k := 0; k < c.st.NumFields(); k++ {
										if c.st.Field(k).Name() == kid.Name {
											res[k] = kv.Value
										}
									}
								}
							} else if i < len(res) {
								res[i] = el
							}
						}
						for k := range res {
							if res[k] == nil {
								res[k] = c.zero(c.st.Field(k).Type(), r.Pos())
							}
						}
						x.Results = res
					}
				case *ast.Ident:
					if m := c.info.Uses[r]; m != nil && c.isT(m.Type()) {
						var res []ast.Expr
						for _, v := range varsOf(m, r.Pos()) {
							res = append(res, use(v, r.Pos()))
						}
						x.Results = res
					}
				}
			}
			return true
		}, nil)
	}
	// copy propagation: `t1, t2, t3 := call()` directly followed by `a, b, c := t1, t2, t3` where
	// the temporaries have no other use  →  `a, b, c := call()`
	for _, f := range files {
		ast.Inspect(f, func(n ast.Node) bool {
			blk, ok := n.(*ast.BlockStmt)
			if !ok {
				return true
			}
			for i := 0; i+1 < len(blk.List); i++ {
				a1, ok1 := blk.List[i].(*ast.AssignStmt)
				a2, ok2 := blk.List[i+1].(*ast.AssignStmt)
				if !ok1 || !ok2 || a1.Tok != token.DEFINE || a2.Tok != token.DEFINE || len(a1.Rhs) != 1 || len(a1.Lhs) != len(a2.Rhs) || len(a2.Lhs) != len(a2.Rhs) || len(a1.Lhs) < 2 {
					continue
				}
				if _, isCall := a1.Rhs[0].(*ast.CallExpr); !isCall {
					continue
				}
				match := true
				for k := range a1.Lhs {
					d, _ := a1.Lhs[k].(*ast.Ident)
					u, _ := a2.Rhs[k].(*ast.Ident)
					if d == nil || u == nil || c.info.Defs[d] == nil || c.info.Uses[u] != c.info.Defs[d] {
						match = false
						break
					}
					// no other use in the block
					uses := 0
					ast.Inspect(blk, func(m ast.Node) bool {
						if id, ok := m.(*ast.Ident); ok && c.info.Uses[id] == c.info.Defs[d] {
							uses++
						}
						return true
					})
					if uses != 1 {
						match = false
					}
				}
				if !match {
					continue
				}
				a2.Rhs = a1.Rhs
				blk.List = append(blk.List[:i], blk.List[i+1:]...)
			}
			return true
		})
	}
}
