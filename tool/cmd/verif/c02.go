package main

// C02 — handlers can only return documented responses, written as documented.

import (
	"fmt"
	"go/types"
	"net/textproto"
	"sort"
	"strings"

	"github.com/getkin/kin-openapi/openapi3"
)

func expectedFormat(s *openapi3.Schema) []FormatCall {
	if s == nil {
		return nil
	}
	if s.Type == "array" && s.Items != nil {
		return expectedFormat(s.Items.Value)
	}
	switch s.Type {
	case "integer":
		return []FormatCall{{Callee: "strconv.FormatInt", Consts: []string{"_", "10"}}}
	case "number":
		bits := "64"
		if s.Format == "float" {
			bits = "32"
		}
		return []FormatCall{{Callee: "strconv.FormatFloat", Consts: []string{"_", "101", "-1", bits}}}
	case "boolean":
		return []FormatCall{{Callee: "strconv.FormatBool", Consts: []string{"_"}}}
	case "string":
		if s.Format == "date-time" {
			layout := rfc3339NanoLit
			if f := extString(s, "x-goag-go-time-format"); f != "" {
				layout = timeLayoutLit(f)
			}
			return []FormatCall{{Callee: "time.Time.Format", Consts: []string{layout}}}
		}
	}
	return nil
}

func formatsEqual(got, want []FormatCall) (bool, string) {
	show := func(cs []FormatCall) string {
		var ss []string
		for _, c := range cs {
			ss = append(ss, c.Callee+"("+strings.Join(c.Consts, ",")+")")
		}
		if len(ss) == 0 {
			return "identity"
		}
		return strings.Join(ss, " ; ")
	}
	if len(got) != len(want) {
		return false, "formatter is " + show(got) + ", the declared type needs " + show(want)
	}
	for i := range got {
		if got[i].Callee != want[i].Callee || strings.Join(got[i].Consts, ",") != strings.Join(want[i].Consts, ",") {
			return false, "formatter is " + show(got) + ", the declared type needs " + show(want)
		}
	}
	return true, ""
}

// expectedContent: documented content type and body kind of a response.
func expectedContent(resp *openapi3.Response) (cts []string, body string) {
	if resp == nil || len(resp.Content) == 0 {
		return nil, "none"
	}
	if _, ok := resp.Content["application/json"]; ok {
		return []string{"application/json"}, "json"
	}
	for k := range resp.Content {
		cts = append(cts, k)
	}
	sort.Strings(cts)
	return cts, "raw"
}

func runC02(r *Report) {
	r.Explanation = "For every operation of every instantiated program: (sealed) the response interface (result type of the handler func type the router dispatches) has only unexported methods, so nothing outside the package can satisfy it; (impl-set) the set of named types of the package that implement it, computed with go/types method sets, is reduced through write<Op> → Write to rows (status, Content-Type, header keys with optional/required, body kind) and must equal the documented response set of that operation from the independent oracle — one implementer per documented status incl. default, nothing else; a shared component response must carry one write<Op> per use with that use's status constant; (write-table) every Write is recognised completely: header emissions, then Content-Type, then exactly one WriteHeader(const | caller code | r.Code for default only), then the body via writeJSON(json.NewEncoder(w).Encode) or io.Copy; header values are formatted from the response's own field by the formatter the declared type demands."
	r.Rule("C02/sealed", "the operation's response interface has >= 1 method and all are unexported")
	r.Rule("C02/impl-set", "implementers of the response interface ⇔ documented responses of the operation (status set equality, default ⇔ caller-supplied code)")
	r.Rule("C02/write-table", "Write is fully recognised; Content-Type, header key set (required/optional), header formatters and body kind equal the documented response; headers precede WriteHeader, body follows")
	r.Rule("C02/write-json", "writeJSON is json.NewEncoder(w).Encode(v)")
	r.Assumptions = append(r.Assumptions, "body VALUES conform to the schema: C07", "that ParseSwagger rejects default+numbered reuse of one component is a generator-behaviour clause; only its consequence on emitted code is seen", "programs bounded by the corpus")
	s3, progs := loadParamPrograms(r, "C02")
	if s3 == nil {
		return
	}
	defer s3.Close()
	nOps, nImpl, nHdr := 0, 0, 0
	for _, pp := range progs {
		p := pp.P
		writes := respWrites(p)
		usesJSON := false
		for _, w := range writes {
			if w.Body == "json" {
				usesJSON = true
			}
		}
		if usesJSON {
			why := writeJSONShape(p)
			r.Check(why == "", "C02/write-json", p.Name+":writeJSON", "", why)
		}
		ops := opByKey(pp.O)
		for _, h := range pp.Handlers {
			op := ops[h.Method+" "+h.Path]
			key := fmt.Sprintf("%s:%s %s", p.Name, h.Method, h.Path)
			if op == nil || h.RespIface == nil {
				r.Undecided("C02/impl-set", key, "", "handler type "+h.TypeName+" has no declared operation / response interface")
				continue
			}
			nOps++
			it := h.RespIface.Underlying().(*types.Interface)
			sealed := it.NumMethods() >= 1
			for i := 0; i < it.NumMethods(); i++ {
				if it.Method(i).Exported() {
					sealed = false
				}
			}
			r.Check(sealed, "C02/sealed", key, "", "response interface "+h.RespIface.Obj().Name()+" can be implemented outside the package (exported or no methods): handlers could return undocumented responses")
			impls := respImplementers(p, h.RespIface, writes)
			want := map[string]*RespOracle{}
			for i := range op.Responses {
				want[op.Responses[i].Status] = &op.Responses[i]
			}
			got := map[string]*RespImpl{}
			for _, im := range impls {
				nImpl++
				ik := key + ":" + im.W.TypeName
				pos := s3.pos(im.Pos)
				if len(im.Undecided) > 0 || len(im.W.Undecided) > 0 {
					r.Undecided("C02/write-table", ik, pos, strings.Join(append(append([]string{}, im.Undecided...), im.W.Undecided...), "; ")+" (template define "+p.Provenance(s3, im.Pos)+")")
					continue
				}
				if prev, dup := got[im.Status]; dup {
					r.Violation("C02/impl-set", ik, pos, "two response types ("+prev.W.TypeName+", "+im.W.TypeName+") write status "+im.Status+" for this operation")
				}
				got[im.Status] = im
				ro := want[im.Status]
				if ro == nil {
					r.Violation("C02/impl-set", ik, pos, "type "+im.W.TypeName+" can be returned by the handler and writes status "+im.Status+", which the operation does not document (documented: "+strings.Join(keysOfResp(want), ", ")+")")
					continue
				}
				r.OK("C02/impl-set", ik, pos, "status "+im.Status)
				// write-table
				var problems []string
				cts, body := expectedContent(ro.Resp)
				switch {
				case len(cts) == 0 && im.W.ContentType != "":
					problems = append(problems, "Content-Type "+im.W.ContentType+" written for a response that documents no content")
				case len(cts) > 0 && !containsStr(cts, im.W.ContentType):
					problems = append(problems, fmt.Sprintf("Content-Type %q written, documented %v", im.W.ContentType, cts))
				}
				if im.W.Body != body {
					problems = append(problems, "body kind "+im.W.Body+", documented "+body)
				}
				if im.Status == "default" && im.W.StatusKind != "field" {
					problems = append(problems, "default response does not write the caller-supplied code")
				}
				if im.Status != "default" && im.W.StatusKind == "field" {
					problems = append(problems, "a numbered status is written from the caller-supplied Code field")
				}
				// headers
				wantH := map[string]*openapi3.Header{}
				if ro.Resp != nil {
					for k, hr := range ro.Resp.Headers {
						if hr != nil && hr.Value != nil {
							wantH[textproto.CanonicalMIMEHeaderKey(k)] = hr.Value
						}
					}
				}
				seenH := map[string]bool{}
				for _, hr := range im.W.Headers {
					nHdr++
					ck := textproto.CanonicalMIMEHeaderKey(hr.Key)
					oh := wantH[ck]
					if oh == nil {
						problems = append(problems, "header "+hr.Key+" is written but not documented")
						continue
					}
					if seenH[ck] {
						problems = append(problems, "header "+hr.Key+" is written twice")
					}
					seenH[ck] = true
					if hr.Optional == oh.Required {
						problems = append(problems, fmt.Sprintf("header %s: documented required=%v but written %s", hr.Key, oh.Required, map[bool]string{true: "only when set", false: "unconditionally"}[hr.Optional]))
					}
					if !hr.FromField {
						problems = append(problems, "header "+hr.Key+": the emitted values do not derive from the response's own header field")
					}
					var hs *openapi3.Schema
					if oh.Schema != nil {
						hs = oh.Schema.Value
					}
					if hs != nil && extString(hs, "x-goag-go-type") == "" {
						if ok, why := formatsEqual(hr.Formats, expectedFormat(hs)); !ok {
							problems = append(problems, "header "+hr.Key+": "+why)
						}
						if hr.Array != (hs.Type == "array") && len(expectedFormat(hs)) > 0 {
							problems = append(problems, "header "+hr.Key+": array-ness differs from the declaration")
						}
					}
				}
				for k := range wantH {
					if !seenH[k] {
						problems = append(problems, "documented header "+k+" is never written")
					}
				}
				if len(problems) > 0 {
					sort.Strings(problems)
					r.Violation("C02/write-table", ik, pos, strings.Join(problems, "; ")+" (template define "+p.Provenance(s3, im.W.Decl.Pos())+")")
				} else {
					r.OK("C02/write-table", ik, pos, fmt.Sprintf("status %s, content-type %q, %d headers, body %s", im.Status, im.W.ContentType, len(im.W.Headers), im.W.Body))
				}
			}
			for st := range want {
				if got[st] == nil {
					r.Violation("C02/impl-set", key+":status "+st, "", "documented response "+st+" has no type the handler could return")
				}
			}
		}
	}
	r.Analysed["operations"] = nOps
	r.Analysed["response_types_judged"] = nImpl
	r.Analysed["response_header_rows"] = nHdr
	r.FloorMin("operations", nOps, 100)
	r.FloorMin("response implementers judged", nImpl, 150)
}

func keysOfResp(m map[string]*RespOracle) []string {
	var out []string
	for k := range m {
		out = append(out, k)
	}
	sort.Strings(out)
	return out
}

func containsStr(ss []string, s string) bool {
	for _, x := range ss {
		if x == s {
			return true
		}
	}
	return false
}
