package main

// C01 — successful generation yields a compilable, formatted package.
// S1 rules (all specs): fmt-or-error, err-propagation, truncate, name-slots.
// S3 rule (corpus): corpus-typecheck (c01_s3.go).

import (
	"fmt"
	"go/ast"
	"go/token"
	"go/types"
	"os"
	"sort"
	"strings"

	"golang.org/x/tools/go/ssa"
)

func runC01(r *Report) {
	r.Explanation = "S1 (all specs, all flags): SSA rule fmt-or-error — the bytes of every file write on the generation path are the first result of imports.Process/format.Source on the branch where its error is nil, and the non-nil branch returns an error; hence success implies every written file was parsed and printed by go/format (syntactically valid, gofmt-stable). err-propagation — every error-returning call in packages goag and cmd/goag is tested and a non-nil error leads to a non-nil return / fatal exit. truncate — files are opened O_TRUNC. name-slots — per parameter location the Go field name is derived by one naming function on both the declaring (handler) and the referencing (client) side. S3 (corpus): every program instantiated from the current templates for which goag exits 0 must parse, be gofmt-idempotent and type-check."
	r.Rule("C01/fmt-or-error", "bytes handed to a file write are the formatter's output on its success branch; formatter failure returns a non-nil error")
	r.Rule("C01/err-propagation", "every call returning error in packages goag and cmd/goag is tested; a non-nil error returns a non-nil error (or exits fatally in main)")
	r.Rule("C01/truncate", "output files are opened with O_TRUNC (a shorter rendering must not keep the tail of a previous one)")
	r.Rule("C01/name-slots", "per parameter location (query/path/header) every struct field named FieldName is derived from the spec name by the same naming function on the handler side and on the client side")
	r.Rule("C01/corpus-typecheck", "every corpus program for which the generator reports success parses, is gofmt-idempotent and type-checks against the standard library (plus the helper files shipped with the fixture)")
	r.Assumptions = append(r.Assumptions,
		"go/format (via x/tools/imports.Process) only emits syntactically valid, gofmt-stable source",
		"type-correctness of composed template output is NOT decided for all specs (needs a type system for templates); it is sampled on the corpus")
	s, err := LoadS1(true)
	if err != nil {
		r.Break("load S1: %v", err)
		return
	}
	c01FmtOrError(r, s)
	c01ErrPropagation(r, s)
	ruleTruncate(r, s, "C01/truncate")
	c01NameSlots(r, s)
	runC01S3(r)
}

var formatterFuncs = map[string]bool{
	"golang.org/x/tools/imports.Process": true,
	"go/format.Source":                   true,
}

func isNilConst(v ssa.Value) bool {
	k, ok := v.(*ssa.Const)
	return ok && k.Value == nil
}

func c01FmtOrError(r *Report, s *S1) {
	nWrites := 0
	var fns []*ssa.Function
	for fn := range s.ReachAll {
		if fn.Pkg != nil && isRepoPkg(fn.Pkg.Pkg.Path()) {
			fns = append(fns, fn)
		}
	}
	sort.Slice(fns, func(i, j int) bool { return fns[i].String() < fns[j].String() })
	for _, fn := range fns {
		for _, b := range fn.Blocks {
			for _, ins := range b.Instrs {
				call, ok := ins.(*ssa.Call)
				if !ok {
					continue
				}
				sc := call.Call.StaticCallee()
				if sc == nil {
					continue
				}
				var data ssa.Value
				switch sc.String() {
				case "(*os.File).Write", "(*os.File).WriteString":
					data = call.Call.Args[1]
				case "os.WriteFile", "io/ioutil.WriteFile":
					data = call.Call.Args[1]
				case "io.Copy", "io.WriteString", "fmt.Fprint", "fmt.Fprintf", "fmt.Fprintln":
					// only relevant when the destination is an *os.File
					if mi, ok := call.Call.Args[0].(*ssa.MakeInterface); ok && mi.X.Type().String() == "*os.File" {
						r.Violation("C01/fmt-or-error", shortFn(fn)+":"+sc.Name()+" to *os.File", s.pos(call.Pos()), "file content written through "+sc.String()+": not traceable to the formatter")
					}
					continue
				default:
					continue
				}
				nWrites++
				key := shortFn(fn) + ":" + sc.Name()
				pos := s.pos(call.Pos())
				// strip conversions
				for {
					if cv, ok := data.(*ssa.Convert); ok {
						data = cv.X
						continue
					}
					if cv, ok := data.(*ssa.ChangeType); ok {
						data = cv.X
						continue
					}
					break
				}
				probs := c01Formatted(s, data, call.Block(), fn, key, 0, map[ssa.Value]bool{})
				if len(probs) == 0 {
					r.OK("C01/fmt-or-error", key, pos, "writes formatter output under err == nil (through wrappers/parameters where the code is split into helpers)")
				} else {
					for _, pr := range probs {
						r.Violation("C01/fmt-or-error", pr.key, pr.pos, pr.detail)
					}
				}
			}
		}
	}
	r.FloorMin("file write sites on the generation path", nWrites, 1)
}

type c01Prob struct{ key, pos, detail string }

// c01Formatted: v, used in block `at` of fn, is formatter output obtained on the formatter's success
// branch — directly, through a wrapper function that returns (formatter output, nil) / (_, non-nil
// error), or through a parameter all of whose call sites pass such a value.
func c01Formatted(s *S1, v ssa.Value, at *ssa.BasicBlock, fn *ssa.Function, key string, depth int, seen map[ssa.Value]bool) []c01Prob {
	pos := s.pos(v.Pos())
	if depth > 6 || seen[v] {
		return []c01Prob{{key, pos, "formatter provenance too deep / cyclic"}}
	}
	seen[v] = true
	for {
		if cv, ok := v.(*ssa.Convert); ok {
			v = cv.X
			continue
		}
		if cv, ok := v.(*ssa.ChangeType); ok {
			v = cv.X
			continue
		}
		break
	}
	switch x := v.(type) {
	case *ssa.Parameter:
		pf := x.Parent()
		idx := -1
		for i, pp := range pf.Params {
			if pp == x {
				idx = i
			}
		}
		node := s.CG.Nodes[pf]
		var out []c01Prob
		n := 0
		if node != nil {
			for _, e := range node.In {
				if e.Site == nil || e.Caller == nil || e.Caller.Func == nil {
					continue
				}
				cc := e.Site.Common()
				ai := idx
				if cc.IsInvoke() {
					ai = idx - 1
				}
				if ai < 0 || ai >= len(cc.Args) {
					continue
				}
				if !s.ReachAll[e.Caller.Func] {
					continue
				}
				n++
				out = append(out, c01Formatted(s, cc.Args[ai], e.Site.Block(), e.Caller.Func, key+" <- "+shortFn(e.Caller.Func), depth+1, seen)...)
			}
		}
		if n == 0 {
			return []c01Prob{{key, pos, fmt.Sprintf("the bytes written are parameter %s of %s, which has no caller on the generation path", x.Name(), shortFn(pf))}}
		}
		return out
	case *ssa.Extract:
		fcall, _ := x.Tuple.(*ssa.Call)
		if x.Index != 0 || fcall == nil || fcall.Call.StaticCallee() == nil {
			break
		}
		callee := fcall.Call.StaticCallee()
		var out []c01Prob
		if !formatterFuncs[callee.String()] {
			// a wrapper of the repo: every return with a nil error must return formatter output
			if callee.Pkg == nil || !isRepoPkg(callee.Pkg.Pkg.Path()) || callee.Blocks == nil {
				break
			}
			nRet := 0
			for _, b := range callee.Blocks {
				for _, ins := range b.Instrs {
					ret, ok := ins.(*ssa.Return)
					if !ok || len(ret.Results) != 2 {
						continue
					}
					nRet++
					if isNilConst(ret.Results[1]) {
						out = append(out, c01Formatted(s, ret.Results[0], b, callee, key+" <- "+shortFn(callee), depth+1, seen)...)
					} else if _, isConst := ret.Results[1].(*ssa.Const); !isConst {
						// a non-constant error result: fine when the value returned with it is never used on
						// the caller's success path only if it is itself formatter output or nil
						if !isNilConst(ret.Results[0]) {
							out = append(out, c01Formatted(s, ret.Results[0], b, callee, key+" <- "+shortFn(callee), depth+1, seen)...)
						}
					}
				}
			}
			if nRet == 0 {
				break
			}
		}
		// the use must be dominated by the success branch of the call's error test, and the failure
		// branch must return a non-nil error
		var errEx *ssa.Extract
		for _, ref := range *fcall.Referrers() {
			if e, ok := ref.(*ssa.Extract); ok && e.Index == 1 {
				errEx = e
			}
		}
		if errEx == nil {
			return append(out, c01Prob{key, pos, "the formatter's error result is never extracted"})
		}
		okGuard := false
		for _, ref := range *errEx.Referrers() {
			bo, ok := ref.(*ssa.BinOp)
			if !ok || (bo.Op != token.NEQ && bo.Op != token.EQL) || !(isNilConst(bo.X) || isNilConst(bo.Y)) {
				continue
			}
			for _, r2 := range *bo.Referrers() {
				iff, ok := r2.(*ssa.If)
				if !ok {
					continue
				}
				nilSucc := iff.Block().Succs[1]
				errSucc := iff.Block().Succs[0]
				if bo.Op == token.EQL {
					nilSucc, errSucc = errSucc, nilSucc
				}
				if nilSucc.Dominates(at) && !errSucc.Dominates(at) {
					okGuard = true
					nRet := 0
					for _, bb := range fn.Blocks {
						if !errSucc.Dominates(bb) {
							continue
						}
						for _, i2 := range bb.Instrs {
							if ret, ok := i2.(*ssa.Return); ok {
								nRet++
								if len(ret.Results) == 0 || isNilConst(ret.Results[len(ret.Results)-1]) {
									out = append(out, c01Prob{key + ":formatter-error branch", s.pos(ret.Pos()), "the branch taken when the formatter fails returns a nil error"})
								}
							}
						}
					}
					if nRet == 0 {
						out = append(out, c01Prob{key + ":formatter-error branch", s.pos(iff.Pos()), "the branch taken when the formatter fails does not return: control continues to the write"})
					}
				}
			}
		}
		if !okGuard {
			out = append(out, c01Prob{key, pos, "the write is not dominated by the success branch of the formatter's error test"})
		}
		return out
	}
	detail := fmt.Sprintf("the bytes written are %s (%T), not the first result of imports.Process/format.Source", v.String(), v)
	if phi, ok := v.(*ssa.Phi); ok {
		var es []string
		for _, e := range phi.Edges {
			es = append(es, e.Name()+"="+e.String())
		}
		detail = "the bytes written are a φ of " + strings.Join(es, " | ") + ": on some path the unformatted template text is written and success is reported"
	}
	return []c01Prob{{key, pos, detail}}
}

// ---------------------------------------------------------------------------

var errType = types.Universe.Lookup("error").Type()

func returnsError(info *types.Info, call *ast.CallExpr) (idx int, n int) {
	t := info.TypeOf(call)
	if t == nil {
		return -1, 0
	}
	if tup, ok := t.(*types.Tuple); ok {
		for i := 0; i < tup.Len(); i++ {
			if types.Identical(tup.At(i).Type(), errType) {
				idx = i
				return idx, tup.Len()
			}
		}
		return -1, tup.Len()
	}
	if types.Identical(t, errType) {
		return 0, 1
	}
	return -1, 1
}

// terminatesWithError: the statement list ends in a non-nil error return or a fatal call.
func terminatesWithError(info *types.Info, list []ast.Stmt) bool {
	if len(list) == 0 {
		return false
	}
	switch last := list[len(list)-1].(type) {
	case *ast.ReturnStmt:
		if len(last.Results) == 0 {
			return false
		}
		e := last.Results[len(last.Results)-1]
		if isNilIdent(e) {
			return false
		}
		t := info.TypeOf(e)
		return t != nil && types.AssignableTo(t, errType)
	case *ast.ExprStmt:
		if call, ok := last.X.(*ast.CallExpr); ok {
			switch calleeName(info, call) {
			case "log.Fatal", "log.Fatalf", "log.Fatalln", "os.Exit", "panic", "log.Panic", "log.Panicf":
				if calleeName(info, call) == "os.Exit" {
					tv := info.Types[call.Args[0]]
					return tv.Value != nil && tv.Value.ExactString() != "0"
				}
				return true
			}
		}
	}
	return false
}

func c01ErrPropagation(r *Report, s *S1) { errPropagation(r, s, "C01/err-propagation") }

// errPropagation: failure-flow over the driver packages (fsinterp.go). Every call whose last
// result is an error forks into a success and a failure outcome; on the failure outcome the
// function must end in an error exit (non-nil error return, log.Fatal*, os.Exit≠0) — whatever
// shape the test takes (if / switch / helper / closure that assigns the outer err).
func errPropagation(r *Report, s *S1, ruleName string) {
	nForks, nFuncs := 0, 0
	pkgPaths := []string{modPath, modPath + "/cmd/goag"}
	if os.Getenv("VERIF_FAILFLOW_ALL") != "" {
		pkgPaths = append(pkgPaths, modPath+"/generator", modPath+"/specification")
	}
	for _, path := range pkgPaths {
		p := s.Pkgs[path]
		c := &c19{r: r, s: s, p: p, info: p.TypesInfo, writers: map[*types.Func]int{}}
		c.findWriters()
		in := newFSInterp(c)
		results := in.analyseAll()
		var reach []fsFuncResult
		for _, fr := range results {
			if fr.fd != nil {
				if fn := s.FuncOfDecl(p, fr.fd); fn == nil || !s.ReachAll[fn] {
					continue
				}
			}
			reach = append(reach, fr)
		}
		nf, _ := failureFlow(r, s, in, reach, ruleName, nil)
		nFuncs += nf
		nForks += len(in.forks)
		// helpers that were inlined are judged at their call sites; say so
		for _, h := range in.inlinedHelpers() {
			r.OK(ruleName, p.Types.Name()+"."+h, "", "helper inlined at its call sites (its file arguments depend on its parameters)")
		}
		// deferred calls are not interpreted: an error they return is dropped
		for _, file := range p.Syntax {
			for _, d := range file.Decls {
				fd, ok := d.(*ast.FuncDecl)
				if !ok || fd.Body == nil {
					continue
				}
				ast.Inspect(fd.Body, func(n ast.Node) bool {
					ds, ok := n.(*ast.DeferStmt)
					if !ok {
						return true
					}
					if idx, _ := returnsError(p.TypesInfo, ds.Call); idx >= 0 {
						nForks++
						nm := calleeName(p.TypesInfo, ds.Call)
						if i := strings.LastIndex(nm, "/"); i >= 0 {
							nm = nm[i+1:]
						}
						r.Violation(ruleName, funcKey(p, fd)+":defer "+nm, s.pos(ds.Pos()), "error result of the deferred call is dropped")
					}
					return true
				})
			}
		}
	}
	r.Analysed["error_returning_call_sites(goag,cmd/goag)"] = nForks
	r.Analysed["functions_interpreted(goag,cmd/goag)"] = nFuncs
	r.FloorMin("error-returning call sites in goag and cmd/goag", nForks, 20)
}

func condTestsErrG(info *types.Info, e ast.Expr, errObj types.Object) bool {
	c := &c19{info: info}
	return c.condTestsErr(e, errObj)
}

// ---------------------------------------------------------------------------

// c01NameSlots: group stores into fields named FieldName by parameter location.
func c01NameSlots(r *Report, s *S1) {
	p := s.Pkgs[modPath+"/generator"]
	info := p.TypesInfo
	type src struct{ fn, namer, pos string }
	byLoc := map[string][]src{}
	locOf := func(fd *ast.FuncDecl) string {
		for _, f := range fd.Type.Params.List {
			t := info.TypeOf(f.Type)
			if t == nil {
				continue
			}
			if l := paramLocOfType(t, 0); l != "" {
				return l
			}
		}
		return ""
	}
	namerOf := func(e ast.Expr) string {
		call, ok := ast.Unparen(e).(*ast.CallExpr)
		if !ok {
			if id, ok := ast.Unparen(e).(*ast.Ident); ok {
				return "var:" + id.Name
			}
			if _, ok := ast.Unparen(e).(*ast.SelectorExpr); ok {
				return "copy"
			}
			if bl, ok := ast.Unparen(e).(*ast.BasicLit); ok {
				return "lit:" + bl.Value
			}
			return "expr"
		}
		nm := calleeName(info, call)
		return strings.TrimPrefix(nm, modPath+"/generator.")
	}
	for _, file := range p.Syntax {
		for _, d := range file.Decls {
			fd, ok := d.(*ast.FuncDecl)
			if !ok || fd.Body == nil {
				continue
			}
			loc := locOf(fd)
			if loc == "" {
				continue
			}
			// resolve local variables to their single defining expression
			resolve := func(e ast.Expr) string {
				nm := namerOf(e)
				if strings.HasPrefix(nm, "var:") {
					obj := identObj(info, e)
					found := ""
					ast.Inspect(fd.Body, func(n ast.Node) bool {
						if as, ok := n.(*ast.AssignStmt); ok && len(as.Lhs) == len(as.Rhs) {
							for i, l := range as.Lhs {
								if identObj(info, l) == obj {
									found = namerOf(as.Rhs[i])
								}
							}
						}
						return true
					})
					if found != "" {
						return found
					}
				}
				return nm
			}
			ast.Inspect(fd.Body, func(n ast.Node) bool {
				switch n := n.(type) {
				case *ast.KeyValueExpr:
					if id, ok := n.Key.(*ast.Ident); ok && id.Name == "FieldName" {
						byLoc[loc] = append(byLoc[loc], src{funcKey(p, fd), resolve(n.Value), s.pos(n.Pos())})
					}
				case *ast.AssignStmt:
					for i, l := range n.Lhs {
						if sel, ok := l.(*ast.SelectorExpr); ok && sel.Sel.Name == "FieldName" && i < len(n.Rhs) {
							byLoc[loc] = append(byLoc[loc], src{funcKey(p, fd), resolve(n.Rhs[i]), s.pos(n.Pos())})
						}
					}
				}
				return true
			})
		}
	}
	total := 0
	for _, loc := range []string{"query", "path", "header"} {
		srcs := byLoc[loc]
		namers := map[string][]string{}
		for _, sc := range srcs {
			if sc.namer == "copy" {
				continue
			}
			total++
			namers[sc.namer] = append(namers[sc.namer], sc.fn)
		}
		var ks []string
		for k := range namers {
			ks = append(ks, k)
		}
		sort.Strings(ks)
		key := "parameter location " + loc
		if len(ks) == 1 {
			r.OK("C01/name-slots", key, "", "single naming function "+ks[0]+" in "+strings.Join(namers[ks[0]], ", "))
		} else if len(ks) == 0 {
			r.Undecided("C01/name-slots", key, "", "no FieldName derivation found for this location")
		} else {
			var parts []string
			for _, k := range ks {
				parts = append(parts, k+" in "+strings.Join(namers[k], ", "))
			}
			r.Violation("C01/name-slots", key, "", "the Go field name of a "+loc+" parameter is derived by different naming functions on different sides ("+strings.Join(parts, "; ")+"): for names on which they differ (e.g. X-Request-Uuid -> XRequestUuID vs XRequestUuid) handler.go declares one field and client.go references another, so the package does not compile although generation succeeds")
		}
	}
	r.Analysed["FieldName_derivation_sites"] = total
	r.FloorMin("FieldName derivation sites", total, 6)
}

// paramLocOfType: T, *T or G[T] with T one of the repo's QueryParameter /
// PathParameter / HeaderParameter types.
func paramLocOfType(t types.Type, depth int) string {
	if depth > 3 {
		return ""
	}
	if pt, ok := t.(*types.Pointer); ok {
		t = pt.Elem()
	}
	n, ok := t.(*types.Named)
	if !ok || n.Obj().Pkg() == nil || !isRepoPkg(n.Obj().Pkg().Path()) {
		return ""
	}
	switch n.Obj().Name() {
	case "QueryParameter":
		return "query"
	case "PathParameter":
		return "path"
	case "HeaderParameter":
		return "header"
	}
	if ta := n.TypeArgs(); ta != nil {
		for i := 0; i < ta.Len(); i++ {
			if l := paramLocOfType(ta.At(i), depth+1); l != "" {
				return l
			}
		}
	}
	return ""
}
