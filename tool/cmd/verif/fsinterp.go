package main

// fsinterp.go — a small path-sensitive abstract interpreter for the driver
// code (package goag, cmd/goag). It replaces pattern matching on statement
// shapes by evaluation over a finite abstract domain, so that the same
// behaviour written with helpers, closures, tables or loops is judged the same.
//
// Domain (per path): constant strings, the output-directory parameter,
// path.Join(<dir>, <const>), constant lists and struct literals, the three
// controlling conditions of C19 (polarity kinds) as symbolic booleans, and
// error values as {nil, non-nil[not-exist?]}. Control flow comes from
// go/cfg; calls of local closures and of same-package helpers whose file
// arguments depend on their parameters are inlined (depth-bounded); a range
// over a constant list is unrolled. Every call whose last result is an error
// forks into a success and a failure outcome; the failure outcome sets a
// flag that only an error exit (non-nil error return, log.Fatal, os.Exit≠0)
// discharges.
//
// Obligations read off the exits:
//   - failure-flow: a path on which some call failed must not end in a success exit
//   - C19 events:   per owned file the last event (write/remove) and the assumed
//                   polarity conditions at every success exit
//
// Nothing is executed; the state space is finite (memoised on block × state).

import (
	"fmt"
	"go/ast"
	"go/constant"
	"go/token"
	"go/types"
	"sort"
	"strings"

	"golang.org/x/tools/go/cfg"
	"golang.org/x/tools/go/types/typeutil"
)

type fvKind int

const (
	fvUnknown fvKind = iota
	fvStr
	fvParam     // a string parameter of the function under analysis (a directory or path handed in by the caller)
	fvPath      // path.Join(<param>, <const name>)
	fvParamPath // a value derived from parameters of the function under analysis (a helper to be inlined)
	fvList
	fvStruct
	fvBool
	fvErr
	fvFunc
	fvNil
)

type fval struct {
	k      fvKind
	s      string       // fvStr: value; fvPath: file name; fvBool: polarity kind ("" for a constant)
	obj    types.Object // fvParam / fvPath: the directory parameter
	list   []fval
	fields map[string]fval
	neg    bool // fvBool polarity: negated
	b      int  // fvBool constant: +1 true, -1 false
	// fvErr
	nilness  int // +1 nil, -1 non-nil, 0 unknown
	notExist int // +1 yes, -1 no, 0 unknown
	fn       *ast.FuncLit
}

func (v fval) String() string {
	switch v.k {
	case fvStr:
		return fmt.Sprintf("%q", v.s)
	case fvParam:
		return "param:" + v.obj.Name()
	case fvPath:
		return "join(" + v.obj.Name() + "," + v.s + ")"
	case fvParamPath:
		return "parampath"
	case fvList:
		var ss []string
		for _, e := range v.list {
			ss = append(ss, e.String())
		}
		return "[" + strings.Join(ss, ",") + "]"
	case fvStruct:
		var ks []string
		for k := range v.fields {
			ks = append(ks, k)
		}
		sort.Strings(ks)
		var ss []string
		for _, k := range ks {
			ss = append(ss, k+":"+v.fields[k].String())
		}
		return "{" + strings.Join(ss, ",") + "}"
	case fvBool:
		if v.s == "" {
			return fmt.Sprintf("bool%+d", v.b)
		}
		if v.neg {
			return "!" + v.s
		}
		return v.s
	case fvErr:
		return fmt.Sprintf("err(%+d,%+d)", v.nilness, v.notExist)
	case fvFunc:
		return fmt.Sprintf("func@%d", v.fn.Pos())
	case fvNil:
		return "nil"
	}
	return "?"
}

type fstate struct {
	env    map[types.Object]fval
	ev     map[string]string // file -> write | remove
	cond   map[string]int    // polarity kind -> +1 / -1
	failed map[string]bool   // descriptions of failed calls on this path
	iters  map[token.Pos]int // range statement -> next element index
}

func newFState() *fstate {
	return &fstate{env: map[types.Object]fval{}, ev: map[string]string{}, cond: map[string]int{}, failed: map[string]bool{}, iters: map[token.Pos]int{}}
}

func (s *fstate) clone() *fstate {
	n := newFState()
	for k, v := range s.env {
		n.env[k] = v
	}
	for k, v := range s.ev {
		n.ev[k] = v
	}
	for k, v := range s.cond {
		n.cond[k] = v
	}
	for k, v := range s.failed {
		n.failed[k] = v
	}
	for k, v := range s.iters {
		n.iters[k] = v
	}
	return n
}

func (s *fstate) enc() string {
	var parts []string
	for o, v := range s.env {
		if v.k == fvUnknown {
			continue
		}
		parts = append(parts, fmt.Sprintf("%d:%s=%s", o.Pos(), o.Name(), v.String()))
	}
	for f, e := range s.ev {
		parts = append(parts, "ev:"+f+"="+e)
	}
	for k, v := range s.cond {
		parts = append(parts, fmt.Sprintf("c:%s=%d", k, v))
	}
	for k := range s.failed {
		parts = append(parts, "f:"+k)
	}
	for k, v := range s.iters {
		parts = append(parts, fmt.Sprintf("i:%d=%d", k, v))
	}
	sort.Strings(parts)
	return strings.Join(parts, ";")
}

type fexit struct {
	st   *fstate
	kind string // return | fatal | exit0
	vals []fval
	pos  token.Pos
}

// fsSite: what the interpretation saw at one file-system primitive (os.Remove or a writer call).
type fsSite struct {
	pos        token.Pos
	what       string
	names      map[string]bool
	unresolved []string
	parametric bool
}

type fsInterp struct {
	c       *c19
	info    *types.Info
	decls   map[*types.Func]*ast.FuncDecl
	inline  map[*types.Func]bool // same-package helpers to inline (parametric file arguments)
	globals map[types.Object]ast.Expr
	sites   map[token.Pos]*fsSite
	und     []string
	steps   int
	// per root run
	paramHit bool                  // an fs primitive was applied to a parameter-dependent path
	evViol   map[string]token.Pos  // "remove after write" findings: message -> pos
	funcLits map[*ast.FuncLit]bool // closures that were inlined at least once
	passed   map[*ast.FuncLit]bool // closures handed to code that is not interpreted
	touched  map[token.Pos]bool    // sites visited by the current standalone run
	forks    map[string]bool       // calls forked into success / failure
}

const fsMaxDepth = 6
const fsMaxSteps = 400000

func newFSInterp(c *c19) *fsInterp {
	in := &fsInterp{c: c, info: c.info, decls: map[*types.Func]*ast.FuncDecl{}, inline: map[*types.Func]bool{}, globals: map[types.Object]ast.Expr{},
		sites: map[token.Pos]*fsSite{}, evViol: map[string]token.Pos{}, funcLits: map[*ast.FuncLit]bool{}, passed: map[*ast.FuncLit]bool{}}
	for _, fd := range c.funcDecls() {
		if fo, ok := c.info.Defs[fd.Name].(*types.Func); ok {
			in.decls[fo] = fd
		}
	}
	// package-level variables initialised by a literal and never assigned elsewhere
	assigned := map[types.Object]bool{}
	for _, f := range c.p.Syntax {
		ast.Inspect(f, func(n ast.Node) bool {
			switch x := n.(type) {
			case *ast.AssignStmt:
				for _, l := range x.Lhs {
					root := l
					for {
						if ix, ok := ast.Unparen(root).(*ast.IndexExpr); ok {
							root = ix.X
							continue
						}
						break
					}
					if o := identObj(c.info, root); o != nil {
						assigned[o] = true
					}
				}
			case *ast.UnaryExpr:
				if x.Op == token.AND {
					if o := identObj(c.info, x.X); o != nil {
						assigned[o] = true
					}
				}
			}
			return true
		})
	}
	for _, f := range c.p.Syntax {
		for _, d := range f.Decls {
			gd, ok := d.(*ast.GenDecl)
			if !ok || gd.Tok != token.VAR {
				continue
			}
			for _, sp := range gd.Specs {
				vs := sp.(*ast.ValueSpec)
				for i, nm := range vs.Names {
					if o := c.info.Defs[nm]; o != nil && !assigned[o] && i < len(vs.Values) && len(vs.Names) == len(vs.Values) {
						in.globals[o] = vs.Values[i]
					}
				}
			}
		}
	}
	return in
}

func (in *fsInterp) mayReturn(call *ast.CallExpr) bool {
	nm := calleeName(in.info, call)
	switch nm {
	case "log.Fatal", "log.Fatalf", "log.Fatalln", "os.Exit", "panic", "log.Panic", "log.Panicf", "log.Panicln":
		return false
	}
	if id, ok := call.Fun.(*ast.Ident); ok && id.Name == "panic" {
		return false
	}
	return true
}

type evalOut struct {
	st   *fstate
	vals []fval
	exit *fexit
}

func one(st *fstate, v fval) []evalOut { return []evalOut{{st: st, vals: []fval{v}}} }

func isErrorType(t types.Type) bool { return t != nil && types.Identical(t, errType) }

// run interprets a function body from st and returns its exits.
func (in *fsInterp) run(body *ast.BlockStmt, st *fstate, depth int, results *ast.FieldList) []fexit {
	g := cfg.New(body, in.mayReturn)
	var exits []fexit
	seen := map[string]bool{}
	var walk func(b *cfg.Block, st *fstate)
	walk = func(b *cfg.Block, st *fstate) {
		if in.steps > fsMaxSteps {
			return
		}
		key := fmt.Sprintf("%d|%s", b.Index, st.enc())
		if seen[key] {
			return
		}
		seen[key] = true
		in.steps++
		if b.Kind == cfg.KindRangeLoop && len(b.Succs) == 2 {
			if rs, ok := b.Stmt.(*ast.RangeStmt); ok {
				body, done := b.Succs[0], b.Succs[1]
				if body.Kind != cfg.KindRangeBody {
					body, done = done, body
				}
				for _, o := range in.evalExpr(rs.X, st.clone(), depth) {
					if o.exit != nil {
						exits = append(exits, *o.exit)
						continue
					}
					lv := o.vals[0]
					if lv.k == fvNil {
						lv = fval{k: fvList}
					}
					if lv.k != fvList {
						s1 := o.st
						if lv.k == fvParam || lv.k == fvParamPath {
							in.bindRangeVars(rs, s1, fval{k: fvParamPath}, true)
						} else {
							in.bindRangeVars(rs, s1, fval{}, false)
						}
						walk(body, s1)
						walk(done, o.st.clone())
						continue
					}
					idx := o.st.iters[rs.Pos()]
					if idx < len(lv.list) {
						s1 := o.st
						s1.iters[rs.Pos()] = idx + 1
						in.bindRangeVars(rs, s1, lv.list[idx], true)
						walk(body, s1)
					} else {
						s1 := o.st
						delete(s1.iters, rs.Pos())
						walk(done, s1)
					}
				}
				return
			}
		}
		states := []*fstate{st.clone()}
		nodes := b.Nodes
		var condExpr ast.Expr
		if len(b.Succs) == 2 && len(nodes) > 0 {
			if e, ok := nodes[len(nodes)-1].(ast.Expr); ok {
				condExpr = e
				nodes = nodes[:len(nodes)-1]
			}
		}
		for _, n := range nodes {
			var next []*fstate
			for _, s := range states {
				for _, o := range in.execNode(n, s, depth, results) {
					if o.exit != nil {
						exits = append(exits, *o.exit)
						continue
					}
					next = append(next, o.st)
				}
			}
			states = next
		}
		for _, s := range states {
			switch {
			case condExpr != nil:
				for _, co := range in.evalCond(condExpr, s, depth, b) {
					if co.exit != nil {
						exits = append(exits, *co.exit)
						continue
					}
					if co.truth > 0 {
						walk(b.Succs[0], co.st)
					} else {
						walk(b.Succs[1], co.st)
					}
				}
			case len(b.Succs) == 0:
				// falling off the end of the function
				e := fexit{st: s, kind: "return", pos: body.End()}
				if results != nil {
					for _, f := range results.List {
						for _, nm := range f.Names {
							e.vals = append(e.vals, s.env[in.info.Defs[nm]])
						}
					}
				}
				exits = append(exits, e)
			default:
				for _, nb := range b.Succs {
					walk(nb, s.clone())
				}
			}
		}
	}
	walk(g.Blocks[0], st)
	return exits
}

func (in *fsInterp) bindRangeVars(rs *ast.RangeStmt, st *fstate, elem fval, known bool) {
	if id, ok := rs.Key.(*ast.Ident); ok && id.Name != "_" {
		if o := in.objOf(id); o != nil {
			st.env[o] = fval{}
		}
	}
	if id, ok := rs.Value.(*ast.Ident); ok && id.Name != "_" {
		if o := in.objOf(id); o != nil {
			if known {
				st.env[o] = elem
			} else {
				st.env[o] = fval{}
			}
		}
	}
}

func (in *fsInterp) objOf(id *ast.Ident) types.Object {
	if o := in.info.Defs[id]; o != nil {
		return o
	}
	return in.info.Uses[id]
}

func (in *fsInterp) zeroOf(t types.Type) fval {
	if t == nil {
		return fval{}
	}
	if isErrorType(t) {
		return fval{k: fvErr, nilness: 1}
	}
	switch u := t.Underlying().(type) {
	case *types.Slice:
		return fval{k: fvList}
	case *types.Basic:
		if u.Kind() == types.String {
			return fval{k: fvStr}
		}
		if u.Kind() == types.Bool {
			return fval{k: fvBool, b: -1}
		}
	}
	return fval{}
}

// coerce adapts a value to the static type of its destination (untyped nil into an error variable).
func (in *fsInterp) coerce(v fval, t types.Type) fval {
	if v.k == fvNil && isErrorType(t) {
		return fval{k: fvErr, nilness: 1}
	}
	if v.k == fvNil && t != nil {
		if _, ok := t.Underlying().(*types.Slice); ok {
			return fval{k: fvList}
		}
	}
	return v
}

func (in *fsInterp) execNode(n ast.Node, st *fstate, depth int, results *ast.FieldList) []evalOut {
	switch x := n.(type) {
	case *ast.AssignStmt:
		if x.Tok != token.ASSIGN && x.Tok != token.DEFINE {
			// op-assign: the variable becomes unknown
			for _, l := range x.Lhs {
				if id, ok := ast.Unparen(l).(*ast.Ident); ok {
					if o := in.objOf(id); o != nil {
						st.env[o] = fval{}
					}
				}
			}
			return []evalOut{{st: st}}
		}
		var outs []evalOut
		if len(x.Rhs) == 1 && len(x.Lhs) > 1 {
			outs = in.evalMulti(x.Rhs[0], st, depth, len(x.Lhs))
		} else {
			outs = []evalOut{{st: st}}
			for _, r := range x.Rhs {
				var next []evalOut
				for _, o := range outs {
					if o.exit != nil {
						next = append(next, o)
						continue
					}
					for _, o2 := range in.evalExpr(r, o.st, depth) {
						if o2.exit != nil {
							next = append(next, o2)
							continue
						}
						next = append(next, evalOut{st: o2.st, vals: append(append([]fval{}, o.vals...), o2.vals[0])})
					}
				}
				outs = next
			}
		}
		for i := range outs {
			if outs[i].exit != nil {
				continue
			}
			for j, l := range x.Lhs {
				id, ok := ast.Unparen(l).(*ast.Ident)
				if !ok || id.Name == "_" {
					continue
				}
				o := in.objOf(id)
				if o == nil {
					continue
				}
				v := fval{}
				if j < len(outs[i].vals) {
					v = outs[i].vals[j]
				}
				outs[i].st.env[o] = in.coerce(v, o.Type())
			}
			outs[i].vals = nil
		}
		return outs
	case *ast.ValueSpec:
		outs := []evalOut{{st: st}}
		if len(x.Values) == 1 && len(x.Names) > 1 {
			outs = in.evalMulti(x.Values[0], st, depth, len(x.Names))
		} else {
			for _, r := range x.Values {
				var next []evalOut
				for _, o := range outs {
					if o.exit != nil {
						next = append(next, o)
						continue
					}
					for _, o2 := range in.evalExpr(r, o.st, depth) {
						if o2.exit != nil {
							next = append(next, o2)
							continue
						}
						next = append(next, evalOut{st: o2.st, vals: append(append([]fval{}, o.vals...), o2.vals[0])})
					}
				}
				outs = next
			}
		}
		for i := range outs {
			if outs[i].exit != nil {
				continue
			}
			for j, nm := range x.Names {
				o := in.info.Defs[nm]
				if o == nil {
					continue
				}
				if j < len(outs[i].vals) {
					outs[i].st.env[o] = in.coerce(outs[i].vals[j], o.Type())
				} else {
					outs[i].st.env[o] = in.zeroOf(o.Type())
				}
			}
			outs[i].vals = nil
		}
		return outs
	case *ast.ExprStmt:
		outs := in.evalMulti(x.X, st, depth, 0)
		for i := range outs {
			outs[i].vals = nil
		}
		return outs
	case *ast.ReturnStmt:
		if len(x.Results) == 0 {
			e := fexit{st: st, kind: "return", pos: x.Pos()}
			if results != nil {
				for _, f := range results.List {
					for _, nm := range f.Names {
						e.vals = append(e.vals, st.env[in.info.Defs[nm]])
					}
				}
			}
			return []evalOut{{exit: &e}}
		}
		var outs []evalOut
		if len(x.Results) == 1 {
			nres := 1
			if results != nil {
				nres = results.NumFields()
			}
			outs = in.evalMulti(x.Results[0], st, depth, nres)
		} else {
			outs = []evalOut{{st: st}}
			for _, r := range x.Results {
				var next []evalOut
				for _, o := range outs {
					if o.exit != nil {
						next = append(next, o)
						continue
					}
					for _, o2 := range in.evalExpr(r, o.st, depth) {
						if o2.exit != nil {
							next = append(next, o2)
							continue
						}
						next = append(next, evalOut{st: o2.st, vals: append(append([]fval{}, o.vals...), o2.vals[0])})
					}
				}
				outs = next
			}
		}
		var res []evalOut
		for _, o := range outs {
			if o.exit != nil {
				res = append(res, o)
				continue
			}
			vals := o.vals
			if results != nil {
				i := 0
				for _, f := range results.List {
					k := len(f.Names)
					if k == 0 {
						k = 1
					}
					for j := 0; j < k; j++ {
						if i < len(vals) {
							vals[i] = in.coerce(vals[i], in.info.TypeOf(f.Type))
						}
						i++
					}
				}
			}
			res = append(res, evalOut{exit: &fexit{st: o.st, kind: "return", vals: vals, pos: x.Pos()}})
		}
		return res
	case *ast.IncDecStmt:
		if id, ok := ast.Unparen(x.X).(*ast.Ident); ok {
			if o := in.objOf(id); o != nil {
				st.env[o] = fval{}
			}
		}
		return []evalOut{{st: st}}
	case *ast.DeferStmt:
		// deferred calls run after the result is fixed; closures that assign results are not modelled
		if fl, ok := x.Call.Fun.(*ast.FuncLit); ok {
			in.und = append(in.und, fmt.Sprintf("deferred closure at %s is not interpreted", in.c.s.pos(fl.Pos())))
		}
		return []evalOut{{st: st}}
	case *ast.GoStmt:
		in.und = append(in.und, fmt.Sprintf("go statement at %s is not interpreted", in.c.s.pos(x.Pos())))
		return []evalOut{{st: st}}
	case ast.Expr:
		// range operands / switch tags added as separate nodes: evaluate calls for their effects
		hasCall := false
		ast.Inspect(x, func(m ast.Node) bool {
			if _, ok := m.(*ast.FuncLit); ok {
				return false
			}
			if _, ok := m.(*ast.CallExpr); ok {
				hasCall = true
			}
			return true
		})
		if !hasCall {
			return []evalOut{{st: st}}
		}
		if _, isRangeOperand := x.(*ast.Ident); isRangeOperand {
			return []evalOut{{st: st}}
		}
		outs := in.evalMulti(x, st, depth, 0)
		for i := range outs {
			outs[i].vals = nil
		}
		return outs
	}
	return []evalOut{{st: st}}
}

// evalMulti evaluates an expression that may yield several values (a call).
func (in *fsInterp) evalMulti(e ast.Expr, st *fstate, depth int, want int) []evalOut {
	if call, ok := ast.Unparen(e).(*ast.CallExpr); ok {
		return in.evalCall(call, st, depth)
	}
	if ta, ok := ast.Unparen(e).(*ast.TypeAssertExpr); ok && want == 2 {
		_ = ta
		return []evalOut{{st: st, vals: []fval{{}, {}}}}
	}
	if ix, ok := ast.Unparen(e).(*ast.IndexExpr); ok && want == 2 {
		_ = ix
		return []evalOut{{st: st, vals: []fval{{}, {}}}}
	}
	return in.evalExpr(e, st, depth)
}

func (in *fsInterp) evalExpr(e ast.Expr, st *fstate, depth int) []evalOut {
	e = ast.Unparen(e)
	if tv, ok := in.info.Types[e]; ok && tv.Value != nil {
		switch tv.Value.Kind() {
		case constant.String:
			return one(st, fval{k: fvStr, s: constant.StringVal(tv.Value)})
		case constant.Bool:
			b := -1
			if constant.BoolVal(tv.Value) {
				b = 1
			}
			return one(st, fval{k: fvBool, b: b})
		}
		return one(st, fval{})
	}
	switch x := e.(type) {
	case *ast.Ident:
		if x.Name == "nil" {
			if _, isNil := in.info.Uses[x].(*types.Nil); isNil {
				return one(st, fval{k: fvNil})
			}
		}
		o := in.objOf(x)
		if o == nil {
			return one(st, fval{})
		}
		if v, ok := st.env[o]; ok {
			return one(st, v)
		}
		if init, ok := in.globals[o]; ok {
			if cl, isLit := ast.Unparen(init).(*ast.CompositeLit); isLit {
				return in.evalExpr(cl, st, depth)
			}
			if tv, ok := in.info.Types[init]; ok && tv.Value != nil {
				return in.evalExpr(init, st, depth)
			}
		}
		return one(st, fval{})
	case *ast.FuncLit:
		return one(st, fval{k: fvFunc, fn: x})
	case *ast.CompositeLit:
		t := in.info.TypeOf(x)
		if t == nil {
			return one(st, fval{})
		}
		switch u := t.Underlying().(type) {
		case *types.Slice, *types.Array:
			outs := []evalOut{{st: st, vals: nil}}
			for _, el := range x.Elts {
				if kv, ok := el.(*ast.KeyValueExpr); ok {
					el = kv.Value
				}
				var next []evalOut
				for _, o := range outs {
					if o.exit != nil {
						next = append(next, o)
						continue
					}
					var sub []evalOut
					if cl, ok := el.(*ast.CompositeLit); ok && cl.Type == nil {
						sub = in.evalExpr(cl, o.st, depth)
					} else {
						sub = in.evalExpr(el, o.st, depth)
					}
					for _, o2 := range sub {
						if o2.exit != nil {
							next = append(next, o2)
							continue
						}
						next = append(next, evalOut{st: o2.st, vals: append(append([]fval{}, o.vals...), o2.vals[0])})
					}
				}
				outs = next
			}
			for i := range outs {
				if outs[i].exit == nil {
					outs[i].vals = []fval{{k: fvList, list: outs[i].vals}}
				}
			}
			return outs
		case *types.Struct:
			names := make([]string, len(x.Elts))
			exprs := make([]ast.Expr, len(x.Elts))
			for i, el := range x.Elts {
				if kv, ok := el.(*ast.KeyValueExpr); ok {
					if id, ok := kv.Key.(*ast.Ident); ok {
						names[i] = id.Name
					}
					exprs[i] = kv.Value
				} else if i < u.NumFields() {
					names[i] = u.Field(i).Name()
					exprs[i] = el
				}
			}
			outs := []evalOut{{st: st}}
			for _, ex := range exprs {
				var next []evalOut
				for _, o := range outs {
					if o.exit != nil {
						next = append(next, o)
						continue
					}
					if ex == nil {
						next = append(next, evalOut{st: o.st, vals: append(append([]fval{}, o.vals...), fval{})})
						continue
					}
					for _, o2 := range in.evalExpr(ex, o.st, depth) {
						if o2.exit != nil {
							next = append(next, o2)
							continue
						}
						next = append(next, evalOut{st: o2.st, vals: append(append([]fval{}, o.vals...), o2.vals[0])})
					}
				}
				outs = next
			}
			for i := range outs {
				if outs[i].exit != nil {
					continue
				}
				fs := map[string]fval{}
				for j, nm := range names {
					if nm != "" && j < len(outs[i].vals) {
						fs[nm] = outs[i].vals[j]
					}
				}
				outs[i].vals = []fval{{k: fvStruct, fields: fs}}
			}
			return outs
		}
		return one(st, fval{})
	case *ast.SelectorExpr:
		// field of a known struct value
		if sel := in.info.Selections[x]; sel != nil && sel.Kind() == types.FieldVal {
			outs := in.evalExpr(x.X, st, depth)
			if len(outs) == 1 && outs[0].exit == nil && outs[0].vals[0].k == fvStruct {
				if fv, ok := outs[0].vals[0].fields[x.Sel.Name]; ok {
					return one(outs[0].st, fv)
				}
				return one(outs[0].st, fval{})
			}
			if k, neg := in.c.condKind(x); k != "" {
				return one(st, fval{k: fvBool, s: k, neg: neg})
			}
			if len(outs) == 1 && outs[0].exit == nil && (outs[0].vals[0].k == fvParam || outs[0].vals[0].k == fvParamPath) {
				return one(outs[0].st, fval{k: fvParamPath})
			}
		}
		return one(st, fval{})
	case *ast.UnaryExpr:
		if x.Op == token.NOT {
			outs := in.evalExpr(x.X, st, depth)
			for i := range outs {
				if outs[i].exit == nil {
					outs[i].vals[0] = negBool(outs[i].vals[0])
				}
			}
			return outs
		}
		if x.Op == token.AND {
			if cl, ok := ast.Unparen(x.X).(*ast.CompositeLit); ok {
				return in.evalExpr(cl, st, depth)
			}
		}
		return one(st, fval{})
	case *ast.StarExpr:
		return one(st, fval{})
	case *ast.BinaryExpr:
		if k, neg := in.c.condKind(x); k != "" {
			return one(st, fval{k: fvBool, s: k, neg: neg})
		}
		if x.Op == token.ADD {
			// constant folding is done by go/types; anything else is a computed string
			return in.evalOperandsThen(st, depth, fval{}, x.X, x.Y)
		}
		return in.evalOperandsThen(st, depth, fval{}, x.X, x.Y)
	case *ast.IndexExpr:
		outs := in.evalExpr(x.X, st, depth)
		if len(outs) == 1 && outs[0].exit == nil && outs[0].vals[0].k == fvList {
			if tv, ok := in.info.Types[x.Index]; ok && tv.Value != nil {
				if i, ok := constant.Int64Val(tv.Value); ok && int(i) < len(outs[0].vals[0].list) && i >= 0 {
					return one(outs[0].st, outs[0].vals[0].list[i])
				}
			}
		}
		if len(outs) == 1 && outs[0].exit == nil && (outs[0].vals[0].k == fvParam || outs[0].vals[0].k == fvParamPath) {
			return one(outs[0].st, fval{k: fvParamPath})
		}
		return one(st, fval{})
	case *ast.SliceExpr:
		return one(st, fval{})
	case *ast.TypeAssertExpr:
		return one(st, fval{})
	case *ast.CallExpr:
		outs := in.evalCall(x, st, depth)
		for i := range outs {
			if outs[i].exit == nil {
				if len(outs[i].vals) == 0 {
					outs[i].vals = []fval{{}}
				} else {
					outs[i].vals = outs[i].vals[:1]
				}
			}
		}
		return outs
	}
	return one(st, fval{})
}

// evalOperandsThen evaluates operands for their effects (calls fork) and yields v.
func (in *fsInterp) evalOperandsThen(st *fstate, depth int, v fval, es ...ast.Expr) []evalOut {
	outs := []evalOut{{st: st}}
	for _, e := range es {
		hasCall := false
		ast.Inspect(e, func(m ast.Node) bool {
			if _, ok := m.(*ast.FuncLit); ok {
				return false
			}
			if _, ok := m.(*ast.CallExpr); ok {
				hasCall = true
			}
			return true
		})
		if !hasCall {
			continue
		}
		var next []evalOut
		for _, o := range outs {
			if o.exit != nil {
				next = append(next, o)
				continue
			}
			for _, o2 := range in.evalExpr(e, o.st, depth) {
				if o2.exit != nil {
					next = append(next, o2)
				} else {
					next = append(next, evalOut{st: o2.st})
				}
			}
		}
		outs = next
	}
	for i := range outs {
		if outs[i].exit == nil {
			outs[i].vals = []fval{v}
		}
	}
	return outs
}

func negBool(v fval) fval {
	if v.k != fvBool {
		return fval{}
	}
	if v.s == "" {
		v.b = -v.b
		return v
	}
	v.neg = !v.neg
	return v
}

type condOut struct {
	st    *fstate
	truth int
	exit  *fexit
}

// evalCond evaluates a branch condition and returns the feasible outcomes with refined states.
func (in *fsInterp) evalCond(e ast.Expr, st *fstate, depth int, b *cfg.Block) []condOut {
	e = ast.Unparen(e)
	both := func(s *fstate) []condOut {
		return []condOut{{st: s.clone(), truth: 1}, {st: s.clone(), truth: -1}}
	}
	// a tagged switch adds only the case expression: not a condition by itself
	if b != nil {
		if tagged, ok := in.enclosingSwitchTag(b); ok && tagged {
			return both(st)
		}
	}
	if u, ok := e.(*ast.UnaryExpr); ok && u.Op == token.NOT {
		outs := in.evalCond(u.X, st, depth, nil)
		for i := range outs {
			outs[i].truth = -outs[i].truth
		}
		return outs
	}
	// go/cfg keeps a condition whole: short-circuit evaluation is done here
	if be, ok := e.(*ast.BinaryExpr); ok && (be.Op == token.LAND || be.Op == token.LOR) {
		var res []condOut
		for _, l := range in.evalCond(be.X, st, depth, nil) {
			if l.exit != nil {
				res = append(res, l)
				continue
			}
			decided := (be.Op == token.LAND && l.truth < 0) || (be.Op == token.LOR && l.truth > 0)
			if decided {
				res = append(res, l)
				continue
			}
			res = append(res, in.evalCond(be.Y, l.st, depth, nil)...)
		}
		return res
	}
	// err != nil / err == nil
	if be, ok := e.(*ast.BinaryExpr); ok && (be.Op == token.NEQ || be.Op == token.EQL) {
		var operand ast.Expr
		if isNilIdent(be.Y) {
			operand = be.X
		} else if isNilIdent(be.X) {
			operand = be.Y
		}
		if operand != nil && isErrorType(in.info.TypeOf(operand)) {
			var res []condOut
			for _, o := range in.evalExpr(operand, st, depth) {
				if o.exit != nil {
					res = append(res, condOut{exit: o.exit})
					continue
				}
				v := o.vals[0]
				id, _ := ast.Unparen(operand).(*ast.Ident)
				emit := func(isNil bool) {
					s := o.st.clone()
					if id != nil {
						if obj := in.objOf(id); obj != nil {
							nv := v
							if nv.k != fvErr {
								nv = fval{k: fvErr}
							}
							if isNil {
								nv.nilness, nv.notExist = 1, -1
							} else {
								nv.nilness = -1
							}
							s.env[obj] = nv
						}
					}
					t := 1
					if isNil == (be.Op == token.NEQ) {
						t = -1
					}
					res = append(res, condOut{st: s, truth: t})
				}
				switch {
				case v.k == fvErr && v.nilness > 0, v.k == fvNil:
					emit(true)
				case v.k == fvErr && v.nilness < 0:
					emit(false)
				default:
					emit(true)
					emit(false)
				}
			}
			return res
		}
		// len(list) compared with a constant
		if r, ok := in.lenCompare(be, st, depth); ok {
			return []condOut{{st: st, truth: r}}
		}
	}
	if be, ok := e.(*ast.BinaryExpr); ok && (be.Op == token.GTR || be.Op == token.LSS || be.Op == token.GEQ || be.Op == token.LEQ) {
		if r, ok := in.lenCompare(be, st, depth); ok {
			return []condOut{{st: st, truth: r}}
		}
	}
	// os.IsNotExist(err) / errors.Is(err, os.ErrNotExist)
	if call, ok := e.(*ast.CallExpr); ok {
		if arg := in.notExistArg(call); arg != nil {
			var res []condOut
			for _, o := range in.evalExpr(arg, st, depth) {
				if o.exit != nil {
					res = append(res, condOut{exit: o.exit})
					continue
				}
				v := o.vals[0]
				id, _ := ast.Unparen(arg).(*ast.Ident)
				emit := func(yes bool) {
					s := o.st.clone()
					if id != nil {
						if obj := in.objOf(id); obj != nil {
							nv := v
							if nv.k != fvErr {
								nv = fval{k: fvErr}
							}
							if yes {
								nv.nilness, nv.notExist = -1, 1
							} else {
								nv.notExist = -1
							}
							s.env[obj] = nv
						}
					}
					t := -1
					if yes {
						t = 1
					}
					res = append(res, condOut{st: s, truth: t})
				}
				switch {
				case v.k == fvNil, v.k == fvErr && v.nilness > 0, v.k == fvErr && v.notExist < 0:
					emit(false)
				case v.k == fvErr && v.notExist > 0:
					emit(true)
				default:
					emit(true)
					emit(false)
				}
			}
			return res
		}
	}
	// symbolic booleans: polarity kinds and constants
	var res []condOut
	for _, o := range in.evalExpr(e, st, depth) {
		if o.exit != nil {
			res = append(res, condOut{exit: o.exit})
			continue
		}
		v := o.vals[0]
		switch {
		case v.k == fvBool && v.s == "" && v.b != 0:
			res = append(res, condOut{st: o.st, truth: v.b})
		case v.k == fvBool && v.s != "":
			tv, fv := 1, -1
			if v.neg {
				tv, fv = -1, 1
			}
			if o.st.cond[v.s] != -tv {
				s1 := o.st.clone()
				s1.cond[v.s] = tv
				res = append(res, condOut{st: s1, truth: 1})
			}
			if o.st.cond[v.s] != -fv {
				s2 := o.st.clone()
				s2.cond[v.s] = fv
				res = append(res, condOut{st: s2, truth: -1})
			}
		default:
			res = append(res, both(o.st)...)
		}
	}
	return res
}

// enclosingSwitchTag: the block's condition is one half of `tag == case` of a tagged switch.
func (in *fsInterp) enclosingSwitchTag(b *cfg.Block) (bool, bool) {
	// go/cfg gives case-test blocks no distinguishing Stmt; the successor body block carries the clause
	if len(b.Succs) == 2 && b.Succs[0].Kind == cfg.KindSwitchCaseBody {
		if cc, ok := b.Succs[0].Stmt.(*ast.CaseClause); ok {
			// find the switch statement that owns the clause: tagged iff Tag != nil — resolved lazily
			if sw := in.switchOf(cc); sw != nil {
				return sw.Tag != nil, true
			}
		}
	}
	return false, false
}

var switchOwner map[*ast.CaseClause]*ast.SwitchStmt

func (in *fsInterp) switchOf(cc *ast.CaseClause) *ast.SwitchStmt {
	if switchOwner == nil {
		switchOwner = map[*ast.CaseClause]*ast.SwitchStmt{}
	}
	if sw, ok := switchOwner[cc]; ok {
		return sw
	}
	for _, f := range in.c.p.Syntax {
		if cc.Pos() < f.Pos() || cc.Pos() >= f.End() {
			continue
		}
		ast.Inspect(f, func(n ast.Node) bool {
			if sw, ok := n.(*ast.SwitchStmt); ok {
				for _, c := range sw.Body.List {
					if c2, ok := c.(*ast.CaseClause); ok {
						switchOwner[c2] = sw
					}
				}
			}
			return true
		})
	}
	return switchOwner[cc]
}

func (in *fsInterp) lenCompare(be *ast.BinaryExpr, st *fstate, depth int) (int, bool) {
	call, ok := ast.Unparen(be.X).(*ast.CallExpr)
	if !ok || len(call.Args) != 1 {
		return 0, false
	}
	if id, ok := call.Fun.(*ast.Ident); !ok || id.Name != "len" {
		return 0, false
	}
	tv, ok := in.info.Types[be.Y]
	if !ok || tv.Value == nil {
		return 0, false
	}
	k, ok := constant.Int64Val(tv.Value)
	if !ok {
		return 0, false
	}
	outs := in.evalExpr(call.Args[0], st, depth)
	if len(outs) != 1 || outs[0].exit != nil {
		return 0, false
	}
	v := outs[0].vals[0]
	if v.k == fvNil {
		v = fval{k: fvList}
	}
	if v.k != fvList {
		return 0, false
	}
	n := int64(len(v.list))
	var r bool
	switch be.Op {
	case token.EQL:
		r = n == k
	case token.NEQ:
		r = n != k
	case token.GTR:
		r = n > k
	case token.LSS:
		r = n < k
	case token.GEQ:
		r = n >= k
	case token.LEQ:
		r = n <= k
	default:
		return 0, false
	}
	if r {
		return 1, true
	}
	return -1, true
}

// notExistArg: call is os.IsNotExist(x) or errors.Is(x, os.ErrNotExist / fs.ErrNotExist); returns x.
func (in *fsInterp) notExistArg(call *ast.CallExpr) ast.Expr {
	nm := calleeName(in.info, call)
	if nm == "os.IsNotExist" && len(call.Args) == 1 {
		return call.Args[0]
	}
	if nm == "errors.Is" && len(call.Args) == 2 {
		if t := calleeOrVar(in.info, call.Args[1]); t == "os.ErrNotExist" || t == "io/fs.ErrNotExist" {
			return call.Args[0]
		}
	}
	return nil
}

func (in *fsInterp) site(pos token.Pos, what string) *fsSite {
	s := in.sites[pos]
	if s == nil {
		s = &fsSite{pos: pos, what: what, names: map[string]bool{}}
		in.sites[pos] = s
	}
	if in.touched != nil {
		in.touched[pos] = true
	}
	return s
}

func (in *fsInterp) event(st *fstate, kind, file string, pos token.Pos) {
	if kind == "remove" && st.ev[file] == "write" {
		in.evViol[file+": os.Remove after the file was written on the same path: the freshly generated file is deleted"] = pos
	}
	st.ev[file] = kind
}

func joinVals(vs []fval) fval {
	if len(vs) == 0 {
		return fval{}
	}
	first := vs[0]
	rest := vs[1:]
	allConst := true
	var parts []string
	anyParam := false
	for _, r := range rest {
		if r.k != fvStr {
			allConst = false
		} else {
			parts = append(parts, r.s)
		}
		if r.k == fvParam || r.k == fvParamPath || r.k == fvPath {
			anyParam = true
		}
	}
	switch first.k {
	case fvParam:
		if len(rest) == 0 {
			return first
		}
		if allConst && len(rest) == 1 && !strings.ContainsAny(rest[0].s, "/\\") && rest[0].s != "" && rest[0].s != "." && rest[0].s != ".." {
			return fval{k: fvPath, obj: first.obj, s: rest[0].s}
		}
		if anyParam {
			return fval{k: fvParamPath}
		}
		return fval{}
	case fvStr:
		if allConst {
			return fval{} // a constant path: not below the output directory
		}
	}
	if first.k == fvParamPath || anyParam {
		return fval{k: fvParamPath}
	}
	return fval{}
}

func (in *fsInterp) failOutcome(st *fstate, desc string) *fstate {
	if in.forks == nil {
		in.forks = map[string]bool{}
	}
	in.forks[desc] = true
	s := st.clone()
	s.failed[desc] = true
	return s
}

func (in *fsInterp) callDesc(call *ast.CallExpr) string {
	nm := calleeName(in.info, call)
	if nm == "" {
		nm = types.ExprString(call.Fun)
	}
	if i := strings.LastIndex(nm, "/"); i >= 0 {
		nm = nm[i+1:]
	}
	return nm + "@" + in.c.s.pos(call.Pos())
}

// evalArgs evaluates call arguments left to right.
func (in *fsInterp) evalArgs(args []ast.Expr, st *fstate, depth int) []evalOut {
	outs := []evalOut{{st: st}}
	for _, a := range args {
		var next []evalOut
		for _, o := range outs {
			if o.exit != nil {
				next = append(next, o)
				continue
			}
			for _, o2 := range in.evalExpr(a, o.st, depth) {
				if o2.exit != nil {
					next = append(next, o2)
					continue
				}
				next = append(next, evalOut{st: o2.st, vals: append(append([]fval{}, o.vals...), o2.vals[0])})
			}
		}
		outs = next
	}
	return outs
}

func (in *fsInterp) evalCall(call *ast.CallExpr, st *fstate, depth int) []evalOut {
	// conversion
	if tv, ok := in.info.Types[call.Fun]; ok && tv.IsType() {
		if len(call.Args) == 1 {
			return in.evalExpr(call.Args[0], st, depth)
		}
		return one(st, fval{})
	}
	nm := calleeName(in.info, call)
	// builtins
	if id, ok := ast.Unparen(call.Fun).(*ast.Ident); ok {
		if _, isBuiltin := in.info.Uses[id].(*types.Builtin); isBuiltin {
			switch id.Name {
			case "append":
				var res []evalOut
				for _, o := range in.evalArgs(call.Args, st, depth) {
					if o.exit != nil {
						res = append(res, o)
						continue
					}
					base := o.vals[0]
					if base.k == fvNil {
						base = fval{k: fvList}
					}
					if base.k != fvList {
						res = append(res, evalOut{st: o.st, vals: []fval{{}}})
						continue
					}
					nl := append([]fval{}, base.list...)
					okAll := true
					for i, a := range o.vals[1:] {
						if call.Ellipsis.IsValid() && i == len(o.vals)-2 {
							if a.k == fvNil {
								continue
							}
							if a.k != fvList {
								okAll = false
								break
							}
							nl = append(nl, a.list...)
						} else {
							nl = append(nl, a)
						}
					}
					if !okAll {
						res = append(res, evalOut{st: o.st, vals: []fval{{}}})
						continue
					}
					res = append(res, evalOut{st: o.st, vals: []fval{{k: fvList, list: nl}}})
				}
				return res
			case "panic":
				return []evalOut{{exit: &fexit{st: st, kind: "fatal", pos: call.Pos()}}}
			default:
				return in.evalOperandsThen(st, depth, fval{}, call.Args...)
			}
		}
	}
	switch nm {
	case "path.Join", "path/filepath.Join":
		var res []evalOut
		for _, o := range in.evalArgs(call.Args, st, depth) {
			if o.exit != nil {
				res = append(res, o)
				continue
			}
			res = append(res, evalOut{st: o.st, vals: []fval{joinVals(o.vals)}})
		}
		return res
	case "log.Fatal", "log.Fatalf", "log.Fatalln", "log.Panic", "log.Panicf", "log.Panicln":
		var res []evalOut
		for _, o := range in.evalArgs(call.Args, st, depth) {
			if o.exit != nil {
				res = append(res, o)
				continue
			}
			res = append(res, evalOut{exit: &fexit{st: o.st, kind: "fatal", pos: call.Pos()}})
		}
		return res
	case "os.Exit":
		kind := "fatal"
		if len(call.Args) == 1 {
			if tv, ok := in.info.Types[call.Args[0]]; ok && tv.Value != nil {
				if v, ok := constant.Int64Val(tv.Value); ok && v == 0 {
					kind = "exit0"
				}
			} else {
				kind = "exit?"
			}
		}
		return []evalOut{{exit: &fexit{st: st, kind: kind, pos: call.Pos()}}}
	case "fmt.Errorf", "errors.New":
		var res []evalOut
		for _, o := range in.evalArgs(call.Args, st, depth) {
			if o.exit != nil {
				res = append(res, o)
				continue
			}
			res = append(res, evalOut{st: o.st, vals: []fval{{k: fvErr, nilness: -1}}})
		}
		return res
	case "os.IsNotExist", "errors.Is":
		if arg := in.notExistArg(call); arg != nil {
			var res []evalOut
			for _, o := range in.evalExpr(arg, st, depth) {
				if o.exit != nil {
					res = append(res, o)
					continue
				}
				v := o.vals[0]
				out := fval{}
				switch {
				case v.k == fvNil, v.k == fvErr && (v.nilness > 0 || v.notExist < 0):
					out = fval{k: fvBool, b: -1}
				case v.k == fvErr && v.notExist > 0:
					out = fval{k: fvBool, b: 1}
				}
				res = append(res, evalOut{st: o.st, vals: []fval{out}})
			}
			return res
		}
	case "os.Remove":
		if len(call.Args) == 1 {
			var res []evalOut
			for _, o := range in.evalExpr(call.Args[0], st, depth) {
				if o.exit != nil {
					res = append(res, o)
					continue
				}
				p := o.vals[0]
				site := in.site(call.Pos(), "os.Remove")
				switch p.k {
				case fvPath:
					site.names[p.s] = true
					in.event(o.st, "remove", p.s, call.Pos())
				case fvParamPath, fvParam:
					site.parametric = true
					in.paramHit = true
				default:
					site.unresolved = append(site.unresolved, types.ExprString(call.Args[0]))
				}
				desc := "os.Remove(" + p.s + ")@" + in.c.s.pos(call.Pos())
				okSt := o.st.clone()
				res = append(res, evalOut{st: okSt, vals: []fval{{k: fvErr, nilness: 1, notExist: -1}}})
				res = append(res, evalOut{st: o.st.clone(), vals: []fval{{k: fvErr, nilness: -1, notExist: 1}}})
				res = append(res, evalOut{st: in.failOutcome(o.st, desc), vals: []fval{{k: fvErr, nilness: -1, notExist: -1}}})
			}
			return res
		}
	}
	// closure values
	if outs, ok := in.tryInline(call, st, depth); ok {
		return outs
	}
	callee, _ := typeutil.Callee(in.info, call).(*types.Func)
	// writers
	if callee != nil {
		if wi, isW := in.c.writers[callee]; isW && wi < len(call.Args) {
			var res []evalOut
			for _, o := range in.evalArgs(call.Args, st, depth) {
				if o.exit != nil {
					res = append(res, o)
					continue
				}
				p := o.vals[wi]
				site := in.site(call.Pos(), callee.Name())
				name := ""
				switch p.k {
				case fvPath:
					site.names[p.s] = true
					name = p.s
					in.event(o.st, "write", p.s, call.Pos())
				case fvParam:
					// writer chain: the path is the caller's
				case fvParamPath:
					site.parametric = true
					in.paramHit = true
				default:
					site.unresolved = append(site.unresolved, types.ExprString(call.Args[wi]))
				}
				res = append(res, in.forkResults(call, callee.Type().(*types.Signature), o.st, callee.Name()+"("+name+")@"+in.c.s.pos(call.Pos()))...)
			}
			return res
		}
	}
	// everything else: arguments for their effects, then success / failure outcomes
	var sig *types.Signature
	if t := in.info.TypeOf(call.Fun); t != nil {
		sig, _ = t.Underlying().(*types.Signature)
	}
	var res []evalOut
	for _, o := range in.evalArgs(call.Args, st, depth) {
		if o.exit != nil {
			res = append(res, o)
			continue
		}
		// closures handed to code that is not interpreted
		for _, a := range call.Args {
			if fl, ok := ast.Unparen(a).(*ast.FuncLit); ok {
				in.passed[fl] = true
			}
		}
		for _, v := range o.vals {
			if v.k == fvFunc {
				in.passed[v.fn] = true
			}
		}
		// receiver expression may contain calls
		if sel, ok := ast.Unparen(call.Fun).(*ast.SelectorExpr); ok {
			if _, isCall := ast.Unparen(sel.X).(*ast.CallExpr); isCall {
				for _, o2 := range in.evalExpr(sel.X, o.st, depth) {
					if o2.exit != nil {
						res = append(res, o2)
						continue
					}
					res = append(res, in.forkResults(call, sig, o2.st, in.callDesc(call))...)
				}
				continue
			}
		}
		res = append(res, in.forkResults(call, sig, o.st, in.callDesc(call))...)
	}
	return res
}

// forkResults: outcomes of a call that is not interpreted: all results unknown; when the last
// result is an error, one outcome with nil and one with a non-nil error that marks the path.
func (in *fsInterp) forkResults(call *ast.CallExpr, sig *types.Signature, st *fstate, desc string) []evalOut {
	n := 0
	if sig != nil {
		n = sig.Results().Len()
	}
	vals := make([]fval, n)
	if n == 0 || !isErrorType(sig.Results().At(n-1).Type()) {
		return []evalOut{{st: st, vals: vals}}
	}
	okVals := append([]fval{}, vals...)
	okVals[n-1] = fval{k: fvErr, nilness: 1, notExist: -1}
	badVals := append([]fval{}, vals...)
	badVals[n-1] = fval{k: fvErr, nilness: -1}
	return []evalOut{{st: st.clone(), vals: okVals}, {st: in.failOutcome(st, desc), vals: badVals}}
}

// tryInline: call of a local closure (variable bound to a func literal, or a literal called in
// place) or of a same-package helper marked for inlining.
func (in *fsInterp) tryInline(call *ast.CallExpr, st *fstate, depth int) ([]evalOut, bool) {
	var ftype *ast.FuncType
	var body *ast.BlockStmt
	switch f := ast.Unparen(call.Fun).(type) {
	case *ast.FuncLit:
		ftype, body = f.Type, f.Body
		in.funcLits[f] = true
	case *ast.Ident:
		if o := in.objOf(f); o != nil {
			if v, ok := st.env[o]; ok && v.k == fvFunc {
				ftype, body = v.fn.Type, v.fn.Body
				in.funcLits[v.fn] = true
			}
		}
	case *ast.SelectorExpr:
		// field of a known struct holding a closure
		if sel := in.info.Selections[f]; sel != nil && sel.Kind() == types.FieldVal {
			outs := in.evalExpr(f, st, depth)
			if len(outs) == 1 && outs[0].exit == nil && outs[0].vals[0].k == fvFunc {
				ftype, body = outs[0].vals[0].fn.Type, outs[0].vals[0].fn.Body
				in.funcLits[outs[0].vals[0].fn] = true
			}
		}
	}
	if body == nil {
		callee, _ := typeutil.Callee(in.info, call).(*types.Func)
		if callee == nil || !in.inline[callee] {
			return nil, false
		}
		fd := in.decls[callee]
		if fd == nil {
			return nil, false
		}
		ftype, body = fd.Type, fd.Body
	}
	if depth >= fsMaxDepth {
		in.und = append(in.und, fmt.Sprintf("inlining depth exceeded at %s", in.c.s.pos(call.Pos())))
		return nil, false
	}
	var res []evalOut
	for _, o := range in.evalArgs(call.Args, st, depth) {
		if o.exit != nil {
			res = append(res, o)
			continue
		}
		s := o.st
		// bind parameters
		i := 0
		np := ftype.Params.NumFields()
		for _, f := range ftype.Params.List {
			_, variadic := f.Type.(*ast.Ellipsis)
			names := f.Names
			if len(names) == 0 {
				i++
				continue
			}
			for _, nm := range names {
				obj := in.info.Defs[nm]
				var v fval
				switch {
				case variadic && i == np-1:
					if call.Ellipsis.IsValid() {
						if i < len(o.vals) {
							v = o.vals[i]
							if v.k == fvNil {
								v = fval{k: fvList}
							}
						}
					} else {
						v = fval{k: fvList}
						if i < len(o.vals) {
							v.list = append([]fval{}, o.vals[i:]...)
						}
					}
				case i < len(o.vals):
					v = o.vals[i]
				}
				if obj != nil {
					s.env[obj] = in.coerce(v, obj.Type())
				}
				i++
			}
		}
		if ftype.Results != nil {
			for _, f := range ftype.Results.List {
				for _, nm := range f.Names {
					if obj := in.info.Defs[nm]; obj != nil {
						s.env[obj] = in.zeroOf(obj.Type())
					}
				}
			}
		}
		saved := s.iters
		s.iters = map[token.Pos]int{}
		for _, ex := range in.run(body, s, depth+1, ftype.Results) {
			if ex.kind != "return" {
				e := ex
				res = append(res, evalOut{exit: &e})
				continue
			}
			ns := ex.st
			ns.iters = map[token.Pos]int{}
			for k, v := range saved {
				ns.iters[k] = v
			}
			nres := 0
			if ftype.Results != nil {
				nres = ftype.Results.NumFields()
			}
			vals := ex.vals
			for len(vals) < nres {
				vals = append(vals, fval{})
			}
			res = append(res, evalOut{st: ns, vals: vals})
		}
	}
	return res, true
}
