package main

// s1.go — loader for the generator's own source (S1) and the template index
// (S2). Nothing here executes goag.

import (
	"fmt"
	"go/ast"
	"go/token"
	"go/types"
	"os"
	"path/filepath"
	"sort"
	"strings"
	"text/template/parse"

	"golang.org/x/tools/go/callgraph"
	"golang.org/x/tools/go/callgraph/cha"
	"golang.org/x/tools/go/callgraph/vta"
	"golang.org/x/tools/go/packages"
	"golang.org/x/tools/go/ssa"
	"golang.org/x/tools/go/ssa/ssautil"
)

const modPath = "github.com/vkd/goag"

type S1 struct {
	Fset     *token.FileSet
	Pkgs     map[string]*packages.Package // by import path (repo packages only)
	All      []*packages.Package          // roots
	Prog     *ssa.Program
	SSA      map[string]*ssa.Package
	CG       *callgraph.Graph
	Tmpl     *TemplateIndex
	ReachGo  map[*ssa.Function]bool // reachable from roots by Go calls only
	ReachAll map[*ssa.Function]bool // + methods invoked reflectively by templates
	Roots    []*ssa.Function
	NFuncMap int             // functions registered in template.FuncMap literals
	TmplEnt  []*ssa.Function // template-invoked entry methods
}

func goEnv() []string {
	env := os.Environ()
	out := env[:0:0]
	for _, e := range env {
		if strings.HasPrefix(e, "GOWORK=") || strings.HasPrefix(e, "GOFLAGS=") || strings.HasPrefix(e, "GOPROXY=") || strings.HasPrefix(e, "GOSUMDB=") || strings.HasPrefix(e, "GOTOOLCHAIN=") {
			continue
		}
		out = append(out, e)
	}
	return append(out, "GOWORK=off", "GOFLAGS=-mod=mod", "GOPROXY=off", "GOSUMDB=off", "GOTOOLCHAIN=local")
}

func isRepoPkg(path string) bool {
	return path == modPath || path == modPath+"/generator" || path == modPath+"/specification" || strings.HasPrefix(path, modPath+"/cmd/")
}

func LoadS1(needSSA bool) (*S1, error) {
	fset := token.NewFileSet()
	cfg := &packages.Config{
		Mode:  packages.LoadAllSyntax,
		Dir:   repoDir(),
		Fset:  fset,
		Env:   goEnv(),
		Tests: false,
	}
	pkgs, err := packages.Load(cfg, ".", "./cmd/...", "./generator", "./specification")
	if err != nil {
		return nil, fmt.Errorf("packages.Load: %w", err)
	}
	if len(pkgs) < 4 {
		return nil, fmt.Errorf("expected >=4 root packages in %s, got %d", repoDir(), len(pkgs))
	}
	s := &S1{Fset: fset, Pkgs: map[string]*packages.Package{}, All: pkgs, SSA: map[string]*ssa.Package{}}
	var errs []string
	packages.Visit(pkgs, nil, func(p *packages.Package) {
		if isRepoPkg(p.PkgPath) {
			s.Pkgs[p.PkgPath] = p
			for _, e := range p.Errors {
				errs = append(errs, e.Error())
			}
		}
	})
	if len(errs) > 0 {
		return nil, fmt.Errorf("type errors in repo packages: %s", strings.Join(errs, "; "))
	}
	for _, want := range []string{modPath, modPath + "/generator", modPath + "/specification", modPath + "/cmd/goag"} {
		if s.Pkgs[want] == nil {
			return nil, fmt.Errorf("package %s not loaded", want)
		}
	}
	ti, err := LoadTemplates(filepath.Join(repoDir(), "generator"))
	if err != nil {
		return nil, err
	}
	s.Tmpl = ti
	if !needSSA {
		return s, nil
	}
	prog, _ := ssautil.AllPackages(pkgs, ssa.InstantiateGenerics)
	prog.Build()
	s.Prog = prog
	for path, p := range s.Pkgs {
		s.SSA[path] = prog.Package(p.Types)
	}
	all := ssautil.AllFunctions(prog)
	s.CG = vta.CallGraph(all, cha.CallGraph(prog))
	s.computeReach()
	return s, nil
}

// originOf maps a generic instance to its origin so that AST-level rules can
// ask "is this declared function reachable".
func originOf(f *ssa.Function) *ssa.Function {
	if o := f.Origin(); o != nil {
		return o
	}
	return f
}

func (s *S1) computeReach() {
	goagPkg := s.SSA[modPath]
	mainPkg := s.SSA[modPath+"/cmd/goag"]
	var roots []*ssa.Function
	if f := mainPkg.Func("main"); f != nil {
		roots = append(roots, f)
	}
	if f := mainPkg.Func("init"); f != nil {
		roots = append(roots, f)
	}
	gen := goagPkg.Type("Generator")
	if gen != nil {
		for _, T := range []types.Type{gen.Type(), types.NewPointer(gen.Type())} {
			ms := s.Prog.MethodSets.MethodSet(T)
			for i := 0; i < ms.Len(); i++ {
				if f := s.Prog.MethodValue(ms.At(i)); f != nil {
					roots = append(roots, f)
				}
			}
		}
	}
	for _, p := range s.SSA {
		if f := p.Func("init"); f != nil {
			roots = append(roots, f)
		}
	}
	s.Roots = roots
	s.ReachGo = s.closure(roots)

	// Template edges: text/template invokes methods and reads fields by name
	// through reflection, invisible to the Go call graph. Over-approximation:
	// every method of a type declared in package generator/specification
	// whose name occurs as a field/method identifier in some template is a
	// template entry.
	names := s.Tmpl.FieldNames
	var ents []*ssa.Function
	for path, p := range s.SSA {
		if path != modPath+"/generator" && path != modPath+"/specification" {
			continue
		}
		for _, m := range p.Members {
			t, ok := m.(*ssa.Type)
			if !ok {
				continue
			}
			for _, T := range []types.Type{t.Type(), types.NewPointer(t.Type())} {
				ms := s.Prog.MethodSets.MethodSet(T)
				for i := 0; i < ms.Len(); i++ {
					sel := ms.At(i)
					if !names[sel.Obj().Name()] {
						continue
					}
					if f := s.Prog.MethodValue(sel); f != nil {
						ents = append(ents, f)
					}
				}
			}
		}
	}
	// functions registered in the template FuncMap are also entries
	// (resolved from the template.FuncMap composite literals themselves: the Go
	// name of a registered function is unrelated to the name templates call it by)
	nFuncMap := 0
	for _, path := range []string{modPath, modPath + "/generator", modPath + "/specification"} {
		p := s.Pkgs[path]
		if p == nil {
			continue
		}
		for _, file := range p.Syntax {
			ast.Inspect(file, func(n ast.Node) bool {
				cl, ok := n.(*ast.CompositeLit)
				if !ok {
					return true
				}
				t := p.TypesInfo.TypeOf(cl)
				nt, ok := t.(*types.Named)
				if !ok || nt.Obj().Name() != "FuncMap" || nt.Obj().Pkg() == nil || !strings.HasSuffix(nt.Obj().Pkg().Path(), "/template") {
					return true
				}
				for _, el := range cl.Elts {
					kv, ok := el.(*ast.KeyValueExpr)
					if !ok {
						continue
					}
					ast.Inspect(kv.Value, func(m ast.Node) bool {
						id, ok := m.(*ast.Ident)
						if !ok {
							return true
						}
						if fo, ok := p.TypesInfo.Uses[id].(*types.Func); ok {
							if f := s.Prog.FuncValue(fo); f != nil {
								ents = append(ents, f)
								nFuncMap++
							}
						}
						return true
					})
				}
				return true
			})
		}
	}
	s.NFuncMap = nFuncMap
	sort.Slice(ents, func(i, j int) bool { return ents[i].String() < ents[j].String() })
	s.TmplEnt = ents
	s.ReachAll = s.closure(append(append([]*ssa.Function{}, roots...), ents...))
}

func (s *S1) closure(roots []*ssa.Function) map[*ssa.Function]bool {
	seen := map[*ssa.Function]bool{}
	var stack []*ssa.Function
	push := func(f *ssa.Function) {
		if f == nil || seen[f] {
			return
		}
		seen[f] = true
		stack = append(stack, f)
	}
	for _, r := range roots {
		push(r)
	}
	for len(stack) > 0 {
		f := stack[len(stack)-1]
		stack = stack[:len(stack)-1]
		if o := f.Origin(); o != nil {
			seen[o] = true
		}
		if n := s.CG.Nodes[f]; n != nil {
			for _, e := range n.Out {
				push(e.Callee.Func)
			}
		}
		// anonymous functions are reachable with their parent (they may be
		// stored and called through values VTA resolves, but a conservative
		// over-approximation costs nothing here)
		for _, a := range f.AnonFuncs {
			push(a)
		}
	}
	return seen
}

// FuncOfDecl returns the ssa function for a declared func/method.
func (s *S1) FuncOfDecl(p *packages.Package, d *ast.FuncDecl) *ssa.Function {
	obj, _ := p.TypesInfo.Defs[d.Name].(*types.Func)
	if obj == nil {
		return nil
	}
	return s.Prog.FuncValue(obj)
}

func (s *S1) pos(p token.Pos) string {
	if !p.IsValid() {
		return ""
	}
	ps := s.Fset.Position(p)
	rel, err := filepath.Rel(repoDir(), ps.Filename)
	if err != nil || strings.HasPrefix(rel, "..") {
		rel = ps.Filename
	}
	return fmt.Sprintf("%s:%d", rel, ps.Line)
}

// ---------------------------------------------------------------------------
// S2: template index

type TemplateDefine struct {
	Name string
	File string
	Line int
	Tree *parse.Tree
}

type TemplateIndex struct {
	Defines    map[string]*TemplateDefine
	FieldNames map[string]bool // every .Field / .Method identifier used in any template
	FuncNames  map[string]bool // identifiers used in function position
	Calls      map[string][]string
}

var tmplFuncs = map[string]any{}

func LoadTemplates(dir string) (*TemplateIndex, error) {
	files, _ := filepath.Glob(filepath.Join(dir, "*.gotmpl"))
	if len(files) == 0 {
		return nil, fmt.Errorf("no *.gotmpl under %s", dir)
	}
	sort.Strings(files)
	ti := &TemplateIndex{Defines: map[string]*TemplateDefine{}, FieldNames: map[string]bool{}, FuncNames: map[string]bool{}, Calls: map[string][]string{}}
	for _, f := range files {
		bs, err := os.ReadFile(f)
		if err != nil {
			return nil, err
		}
		t := parse.New(filepath.Base(f))
		t.Mode = parse.SkipFuncCheck
		trees := map[string]*parse.Tree{}
		if _, err := t.Parse(string(bs), "", "", trees); err != nil {
			return nil, fmt.Errorf("parse %s: %w", f, err)
		}
		src := string(bs)
		for name, tr := range trees {
			if name == filepath.Base(f) {
				continue
			}
			line := 0
			if i := strings.Index(src, `define "`+name+`"`); i >= 0 {
				line = 1 + strings.Count(src[:i], "\n")
			}
			ti.Defines[name] = &TemplateDefine{Name: name, File: filepath.Base(f), Line: line, Tree: tr}
			walkTmpl(tr.Root, func(n parse.Node) {
				switch n := n.(type) {
				case *parse.FieldNode:
					for _, id := range n.Ident {
						ti.FieldNames[id] = true
					}
				case *parse.VariableNode:
					for _, id := range n.Ident[1:] {
						ti.FieldNames[id] = true
					}
				case *parse.ChainNode:
					for _, id := range n.Field {
						ti.FieldNames[id] = true
					}
				case *parse.IdentifierNode:
					ti.FuncNames[n.Ident] = true
				case *parse.TemplateNode:
					ti.Calls[name] = append(ti.Calls[name], n.Name)
				}
			})
		}
	}
	return ti, nil
}

func walkTmpl(n parse.Node, f func(parse.Node)) {
	if n == nil {
		return
	}
	f(n)
	switch n := n.(type) {
	case *parse.ListNode:
		if n == nil {
			return
		}
		for _, c := range n.Nodes {
			walkTmpl(c, f)
		}
	case *parse.ActionNode:
		walkTmpl(n.Pipe, f)
	case *parse.PipeNode:
		if n == nil {
			return
		}
		for _, d := range n.Decl {
			walkTmpl(d, f)
		}
		for _, c := range n.Cmds {
			walkTmpl(c, f)
		}
	case *parse.CommandNode:
		for _, a := range n.Args {
			walkTmpl(a, f)
		}
	case *parse.IfNode:
		walkTmpl(n.Pipe, f)
		walkTmpl(n.List, f)
		walkTmpl(n.ElseList, f)
	case *parse.RangeNode:
		walkTmpl(n.Pipe, f)
		walkTmpl(n.List, f)
		walkTmpl(n.ElseList, f)
	case *parse.WithNode:
		walkTmpl(n.Pipe, f)
		walkTmpl(n.List, f)
		walkTmpl(n.ElseList, f)
	case *parse.TemplateNode:
		walkTmpl(n.Pipe, f)
	case *parse.ChainNode:
		walkTmpl(n.Node, f)
	}
}
