package main

// C03 — routing equals OpenAPI path matching under the base path.
// The router of every instantiated program is decompiled into a finite model
// (router_model.go) which is compared, on an exhaustive space of abstract
// requests, with a reference matcher built from the spec by the independent
// oracle. The generated router code is never executed.

import (
	"fmt"
	"sort"
	"strings"
)

// loadRouterPrograms instantiates the corpus and builds model + oracle per program.
type routedProgram struct {
	P *Program
	M *RouterModel
	O *Oracle
}

func loadRouted(r *Report, rulePrefix string, opt S3Options) (*S3, []*routedProgram) {
	gdir, gclean := thoroughCorpusFor(r, rulePrefix)
	if opt.ExtraCorpus == "" {
		opt.ExtraCorpus = gdir
	}
	s3, err := BuildS3(opt)
	if err != nil {
		gclean()
		r.Break("S3 build: %v", err)
		return nil, nil
	}
	s3.cleanups = append(s3.cleanups, gclean)
	s3.reportUnusable(r, rulePrefix+"/program-analysable")
	var out []*routedProgram
	for _, p := range s3.Usable() {
		if p.funcDecl("API", "ServeHTTP") == nil {
			continue // generated without api handler
		}
		o, err := LoadOracle(p.SpecPath, p.BasePathFlag)
		if err != nil {
			r.Undecided(rulePrefix+"/program-analysable", p.Name+":oracle", "", err.Error())
			continue
		}
		p.Oracle = o
		m, err := BuildRouterModel(p)
		if err != nil {
			r.Undecided(rulePrefix+"/route-model", p.Name, "", err.Error())
			continue
		}
		out = append(out, &routedProgram{P: p, M: m, O: o})
	}
	s3.coverageSummary(r)
	return s3, out
}

func runC03(r *Report) {
	r.Explanation = "Every route* method of the generated API of every instantiated program (repo fixtures + /verif/corpus, regenerated from the current templates) is decompiled by a total recogniser into a trie model; the model is compared with a reference matcher derived from the spec by an oracle independent of goag (kin-openapi loader + own code) on ALL abstract requests: every segment list up to depth+1 over {each literal of the spec, one fresh literal, the empty segment} x {each declared method, one undeclared} x {under the base path, base-path near-misses}. The model is finite and exact, so this enumeration is exhaustive for the program; no router code is run. ServeHTTP is checked structurally (path source, not-found fallback, template stored under the key SchemaPath reads)."
	r.Rule("C03/route-model", "every statement of every route function is consumed by the recogniser (prelude, splitPath, leaf block, child switch, tail)")
	r.Rule("C03/splitpath", "splitPath has the body whose contract the model interpreter assumes")
	r.Rule("C03/equiv", "model and reference matcher agree on every abstract request: same operation (template, method), reported template = operation's template, hasPath=true exactly for dispatched operations")
	r.Rule("C03/leaf-set", "operation leaves of the model are in bijection with the spec's operations (template, method), each with its own API handler field")
	r.Rule("C03/serve", "ServeHTTP routes r.URL.Path and r.Method, falls back to NotFoundHandler/http.NotFoundHandler with hasPath=false, stores route's template under the key SchemaPath reads")
	r.Rule("C03/program-analysable", "every corpus program expected to generate can be instantiated, loaded and type-checked")
	r.Assumptions = append(r.Assumptions,
		"net/http delivers URL.Path percent-decoded; how it cleans paths is outside the generated code",
		"reference semantics: a template variable matches any single segment text (an empty one is rejected by the path parser, C05); segment counts must be equal; literal preferred over variable, leftmost first; base path trailing slashes insignificant",
		"programs quantifier bounded by the corpus (template coverage listed in `analysed`)")
	s3, progs := loadRouted(r, "C03", S3Options{TemplateDebug: true})
	if s3 == nil {
		return
	}
	defer s3.Close()
	nFns, nReq, nLeaves := 0, 0, 0
	exhaustiveAll := true
	for _, rp := range progs {
		n1, n2, n3, ex := c03Program(r, s3, rp)
		nFns += n1
		nReq += n2
		nLeaves += n3
		exhaustiveAll = exhaustiveAll && ex
	}
	r.Analysed["route_functions"] = nFns
	r.Analysed["abstract_requests_compared"] = nReq
	r.Analysed["operation_leaves"] = nLeaves
	r.Analysed["abstract_request_space_exhaustive_per_program"] = exhaustiveAll
	r.FloorMin("programs with a router", len(progs), 40)
	r.FloorMin("route functions decompiled", nFns, 80)
	r.FloorMin("abstract requests compared", nReq, 10000)
}

func modelUndecided(r *Report, s3 *S3, rp *routedProgram, rule string) int {
	n := 0
	for _, name := range rp.M.Order {
		node := rp.M.Nodes[name]
		n++
		key := rp.P.Name + ":API." + name
		if len(node.Undecided) > 0 {
			r.Undecided(rule, key, s3.pos(node.Decl.Pos()), "route function not in the recognised shape (template define "+rp.P.Provenance(s3, node.Decl.Pos())+"): "+strings.Join(node.Undecided, "; "))
		} else {
			r.OK(rule, key, s3.pos(node.Decl.Pos()), "")
		}
	}
	return n
}

func c03Program(r *Report, s3 *S3, rp *routedProgram) (nFns, nReq, nLeaves int, exhaustive bool) {
	p, m, o := rp.P, rp.M, rp.O
	nFns = modelUndecided(r, s3, rp, "C03/route-model")
	r.Check(m.SplitOK, "C03/splitpath", p.Name+":splitPath", "", "splitPath body differs from the summarised contract: "+m.SplitWhy)
	// serve
	sm := m.Serve
	if len(sm.Undecided) > 0 {
		r.Undecided("C03/serve", p.Name+":API.ServeHTTP", s3.pos(sm.Decl.Pos()), strings.Join(sm.Undecided, "; "))
	} else {
		r.OK("C03/serve", p.Name+":API.ServeHTTP", s3.pos(sm.Decl.Pos()), "")
	}
	// leaf set
	type opKey struct{ tmpl, method string }
	want := map[opKey]bool{}
	for _, op := range o.AllOps() {
		want[opKey{op.Template, op.Method}] = true
	}
	got := map[opKey]*Leaf{}
	fields := map[string]opKey{}
	for _, lf := range m.AllLeaves() {
		if lf.Kind != "op" {
			continue
		}
		nLeaves++
		k := opKey{lf.Template, lf.Method}
		key := fmt.Sprintf("%s:%s %s", p.Name, lf.Method, lf.Template)
		if prev, dup := got[k]; dup && prev != lf {
			r.Violation("C03/leaf-set", key, s3.pos(lf.Pos), "two leaves dispatch the same (template, method)")
		}
		got[k] = lf
		if !want[k] {
			r.Violation("C03/leaf-set", key, s3.pos(lf.Pos), "the router has a leaf for an operation the spec does not declare (template define "+p.Provenance(s3, lf.Pos)+")")
			continue
		}
		if prev, dup := fields[lf.Field]; dup && prev != k {
			r.Violation("C03/leaf-set", key, s3.pos(lf.Pos), fmt.Sprintf("handler field %s is dispatched for two different operations (%v and %v)", lf.Field, prev, k))
			continue
		}
		fields[lf.Field] = k
		if !lf.HasPath {
			r.Violation("C03/leaf-set", key, s3.pos(lf.Pos), "operation leaf returns hasPath=false: the template is not reported and middlewares are skipped")
			continue
		}
		r.OK("C03/leaf-set", key, s3.pos(lf.Pos), "")
	}
	for k := range want {
		if got[k] == nil {
			r.Violation("C03/leaf-set", fmt.Sprintf("%s:%s %s", p.Name, k.method, k.tmpl), "", "declared operation has no leaf in the router model: it can never be dispatched")
		}
	}
	// equivalence on abstract requests
	lits := map[string]bool{}
	maxDepth := 0
	methods := map[string]bool{}
	for _, po := range o.Paths {
		if len(po.Segments) > maxDepth {
			maxDepth = len(po.Segments)
		}
		for _, sgm := range po.Segments {
			if !isVarSeg(sgm) {
				lits[sgm] = true
			}
		}
		for mth := range po.Ops {
			methods[mth] = true
		}
	}
	lits[""] = true
	lits["zz~fresh"] = true
	var alpha []string
	for l := range lits {
		alpha = append(alpha, l)
	}
	sort.Strings(alpha)
	var meths []string
	for mth := range methods {
		meths = append(meths, mth)
	}
	sort.Strings(meths)
	undeclared := "BREW"
	for _, cand := range httpMethodOrder {
		if !methods[cand] {
			undeclared = cand
			break
		}
	}
	meths = append(meths, undeclared)
	depth := maxDepth + 1
	exhaustive = true
	type mismatch struct{ req, got, want string }
	var mism []mismatch
	seenMis := map[string]bool{}
	compare := func(full string, segs []string, under bool, method string) {
		nReq++
		lf := m.Eval(full, method)
		var ref *OpOracle
		if under {
			ref = o.Match(segs, method)
		}
		gotS, wantS := "miss", "miss"
		if lf != nil {
			if lf.Kind == "cors" {
				gotS = "cors"
			} else {
				gotS = lf.Method + " " + lf.Template
			}
		}
		if ref != nil {
			wantS = ref.Method + " " + ref.Template
		}
		if gotS == "cors" {
			// CORS leaves are judged by C17; for C03 they must not shadow a declared operation
			if ref == nil {
				return
			}
		}
		if gotS != wantS {
			id := gotS + "|" + wantS
			if !seenMis[id] || len(mism) < 3 {
				mism = append(mism, mismatch{method + " " + full, gotS, wantS})
			}
			seenMis[id] = true
		}
	}
	// The request space is explored as a tree of segment lists. A prefix is extended only while it is
	// still viable on at least one side: some template has it as a proper prefix (reference), or some
	// route function of the model would still be entered after consuming it (model). Below a prefix
	// that is dead on both sides every longer request is a miss on both sides (each route function
	// consumes exactly one segment), so nothing is lost by not enumerating it.
	refViable := func(segs []string) bool {
		for _, po := range o.Paths {
			if len(po.Segments) <= len(segs) {
				continue
			}
			ok := true
			for i, sg := range segs {
				if !isVarSeg(po.Segments[i]) && po.Segments[i] != sg {
					ok = false
					break
				}
			}
			if ok {
				return true
			}
		}
		return false
	}
	step := func(alive []*RouteNode, seg string) []*RouteNode {
		var next []*RouteNode
		seen := map[*RouteNode]bool{}
		add := func(n *RouteNode) {
			if n != nil && !seen[n] {
				seen[n] = true
				next = append(next, n)
			}
		}
		for _, n := range alive {
			matched, backtrack := false, false
			for _, ch := range n.Children {
				if ch.Prefix == "/"+seg {
					matched, backtrack = true, ch.Backtrack
					add(m.Nodes[ch.Fn])
					break
				}
			}
			if (!matched || backtrack) && n.Tail != "" {
				add(m.Nodes[n.Tail])
			}
		}
		return next
	}
	var rec func(segs []string, alive []*RouteNode)
	rec = func(segs []string, alive []*RouteNode) {
		rest := ""
		if len(segs) > 0 {
			rest = "/" + strings.Join(segs, "/")
		}
		for _, mth := range meths {
			compare(o.BasePath+rest, segs, true, mth)
		}
		if len(segs) >= depth {
			return
		}
		for _, a := range alpha {
			ext := append(append([]string{}, segs...), a)
			nextAlive := step(alive, a)
			if len(nextAlive) == 0 && !refViable(ext) {
				// dead on both sides for every proper extension: judge this request alone
				rest2 := "/" + strings.Join(ext, "/")
				for _, mth := range meths {
					compare(o.BasePath+rest2, ext, true, mth)
				}
				continue
			}
			rec(ext, nextAlive)
		}
	}
	rec(nil, []*RouteNode{m.Nodes["route"]})
	// base-path near misses
	if o.BasePath != "" {
		var samples [][]string
		for _, po := range o.Paths {
			segs := make([]string, len(po.Segments))
			for i, sgm := range po.Segments {
				if isVarSeg(sgm) {
					segs[i] = "zz~fresh"
				} else {
					segs[i] = sgm
				}
			}
			samples = append(samples, segs)
		}
		bp := o.BasePath
		near := []string{"", bp[:len(bp)-1], bp + "x", "/zz" + bp, strings.ToUpper(bp), bp + "/" + strings.TrimPrefix(bp, "/")}
		for _, nb := range near {
			if nb == bp {
				continue
			}
			for _, segs := range samples {
				for _, mth := range meths {
					full := nb + "/" + strings.Join(segs, "/")
					// is it, by accident, under the real base path?
					under := false
					var rsegs []string
					if strings.HasPrefix(full, bp+"/") {
						under = true
						rsegs = strings.Split(strings.TrimPrefix(full, bp+"/"), "/")
					}
					compare(full, rsegs, under, mth)
				}
			}
		}
	}
	key := p.Name + ":router model vs reference matcher"
	if len(mism) == 0 {
		r.OK("C03/equiv", key, "", fmt.Sprintf("%d literals, depth %d, %d methods", len(alpha), depth, len(meths)))
	} else {
		var parts []string
		for i, mm := range mism {
			if i >= 4 {
				break
			}
			parts = append(parts, fmt.Sprintf("%q: router model dispatches [%s], OpenAPI matching gives [%s]", mm.req, mm.got, mm.want))
		}
		// key the obligation by the kind of disagreement, not by the request text
		r.Violation("C03/equiv", key, s3.pos(m.Nodes["route"].Decl.Pos()), fmt.Sprintf("%d disagreements (template define Route); e.g. %s", len(mism), strings.Join(parts, " ;; ")))
	}
	return
}
