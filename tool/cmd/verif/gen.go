package main

// gen.go — machine-built specs for the thorough tier (DESIGN §3.2): they widen
// the *programs* quantifier; the deciding step stays the static analysis of
// the packages instantiated from them.
//   route sets : all pairs (and VERIF_SEED-seeded triples) of path templates of
//                depth <= 3 over segments {a, ~c, {x_i}, ""(last)} x base path
//   param matrix: type kind x location x required x {inline, schema $ref,
//                component parameter $ref} x {operation, path-item level}
//   json matrix : property kind x required x position (component / inline body)
//                x allOf orders x nesting

import (
	"fmt"
	"math/rand"
	"os"
	"path/filepath"
	"strings"
)

func isThorough(r *Report) bool { return r.Tier == "thorough" }

type genSpec struct {
	name  string
	yaml  string
	flags []string
	cors  bool
}

func writeGenCorpus(specs []genSpec) (string, error) {
	dir, err := os.MkdirTemp("", "verif-gen-")
	if err != nil {
		return "", err
	}
	for _, s := range specs {
		d := filepath.Join(dir, s.name)
		os.MkdirAll(d, 0o755)
		if err := os.WriteFile(filepath.Join(d, "openapi.yaml"), []byte(s.yaml), 0o644); err != nil {
			return "", err
		}
		meta := `{"expect": "ok", "flags": [` + quoteList(s.flags) + `]}`
		os.WriteFile(filepath.Join(d, "meta.json"), []byte(meta), 0o644)
		if s.cors {
			os.WriteFile(filepath.Join(d, ".goag.yaml"), []byte("cors:\n  enable: true\n"), 0o644)
		}
	}
	return dir, nil
}

func quoteList(ss []string) string {
	var out []string
	for _, s := range ss {
		out = append(out, fmt.Sprintf("%q", s))
	}
	return strings.Join(out, ", ")
}

// ---------------------------------------------------------------------------
// route sets

func routeTemplates() []string { return routeTemplatesDepth(2) }

func routeTemplatesDepth(maxDepth int) []string {
	mid := []string{"a", "~c", "{x}"}
	var out []string
	var rec func(prefix []string, depth int)
	rec = func(prefix []string, depth int) {
		if len(prefix) > 0 {
			out = append(out, "/"+strings.Join(prefix, "/"))
			out = append(out, "/"+strings.Join(prefix, "/")+"/")
		}
		if depth == 0 {
			return
		}
		for _, m := range mid {
			rec(append(append([]string{}, prefix...), m), depth-1)
		}
	}
	out = append(out, "/")
	rec(nil, maxDepth)
	// number the variables by position so that names are unique inside a template
	for i, t := range out {
		segs := strings.Split(t, "/")
		for j, s := range segs {
			if s == "{x}" {
				segs[j] = fmt.Sprintf("{x%d}", j)
			}
		}
		out[i] = strings.Join(segs, "/")
	}
	return out
}

func routeSpec(name string, templates []string, base string, methodsSecond bool) genSpec {
	var sb strings.Builder
	fmt.Fprintf(&sb, "openapi: \"3.0.3\"\ninfo: {title: %s, version: \"1\"}\n", name)
	if base != "" {
		fmt.Fprintf(&sb, "servers: [{url: %q}]\n", "http://h"+base)
	}
	sb.WriteString("paths:\n")
	op := 0
	for ti, t := range templates {
		fmt.Fprintf(&sb, "  %q:\n", t)
		var params []string
		for _, s := range strings.Split(t, "/") {
			if isVarSeg(s) {
				params = append(params, fmt.Sprintf("{in: path, name: %s, required: true, schema: {type: string}}", s[1:len(s)-1]))
			}
		}
		if len(params) > 0 {
			fmt.Fprintf(&sb, "    parameters: [%s]\n", strings.Join(params, ", "))
		}
		meths := []string{"get"}
		if methodsSecond && ti%2 == 1 {
			meths = []string{"post", "delete"}
		}
		for _, m := range meths {
			fmt.Fprintf(&sb, "    %s: {operationId: op%d, responses: {default: {description: d}}}\n", m, op)
			op++
		}
	}
	return genSpec{name: name, yaml: sb.String(), flags: []string{"--client=false"}}
}

func genRouteSets(seed int) []genSpec {
	ts := routeTemplates()
	var out []genSpec
	n := 0
	for i := 0; i < len(ts); i++ {
		for j := i + 1; j < len(ts); j++ {
			base := ""
			if n%3 == 1 {
				base = "/v1"
			}
			out = append(out, routeSpec(fmt.Sprintf("rs2_%04d", n), []string{ts[i], ts[j]}, base, n%2 == 0))
			n++
		}
	}
	rng := rand.New(rand.NewSource(int64(seed) + 7))
	// seeded pairs and triples over the depth-3 template set
	ts = routeTemplatesDepth(3)
	for k := 0; k < 900; k++ {
		a, b := rng.Intn(len(ts)), rng.Intn(len(ts))
		if a == b {
			continue
		}
		out = append(out, routeSpec(fmt.Sprintf("rs2d3_%04d", k), []string{ts[a], ts[b]}, []string{"", "/v1"}[k%2], k%2 == 0))
	}
	for k := 0; k < 400; k++ {
		a, b, c := rng.Intn(len(ts)), rng.Intn(len(ts)), rng.Intn(len(ts))
		if a == b || b == c || a == c {
			continue
		}
		base := []string{"", "/v1", "/api/v2"}[k%3]
		out = append(out, routeSpec(fmt.Sprintf("rs3_%04d", k), []string{ts[a], ts[b], ts[c]}, base, k%2 == 0))
	}
	return out
}

// ---------------------------------------------------------------------------
// parameter matrix

var paramKinds = []struct{ id, schema string }{
	{"s", "{type: string}"},
	{"i", "{type: integer}"},
	{"i32", "{type: integer, format: int32}"},
	{"i64", "{type: integer, format: int64}"},
	{"n", "{type: number}"},
	{"f32", "{type: number, format: float}"},
	{"f64", "{type: number, format: double}"},
	{"b", "{type: boolean}"},
	{"t", "{type: string, format: date-time}"},
}

func genParamMatrix() []genSpec {
	var out []genSpec
	for _, loc := range []string{"query", "header", "path"} {
		for _, form := range []string{"inline", "schemaref", "paramref"} {
			for _, level := range []string{"op", "item"} {
				name := fmt.Sprintf("pm_%s_%s_%s", loc, form, level)
				var sb, comp, compSchemas strings.Builder
				fmt.Fprintf(&sb, "openapi: \"3.0.3\"\ninfo: {title: %s, version: \"1\"}\nservers: [{url: \"http://h/m\"}]\npaths:\n", name)
				path := "/p"
				var plist []string
				for _, k := range paramKinds {
					for _, req := range []bool{true, false} {
						if loc == "path" && !req {
							continue
						}
						pn := fmt.Sprintf("%s_%s_%v", map[string]string{"query": "q", "header": "x-h", "path": "p"}[loc], k.id, map[bool]string{true: "r", false: "o"}[req])
						if loc == "header" {
							pn = strings.ReplaceAll(pn, "_", "-")
						}
						schema := k.schema
						if form == "schemaref" {
							cn := "S" + strings.ToUpper(k.id)
							if !strings.Contains(compSchemas.String(), "    "+cn+":") {
								fmt.Fprintf(&compSchemas, "    %s: %s\n", cn, k.schema)
							}
							schema = fmt.Sprintf("{$ref: \"#/components/schemas/%s\"}", cn)
						}
						def := fmt.Sprintf("{in: %s, name: %s, required: %v, schema: %s}", loc, pn, req, schema)
						if !req {
							def = fmt.Sprintf("{in: %s, name: %s, schema: %s}", loc, pn, schema)
						}
						if form == "paramref" {
							cn := "P" + strings.ReplaceAll(strings.ReplaceAll(pn, "-", ""), "_", "")
							fmt.Fprintf(&comp, "    %s: %s\n", cn, def)
							def = fmt.Sprintf("{$ref: \"#/components/parameters/%s\"}", cn)
						}
						plist = append(plist, def)
						if loc == "path" {
							path += "/" + k.id + "/{" + pn + "}"
						}
					}
				}
				if loc == "query" && form != "paramref" {
					for _, k := range paramKinds[:8] {
						items := k.schema
						if form == "schemaref" {
							items = fmt.Sprintf("{$ref: \"#/components/schemas/S%s\"}", strings.ToUpper(k.id))
						}
						plist = append(plist, fmt.Sprintf("{in: query, name: qa_%s, schema: {type: array, items: %s}}", k.id, items))
					}
				}
				fmt.Fprintf(&sb, "  %q:\n", path)
				if level == "item" {
					sb.WriteString("    parameters:\n")
					for _, p := range plist {
						fmt.Fprintf(&sb, "    - %s\n", p)
					}
					sb.WriteString("    get: {responses: {default: {description: d}}}\n    post: {responses: {default: {description: d}}}\n")
				} else {
					sb.WriteString("    get:\n      parameters:\n")
					for _, p := range plist {
						fmt.Fprintf(&sb, "      - %s\n", p)
					}
					sb.WriteString("      responses: {default: {description: d}}\n")
				}
				if comp.Len() > 0 || compSchemas.Len() > 0 {
					sb.WriteString("components:\n")
					if comp.Len() > 0 {
						sb.WriteString("  parameters:\n" + comp.String())
					}
					if compSchemas.Len() > 0 {
						sb.WriteString("  schemas:\n" + compSchemas.String())
					}
				}
				out = append(out, genSpec{name: name, yaml: sb.String()})
			}
		}
	}
	return out
}

// ---------------------------------------------------------------------------
// JSON matrix

var jsonKinds = []struct{ id, schema string }{
	{"str", "{type: string}"},
	{"int", "{type: integer}"},
	{"i32", "{type: integer, format: int32}"},
	{"i64", "{type: integer, format: int64}"},
	{"num", "{type: number}"},
	{"f32", "{type: number, format: float}"},
	{"bool", "{type: boolean}"},
	{"time", "{type: string, format: date-time}"},
	{"nstr", "{type: string, nullable: true}"},
	{"nint", "{type: integer, nullable: true}"},
	{"nbool", "{type: boolean, nullable: true}"},
	{"astr", "{type: array, items: {type: string}}"},
	{"aint", "{type: array, items: {type: integer, format: int64}}"},
	{"aobj", "{type: array, items: {$ref: \"#/components/schemas/Leaf\"}}"},
	{"ref", "{$ref: \"#/components/schemas/Leaf\"}"},
	{"refstr", "{$ref: \"#/components/schemas/Word\"}"},
	{"inl", "{type: object, required: [k], properties: {k: {type: string}, o: {type: integer}}}"},
	{"any", "{}"},
	{"mapany", "{type: object, additionalProperties: true}"},
	{"mapstr", "{type: object, additionalProperties: {type: string}}"},
}

func genJSONMatrix() []genSpec {
	var out []genSpec
	common := "    Leaf: {type: object, required: [id], properties: {id: {type: string}, n: {type: integer}}}\n    Word: {type: string}\n"
	for _, req := range []bool{true, false} {
		for _, pos := range []string{"component", "inlinebody"} {
			name := fmt.Sprintf("jm_%s_%s", map[bool]string{true: "req", false: "opt"}[req], pos)
			var props, reqs []string
			for _, k := range jsonKinds {
				props = append(props, fmt.Sprintf("%s_p: %s", k.id, k.schema))
				if req {
					reqs = append(reqs, k.id+"_p")
				}
			}
			obj := "type: object, "
			if req {
				obj += "required: [" + strings.Join(reqs, ", ") + "], "
			}
			obj += "properties: {" + strings.Join(props, ", ") + "}"
			var sb strings.Builder
			fmt.Fprintf(&sb, "openapi: \"3.0.3\"\ninfo: {title: %s, version: \"1\"}\npaths:\n  /j:\n    post:\n      requestBody:\n        content:\n          application/json:\n", name)
			if pos == "component" {
				sb.WriteString("            schema: {$ref: \"#/components/schemas/Big\"}\n")
			} else {
				fmt.Fprintf(&sb, "            schema: {%s}\n", obj)
			}
			sb.WriteString("      responses:\n        \"200\":\n          description: ok\n          content:\n            application/json:\n")
			if pos == "component" {
				sb.WriteString("              schema: {$ref: \"#/components/schemas/Big\"}\n")
			} else {
				fmt.Fprintf(&sb, "              schema: {%s}\n", obj)
			}
			sb.WriteString("components:\n  schemas:\n" + common)
			if pos == "component" {
				fmt.Fprintf(&sb, "    Big: {%s}\n", obj)
				fmt.Fprintf(&sb, "    Outer: {type: object, required: [big], properties: {big: {$ref: \"#/components/schemas/Big\"}, bigs: {type: array, items: {$ref: \"#/components/schemas/Big\"}}}}\n")
			}
			out = append(out, genSpec{name: name, yaml: sb.String()})
		}
	}
	// allOf orders
	orders := map[string]string{
		"ref_inl":     "[{$ref: \"#/components/schemas/Leaf\"}, {type: object, required: [x], properties: {x: {type: string}, y: {type: integer}}}]",
		"inl_ref":     "[{type: object, required: [x], properties: {x: {type: string}}}, {$ref: \"#/components/schemas/Leaf\"}]",
		"opt_inl":     "[{$ref: \"#/components/schemas/Opt\"}, {type: object, properties: {x: {type: string}}}]",
		"ref_ref":     "[{$ref: \"#/components/schemas/Leaf\"}, {$ref: \"#/components/schemas/Opt\"}]",
		"opt_ref_inl": "[{$ref: \"#/components/schemas/Opt\"}, {$ref: \"#/components/schemas/Leaf\"}, {type: object, properties: {z: {type: boolean}}}]",
	}
	for id, members := range orders {
		name := "jm_allof_" + id
		var sb strings.Builder
		fmt.Fprintf(&sb, "openapi: \"3.0.3\"\ninfo: {title: %s, version: \"1\"}\npaths:\n  /j:\n    post:\n      requestBody:\n        content:\n          application/json:\n            schema: {$ref: \"#/components/schemas/Mix\"}\n      responses:\n        \"200\":\n          description: ok\n          content:\n            application/json:\n              schema: {$ref: \"#/components/schemas/Mix\"}\ncomponents:\n  schemas:\n%s    Opt: {type: object, properties: {h: {type: string}, l: {type: integer}}}\n    Mix: {allOf: %s}\n", name, common, members)
		out = append(out, genSpec{name: name, yaml: sb.String()})
	}
	return out
}

// thoroughCorpusFor builds the generated corpus a property's thorough tier adds.
func thoroughCorpusFor(r *Report, prop string) (string, func()) {
	// exploration hook (not used by the registered commands): analyse an extra directory of specs
	if d := os.Getenv("VERIF_EXTRA_CORPUS"); d != "" {
		r.Analysed["extra_corpus_from_env"] = d
		return d, func() {}
	}
	if !isThorough(r) {
		return "", func() {}
	}
	var specs []genSpec
	switch prop {
	case "C03", "C16":
		specs = append(specs, genRouteSets(r.Seed)...)
	case "C05":
		specs = append(specs, genRouteSets(r.Seed)[:400]...)
		specs = append(specs, genParamMatrix()...)
	case "C04", "C09":
		specs = append(specs, genParamMatrix()...)
	case "C06", "C07", "C08", "C18", "C01":
		specs = append(specs, genJSONMatrix()...)
		if prop == "C01" {
			specs = append(specs, genParamMatrix()...)
			specs = append(specs, genRouteSets(r.Seed)[:200]...)
		}
	case "C14", "C20":
		specs = append(specs, genJSONMatrix()...)
		specs = append(specs, genParamMatrix()...)
		specs = append(specs, genRouteSets(r.Seed)[:200]...)
	case "C02", "C10", "C11", "C13", "C17":
		specs = append(specs, genParamMatrix()...)
	}
	if len(specs) == 0 {
		return "", func() {}
	}
	dir, err := writeGenCorpus(specs)
	if err != nil {
		r.Break("generate thorough corpus: %v", err)
		return "", func() {}
	}
	r.Analysed["thorough_generated_specs"] = len(specs)
	return dir, func() { os.RemoveAll(dir) }
}
