package main

// resp_model.go — decompiles the generated response writers: for every named
// type of the package that implements an operation's response interface, the
// write<Op> → Write chain is reduced to a row (status, Content-Type, header
// keys, body kind) with ordering obligations.

import (
	"fmt"
	"go/ast"
	"go/constant"
	"go/token"
	"go/types"
	"sort"
	"strings"

	"golang.org/x/tools/go/types/typeutil"
)

type FormatCall struct {
	Callee string
	Consts []string
}

type RespHeaderRow struct {
	Key       string
	Field     *types.Var
	Optional  bool
	Array     bool
	Formats   []FormatCall
	FromField bool
	Pos       token.Pos
}

type RespWrite struct {
	TypeName            string
	Type                *types.Named
	Decl                *ast.FuncDecl
	HasCodeParam        bool
	StatusConst         int
	StatusKind          string // const | field | param
	ContentType         string
	Headers             []RespHeaderRow
	Body                string // json | raw | none
	BodyType            types.Type
	HeadersStructFields []string
	Undecided           []string
}

type RespImpl struct {
	W         *RespWrite
	Status    string // "200" | "default"
	Pos       token.Pos
	Undecided []string
}

func (c *rmCtx) fieldSel(e ast.Expr, root types.Object) (path []string, fld *types.Var) {
	e = ast.Unparen(e)
	var names []string
	for {
		sel, ok := e.(*ast.SelectorExpr)
		if !ok {
			break
		}
		names = append([]string{sel.Sel.Name}, names...)
		if fld == nil {
			if s := c.info.Selections[sel]; s != nil {
				fld, _ = s.Obj().(*types.Var)
			}
		}
		e = sel.X
	}
	if identObj(c.info, e) != root {
		return nil, nil
	}
	return names, fld
}

// BuildRespWrite decompiles `func (r T) Write(w http.ResponseWriter[, code int])`.
func BuildRespWrite(p *Program, T *types.Named, fd *ast.FuncDecl) *RespWrite {
	info := p.Pkg.TypesInfo
	rw := &RespWrite{TypeName: T.Obj().Name(), Type: T, Decl: fd, Body: "none"}
	und := func(f string, a ...any) { rw.Undecided = append(rw.Undecided, fmt.Sprintf(f, a...)) }
	c := &rmCtx{p: p, info: info, recv: recvObj(info, fd)}
	ps := paramObjs(info, fd)
	if len(ps) < 1 || len(ps) > 2 || c.recv == nil {
		und("unexpected Write signature")
		return rw
	}
	w := ps[0]
	var code types.Object
	if len(ps) == 2 {
		code = ps[1]
		rw.HasCodeParam = true
	}
	// struct fields of T
	if st, ok := T.Underlying().(*types.Struct); ok {
		for i := 0; i < st.NumFields(); i++ {
			f := st.Field(i)
			if f.Name() == "Body" {
				rw.BodyType = f.Type()
			}
			if f.Name() == "Headers" {
				if hs, ok := f.Type().Underlying().(*types.Struct); ok {
					for j := 0; j < hs.NumFields(); j++ {
						rw.HeadersStructFields = append(rw.HeadersStructFields, hs.Field(j).Name())
					}
				}
			}
		}
	}
	isWHeaderCall := func(e ast.Expr, method string) (*ast.CallExpr, bool) {
		call, ok := ast.Unparen(e).(*ast.CallExpr)
		if !ok {
			return nil, false
		}
		sel, ok := call.Fun.(*ast.SelectorExpr)
		if !ok || sel.Sel.Name != method {
			return nil, false
		}
		hc, ok := sel.X.(*ast.CallExpr)
		if !ok {
			return nil, false
		}
		hs, ok := hc.Fun.(*ast.SelectorExpr)
		if !ok || hs.Sel.Name != "Header" || !c.isObj(hs.X, w) {
			return nil, false
		}
		return call, true
	}
	list := mergeCommaOk(info, fd.Body.List)
	i := 0
	// header blocks
	for ; i < len(list); i++ {
		var blk *ast.BlockStmt
		var optField *types.Var
		var from types.Object // hvOpt
		optional := false
		switch st := list[i].(type) {
		case *ast.BlockStmt:
			blk = st
		case *ast.IfStmt:
			// if hvOpt, ok := r.Headers.F.Get(); ok { … }
			as, ok := st.Init.(*ast.AssignStmt)
			if !ok || st.Else != nil || len(as.Lhs) != 2 || len(as.Rhs) != 1 || identObj(info, st.Cond) != identObj(info, as.Lhs[1]) {
				goto doneHeaders
			}
			call, ok := as.Rhs[0].(*ast.CallExpr)
			if !ok {
				goto doneHeaders
			}
			sel, ok := call.Fun.(*ast.SelectorExpr)
			if !ok || sel.Sel.Name != "Get" {
				goto doneHeaders
			}
			path, fld := c.fieldSel(sel.X, c.recv)
			if len(path) != 2 || path[0] != "Headers" {
				goto doneHeaders
			}
			optField, optional = fld, true
			from = identObj(info, as.Lhs[0])
			blk = st.Body
		default:
			goto doneHeaders
		}
		row := RespHeaderRow{Optional: optional, Field: optField, Pos: list[i].Pos()}
		// emission loop: for _, h := range hs { w.Header().Add(K, h) }
		var emit *ast.RangeStmt
		for _, st := range blk.List {
			if rs, ok := st.(*ast.RangeStmt); ok && len(rs.Body.List) == 1 {
				if es, ok := rs.Body.List[0].(*ast.ExprStmt); ok {
					if call, ok := isWHeaderCall(es.X, "Add"); ok && len(call.Args) == 2 && rs.Value != nil && identObj(info, call.Args[1]) == identObj(info, rs.Value) {
						if k, ok := c.constStr(call.Args[0]); ok {
							row.Key = k
							emit = rs
						}
					}
				}
			}
		}
		if emit == nil || blk.List[len(blk.List)-1] != ast.Stmt(emit) {
			und("header block does not end in `for _, h := range hs { w.Header().Add(<const>, h) }`")
			continue
		}
		// formatters + provenance inside the block
		hsObj := identObj(info, emit.X)
		defs := map[types.Object][]ast.Expr{}
		ast.Inspect(blk, func(n ast.Node) bool {
			if as, ok := n.(*ast.AssignStmt); ok && len(as.Lhs) == len(as.Rhs) {
				for j, l := range as.Lhs {
					if o := identObj(info, l); o != nil {
						defs[o] = append(defs[o], as.Rhs[j])
					}
				}
			}
			if rs, ok := n.(*ast.RangeStmt); ok && rs.Value != nil {
				if o := identObj(info, rs.Value); o != nil {
					defs[o] = append(defs[o], rs.X)
				}
			}
			return true
		})
		var reaches func(e ast.Expr, depth int) bool
		reaches = func(e ast.Expr, depth int) bool {
			if e == nil || depth > 10 {
				return false
			}
			found := false
			ast.Inspect(e, func(n ast.Node) bool {
				if found {
					return false
				}
				if sel, ok := n.(*ast.SelectorExpr); ok {
					if path, fld := c.fieldSel(sel, c.recv); len(path) == 2 && path[0] == "Headers" {
						if row.Field == nil {
							row.Field = fld
						}
						if fld == row.Field {
							found = true
						}
						return false
					}
				}
				if id, ok := n.(*ast.Ident); ok {
					o := identObj(info, id)
					if from != nil && o == from {
						found = true
						return false
					}
					for _, d := range defs[o] {
						if reaches(d, depth+1) {
							found = true
							return false
						}
					}
				}
				return true
			})
			return found
		}
		if hsObj != nil {
			for _, d := range defs[hsObj] {
				if reaches(d, 0) {
					row.FromField = true
				}
			}
		}
		ast.Inspect(blk, func(n ast.Node) bool {
			switch x := n.(type) {
			case *ast.RangeStmt:
				if x != emit {
					row.Array = true
				}
			case *ast.CallExpr:
				if tv, ok := info.Types[x.Fun]; ok && tv.IsType() {
					return true
				}
				nm := calleeName(info, x)
				switch nm {
				case "strconv.FormatInt", "strconv.FormatFloat", "strconv.FormatBool", "strconv.Itoa", "time.Time.Format", "strconv.FormatUint":
					fc := FormatCall{Callee: nm}
					for _, a := range x.Args {
						if tv := info.Types[a]; tv.Value != nil {
							fc.Consts = append(fc.Consts, tv.Value.ExactString())
						} else if sel, ok := a.(*ast.SelectorExpr); ok {
							if k, ok := info.Uses[sel.Sel].(*types.Const); ok {
								fc.Consts = append(fc.Consts, k.Val().ExactString())
							} else {
								fc.Consts = append(fc.Consts, "_")
							}
						} else {
							fc.Consts = append(fc.Consts, "_")
						}
					}
					row.Formats = append(row.Formats, fc)
				}
			}
			return true
		})
		rw.Headers = append(rw.Headers, row)
	}
doneHeaders:
	// Content-Type
	if i < len(list) {
		if es, ok := list[i].(*ast.ExprStmt); ok {
			if call, ok := isWHeaderCall(es.X, "Set"); ok && len(call.Args) == 2 {
				k, ok1 := c.constStr(call.Args[0])
				v, ok2 := c.constStr(call.Args[1])
				if ok1 && ok2 && k == "Content-Type" {
					rw.ContentType = v
					i++
				}
			}
		}
	}
	// WriteHeader
	okStatus := false
	if i < len(list) {
		if es, ok := list[i].(*ast.ExprStmt); ok {
			if call, ok := es.X.(*ast.CallExpr); ok && len(call.Args) == 1 {
				if sel, ok := call.Fun.(*ast.SelectorExpr); ok && sel.Sel.Name == "WriteHeader" && c.isObj(sel.X, w) {
					a := call.Args[0]
					if tv := info.Types[a]; tv.Value != nil && tv.Value.Kind() == constant.Int {
						v, _ := constant.Int64Val(tv.Value)
						rw.StatusConst, rw.StatusKind, okStatus = int(v), "const", true
					} else if code != nil && c.isObj(a, code) {
						rw.StatusKind, okStatus = "param", true
					} else if path, _ := c.fieldSel(a, c.recv); len(path) == 1 && path[0] == "Code" {
						rw.StatusKind, okStatus = "field", true
					}
					i++
				}
			}
		}
	}
	if !okStatus {
		und("status is not written with w.WriteHeader(<const> | code | r.Code) right after the headers")
		return rw
	}
	// body
	if i < len(list) {
		switch st := list[i].(type) {
		case *ast.ExprStmt:
			if call, ok := st.X.(*ast.CallExpr); ok && len(call.Args) == 3 {
				if fn := typeutil.Callee(info, call); fn != nil && fn.Pkg() == p.Pkg.Types && fn.Parent() == p.Pkg.Types.Scope() && writeJSONShapeOf(p, declOfObj(p, fn)) == "" && c.isObj(call.Args[0], w) {
					if path, _ := c.fieldSel(call.Args[1], c.recv); len(path) == 1 && path[0] == "Body" {
						rw.Body = "json"
						i++
					}
				}
			}
		case *ast.AssignStmt:
			if len(st.Rhs) == 1 {
				if call, ok := c.stdCall(st.Rhs[0], "io.Copy"); ok && len(call.Args) == 2 && c.isObj(call.Args[0], w) {
					if path, _ := c.fieldSel(call.Args[1], c.recv); len(path) == 1 && path[0] == "Body" {
						rw.Body = "raw"
						i++
						// if err != nil { LogError(...) } ; LogError(r.Body.Close())
						for ; i < len(list); i++ {
							switch s2 := list[i].(type) {
							case *ast.IfStmt:
								continue
							case *ast.ExprStmt:
								if strings.Contains(types.ExprString(s2.X), "Body.Close()") {
									continue
								}
							}
							break
						}
					}
				}
			}
		}
	}
	for ; i < len(list); i++ {
		und("unconsumed statement %T after the body", list[i])
	}
	return rw
}

// writeJSONShape: func writeJSON(w io.Writer, v interface{}, name string) { err := json.NewEncoder(w).Encode(v); if err != nil { LogError(..) } }
func writeJSONShape(p *Program) string {
	// the JSON body helper is found by shape: a package-level func(w io.Writer, v any, name string)
	for _, f := range p.Pkg.Syntax {
		for _, d := range f.Decls {
			if fd, ok := d.(*ast.FuncDecl); ok && fd.Recv == nil && fd.Body != nil && writeJSONShapeOf(p, fd) == "" {
				return ""
			}
		}
	}
	return "no package-level helper of the shape json.NewEncoder(w).Encode(v) found"
}

func writeJSONShapeOf(p *Program, fd *ast.FuncDecl) string {
	if fd == nil {
		return "JSON body helper not found"
	}
	info := p.Pkg.TypesInfo
	ps := paramObjs(info, fd)
	if len(ps) != 3 || len(fd.Body.List) != 2 {
		return "writeJSON: unexpected shape"
	}
	as, ok := fd.Body.List[0].(*ast.AssignStmt)
	if !ok || len(as.Rhs) != 1 {
		return "writeJSON: first statement is not the encode call"
	}
	call, ok := as.Rhs[0].(*ast.CallExpr)
	if !ok || calleeName(info, call) != "encoding/json.Encoder.Encode" || len(call.Args) != 1 || identObj(info, call.Args[0]) != ps[1] {
		return "writeJSON: does not Encode(v)"
	}
	sel := call.Fun.(*ast.SelectorExpr)
	nd, ok := sel.X.(*ast.CallExpr)
	if !ok || calleeName(info, nd) != "encoding/json.NewEncoder" || identObj(info, nd.Args[0]) != ps[0] {
		return "writeJSON: encoder is not json.NewEncoder(w)"
	}
	return ""
}

// respImplementers: for the response interface of one operation.
func respImplementers(p *Program, iface *types.Named, writes map[string]*RespWrite) []*RespImpl {
	info := p.Pkg.TypesInfo
	it, ok := iface.Underlying().(*types.Interface)
	if !ok {
		return nil
	}
	var out []*RespImpl
	scope := p.Pkg.Types.Scope()
	seen := map[*types.Named]bool{}
	var names []string
	names = append(names, scope.Names()...)
	sort.Strings(names)
	for _, n := range names {
		tn, ok := scope.Lookup(n).(*types.TypeName)
		if !ok {
			continue
		}
		T, ok := types.Unalias(tn.Type()).(*types.Named)
		if !ok || seen[T] || T == iface {
			continue
		}
		if _, isIface := T.Underlying().(*types.Interface); isIface {
			continue
		}
		if !types.Implements(T, it) && !types.Implements(types.NewPointer(T), it) {
			continue
		}
		seen[T] = true
		impl := &RespImpl{W: writes[T.Obj().Name()]}
		if impl.W == nil {
			impl.W = &RespWrite{TypeName: T.Obj().Name(), Type: T, Undecided: []string{"type has no recognised Write method"}}
		}
		// the interface's (single) method on T
		if it.NumMethods() != 1 {
			impl.Undecided = append(impl.Undecided, "response interface does not have exactly one method")
			out = append(out, impl)
			continue
		}
		mname := it.Method(0).Name()
		var md *ast.FuncDecl
		for _, f := range p.Pkg.Syntax {
			for _, d := range f.Decls {
				if fd, ok := d.(*ast.FuncDecl); ok && fd.Recv != nil && fd.Name.Name == mname && recvTypeName(fd) == T.Obj().Name() {
					md = fd
				}
			}
		}
		if md == nil || len(md.Body.List) != 1 {
			impl.Undecided = append(impl.Undecided, "method "+mname+" not found or not a single statement")
			out = append(out, impl)
			continue
		}
		impl.Pos = md.Pos()
		es, ok := md.Body.List[0].(*ast.ExprStmt)
		var call *ast.CallExpr
		if ok {
			call, _ = es.X.(*ast.CallExpr)
		}
		okCall := false
		if call != nil {
			if sel, ok := call.Fun.(*ast.SelectorExpr); ok && sel.Sel.Name == "Write" && identObj(info, sel.X) == recvObj(info, md) {
				mps := paramObjs(info, md)
				if len(mps) == 1 && len(call.Args) >= 1 && identObj(info, call.Args[0]) == mps[0] {
					switch {
					case len(call.Args) == 1 && impl.W.StatusKind == "const":
						impl.Status = fmt.Sprint(impl.W.StatusConst)
						okCall = true
					case len(call.Args) == 1 && impl.W.StatusKind == "field":
						impl.Status = "default"
						okCall = true
					case len(call.Args) == 2 && impl.W.StatusKind == "param":
						if tv := info.Types[call.Args[1]]; tv.Value != nil && tv.Value.Kind() == constant.Int {
							impl.Status = tv.Value.ExactString()
							okCall = true
						}
					}
				}
			}
		}
		if !okCall {
			impl.Undecided = append(impl.Undecided, "method "+mname+" is not `r.Write(w[, <const status>])` consistent with Write's status source")
		}
		out = append(out, impl)
	}
	return out
}

// respWrites: all `Write(w http.ResponseWriter[, code int])` methods by receiver type name.
func respWrites(p *Program) map[string]*RespWrite {
	out := map[string]*RespWrite{}
	for _, f := range p.Pkg.Syntax {
		for _, d := range f.Decls {
			fd, ok := d.(*ast.FuncDecl)
			if !ok || fd.Recv == nil || fd.Name.Name != "Write" || fd.Body == nil {
				continue
			}
			ps := paramObjs(p.Pkg.TypesInfo, fd)
			if len(ps) == 0 || ps[0] == nil || ps[0].Type().String() != "net/http.ResponseWriter" {
				continue
			}
			tn, _ := p.Pkg.Types.Scope().Lookup(recvTypeName(fd)).(*types.TypeName)
			if tn == nil {
				continue
			}
			T, ok := types.Unalias(tn.Type()).(*types.Named)
			if !ok {
				continue
			}
			out[T.Obj().Name()] = BuildRespWrite(p, T, fd)
		}
	}
	return out
}
