package main

// C12 — generation is deterministic.
// Rule template: no order- or environment-dependent effect reaches the bytes
// written. Enumerate every nondeterminism *source* in the part of the repo
// reachable from Generator.Generate*/main (Go call graph + template-invoked
// methods) and require each to be neutralised by an enumerated idiom.

import (
	"fmt"
	"go/ast"
	"go/token"
	"go/types"
	"sort"
	"strings"

	"golang.org/x/tools/go/packages"
	"golang.org/x/tools/go/ssa"
	"golang.org/x/tools/go/types/typeutil"
)

// environment / time / randomness sources: package path -> function names
// ("*" = every function of the package).
var c12EnvSources = map[string][]string{
	"time":         {"Now", "Since", "Until"},
	"math/rand":    {"*"},
	"math/rand/v2": {"*"},
	"crypto/rand":  {"*"},
	"os":           {"Getpid", "Getppid", "Hostname", "Environ", "Getenv", "LookupEnv", "Getwd", "Getuid", "Getgid", "UserHomeDir", "TempDir", "Executable", "ExpandEnv"},
	"os/user":      {"*"},
	"runtime":      {"NumGoroutine", "NumCPU", "Caller", "Callers", "Stack", "GOMAXPROCS", "ReadMemStats"},
	"net":          {"*"},
	"hash/maphash": {"*"},
}

// one named symbol with a reason each (DESIGN §4 C12, s3 allow-list)
var c12EnvAllow = map[string]string{
	"generator.ExecuteTemplate:os.Getenv(\"TEMPLATE_DEBUG\")": "documented debug switch read with a constant name; constant across the runs the property compares (same environment)",
}

// callees that iterate a map on the caller's behalf and return its keys or
// values in map order
var c12MapIterCallees = map[string]bool{
	"golang.org/x/exp/maps.Keys":   true,
	"golang.org/x/exp/maps.Values": true,
	"maps.Keys":                    true,
	"maps.Values":                  true,
	"maps.All":                     true,
}

// calls allowed inside an I2 (commutative build) loop body: they have no
// effect other than through their arguments (which must be body-local).
var c12PureCallees = map[string]bool{
	"strings.HasPrefix": true, "strings.HasSuffix": true, "strings.TrimPrefix": true, "strings.TrimSuffix": true,
	"strings.ToLower": true, "strings.ToUpper": true, "strings.Contains": true, "strings.TrimSpace": true,
	"encoding/json.Unmarshal": true, "fmt.Sprintf": true, "fmt.Sprint": true, "strconv.Itoa": true, "len": true,
}

func isSortCall(info *types.Info, call *ast.CallExpr) (arg ast.Expr, ok bool) {
	fn := typeutil.Callee(info, call)
	if fn == nil || fn.Pkg() == nil || len(call.Args) == 0 {
		return nil, false
	}
	full := fn.Pkg().Path() + "." + fn.Name()
	switch full {
	case "sort.Strings", "sort.Ints", "sort.Float64s", "slices.Sort", "golang.org/x/exp/slices.Sort":
		return call.Args[0], true
	case "sort.Slice", "sort.SliceStable":
		// a comparator that is not a total order on the collected elements (e.g. compares
		// strings.ToLower of the keys) leaves ties in map iteration order
		if len(call.Args) == 2 && plainLess(info, call.Args[1], call.Args[0]) {
			return call.Args[0], true
		}
	}
	return nil, false
}

// plainLess: func(i, j int) bool { return s[i] < s[j] } (or >) on the elements
// themselves — a total order in which only identical elements tie.
func plainLess(info *types.Info, fn ast.Expr, slice ast.Expr) bool {
	lit, ok := ast.Unparen(fn).(*ast.FuncLit)
	if !ok || len(lit.Body.List) != 1 {
		return false
	}
	ret, ok := lit.Body.List[0].(*ast.ReturnStmt)
	if !ok || len(ret.Results) != 1 {
		return false
	}
	be, ok := ast.Unparen(ret.Results[0]).(*ast.BinaryExpr)
	if !ok || (be.Op != token.LSS && be.Op != token.GTR) {
		return false
	}
	so := identObj(info, slice)
	var ps []types.Object
	for _, f := range lit.Type.Params.List {
		for _, n := range f.Names {
			ps = append(ps, info.Defs[n])
		}
	}
	if so == nil || len(ps) != 2 {
		return false
	}
	side := func(e ast.Expr) types.Object {
		ix, ok := ast.Unparen(e).(*ast.IndexExpr)
		if !ok || identObj(info, ix.X) != so {
			return nil
		}
		return identObj(info, ix.Index)
	}
	a, b := side(be.X), side(be.Y)
	return a != nil && b != nil && a != b && (a == ps[0] || a == ps[1]) && (b == ps[0] || b == ps[1])
}

func calleeName(info *types.Info, call *ast.CallExpr) string {
	if id, ok := call.Fun.(*ast.Ident); ok {
		if _, isB := info.Uses[id].(*types.Builtin); isB {
			return id.Name
		}
	}
	fn := typeutil.Callee(info, call)
	if fn == nil {
		return ""
	}
	if fn.Pkg() == nil {
		return fn.Name()
	}
	if f, ok := fn.(*types.Func); ok {
		if sig, ok := f.Type().(*types.Signature); ok && sig.Recv() != nil {
			t := sig.Recv().Type()
			if p, ok := t.(*types.Pointer); ok {
				t = p.Elem()
			}
			if n, ok := t.(*types.Named); ok {
				return fn.Pkg().Path() + "." + n.Obj().Name() + "." + fn.Name()
			}
		}
	}
	return fn.Pkg().Path() + "." + fn.Name()
}

func shortPkg(path string) string {
	if path == modPath {
		return "goag"
	}
	return strings.TrimPrefix(path, modPath+"/")
}

// funcKey names the enclosing declared function: "specification.NewSchema".
func funcKey(p *packages.Package, d *ast.FuncDecl) string {
	name := d.Name.Name
	if d.Recv != nil && len(d.Recv.List) > 0 {
		t := d.Recv.List[0].Type
		if s, ok := t.(*ast.StarExpr); ok {
			t = s.X
		}
		if ix, ok := t.(*ast.IndexExpr); ok {
			t = ix.X
		}
		if ix, ok := t.(*ast.IndexListExpr); ok {
			t = ix.X
		}
		if id, ok := t.(*ast.Ident); ok {
			name = id.Name + "." + name
		}
	}
	return shortPkg(p.PkgPath) + "." + name
}

func identObj(info *types.Info, e ast.Expr) types.Object {
	if id, ok := ast.Unparen(e).(*ast.Ident); ok {
		if o := info.Uses[id]; o != nil {
			return o
		}
		return info.Defs[id]
	}
	return nil
}

// usesObj reports whether node mentions obj.
func usesObj(info *types.Info, n ast.Node, obj types.Object) bool {
	found := false
	ast.Inspect(n, func(m ast.Node) bool {
		if id, ok := m.(*ast.Ident); ok && (info.Uses[id] == obj || info.Defs[id] == obj) {
			found = true
		}
		return !found
	})
	return found
}

type c12ctx struct {
	pfx  string // rule prefix ("C12"; C19 reuses the scan for its re-run clause)
	r    *Report
	s    *S1
	p    *packages.Package
	decl *ast.FuncDecl
	key  string
}

// scanDeterminism enumerates the order/environment/concurrency obligations of
// every generator function reachable from Generate*/main and of the package
// initialisers, reporting them under <pfx>/….
func scanDeterminism(r *Report, s *S1, pfx string) (nFuncs, nReach, nRange, nInit int, skipped []string) {
	nSkipped := 0
	paths := []string{modPath, modPath + "/cmd/goag", modPath + "/generator", modPath + "/specification"}
	for _, path := range paths {
		p := s.Pkgs[path]
		for _, file := range p.Syntax {
			for _, d := range file.Decls {
				fd, ok := d.(*ast.FuncDecl)
				if !ok || fd.Body == nil {
					continue
				}
				nFuncs++
				fn := s.FuncOfDecl(p, fd)
				reach := fn != nil && s.ReachAll[fn]
				c := &c12ctx{pfx: pfx, r: r, s: s, p: p, decl: fd, key: funcKey(p, fd)}
				if !reach {
					// still enumerate map ranges for the evidence, but they are not obligations
					ast.Inspect(fd.Body, func(n ast.Node) bool {
						if rs, ok := n.(*ast.RangeStmt); ok {
							if _, isMap := p.TypesInfo.TypeOf(rs.X).Underlying().(*types.Map); isMap {
								nSkipped++
								skipped = append(skipped, c.key+":range "+types.ExprString(rs.X)+" (unreachable from Generate)")
							}
						}
						return true
					})
					continue
				}
				nReach++
				nRange += c.scanFunc()
			}
		}
	}
	// package-level variable initialisers always run: their calls are on every path
	nInit = 0
	for _, path := range paths {
		p := s.Pkgs[path]
		for _, file := range p.Syntax {
			for _, d := range file.Decls {
				gd, ok := d.(*ast.GenDecl)
				if !ok || gd.Tok != token.VAR {
					continue
				}
				for _, sp := range gd.Specs {
					vs := sp.(*ast.ValueSpec)
					for i, v := range vs.Values {
						name := "_"
						if i < len(vs.Names) {
							name = vs.Names[i].Name
						}
						c := &c12ctx{pfx: pfx, r: r, s: s, p: p, key: shortPkg(p.PkgPath) + ".<var " + name + ">"}
						ast.Inspect(v, func(n ast.Node) bool {
							if _, isLit := n.(*ast.FuncLit); isLit {
								return false // judged when reachable
							}
							if call, ok := n.(*ast.CallExpr); ok {
								nInit++
								c.call(call, func(ast.Stmt) []ast.Stmt { return nil })
							}
							return true
						})
					}
				}
			}
		}
	}
	_ = nSkipped
	return
}

func runC12(r *Report) {
	r.Explanation = "Static source enumeration over the generator (S1): every range-over-map, map-iterating library call, goroutine/select/channel operation, environment/time/randomness call and pointer-formatting call in the functions of packages goag, cmd/goag, generator, specification that are reachable from Generator.Generate*/main (VTA call graph plus template-invoked methods) is an obligation; each must match a neutralising idiom (collect-then-sort, commutative keyed build, error-only sink, allow-listed constant switch). Holds for all specs and all runs; no code is executed."
	r.Rule("C12/map-range", "a range over a map reachable from Generate must be order-insensitive: I1 collect-then-sort, I2 commutative keyed build, I3 error-only sink")
	r.Rule("C12/map-iter-call", "the result of maps.Keys/Values must be sorted before any other use")
	r.Rule("C12/env", "no call to time/rand/env/host/runtime-introspection sources reachable from Generate (allow-list: one named symbol with reason)")
	r.Rule("C12/concurrency", "no go statement, select or channel operation reachable from Generate")
	r.Rule("C12/ptr-format", "no %p / pointer-valued %v operand formatted into generated text")
	r.Rule("C12/truncate", "output files are opened with O_TRUNC: bytes on disk do not depend on a previous, longer file")
	r.Rule("C12/fs-reads", "the generation path reads no file-system state besides spec file, config file and the --dir listing; goimports gets no file name")
	r.Rule("C12/global-state", "no package-level variable (or container held in one) is written outside package initialisers on the generation path")
	r.Rule("C12/loop-carried", "the driver's per-spec loop (--dir) carries no variable from one iteration to the next")
	r.Rule("C12/witness", "the rule engine flags the positive witnesses in testdata (anti-vacuity for zero-count rules)")
	r.Assumptions = append(r.Assumptions,
		"kin-openapi, yaml, x/tools/imports, text/template are deterministic given deterministic inputs (text/template ranges over maps in sorted key order by contract)",
		"error message text is not generated output (I3)",
		"reachability: VTA call graph from Generator methods and main, plus every method of generator/specification types whose name occurs in a template and every function value registered in the template FuncMap")

	s, err := LoadS1(true)
	if err != nil {
		r.Break("load S1: %v", err)
		return
	}
	nFuncs, nReach, nRange, nInit, skipped := scanDeterminism(r, s, "C12")
	nSkipped := len(skipped)
	_ = nSkipped
	r.Analysed["calls_in_package_initialisers"] = nInit
	sort.Strings(skipped)
	r.Analysed["packages"] = []string{"goag", "cmd/goag", "generator", "specification"}
	r.Analysed["functions_declared"] = nFuncs
	r.Analysed["functions_reachable"] = nReach
	r.Analysed["template_entry_methods"] = len(s.TmplEnt)
	r.Analysed["map_ranges_reachable"] = nRange
	r.Analysed["map_ranges_unreachable_skipped"] = skipped
	r.Analysed["template_defines"] = len(s.Tmpl.Defines)
	r.FloorMin("reachable functions", nReach, 300)
	r.FloorMin("map-range sites reachable from Generate", nRange, 3)
	r.FloorMin("template entry methods", len(s.TmplEnt), 60)
	r.Analysed["template_funcmap_functions"] = s.NFuncMap
	r.FloorMin("functions registered in the template FuncMap", s.NFuncMap, 8)
	ruleTruncate(r, s, "C12/truncate")
	ruleFSReads(r, s, "C12/fs-reads")
	ruleGlobalState(r, s, "C12/global-state")
	ruleLoopCarried(r, s, "C12/loop-carried")
	c12Witness(r)
}

func (c *c12ctx) scanFunc() (nRange int) {
	info := c.p.TypesInfo
	// statement lists, to find "the statements after the loop"
	var blocks []*ast.BlockStmt
	ast.Inspect(c.decl.Body, func(n ast.Node) bool {
		if b, ok := n.(*ast.BlockStmt); ok {
			blocks = append(blocks, b)
		}
		return true
	})
	following := func(st ast.Stmt) []ast.Stmt {
		for _, b := range blocks {
			for i, x := range b.List {
				if x == st {
					return b.List[i+1:]
				}
			}
		}
		return nil
	}
	ast.Inspect(c.decl.Body, func(n ast.Node) bool {
		switch n := n.(type) {
		case *ast.RangeStmt:
			t := info.TypeOf(n.X)
			if t == nil {
				return true
			}
			switch t.Underlying().(type) {
			case *types.Map:
				nRange++
				c.mapRange(n, following(n))
			case *types.Chan:
				c.r.Violation(c.pfx+"/concurrency", c.key+":range over channel "+types.ExprString(n.X), c.s.pos(n.Pos()), "channel receive order is a schedule")
			}
		case *ast.GoStmt:
			c.r.Violation(c.pfx+"/concurrency", c.key+":go statement", c.s.pos(n.Pos()), "goroutine started on the generation path: completion order is a schedule")
		case *ast.SelectStmt:
			c.r.Violation(c.pfx+"/concurrency", c.key+":select", c.s.pos(n.Pos()), "select chooses among ready cases pseudo-randomly")
		case *ast.SendStmt:
			c.r.Violation(c.pfx+"/concurrency", c.key+":channel send", c.s.pos(n.Pos()), "channel operation on the generation path")
		case *ast.UnaryExpr:
			if n.Op == token.ARROW {
				c.r.Violation(c.pfx+"/concurrency", c.key+":channel receive", c.s.pos(n.Pos()), "channel operation on the generation path")
			}
		case *ast.CallExpr:
			c.call(n, following)
		}
		return true
	})
	return
}

func (c *c12ctx) call(call *ast.CallExpr, following func(ast.Stmt) []ast.Stmt) {
	info := c.p.TypesInfo
	name := calleeName(info, call)
	if name == "" {
		return
	}
	// (s1b) map-iterating helpers
	if c12MapIterCallees[name] {
		key := c.key + ":" + name + "(" + types.ExprString(call.Args[0]) + ")"
		// find the statement: must be `x := maps.Keys(m)` directly followed by sort of x
		var asg *ast.AssignStmt
		if c.decl == nil {
			c.r.Violation(c.pfx+"/map-iter-call", key, c.s.pos(call.Pos()), "map-order helper called in a package-level initialiser")
			return
		}
		ast.Inspect(c.decl.Body, func(n ast.Node) bool {
			if a, ok := n.(*ast.AssignStmt); ok && len(a.Rhs) == 1 && a.Rhs[0] == call && len(a.Lhs) == 1 {
				asg = a
			}
			return asg == nil
		})
		if asg == nil {
			c.r.Violation(c.pfx+"/map-iter-call", key, c.s.pos(call.Pos()), "result of a map-order helper is used without being bound to a variable that is sorted first")
			return
		}
		obj := identObj(info, asg.Lhs[0])
		if obj != nil && firstUseIsSort(info, following(asg), obj) {
			c.r.OK(c.pfx+"/map-iter-call", key, c.s.pos(call.Pos()), "I1: sorted before first use")
		} else {
			c.r.Violation(c.pfx+"/map-iter-call", key, c.s.pos(call.Pos()), "keys/values taken in map order and not sorted before their first use")
		}
		return
	}
	// (s3) environment
	dot := strings.LastIndex(name, ".")
	if dot > 0 {
		pkg, fn := name[:dot], name[dot+1:]
		if fns, ok := c12EnvSources[pkg]; ok {
			hit := false
			for _, f := range fns {
				if f == "*" || f == fn {
					hit = true
				}
			}
			if hit {
				arg := ""
				if len(call.Args) > 0 {
					if tv, ok := info.Types[call.Args[0]]; ok && tv.Value != nil {
						arg = tv.Value.ExactString()
					} else {
						arg = "<non-constant>"
					}
				}
				sp := pkg
				if i := strings.LastIndex(sp, "/"); i >= 0 {
					sp = sp[i+1:]
				}
				key := fmt.Sprintf("%s:%s.%s(%s)", c.key, sp, fn, arg)
				if why, ok := c12EnvAllow[key]; ok {
					c.r.OK(c.pfx+"/env", key, c.s.pos(call.Pos()), "allow-listed: "+why)
				} else {
					c.r.Violation(c.pfx+"/env", key, c.s.pos(call.Pos()), "environment/time/randomness source reachable from Generate: output would depend on more than spec, config and flags")
				}
			}
		}
	}
	// (s4) pointer formatting
	if name == "fmt.Sprintf" || name == "fmt.Fprintf" || name == "fmt.Sprint" || name == "fmt.Sprintln" || name == "fmt.Fprint" || name == "fmt.Fprintln" {
		start := 0
		format := ""
		if strings.HasSuffix(name, "f") {
			idx := 0
			if name == "fmt.Fprintf" {
				idx = 1
			}
			if len(call.Args) > idx {
				if tv, ok := info.Types[call.Args[idx]]; ok && tv.Value != nil {
					format = tv.Value.ExactString()
				}
			}
			start = idx + 1
		}
		if strings.Contains(format, "%p") {
			c.r.Violation(c.pfx+"/ptr-format", c.key+":"+name+" %p", c.s.pos(call.Pos()), "address formatted into text")
		}
		if call.Ellipsis.IsValid() {
			return
		}
		for _, a := range call.Args[min(start, len(call.Args)):] {
			t := info.TypeOf(a)
			if t == nil {
				continue
			}
			if c12AddressLike(t) {
				c.r.Violation(c.pfx+"/ptr-format", c.key+":"+name+" operand "+types.ExprString(a), c.s.pos(a.Pos()), "operand of type "+t.String()+" prints as an address / in map order")
			}
		}
	}
}

// c12AddressLike: formatting a value of this type with %v prints an address.
// (fmt prints maps in sorted key order, so maps are fine.)
func c12AddressLike(t types.Type) bool {
	switch u := t.Underlying().(type) {
	case *types.Pointer:
		// fmt prints &{...} for pointer-to-struct at top level (deterministic),
		// but an address for pointer to anything else; types with a
		// String/Error method print through it.
		if hasStringer(t) {
			return false
		}
		if _, ok := u.Elem().Underlying().(*types.Struct); ok {
			return false
		}
		return true
	case *types.Signature, *types.Chan:
		return true
	case *types.Basic:
		return u.Kind() == types.UnsafePointer
	}
	return false
}

func hasStringer(t types.Type) bool {
	ms := types.NewMethodSet(t)
	for i := 0; i < ms.Len(); i++ {
		n := ms.At(i).Obj().Name()
		if n == "String" || n == "Error" || n == "Format" || n == "GoString" {
			return true
		}
	}
	return false
}

func firstUseIsSort(info *types.Info, stmts []ast.Stmt, obj types.Object) bool {
	for _, st := range stmts {
		if !usesObj(info, st, obj) {
			continue
		}
		es, ok := st.(*ast.ExprStmt)
		if !ok {
			return false
		}
		call, ok := es.X.(*ast.CallExpr)
		if !ok {
			return false
		}
		arg, ok := isSortCall(info, call)
		if !ok {
			return false
		}
		return identObj(info, arg) == obj
	}
	return false
}

// mapRange classifies one `for k, v := range m` statement.
func (c *c12ctx) mapRange(rs *ast.RangeStmt, after []ast.Stmt) {
	info := c.p.TypesInfo
	key := c.key + ":range " + types.ExprString(rs.X)
	pos := c.s.pos(rs.Pos())
	kObj := identObjDef(info, rs.Key)
	vObj := identObjDef(info, rs.Value)

	// I1 / I3: body is exactly `s = append(s, k|v)`
	if len(rs.Body.List) == 1 {
		if sl := appendOnly(info, rs.Body.List[0], kObj, vObj); sl != nil {
			if firstUseIsSort(info, after, sl) {
				c.r.OK(c.pfx+"/map-range", key, pos, "I1 collect-then-sort: body only appends the key/value to "+sl.Name()+", which is sorted before any other use")
				return
			}
			if c.errorOnlySink(sl, rs) {
				c.r.OK(c.pfx+"/map-range", key, pos, "I3 error-only sink: "+sl.Name()+" flows only into the error result")
				return
			}
			c.r.Violation(c.pfx+"/map-range", key, pos, "keys/values are collected into "+sl.Name()+" in map iteration order and used without sorting")
			return
		}
	}
	// I2: commutative keyed build
	locals := map[types.Object]bool{}
	if kObj != nil {
		locals[kObj] = true
	}
	if vObj != nil {
		locals[vObj] = true
	}
	if why := c.commutativeBody(rs.Body.List, kObj, locals); why == "" {
		c.r.OK(c.pfx+"/map-range", key, pos, "I2 commutative build: body only stores at the range key / deletes / assigns body-locals")
		return
	} else {
		c.r.Violation(c.pfx+"/map-range", key, pos, "order-sensitive loop body over a map: "+why)
	}
}

func identObjDef(info *types.Info, e ast.Expr) types.Object {
	if e == nil {
		return nil
	}
	id, ok := e.(*ast.Ident)
	if !ok || id.Name == "_" {
		return nil
	}
	if o := info.Defs[id]; o != nil {
		return o
	}
	return info.Uses[id]
}

// appendOnly matches `s = append(s, x)` with x the range key or value and
// returns s.
func appendOnly(info *types.Info, st ast.Stmt, k, v types.Object) types.Object {
	as, ok := st.(*ast.AssignStmt)
	if !ok || len(as.Lhs) != 1 || len(as.Rhs) != 1 || as.Tok != token.ASSIGN {
		return nil
	}
	call, ok := as.Rhs[0].(*ast.CallExpr)
	if !ok || len(call.Args) != 2 || call.Ellipsis.IsValid() {
		return nil
	}
	if id, ok := call.Fun.(*ast.Ident); !ok || id.Name != "append" {
		return nil
	} else if _, isB := info.Uses[id].(*types.Builtin); !isB {
		return nil
	}
	sl := identObj(info, as.Lhs[0])
	if sl == nil || identObj(info, call.Args[0]) != sl {
		return nil
	}
	x := identObj(info, call.Args[1])
	if x == nil || (x != k && x != v) {
		return nil
	}
	return sl
}

// errorOnlySink: every use of sl in the enclosing function other than the
// appending loop is an argument of fmt.Errorf/errors.New whose result is
// returned directly.
func (c *c12ctx) errorOnlySink(sl types.Object, loop *ast.RangeStmt) bool {
	info := c.p.TypesInfo
	ok := true
	uses := 0
	var visit func(n ast.Node, parents []ast.Node) bool
	var stack []ast.Node
	ast.Inspect(c.decl.Body, func(n ast.Node) bool {
		if n == nil {
			stack = stack[:len(stack)-1]
			return true
		}
		stack = append(stack, n)
		if n == ast.Node(loop) {
			// skip loop contents
			stack = stack[:len(stack)-1]
			return false
		}
		id, isId := n.(*ast.Ident)
		if !isId || info.Uses[id] != sl {
			return true
		}
		uses++
		// parent chain: Ident <- CallExpr(fmt.Errorf) <- ReturnStmt
		if len(stack) < 3 {
			ok = false
			return true
		}
		call, isCall := stack[len(stack)-2].(*ast.CallExpr)
		_, isRet := stack[len(stack)-3].(*ast.ReturnStmt)
		if !isCall || !isRet {
			ok = false
			return true
		}
		if nm := calleeName(info, call); nm != "fmt.Errorf" {
			ok = false
		}
		return true
	})
	_ = visit
	// declaration `var rs []string` is a Def, not a Use, so it is not counted
	return ok && uses > 0
}

// commutativeBody returns "" if the statements are order-insensitive under
// the I2 idiom, or a reason.
func (c *c12ctx) commutativeBody(list []ast.Stmt, k types.Object, locals map[types.Object]bool) string {
	info := c.p.TypesInfo
	pureExpr := func(e ast.Expr) string {
		bad := ""
		ast.Inspect(e, func(n ast.Node) bool {
			if call, ok := n.(*ast.CallExpr); ok {
				if tv, ok := info.Types[call.Fun]; ok && tv.IsType() {
					return true // conversion
				}
				nm := calleeName(info, call)
				if !c12PureCallees[nm] {
					bad = "call to " + nm + " (" + types.ExprString(call.Fun) + ") inside the loop is not known to be order-independent"
				}
			}
			if _, ok := n.(*ast.FuncLit); ok {
				bad = "function literal inside the loop"
			}
			return bad == ""
		})
		return bad
	}
	for _, st := range list {
		switch st := st.(type) {
		case *ast.DeclStmt:
			gd, ok := st.Decl.(*ast.GenDecl)
			if !ok || gd.Tok != token.VAR {
				return "declaration " + gd.Tok.String()
			}
			for _, sp := range gd.Specs {
				vs := sp.(*ast.ValueSpec)
				for _, n := range vs.Names {
					if o := info.Defs[n]; o != nil {
						locals[o] = true
					}
				}
				for _, v := range vs.Values {
					if why := pureExpr(v); why != "" {
						return why
					}
				}
			}
		case *ast.AssignStmt:
			for _, rhs := range st.Rhs {
				if why := pureExpr(rhs); why != "" {
					return why
				}
			}
			for _, lhs := range st.Lhs {
				lhs = ast.Unparen(lhs)
				if id, ok := lhs.(*ast.Ident); ok {
					if id.Name == "_" {
						continue
					}
					if st.Tok == token.DEFINE {
						if o := info.Defs[id]; o != nil {
							locals[o] = true
							continue
						}
					}
					o := identObj(info, id)
					if o != nil && o == k {
						return "the range key " + id.Name + " is reassigned inside the loop: stores indexed by it are no longer at distinct keys (two source keys can land in one slot, the survivor depends on map order)"
					}
					if o != nil && locals[o] {
						continue
					}
					return "assignment to outer variable " + id.Name + " (last iteration wins / accumulates in map order)"
				}
				if ix, ok := lhs.(*ast.IndexExpr); ok {
					if _, isMap := info.TypeOf(ix.X).Underlying().(*types.Map); isMap && k != nil && identObj(info, ix.Index) == k && st.Tok == token.ASSIGN {
						continue // m2[k] = ...: distinct keys, distinct cells
					}
					return "store to " + types.ExprString(lhs) + " is not indexed by the range key"
				}
				return "store to " + types.ExprString(lhs)
			}
		case *ast.ExprStmt:
			call, ok := st.X.(*ast.CallExpr)
			if !ok {
				return "expression statement"
			}
			if id, ok := call.Fun.(*ast.Ident); ok && id.Name == "delete" && len(call.Args) == 2 {
				if _, isB := info.Uses[id].(*types.Builtin); isB && k != nil && identObj(info, call.Args[1]) == k {
					continue
				}
			}
			if why := pureExpr(call); why != "" {
				return why
			}
		case *ast.IfStmt:
			if st.Init != nil {
				if why := c.commutativeBody([]ast.Stmt{st.Init}, k, locals); why != "" {
					return why
				}
			}
			if why := pureExpr(st.Cond); why != "" {
				return why
			}
			if why := c.commutativeBody(st.Body.List, k, locals); why != "" {
				return why
			}
			switch e := st.Else.(type) {
			case nil:
			case *ast.BlockStmt:
				if why := c.commutativeBody(e.List, k, locals); why != "" {
					return why
				}
			case *ast.IfStmt:
				if why := c.commutativeBody([]ast.Stmt{e}, k, locals); why != "" {
					return why
				}
			}
		case *ast.BranchStmt:
			if st.Tok == token.CONTINUE && st.Label == nil {
				continue
			}
			return st.Tok.String() + " makes the first key in map order special"
		case *ast.ReturnStmt:
			// I3': an error exit. Which key's error is reported depends on map
			// order, but no generated bytes depend on it (generation fails).
			if n := len(st.Results); n > 0 {
				last := st.Results[n-1]
				if t := info.TypeOf(last); t != nil && types.Identical(t, types.Universe.Lookup("error").Type()) {
					if id, ok := ast.Unparen(last).(*ast.Ident); !ok || id.Name != "nil" {
						if call, ok := ast.Unparen(last).(*ast.CallExpr); ok && calleeName(info, call) == "fmt.Errorf" {
							continue
						}
					}
				}
			}
			return "return inside the loop makes the first matching key in map order special"
		case *ast.SwitchStmt:
			if st.Init != nil {
				if why := c.commutativeBody([]ast.Stmt{st.Init}, k, locals); why != "" {
					return why
				}
			}
			if st.Tag != nil {
				if why := pureExpr(st.Tag); why != "" {
					return why
				}
			}
			for _, cc := range st.Body.List {
				cl := cc.(*ast.CaseClause)
				for _, e := range cl.List {
					if why := pureExpr(e); why != "" {
						return why
					}
				}
				if why := c.commutativeBody(cl.Body, k, locals); why != "" {
					return why
				}
			}
		case *ast.BlockStmt:
			if why := c.commutativeBody(st.List, k, locals); why != "" {
				return why
			}
		default:
			return fmt.Sprintf("statement %T not in the order-insensitive idiom set", st)
		}
	}
	return ""
}

var _ = ssa.InstantiateGenerics

func c12Witness(r *Report) {
	p, err := loadWitness("c12")
	if err != nil {
		r.Break("load witness c12: %v", err)
		return
	}
	scratch := NewReport("C12")
	ws := &S1{Fset: p.Fset}
	for _, f := range p.Syntax {
		for _, d := range f.Decls {
			if fd, ok := d.(*ast.FuncDecl); ok && fd.Body != nil {
				c := &c12ctx{pfx: "C12", r: scratch, s: ws, p: p, decl: fd, key: "witness." + fd.Name.Name}
				c.scanFunc()
			}
		}
	}
	compareWitness(r, "C12", scratch, witnessExpectations(p))
}
