// Package c20 holds positive and negative witnesses for the C20 rules.
package c20

import (
	"bytes"
	"net/http"
	"slices"
	"sort"
	"strings"
	"sync"
)

type API struct {
	Hits  int
	Cache map[string]string
	H     http.Handler
	Mws   []Mw
}

var counter int
var cache = map[string]string{}
var specBs = []byte("spec")
var lazy []byte
var LogError = func(err error) {}
var mu sync.Mutex

type Maybe struct {
	IsSet bool
	V     string
}

func (m *Maybe) Set(v string) { m.IsSet, m.V = true, v }

var sharedMaybe Maybe

func Counter() int { // want globals-read-only
	counter++
	return counter
}

func CacheWrite(k, v string) { cache[k] = v } // want globals-read-only

func LazyInit() []byte { // want globals-read-only
	if lazy == nil {
		lazy = []byte("x")
	}
	return lazy
}

func Scribble() { specBs[0] = 'x' } // want globals-read-only

func (rt *API) Count() { rt.Hits++ } // want receiver-read-only

func (rt *API) Memo(k, v string) { rt.Cache[k] = v } // want receiver-read-only

func Spawn(f func()) { go f() } // want no-hidden-sharing

func Locked() { // want no-hidden-sharing
	mu.Lock()
	defer mu.Unlock()
}

func SetShared() { sharedMaybe.Set("x") } // want no-hidden-sharing

func (rt *API) Serve(w http.ResponseWriter, r *http.Request) { // clean
	var m Maybe
	m.Set(r.URL.Path)
	if bytes.Equal(specBs, []byte(m.V)) {
		LogError(nil)
	}
	w.Write(specBs)
	rt.H.ServeHTTP(w, r)
}

type Mw func(http.Handler) http.Handler

type List [][]string

type Obj struct {
	Tags []string
	Next *Obj
}

func (rt *API) RevServe() { // want shared-data-read-only
	mws := rt.Mws
	slices.Reverse(mws)
	defer slices.Reverse(mws)
}

func (rt *API) Chain(h http.Handler) http.Handler { // clean
	for i := len(rt.Mws) - 1; i >= 0; i-- {
		h = rt.Mws[i](h)
	}
	return h
}

func chain(h http.Handler, ms ...Mw) http.Handler { // want shared-data-read-only
	slices.Reverse(ms)
	for _, m := range ms {
		h = m(h)
	}
	return h
}

func (rt *API) ChainVia(h http.Handler) http.Handler { return chain(h, rt.Mws...) } // clean

func (c List) FixNil() { // want shared-data-read-only
	for i := range c {
		if c[i] == nil {
			c[i] = []string{}
		}
	}
}

func (c List) FixNilCopy() int { // clean
	n := 0
	for _, cv := range c {
		if cv == nil {
			cv = []string{}
		}
		n += len(cv)
	}
	return n
}

func (c Obj) Normalise() []string { // clean
	if c.Tags == nil {
		c.Tags = []string{}
	}
	return c.Tags
}

func (c Obj) Scribble() { c.Tags[0] = "x" } // want shared-data-read-only

func (c Obj) Deep() { c.Next.Tags = nil } // want shared-data-read-only

func (c Obj) Sorted() { sort.Strings(c.Tags) } // want shared-data-read-only

func (c Obj) Grow() []string { return append(c.Tags, "x") } // want shared-data-read-only

func (c Obj) GrowCopy() []string { return append(c.Tags[:len(c.Tags):len(c.Tags)], "x") } // clean

func helperSort(ss []string) { sort.Strings(ss) } // want shared-data-read-only

func (c Obj) ViaHelper() { helperSort(c.Tags) } // clean

func (c Obj) Joined() string { return strings.Join(c.Tags, ",") } // clean

type Req struct{ Header map[string][]string }

type Client struct{ Header map[string][]string }

func (c *Client) Alias(r *Req) { r.Header = c.Header } // want shared-data-read-only

func (c *Client) Clone(r *Req) { // clean
	h := make(map[string][]string, len(c.Header))
	for k, v := range c.Header {
		h[k] = v
	}
	r.Header = h
}
