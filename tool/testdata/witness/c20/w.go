// Package c20 holds positive and negative witnesses for the C20 rules.
package c20

import (
	"bytes"
	"net/http"
	"sync"
)

type API struct {
	Hits  int
	Cache map[string]string
	H     http.Handler
}

var counter int
var cache = map[string]string{}
var specBs = []byte("spec")
var lazy []byte
var LogError = func(err error) {}
var mu sync.Mutex

type Maybe struct {
	IsSet bool
	V     string
}

func (m *Maybe) Set(v string) { m.IsSet, m.V = true, v }

var sharedMaybe Maybe

func Counter() int { // want globals-read-only
	counter++
	return counter
}

func CacheWrite(k, v string) { cache[k] = v } // want globals-read-only

func LazyInit() []byte { // want globals-read-only
	if lazy == nil {
		lazy = []byte("x")
	}
	return lazy
}

func Scribble() { specBs[0] = 'x' } // want globals-read-only

func (rt *API) Count() { rt.Hits++ } // want receiver-read-only

func (rt *API) Memo(k, v string) { rt.Cache[k] = v } // want receiver-read-only

func Spawn(f func()) { go f() } // want no-hidden-sharing

func Locked() { // want no-hidden-sharing
	mu.Lock()
	defer mu.Unlock()
}

func SetShared() { sharedMaybe.Set("x") } // want no-hidden-sharing

func (rt *API) Serve(w http.ResponseWriter, r *http.Request) { // clean
	var m Maybe
	m.Set(r.URL.Path)
	if bytes.Equal(specBs, []byte(m.V)) {
		LogError(nil)
	}
	w.Write(specBs)
	rt.H.ServeHTTP(w, r)
}
