module witness

go 1.20
