// Package c14 holds positive and negative witnesses for the C14 construct
// rules (expected count on a healthy tree: zero). Analysed on every run.
package c14

import (
	"bytes"
	"net/http"
	"regexp"
	"strings"
)

func AssertSingle(v any) string { // want no-panic-construct
	return v.(string)
}

func AssertOK(v any) string { // clean
	s, ok := v.(string)
	if !ok {
		return ""
	}
	return s
}

func Divide(a, b int) int { // want no-panic-construct
	return a / b
}

func DivideConst(a int) int { // clean
	return a / 4
}

func Explicit() { // want no-panic-construct
	panic("x")
}

func GrowContentLength(r *http.Request) *bytes.Buffer { // want no-panic-construct
	var b bytes.Buffer
	b.Grow(int(r.ContentLength))
	return &b
}

func GrowLen(s string) *bytes.Buffer { // clean
	var b bytes.Buffer
	b.Grow(len(s) + 2)
	return &b
}

func MakeFromHeader(n int) []string { // want no-panic-construct
	return make([]string, 0, n)
}

func MakeLenMinusOne(xs []int) []string { // want no-panic-construct
	return make([]string, 0, len(xs)-1)
}

func MakeLen(xs []int) []string { // clean
	return make([]string, len(xs), 2*len(xs))
}

func RepeatN(n int) string { // want no-panic-construct
	return strings.Repeat("x", n)
}

func CompileFromInput(p string) *regexp.Regexp { // want no-panic-construct
	return regexp.MustCompile(p)
}

func CompileConst() *regexp.Regexp { // clean
	return regexp.MustCompile("^a+$")
}

func ArrayPtr(b []byte) *[4]byte { // want no-panic-construct
	return (*[4]byte)(b)
}

func StoreNilMap(k string) map[string]int { // want map-store
	var m map[string]int
	m[k] = 1
	return m
}

func StoreMadeMap(k string) map[string]int { // clean
	m := make(map[string]int)
	m[k] = 1
	return m
}

func CallFromTable(t map[string]func(), k string) { // want dynamic-call
	t[k]()
}

type Hooks struct {
	OnMiss func() string
	Spec   interface{ String() string }
}

func (h *Hooks) CallUnguarded() string { // want no-panic-construct
	return h.OnMiss()
}

func (h *Hooks) CallGuarded() string { // clean
	if h.OnMiss != nil {
		return h.OnMiss()
	}
	return ""
}

func (h *Hooks) InvokeUnguarded() string { // want no-panic-construct
	return h.Spec.String()
}

func (h *Hooks) InvokeGuarded() string { // clean
	if h.Spec == nil {
		return ""
	}
	return h.Spec.String()
}

type parseErr struct {
	In  string
	Err error
}

func (e parseErr) Error() string { // want no-panic-construct
	return e.In + ": " + e.Err.Error()
}

func newParseErr(in string) error { return parseErr{In: in} }

type wrapped struct{ w interface{ String() string } }

func (x wrapped) Text() string { // clean
	return x.w.String()
}

func newWrapped(s interface{ String() string }) wrapped { return wrapped{w: s} }
