// Package c14 holds positive and negative witnesses for the C14 construct
// rules (expected count on a healthy tree: zero). Analysed on every run.
package c14

import (
	"bytes"
	"net/http"
	"regexp"
	"strings"
)

func AssertSingle(v any) string { // want no-panic-construct
	return v.(string)
}

func AssertOK(v any) string { // clean
	s, ok := v.(string)
	if !ok {
		return ""
	}
	return s
}

func Divide(a, b int) int { // want no-panic-construct
	return a / b
}

func DivideConst(a int) int { // clean
	return a / 4
}

func Explicit() { // want no-panic-construct
	panic("x")
}

func GrowContentLength(r *http.Request) *bytes.Buffer { // want no-panic-construct
	var b bytes.Buffer
	b.Grow(int(r.ContentLength))
	return &b
}

func GrowLen(s string) *bytes.Buffer { // clean
	var b bytes.Buffer
	b.Grow(len(s) + 2)
	return &b
}

func MakeFromHeader(n int) []string { // want no-panic-construct
	return make([]string, 0, n)
}

func MakeLenMinusOne(xs []int) []string { // want no-panic-construct
	return make([]string, 0, len(xs)-1)
}

func MakeLen(xs []int) []string { // clean
	return make([]string, len(xs), 2*len(xs))
}

func RepeatN(n int) string { // want no-panic-construct
	return strings.Repeat("x", n)
}

func CompileFromInput(p string) *regexp.Regexp { // want no-panic-construct
	return regexp.MustCompile(p)
}

func CompileConst() *regexp.Regexp { // clean
	return regexp.MustCompile("^a+$")
}

func ArrayPtr(b []byte) *[4]byte { // want no-panic-construct
	return (*[4]byte)(b)
}

func StoreNilMap(k string) map[string]int { // want map-store
	var m map[string]int
	m[k] = 1
	return m
}

func StoreMadeMap(k string) map[string]int { // clean
	m := make(map[string]int)
	m[k] = 1
	return m
}

func CallFromTable(t map[string]func(), k string) { // want dynamic-call
	t[k]()
}
