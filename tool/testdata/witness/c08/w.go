// Package c08 holds positive and negative witnesses for C08/fresh-element.
package c08

import "encoding/json"

type Item struct {
	ID  int
	Tag *string
}

func (c *Item) UnmarshalJSON(bs []byte) error { return nil }

type Items []Item

func Hoisted(m []json.RawMessage) (Items, error) { // want fresh-element
	var (
		err   error
		vItem Item
	)
	out := make(Items, 0, len(m))
	for _, vm := range m {
		err = vItem.UnmarshalJSON(vm)
		if err != nil {
			return nil, err
		}
		out = append(out, vItem)
	}
	return out, nil
}

func HoistedStd(m []json.RawMessage) ([]int, error) { // want fresh-element
	var v int
	var out []int
	for i := 0; i < len(m); i++ {
		if err := json.Unmarshal(m[i], &v); err != nil {
			return nil, err
		}
		out = append(out, v)
	}
	return out, nil
}

func HoistedMap(m map[string]json.RawMessage) (map[string]Item, error) { // want fresh-element
	var v Item
	out := map[string]Item{}
	for k, raw := range m {
		if err := json.Unmarshal(raw, &v); err != nil {
			return nil, err
		}
		out[k] = v
	}
	return out, nil
}

func Fresh(m []json.RawMessage) (Items, error) { // clean
	out := make(Items, 0, len(m))
	for _, vm := range m {
		var vItem Item
		err := vItem.UnmarshalJSON(vm)
		if err != nil {
			return nil, err
		}
		out = append(out, vItem)
	}
	return out, nil
}

func Reset(m []json.RawMessage) (Items, error) { // clean
	var vItem Item
	out := make(Items, 0, len(m))
	for _, vm := range m {
		vItem = Item{}
		if err := json.Unmarshal(vm, &vItem); err != nil {
			return nil, err
		}
		out = append(out, vItem)
	}
	return out, nil
}

func Probe(m []json.RawMessage) (int, error) { // clean
	// the target is not accumulated: only the last value is used
	var last Item
	n := 0
	for _, vm := range m {
		if err := json.Unmarshal(vm, &last); err != nil {
			return 0, err
		}
		n++
	}
	return n + last.ID, nil
}
