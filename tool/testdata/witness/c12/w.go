// Package c12 holds positive witnesses for the C12 rules whose expected
// count on a healthy tree is zero. Each function must be flagged on every
// run; otherwise the rule engine is broken.
package c12

import (
	"fmt"
	"math/rand"
	"os"
	"sort"
	"time"
)

func UnsortedCollect(m map[string]int) []string { // want map-range
	var out []string
	for k := range m {
		out = append(out, k)
	}
	return out
}

func SortedCollect(m map[string]int) []string { // clean (I1)
	var out []string
	for k := range m {
		out = append(out, k)
	}
	sort.Strings(out)
	return out
}

func FirstKey(m map[string]int) string { // want map-range
	for k := range m {
		return k
	}
	return ""
}

func BuildString(m map[string]string) string { // want map-range
	s := ""
	for k, v := range m {
		s += k + v
	}
	return s
}

func KeyedCopy(m map[string]string) map[string]string { // clean (I2)
	out := map[string]string{}
	for k, v := range m {
		if v == "" {
			continue
		}
		out[k] = v
	}
	return out
}

func Clock() string { return time.Now().String() } // want env

func Env() string { return os.Getenv("HOME") } // want env

func Rand() int { return rand.Int() } // want env

func Spawn(f func()) { go f() } // want concurrency

func Select(a, b chan int) int { // want concurrency
	select {
	case x := <-a:
		return x
	case x := <-b:
		return x
	}
}

func Ptr(x *int) string { return fmt.Sprintf("%v", x) } // want ptr-format

func Partition(m map[string]string) (a, b map[string]string, err error) { // clean (I2 + error exit)
	a, b = map[string]string{}, map[string]string{}
	for k, v := range m {
		switch v {
		case "a":
			a[k] = v
		case "b":
			b[k] = v
		default:
			return nil, nil, fmt.Errorf("unexpected %q", v)
		}
	}
	return a, b, nil
}

func FirstMatch(m map[string]string) (string, error) { // want map-range
	for k, v := range m {
		if v == "x" {
			return k, nil
		}
	}
	return "", nil
}
