#!/bin/sh
# Build the checker from files on disk only (offline).
set -eu
cd "$(dirname "$0")"
export GOFLAGS=-mod=mod GOPROXY=off GOSUMDB=off GOTOOLCHAIN=local GOWORK=off
mkdir -p bin evidence
cd tool && go build -o ../bin/verif ./cmd/verif
