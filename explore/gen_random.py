#!/usr/bin/env python3
"""Exploration tool (not a registered check): writes N random specs in goag's
dialect into a directory, to be analysed with
  VERIF_EXTRA_CORPUS=<dir> ./check.sh C01 quick   (or any S3 check)
Failures found this way are triaged by hand: genuine defects are repaired or
recorded, and the triggering spec is added to /verif/corpus."""
import json, os, random, sys

out, n, seed = sys.argv[1], int(sys.argv[2]), int(sys.argv[3])
rng = random.Random(seed)
PRIMS = [{"type": "string"}, {"type": "integer"}, {"type": "integer", "format": "int32"}, {"type": "integer", "format": "int64"},
         {"type": "number"}, {"type": "number", "format": "float"}, {"type": "boolean"}, {"type": "string", "format": "date-time"},
         {"type": "string", "format": "date"}]

def prim():
    return dict(rng.choice(PRIMS))

def schema(depth, comps):
    k = rng.random()
    if depth <= 0 or k < 0.35:
        s = prim()
    elif k < 0.5 and comps:
        return {"$ref": "#/components/schemas/" + rng.choice(comps)}
    elif k < 0.65:
        s = {"type": "array", "items": schema(depth - 1, comps)}
    elif k < 0.9:
        props = {}
        for i in range(rng.randint(1, 4)):
            props[rng.choice(["id", "name", "kind", "value", "tags", "meta", "created_at", "x-y", "a_b", "n1"]) + (str(i) if rng.random() < 0.3 else "")] = schema(depth - 1, comps)
        s = {"type": "object", "properties": props}
        req = [p for p in props if rng.random() < 0.5]
        if req:
            s["required"] = req
        if rng.random() < 0.2:
            s["additionalProperties"] = rng.choice([True, {"type": "string"}, {"type": "integer"}])
    else:
        s = {}
    if rng.random() < 0.15 and s.get("type") in ("string", "integer", "number", "boolean", "object", "array"):
        s["nullable"] = True
    if rng.random() < 0.1:
        s["description"] = rng.choice(["one line", "two\nlines", "with `tick` and \"quote\"", "trailing\n"])
    return s

def param(loc, i, comps):
    s = prim() if loc != "query" or rng.random() < 0.7 else {"type": "array", "items": prim()}
    if rng.random() < 0.25 and comps:
        prims = [c for c in comps if c.startswith("P")]
        if prims:
            s = {"$ref": "#/components/schemas/" + rng.choice(prims)}
    name = rng.choice(["page", "limit", "q", "since", "flag", "ratio", "X-Trace", "x-count", "user_id", "ID"]) + str(i)
    p = {"in": loc, "name": name, "schema": s}
    if loc == "path" or rng.random() < 0.4:
        p["required"] = True
    return p

for k in range(n):
    comps = {}
    names = []
    for i in range(rng.randint(0, 4)):
        nm = rng.choice(["Pet", "Order", "Item", "Tag", "User"]) + str(i)
        names.append(nm)
    for i in range(rng.randint(0, 2)):
        nm = "P" + rng.choice(["Name", "Count", "When"]) + str(i)
        comps[nm] = prim()
        names.append(nm)
    for nm in names:
        if nm not in comps:
            s = schema(2, [c for c in names if c != nm and rng.random() < 0.5])
            if "$ref" in s or s.get("type") not in ("object",):
                s = {"type": "object", "properties": {"v": s}}
            comps[nm] = s
    paths = {}
    for pi in range(rng.randint(1, 3)):
        segs = []
        pparams = []
        for d in range(rng.randint(1, 3)):
            if rng.random() < 0.35:
                pn = "p%d%d" % (pi, d)
                segs.append("{" + pn + "}")
                pparams.append({"in": "path", "name": pn, "required": True, "schema": rng.choice([{"type": "string"}, {"type": "integer"}, {"type": "integer", "format": "int64"}])})
            else:
                segs.append(rng.choice(["a", "b", "items", "v1"]) + str(pi))
        path = "/" + "/".join(segs) + ("/" if rng.random() < 0.15 else "")
        item = {}
        for m in rng.sample(["get", "post", "put", "delete", "patch"], rng.randint(1, 2)):
            params = list(pparams)
            for i in range(rng.randint(0, 3)):
                params.append(param(rng.choice(["query", "header"]), i, names))
            op = {"operationId": "op%d%s" % (pi, m), "parameters": params, "responses": {}}
            if m in ("post", "put", "patch") and rng.random() < 0.7:
                op["requestBody"] = {"content": {"application/json": {"schema": schema(2, names)}}}
            for st in rng.sample(["200", "201", "400", "404", "default"], rng.randint(1, 3)):
                resp = {"description": "r"}
                if rng.random() < 0.7:
                    resp["content"] = {"application/json": {"schema": schema(2, names)}}
                elif rng.random() < 0.3:
                    resp["content"] = {"text/plain": {"schema": {"type": "string"}}}
                if rng.random() < 0.3:
                    resp["headers"] = {"X-H%d" % i: ({"required": True, "schema": prim()} if rng.random() < 0.5 else {"schema": prim()}) for i in range(rng.randint(1, 2))}
                op["responses"][st] = resp
            item[m] = op
        paths[path] = item
    doc = {"openapi": "3.0.3", "info": {"title": "rnd%d" % k, "version": "1"}, "paths": paths}
    if comps:
        doc["components"] = {"schemas": comps}
    if rng.random() < 0.3:
        doc["servers"] = [{"url": rng.choice(["/api", "https://h/v1/", "/"])}]
    d = os.path.join(out, "rnd_%d_%03d" % (seed, k))
    os.makedirs(d, exist_ok=True)
    json.dump(doc, open(os.path.join(d, "openapi.yaml"), "w"), indent=1)
    json.dump({"expect": "any"}, open(os.path.join(d, "meta.json"), "w"))
